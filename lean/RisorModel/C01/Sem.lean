import RisorModel.C01.Ast
/-
C01 — Spec: the source-level meaning of a program, as a store-passing environment
interpreter over the AST (DESIGN.md C01 "Spec.Sem").  Lexical scoping with mutable cells,
heap references for lists, left-to-right evaluation, short-circuit `&&`/`||`, every loop
form with break/continue as control signals, functions with default arguments and implicit
return, print log, raised errors and error values (`error`, `try`), `defer`, pipes, set
literals, map literals with index / assignment / `in`, string index and slice by rune.
Total: recursion on explicit fuel; every theorem about it is stated for every fuel.
Core Lean only.

Errors.  A failing evaluation ends in `Sig.err cls` (an error raised by the runtime: only its
class is modelled, `errz`: "type", "eval", "args", "index", …; "panic" = a Go panic recovered at
the top of the run) or in `Sig.uerr msg` (an error raised by the script's own `error(msg)`:
class "error", message known).  `try` can catch every class except "eval", "args" (errz:
`IsFatal`) and "panic" (a Go panic passes through `builtins.Try` and is recovered only by
`vm.Run`).  A caught error becomes the VALUE `Val.err cls msg`.

Defer.  `defer f(args)` evaluates `f` and the arguments at the statement and records the call
in the running activation (`St.defers`, most recent first).  When the function's outcome is
known — a value or an error of any class — the recorded calls run most-recent-first; their
results are discarded; an error in one of them replaces the outcome (except that nothing
replaces a panic), and a PANIC inside a deferred call abandons the activation's remaining
deferred calls (Go: the `defer` closure of `vm.callFunction` that runs them is itself unwound).
-/
namespace Risor.C01

inductive Val where
  | nil
  | bool (b : Bool)
  | int (i : Int)
  | str (s : String)
  | list (ref : Nat)
  | fn (id : Nat)
  | builtin (name : String)
  | err (cls : String) (msg : Option String)   -- an error VALUE (not raised); `msg` is known for script-made errors
  | set (ref : Nat)        -- heap entry: the items, distinct, sorted by hash key (`Set.SortedItems`)
  | map (ref : Nat)        -- heap entry: key, value, key, value, … sorted by key (`Map.SortedKeys`)
  deriving Repr, DecidableEq, Inhabited

/-- `object.HashKey` of the hashable values the model knows: type name, int part, string part -/
abbrev HKey := String × Int × String

/-- the order of `Set.SortedItems`: type name, then int value, then string value -/
def keyLt (a b : HKey) : Bool :=
  if a.1 != b.1 then a.1 < b.1 else if a.2.1 != b.2.1 then a.2.1 < b.2.1 else a.2.2 < b.2.2

/-- insert `v` (hash key `k`) into a list sorted by hash key; an item with the same key is replaced -/
def insertByKey {α : Type} (key : α → Option HKey) (v : α) (k : HKey) : List α → List α
  | [] => [v]
  | x :: rest =>
    match key x with
    | some kx => if kx == k then v :: rest else if keyLt k kx then v :: x :: rest else x :: insertByKey key v k rest
    | none => x :: insertByKey key v k rest

/-- the items of a set literal; `none` when an item is not hashable -/
def mkSetItems {α : Type} (key : α → Option HKey) (vs : List α) : Option (List α) :=
  vs.foldlM (fun acc v => (key v).map (fun k => insertByKey key v k acc)) []

/-- lookup in a map entry list (key, value, key, value, …) -/
def mapGet {α : Type} (str? : α → Option String) (k : String) : List α → Option α
  | kx :: v :: rest => if str? kx == some k then some v else mapGet str? k rest
  | _ => none

/-- `Map.SetItem` on the sorted entry list -/
def mapSet {α : Type} (str? : α → Option String) (mk : String → α) (k : String) (v : α) : List α → List α
  | kx :: vx :: rest =>
    match str? kx with
    | some s => if s == k then kx :: v :: rest else if k < s then mk k :: v :: kx :: vx :: rest else kx :: vx :: mapSet str? mk k v rest
    | none => kx :: vx :: mapSet str? mk k v rest
  | _ => [mk k, v]

/-- entry list of a map literal: keys must be strings; later entries overwrite earlier ones -/
def mkMapItems {α : Type} (str? : α → Option String) (mk : String → α) : List α → List α → Option (List α)
  | kx :: v :: rest, acc =>
    match str? kx with
    | some k => mkMapItems str? mk rest (mapSet str? mk k v acc)
    | none => none
  | [], acc => some acc
  | _, _ => none

abbrev Env := List (String × Nat)

structure Closure where
  name : String
  params : List (String × Option Val)
  body : N
  env : Env
  deriving Inhabited

structure St where
  cells : Array Val := #[]
  heap : Array (List Val) := #[]
  funcs : Array Closure := #[]
  out : List String := []          -- printed lines, most recent first
  depth : Nat := 0                 -- active function calls (the VM has 1024 frames, frame 0 is the main code)
  steps : Nat := 20000           -- remaining budget of loop iterations and calls (0 = give up: `oof`)
  defers : List (Val × List Val) := []   -- deferred calls of the running activation, most recent first
  deriving Inhabited

/-- outcome of evaluating a node -/
inductive Sig where
  | val (v : Val)          -- an expression (statement) produced a value
  | unit                   -- a non-expression statement completed
  | brk | cont
  | ret (v : Val)
  | err (cls : String)     -- error class (errz: type/eval/args/...; "panic" = recovered Go panic)
  | uerr (msg : String)    -- raised by the script: `error(msg)` (class "error", message known)
  | oof                    -- out of fuel
  | unsupported (what : String)
  deriving Repr, Inhabited

/-- class and (when known) message of a raised error -/
def Sig.errInfo : Sig → Option (String × Option String)
  | .err c => some (c, none)
  | .uerr m => some ("error", some m)
  | _ => none

/-- raise an error value again (`error(e)`) -/
def raiseOf (cls : String) (msg : Option String) : Sig :=
  match msg with
  | some m => if cls == "error" then .uerr m else .err cls
  | none => .err cls

/-- classes `try` cannot catch: errz fatal errors (eval, args) and recovered Go panics -/
def uncatchable (cls : String) : Bool := cls == "eval" || cls == "args" || cls == "panic"

def wrap64 (x : Int) : Int := (x + 9223372036854775808) % 18446744073709551616 - 9223372036854775808

def Val.truthy (st : St) : Val → Bool
  | .nil => false
  | .bool b => b
  | .int i => i != 0
  | .str s => s != ""
  | .list r | .set r | .map r => !(st.heap.getD r []).isEmpty
  | .fn _ => true
  | .builtin _ => true
  | .err _ _ => true

def lookup (env : Env) (x : String) : Option Nat :=
  match env with
  | [] => none
  | (y, c) :: rest => if x == y then some c else lookup rest x

def hashKey : Val → Option HKey
  | .nil => some ("nil", 0, "")
  | .bool b => some ("bool", if b then 1 else 0, "")
  | .int i => some ("int", i, "")
  | .str s => some ("string", 0, s)
  | _ => none

def Val.str? : Val → Option String
  | .str s => some s
  | _ => none

def builtinNames : List String := ["len", "print", "error", "try"]

/-- structural equality as `object.Equals` (lists element-wise; fuel bounds nesting) -/
def valEq (st : St) : Nat → Val → Val → Bool
  | _, .nil, .nil => true
  | _, .bool a, .bool b => a == b
  | _, .int a, .int b => a == b
  | _, .str a, .str b => a == b
  | _, .fn a, .fn b => a == b
  | _, .builtin a, .builtin b => a == b
  | _, .err _ a, .err _ b => a == b          -- `Error.Equals`: same message (both unraised); see `msgUnknown`
  | 0, .list a, .list b => a == b
  | f + 1, .list a, .list b =>
    let la := st.heap.getD a []
    let lb := st.heap.getD b []
    la.length == lb.length && (la.zip lb).all (fun (x, y) => valEq st f x y)
  -- sets and maps are kept sorted, so equal contents are equal entry lists
  | 0, .set a, .set b => a == b
  | f + 1, .set a, .set b =>
    let la := st.heap.getD a []
    let lb := st.heap.getD b []
    la.length == lb.length && (la.zip lb).all (fun (x, y) => valEq st f x y)
  | 0, .map a, .map b => a == b
  | f + 1, .map a, .map b =>
    let la := st.heap.getD a []
    let lb := st.heap.getD b []
    la.length == lb.length && (la.zip lb).all (fun (x, y) => valEq st f x y)
  | _, _, _ => false

/-- `k: v` pairs of a map entry list, already rendered -/
def pairUp : List String → List String
  | k :: v :: rest => (k ++ ": " ++ v) :: pairUp rest
  | _ => []

def inspect (st : St) : Nat → Val → String
  | _, .nil => "nil"
  | _, .bool b => if b then "true" else "false"
  | _, .int i => toString i
  | _, .str s => "\"" ++ s ++ "\""
  | 0, .list _ => "[...]"
  | f + 1, .list r => "[" ++ ", ".intercalate ((st.heap.getD r []).map (inspect st f)) ++ "]"
  | _, .fn _ => "func()"
  | _, .builtin n => "builtin(" ++ n ++ ")"
  | _, .err _ (some m) => "error(\"" ++ m ++ "\")"
  | _, .err _ none => "error(?)"
  | 0, .set _ | 0, .map _ => "{...}"
  | f + 1, .set r => "{" ++ ", ".intercalate ((st.heap.getD r []).map (inspect st f)) ++ "}"
  | f + 1, .map r => "{" ++ ", ".intercalate (pairUp ((st.heap.getD r []).map (inspect st f))) ++ "}"

/-- text a value contributes to a template string / to print -/
def display (st : St) (v : Val) : String :=
  match v with
  | .str s => s
  | .err _ (some m) => m
  | v => inspect st 8 v

/-- the value's text is outside the model: it contains an error made by the runtime, whose message
    is not modelled (only the class is), or a function / builtin (whose text is the source) -/
def textUnknown (st : St) : Nat → Val → Bool
  | _, .err _ none => true
  | _, .fn _ => true
  | _, .builtin _ => true
  | 0, .list _ | 0, .set _ | 0, .map _ => true
  | f + 1, .list r | f + 1, .set r | f + 1, .map r => (st.heap.getD r []).any (textUnknown st f)
  | _, _ => false

def cmpInt (a b : Int) : Int := if a == b then 0 else if a > b then 1 else -1

/-- an error value whose message the model does not know (equality of errors compares messages) -/
def msgUnknown : Val → Bool
  | .err _ none => true
  | _ => false

/-- `object.BinaryOp` / `object.Compare` on the modelled types -/
def binop (st : St) (op : BinOp) (a b : Val) : Sig × St :=
  match op with
  | .eq => if msgUnknown a || msgUnknown b then (.unsupported "equality of runtime-made errors", st) else (.val (.bool (valEq st 8 a b)), st)
  | .ne => if msgUnknown a || msgUnknown b then (.unsupported "equality of runtime-made errors", st) else (.val (.bool (!valEq st 8 a b)), st)
  | .and => (.val (if a.truthy st then b else a), st)
  | .or => (.val (if a.truthy st then a else b), st)
  | _ =>
    match a, b with
    | .int x, .int y =>
      match op with
      | .add => (.val (.int (wrap64 (x + y))), st)
      | .sub => (.val (.int (wrap64 (x - y))), st)
      | .mul => (.val (.int (wrap64 (x * y))), st)
      | .div => if y == 0 then (.err "panic", st) else (.val (.int (wrap64 (Int.tdiv x y))), st)
      | .mod => if y == 0 then (.err "panic", st) else (.val (.int (wrap64 (Int.tmod x y))), st)
      | .lt => (.val (.bool (x < y)), st)
      | .le => (.val (.bool (x ≤ y)), st)
      | .gt => (.val (.bool (x > y)), st)
      | .ge => (.val (.bool (x ≥ y)), st)
      | .bitand => (.unsupported "bitand", st)
      | _ => (.unsupported "int operator", st)
    | .str x, .str y =>
      match op with
      | .add => (.val (.str (x ++ y)), st)
      | .lt => (.val (.bool (x < y)), st)
      | .le => (.val (.bool (x ≤ y)), st)
      | .gt => (.val (.bool (x > y)), st)
      | .ge => (.val (.bool (x ≥ y)), st)
      | _ => (.err "type", st)
    | .bool x, .bool y =>
      -- `object.Bool.Compare`: false < true
      match op with
      | .lt => (.val (.bool (!x && y)), st)
      | .le => (.val (.bool (!x || y)), st)
      | .gt => (.val (.bool (x && !y)), st)
      | .ge => (.val (.bool (x || !y)), st)
      | _ => (.err "type", st)
    | .nil, .nil =>
      -- `object.NilType.Compare`: nil compares equal to nil
      match op with
      | .lt | .gt => (.val (.bool false), st)
      | .le | .ge => (.val (.bool true), st)
      | _ => (.err "type", st)
    | .list x, .list y =>
      match op with
      | .add =>
        let l := st.heap.getD x [] ++ st.heap.getD y []
        (.val (.list st.heap.size), { st with heap := st.heap.push l })
      | _ => (.unsupported "list operator", st)
    | _, _ => (.err "type", st)

/-- `object.ResolveIndex` -/
def resolveIndex (idx size : Int) : Option Int :=
  if idx > size - 1 then none
  else if idx ≥ 0 then some idx
  else
    let r := idx + size
    if r < 0 || r > size - 1 then none else some r

/-- `object.ResolveIntSlice` on int/absent bounds -/
def resolveSlice (lo hi : Option Int) (size : Int) : Option (Int × Int) :=
  let start := lo.getD 0
  let stop := hi.getD size
  let start? := if start < 0 then (if size + start < 0 then none else some (size + start)) else some start
  match start? with
  | none => none
  | some start =>
    let stop? := if stop < 0 then (if size + stop < 0 then none else some (size + stop)) else some stop
    match stop? with
    | none => none
    | some stop =>
      if start > stop then none
      else if start > size - 1 then none
      else if stop > size then none
      else some (start, stop)

/-- what `try` calls: functions and builtins (`*object.Function`, `object.Callable`) -/
def callable : Val → Bool
  | .fn _ | .builtin _ => true
  | _ => false

/-- the arguments `try` passes to a callable argument: the last caught error (if any) — to a
    function only if it declares at least one parameter, to a builtin always -/
def tryCallArgs (st : St) (a : Val) (last : Option Val) : List Val :=
  match a with
  | .fn id =>
    match st.funcs[id]? with
    | some clo => if clo.params.length > 0 then last.toList else []
    | none => []
  | _ => last.toList

/-- `x in c` (`Container.Contains`); `none` = a container the model does not cover -/
def containsVal (st : St) (c x : Val) : Option Bool :=
  match c with
  | .list r => some ((st.heap.getD r []).any (fun y => valEq st 8 y x))
  | .set r =>
    match hashKey x with
    | some k => some ((st.heap.getD r []).any (fun y => hashKey y == some k))
    | none => if (match x with | .list _ | .set _ | .map _ | .fn _ | .builtin _ => true | _ => false) then some false else none
  | .map r =>
    match x with
    | .str k => some ((mapGet Val.str? k (st.heap.getD r [])).isSome)
    | _ => some false
  | _ => none

/-- `obj[idx]` (`Container.GetItem`): lists and strings by int (strings by rune, the result is a
    one-rune string), maps by string key; a missing key / an index out of range is a catchable error -/
def getItem (st : St) (obj idx : Val) : Sig :=
  match obj, idx with
  | .list r, .int k =>
    let l := st.heap.getD r []
    match resolveIndex k l.length with
    | some j => .val (l.getD j.toNat .nil)
    | none => .err "index"
  | .list _, _ => .err "type"
  | .str s, .int k =>
    let cs := s.toList
    match resolveIndex k cs.length with
    | some j => .val (.str (String.ofList [cs.getD j.toNat ' ']))
    | none => .err "index"
  | .str _, _ => .err "type"
  | .map r, .str k =>
    match mapGet Val.str? k (st.heap.getD r []) with
    | some v => .val v
    | none => .err "index"
  | .map _, _ => .err "type"
  | _, _ => .unsupported "index on this type"

/-- `obj[idx] = nv` (`Container.SetItem`) -/
def setItem (st : St) (obj idx nv : Val) : Sig × St :=
  match obj, idx with
  | .list r, .int k =>
    let l := st.heap.getD r []
    match resolveIndex k l.length with
    | some j => (.unit, { st with heap := st.heap.setIfInBounds r (l.set j.toNat nv) })
    | none => (.err "index", st)
  | .list _, _ => (.err "type", st)
  | .map r, .str k => (.unit, { st with heap := st.heap.setIfInBounds r (mapSet Val.str? Val.str k nv (st.heap.getD r [])) })
  | .map _, _ => (.err "type", st)
  | .str _, _ => (.err "type", st)
  | _, _ => (.unsupported "item assignment on this type", st)

def alloc (st : St) (v : Val) : Nat × St := (st.cells.size, { st with cells := st.cells.push v })

def applyAssign (st : St) (op : AssignOp) (cur v : Val) : Sig × St :=
  match op with
  | .set => (.val v, st)
  | .add => binop st .add cur v
  | .sub => binop st .sub cur v
  | .mul => binop st .mul cur v
  | .div => binop st .div cur v

mutual

/-- expressions: result signal and state -/
def evalE : Nat → N → Env → St → Sig × St
  | 0, _, _, st => (.oof, st)
  | f + 1, e, env, st =>
    match e with
    | .nilLit => (.val .nil, st)
    | .none_ => (.val .nil, st)
    | .int i => (.val (.int i), st)
    | .bool b => (.val (.bool b), st)
    | .str s => (.val (.str s), st)
    | .id x =>
      match lookup env x with
      | some c => (.val (st.cells.getD c .nil), st)
      | none => if builtinNames.contains x then (.val (.builtin x), st) else (.err "compile", st)
    | .infix .and l r =>
      match evalE f l env st with
      | (.val a, st) =>
        if a.truthy st then
          match evalE f r env st with
          | (.val b, st) => (.val b, st)
          | other => other
        else (.val a, st)
      | other => other
    | .infix .or l r =>
      match evalE f l env st with
      | (.val a, st) =>
        if a.truthy st then (.val a, st)
        else
          match evalE f r env st with
          | (.val b, st) => (.val b, st)
          | other => other
      | other => other
    | .infix op l r =>
      match evalE f l env st with
      | (.val a, st) =>
        match evalE f r env st with
        | (.val b, st) => binop st op a b
        | other => other
      | other => other
    | .neg e =>
      match evalE f e env st with
      | (.val (.int i), st) => (.val (.int (wrap64 (-i))), st)
      | (.val _, st) => (.err "type", st)
      | other => other
    | .not e =>
      match evalE f e env st with
      | (.val v, st) => (.val (.bool (!v.truthy st)), st)
      | other => other
    | .tern c a b =>
      match evalE f c env st with
      | (.val v, st) => if v.truthy st then evalE f a env st else evalE f b env st
      | other => other
    | .in_ x c =>
      match evalE f x env st with
      | (.val xv, st) =>
        match evalE f c env st with
        | (.val cv, st) =>
          match containsVal st cv xv with
          | some b => (.val (.bool b), st)
          | none => (.unsupported "in on this type", st)
        | other => other
      | other => other
    | .notin x c =>
      match evalE f x env st with
      | (.val xv, st) =>
        match evalE f c env st with
        | (.val cv, st) =>
          match containsVal st cv xv with
          | some b => (.val (.bool (!b)), st)
          | none => (.unsupported "not in on this type", st)
        | other => other
      | other => other
    | .call fe args =>
      match evalE f fe env st with
      | (.val fv, st) =>
        match evalArgs f args env st with
        | (.ok vs, st) => callVal f fv vs st
        | (.error s, st) => (s, st)
      | other => other
    | .mcall obj name args =>
      match evalE f obj env st with
      | (.val (.list r), st) =>
        match evalArgs f args env st with
        | (.ok vs, st) =>
          if name == "append" then
            match vs with
            | [v] => (.val (.list r), { st with heap := st.heap.setIfInBounds r (st.heap.getD r [] ++ [v]) })
            | _ => (.err "args", st)
          else (.unsupported ("method " ++ name), st)
        | (.error s, st) => (s, st)
      | (.val _, st) => (.unsupported "method call on a non-list", st)
      | other => other
    | .index e i =>
      match evalE f e env st with
      | (.val ov, st) =>
        match evalE f i env st with
        | (.val iv, st) => (getItem st ov iv, st)
        | other => other
      | other => other
    | .slice e lo hi =>
      let bound (b : N) (st : St) : Except Sig (Option Int) × St :=
        match b with
        | .none_ => (.ok none, st)
        | b =>
          match evalE f b env st with
          | (.val (.int k), st) => (.ok (some k), st)
          | (.val _, st) => (.error (.err "type"), st)
          | (s, st) => (.error s, st)
      match evalE f e env st with
      | (.val (.str s), st) =>
        -- `String.GetSlice`: by rune
        match bound lo st with
        | (.ok lo, st) =>
          match bound hi st with
          | (.ok hi, st) =>
            let cs := s.toList
            match resolveSlice lo hi cs.length with
            | some (a, b) => (.val (.str (String.ofList ((cs.drop a.toNat).take (b - a).toNat))), st)
            | none => (.err "index", st)
          | (.error s, st) => (s, st)
        | (.error s, st) => (s, st)
      | (.val (.list r), st) =>
        match bound lo st with
        | (.ok lo, st) =>
          match bound hi st with
          | (.ok hi, st) =>
            let l := st.heap.getD r []
            match resolveSlice lo hi l.length with
            | some (a, b) =>
              (.val (.list st.heap.size), { st with heap := st.heap.push ((l.drop a.toNat).take (b - a).toNat) })
            | none => (.err "index", st)
          | (.error s, st) => (s, st)
        | (.error s, st) => (s, st)
      | (.val _, st) => (.unsupported "slice of this type", st)
      | other => other
    | .list items =>
      match evalArgs f items env st with
      | (.ok vs, st) => (.val (.list st.heap.size), { st with heap := st.heap.push vs })
      | (.error s, st) => (s, st)
    | .set items =>
      match evalArgs f items env st with
      | (.ok vs, st) =>
        match mkSetItems hashKey vs with
        | some l => (.val (.set st.heap.size), { st with heap := st.heap.push l })
        | none => (.err "type", st)        -- an unhashable item (list, set, map, function, …)
      | (.error s, st) => (s, st)
    | .map entries =>
      -- key, value, key, value, … evaluated in the order written
      match evalArgs f entries env st with
      | (.ok vs, st) =>
        match mkMapItems Val.str? Val.str vs [] with
        | some l => (.val (.map st.heap.size), { st with heap := st.heap.push l })
        | none => (.unsupported "map key that is not a string", st)
      | (.error s, st) => (s, st)
    | .tmpl parts =>
      match evalArgs f parts env st with
      | (.ok vs, st) =>
        if vs.any (textUnknown st 8) then (.unsupported "text of a runtime-made error or of a function", st)
        else (.val (.str (String.join (vs.map (display st)))), st)
      | (.error s, st) => (s, st)
    | .func name params body =>
      -- anonymous function value (named ones are handled as statements by `execS`)
      match evalParams f params env st with
      | (.ok ps, st) =>
        (.val (.fn st.funcs.size), { st with funcs := st.funcs.push { name := name, params := ps, body := body, env := env } })
      | (.error s, st) => (s, st)
    | .pipe stages =>
      -- `a | f | g(1)`: the value of `a` becomes the FIRST argument of each following stage
      match stages with
      | .cons _ .nilL => (.err "compile", st)
      | .cons first rest =>
        match evalE f first env st with
        | (.val x, st) => evalPipe f x rest env st
        | other => other
      | _ => (.err "compile", st)
    | .if_ c t e =>
      match evalE f c env st with
      | (.val v, st) =>
        if v.truthy st then execBlock f t env st
        else
          match e with
          | .none_ => (.val .nil, st)
          | .block _ => execBlock f e env st
          | other => evalE f other env st
      | other => other
    | .switch subj cases =>
      match evalE f subj env st with
      | (.val sv, st) => evalCases f sv cases cases env st
      | other => other
    | .block _ => execBlock f e env st
    | _ => (.unsupported "expression form", st)

/-- argument / item / template-part lists, left to right -/
def evalArgs : Nat → N → Env → St → Except Sig (List Val) × St
  | 0, _, _, st => (.error .oof, st)
  | f + 1, items, env, st =>
    match items with
    | .cons h t =>
      match evalE f h env st with
      | (.val v, st) =>
        match evalArgs f t env st with
        | (.ok vs, st) => (.ok (v :: vs), st)
        | other => other
      | (s, st) => (.error s, st)
    | _ => (.ok [], st)

/-- the stages of a pipe after the first: `x | f(a, b)` calls `f(x, a, b)` (callee, then the
    written arguments, evaluated left to right, then the call); `x | e` for any other expression
    calls the value of `e` with `x` -/
def evalPipe : Nat → Val → N → Env → St → Sig × St
  | 0, _, _, _, st => (.oof, st)
  | f + 1, x, stages, env, st =>
    match stages with
    | .cons (.call fe args) rest =>
      match evalE f fe env st with
      | (.val fv, st) =>
        match evalArgs f args env st with
        | (.ok vs, st) =>
          match callVal f fv (x :: vs) st with
          | (.val y, st) => evalPipe f y rest env st
          | other => other
        | (.error s, st) => (s, st)
      | other => other
    | .cons (.mcall _ _ _) _ => (.unsupported "method call as a pipe stage", st)
    | .cons (.pipe _) _ => (.err "compile", st)
    | .cons e rest =>
      match evalE f e env st with
      | (.val fv, st) =>
        match callVal f fv [x] st with
        | (.val y, st) => evalPipe f y rest env st
        | other => other
      | other => other
    | _ => (.val x, st)

def evalParams : Nat → N → Env → St → Except Sig (List (String × Option Val)) × St
  | 0, _, _, st => (.error .oof, st)
  | f + 1, ps, env, st =>
    match ps with
    | .cons (.param name d) t =>
      let dv : Except Sig (Option Val) × St :=
        match d with
        | .none_ => (.ok none, st)
        | d => match evalE f d env st with
          | (.val v, st) => (.ok (some v), st)
          | (s, st) => (.error s, st)
      match dv with
      | (.ok dv, st) =>
        match evalParams f t env st with
        | (.ok rest, st) => (.ok ((name, dv) :: rest), st)
        | other => other
      | (.error s, st) => (.error s, st)
    | _ => (.ok [], st)

/-- switch: cases in order, first case value equal to the subject wins; `all` is kept to find the default -/
def evalCases : Nat → Val → N → N → Env → St → Sig × St
  | 0, _, _, _, _, st => (.oof, st)
  | f + 1, sv, cases, all, env, st =>
    match cases with
    | .cons (.case_ vals body) rest =>
      match matchVals f sv vals env st with
      | (.ok true, st) => execBlock f body env st
      | (.ok false, st) => evalCases f sv rest all env st
      | (.error s, st) => (s, st)
    | .cons (.default_ _) rest => evalCases f sv rest all env st
    | _ =>
      match all.toList.find? (fun c => match c with | .default_ _ => true | _ => false) with
      | some (.default_ body) => execBlock f body env st
      | _ => (.val .nil, st)

def matchVals : Nat → Val → N → Env → St → Except Sig Bool × St
  | 0, _, _, _, st => (.error .oof, st)
  | f + 1, sv, vals, env, st =>
    match vals with
    | .cons h t =>
      match evalE f h env st with
      | (.val v, st) => if valEq st 8 sv v then (.ok true, st) else matchVals f sv t env st
      | (s, st) => (.error s, st)
    | _ => (.ok false, st)

/-- a block in a fresh scope: value of its last statement if that is an expression, else nil -/
def execBlock : Nat → N → Env → St → Sig × St
  | 0, _, _, st => (.oof, st)
  | f + 1, b, env, st =>
    match b with
    | .block stmts =>
      match execStmts f stmts env st with
      | (.unit, _, st) => (.val .nil, st)
      | (s, _, st) => (s, st)
    | _ => (.unsupported "block expected", st)

/-- statement list: threads the environment; result is the last statement's signal -/
def execStmts : Nat → N → Env → St → Sig × Env × St
  | 0, _, env, st => (.oof, env, st)
  | f + 1, stmts, env, st =>
    match stmts with
    | .cons h .nilL => execS f h env st
    | .cons h t =>
      match execS f h env st with
      | (.val _, env, st) => execStmts f t env st
      | (.unit, env, st) => execStmts f t env st
      | other => other
    | _ => (.unit, env, st)

/-- one statement -/
def execS : Nat → N → Env → St → Sig × Env × St
  | 0, _, env, st => (.oof, env, st)
  | f + 1, s, env, st =>
    match s with
    | .var x e | .const x e =>
      match evalE f e env st with
      | (.val v, st) => let (c, st) := alloc st v; (.unit, (x, c) :: env, st)
      | (sg, st) => (sg, env, st)
    | .assign x op e =>
      match lookup env x with
      | none => (.err "compile", env, st)
      | some c =>
        let cur := st.cells.getD c .nil
        match evalE f e env st with
        | (.val v, st) =>
          match applyAssign st op cur v with
          | (.val r, st) => (.unit, env, { st with cells := st.cells.setIfInBounds c r })
          | (sg, st) => (sg, env, st)
        | (sg, st) => (sg, env, st)
    | .postfix x inc =>
      match lookup env x with
      | none => (.err "compile", env, st)
      | some c =>
        match binop st .add (st.cells.getD c .nil) (.int (if inc then 1 else -1)) with
        | (.val r, st) => (.unit, env, { st with cells := st.cells.setIfInBounds c r })
        | (sg, st) => (sg, env, st)
    | .setitem op obj i v =>
      if op == .set then
        -- plain assignment: right-hand side, then the target's container and index, then the store
        match evalE f v env st with
        | (.val rhs, st) =>
          match evalE f obj env st with
          | (.val ov, st) =>
            match evalE f i env st with
            | (.val iv, st) =>
              match setItem st ov iv rhs with
              | (sg, st) => (sg, env, st)
            | (sg, st) => (sg, env, st)
          | (sg, st) => (sg, env, st)
        | (sg, st) => (sg, env, st)
      else
        -- compound assignment `a[i] op= v`, left to right like `x op= v`: container, index (once),
        -- the current item, then the right-hand side, then the store
        match evalE f obj env st with
        | (.val ov, st) =>
          match evalE f i env st with
          | (.val iv, st) =>
            match getItem st ov iv with
            | .val cur =>
              match evalE f v env st with
              | (.val rhs, st) =>
                match applyAssign st op cur rhs with
                | (.val nv, st) =>
                  match setItem st ov iv nv with
                  | (sg, st) => (sg, env, st)
                | (sg, st) => (sg, env, st)
              | (sg, st) => (sg, env, st)
            | sg => (sg, env, st)
          | (sg, st) => (sg, env, st)
        | (sg, st) => (sg, env, st)
    | .multi names e =>
      match evalE f e env st with
      | (.val (.list r), st) =>
        let vs := st.heap.getD r []
        let ns := names.toList
        if vs.length != ns.length then (.err "error", env, st)
        else
          let (env, st) := (ns.zip vs).foldl (fun (acc : Env × St) (p : N × Val) =>
            match p.1 with
            | .id x => let (c, st) := alloc acc.2 p.2; ((x, c) :: acc.1, st)
            | _ => acc) (env, st)
          (.unit, env, st)
      | (.val _, st) => (.err "type", env, st)
      | (sg, st) => (sg, env, st)
    | .expr (.func name params body) =>
      if name == "" then
        match evalE f (.func name params body) env st with
        | (sg, st) => (sg, env, st)
      else
        -- named function: the name is bound first so that the body can refer to it
        let (c, st) := alloc st .nil
        let env' := (name, c) :: env
        match evalParams f params env st with
        | (.ok ps, st) =>
          let fv := Val.fn st.funcs.size
          let st := { st with funcs := st.funcs.push { name := name, params := ps, body := body, env := env' } }
          (.unit, env', { st with cells := st.cells.setIfInBounds c fv })
        | (.error sg, st) => (sg, env, st)
    | .expr e =>
      match evalE f e env st with
      | (sg, st) => (sg, env, st)
    | .block _ =>
      match execBlock f s env st with
      | (sg, st) => (sg, env, st)
    | .defer_ (.call fe args) =>
      -- callee and arguments are evaluated now; the call is recorded in the running activation
      if st.depth == 0 then (.err "compile", env, st)      -- `defer` outside of a function
      else
        match evalE f fe env st with
        | (.val fv, st) =>
          match evalArgs f args env st with
          | (.ok vs, st) => (.unit, env, { st with defers := (fv, vs) :: st.defers })
          | (.error sg, st) => (sg, env, st)
        | (sg, st) => (sg, env, st)
    | .defer_ _ =>
      if st.depth == 0 then (.err "compile", env, st) else (.unsupported "deferred method call", env, st)
    | .break_ => (.brk, env, st)
    | .continue_ => (.cont, env, st)
    | .return_ e =>
      match e with
      | .none_ => (.ret .nil, env, st)
      | e =>
        match evalE f e env st with
        | (.val v, st) => (.ret v, env, st)
        | (sg, st) => (sg, env, st)
    | .for3 init cond post body =>
      match execS f init env st with
      | (.unit, env1, st) | (.val _, env1, st) =>
        match loop3 f cond post body env1 st with
        | (sg, st) => (sg, env, st)
      | other => other
    | .forcond c body =>
      match loop3 f c .none_ body env st with
      | (sg, st) => (sg, env, st)
    | .forever body =>
      match loop3 f .none_ .none_ body env st with
      | (sg, st) => (sg, env, st)
    | .forrange k v cont body =>
      match evalE f cont env st with
      | (.val cv, st) =>
        match loopIter f k v true cv 0 body env st with
        | (sg, st) => (sg, env, st)
      | (sg, st) => (sg, env, st)
    | .forin v cont body =>
      match evalE f cont env st with
      | (.val cv, st) =>
        match loopIter f "" v false cv 0 body env st with
        | (sg, st) => (sg, env, st)
      | (sg, st) => (sg, env, st)
    | _ => (.unsupported "statement form", env, st)

/-- `for init; cond; post { body }`, `for cond { body }`, `for { body }` -/
def loop3 : Nat → N → N → N → Env → St → Sig × St
  | 0, _, _, _, _, st => (.oof, st)
  | f + 1, cond, post, body, env, st =>
    if st.steps == 0 then (.oof, st) else
    let st := { st with steps := st.steps - 1 }
    let go (st : St) : Sig × St :=
      match execBlock f body env st with
      | (.brk, st) => (.unit, st)
      | (.val _, st) | (.cont, st) =>
        match post with
        | .none_ => loop3 f cond post body env st
        | post =>
          match execS f post env st with
          | (.unit, _, st) | (.val _, _, st) => loop3 f cond post body env st
          | (sg, _, st) => (sg, st)
      | other => other
    match cond with
    | .none_ => go st
    | cond =>
      match evalE f cond env st with
      | (.val v, st) => if v.truthy st then go st else (.unit, st)
      | other => other

/-- `for k, v := range c`, `for k := range c`, `for range c` (byRange) and `for v in c` over
    a list or an int, position `pos` -/
def loopIter : Nat → String → String → Bool → Val → Nat → N → Env → St → Sig × St
  | 0, _, _, _, _, _, _, _, st => (.oof, st)
  | f + 1, k, v, byRange, cv, pos, body, env, st =>
    if st.steps == 0 then (.oof, st) else
    let st := { st with steps := st.steps - 1 }
    let item : Option (Val × Val) :=
      match cv with
      | .list r => ((st.heap.getD r [])[pos]?).map (fun x => (Val.int pos, x))
      | .int n =>
        let a := if n < 0 then -n else n
        if (pos : Int) < a then some (Val.int pos, Val.int (if n < 0 then -(pos : Int) else pos)) else none
      | _ => none
    match cv with
    | .list _ | .int _ =>
      match item with
      | none => (.unit, st)
      | some (key, value) =>
        -- bind the loop names
        let (env1, st) :=
          if byRange then
            if k == "" then (env, st)
            else if v == "" then let (c, st) := alloc st key; ((k, c) :: env, st)
            else
              let (c1, st) := alloc st key
              let (c2, st) := alloc st value
              ((v, c2) :: (k, c1) :: env, st)
          else let (c, st) := alloc st value; ((v, c) :: env, st)
        match execBlock f body env1 st with
        | (.brk, st) => (.unit, st)
        | (.val _, st) | (.cont, st) => loopIter f k v byRange cv (pos + 1) body env st
        | other => other
    | _ => (.unsupported "iteration over this type", st)

/-- call a function value -/
def callVal : Nat → Val → List Val → St → Sig × St
  | 0, _, _, st => (.oof, st)
  | f + 1, fv, args, st =>
    if st.steps == 0 then (.oof, st) else
    let st := { st with steps := st.steps - 1 }
    match fv with
    | .builtin "len" =>
      match args with
      | [.str s] => (.val (.int s.length), st)
      | [.list r] => (.val (.int (st.heap.getD r []).length), st)
      | [.set r] => (.val (.int (st.heap.getD r []).length), st)
      | [.map r] => (.val (.int ((st.heap.getD r []).length / 2)), st)
      | [_] => (.err "type", st)
      | _ => (.err "args", st)
    | .builtin "print" =>
      if args.any (textUnknown st 8) then (.unsupported "text of a runtime-made error or of a function", st)
      else (.val .nil, { st with out := " ".intercalate (args.map (display st)) :: st.out })
    | .builtin "error" =>
      -- `builtins.Error`: raises; an error value is raised again as it is
      match args with
      | [] => (.err "args", st)
      | .err c m :: _ => (raiseOf c m, st)
      | [.str s] => if s.contains '%' then (.unsupported "error() with a format string", st) else (.uerr s, st)
      | .str _ :: _ => (.unsupported "error() with format arguments", st)
      | _ => (.err "type", st)
    | .builtin "try" =>
      if args.isEmpty || args.length > 64 then (.err "args", st) else tryArgs f args none st
    | .builtin n => (.unsupported ("builtin " ++ n), st)
    | .fn id =>
      match st.funcs[id]? with
      | none => (.err "eval", st)
      | some clo =>
        if args.length > clo.params.length then (.err "args", st)
        else if st.depth ≥ 200 then (.unsupported "recursion deeper than 200 calls", st)
          -- the VM gives up with a recovered panic once its 1024 frames or 1024 operand slots are
          -- used up; where exactly depends on the operands pending in each frame, which the
          -- reference semantics does not track, so it makes no claim about such programs
        else
          let saved := st.defers
          let st := { st with depth := st.depth + 1, defers := [] }
          -- leave the activation: run its deferred calls on the outcome, restore the caller's
          let leave (out : Sig) (st : St) : Sig × St :=
            match runDefers f st.defers out { st with defers := [] } with
            | (sg, st) => (sg, { st with depth := st.depth - 1, defers := saved })
          -- bind parameters: given arguments, then defaults
          let rec bind (ps : List (String × Option Val)) (as : List Val) (env : Env) (st : St) : Option (Env × St) :=
            match ps, as with
            | [], _ => some (env, st)
            | (p, _) :: ps, a :: as => let (c, st) := alloc st a; bind ps as ((p, c) :: env) st
            | (p, some d) :: ps, [] => let (c, st) := alloc st d; bind ps [] ((p, c) :: env) st
            | (_, none) :: _, [] => none
          match bind clo.params args clo.env st with
          | none => (.err "args", st)
          | some (env, st) =>
            match clo.body with
            | .block stmts =>
              match execStmts f stmts env st with
              | (.ret v, _, st) => leave (.val v) st
              | (.val v, _, st) => leave (.val v) st
              | (.unit, _, st) => leave (.val .nil) st
              | (.brk, _, st) | (.cont, _, st) => (.err "compile", st)
              | (.err c, _, st) => leave (.err c) st
              | (.uerr m, _, st) => leave (.uerr m) st
              | (sg, _, st) => (sg, { st with depth := st.depth - 1, defers := saved })
            | _ => (.unsupported "function body", st)
    | _ => (.err "type", st)

/-- the deferred calls of an activation, most recent first, run on its outcome `out` (a value or
    a raised error); the result is the activation's final outcome -/
def runDefers : Nat → List (Val × List Val) → Sig → St → Sig × St
  | 0, _, _, st => (.oof, st)
  | _ + 1, [], out, st => (out, st)
  | f + 1, (fv, args) :: rest, out, st =>
    match callVal f fv args st with
    | (.val _, st) => runDefers f rest out st          -- the result is discarded
    | (sg, st) =>
      match sg.errInfo with
      | some (cls, _) =>
        if cls == "panic" then (sg, st)                -- a Go panic in a deferred call: the rest is abandoned
        else if out.errInfo.map (·.1) == some "panic" then runDefers f rest out st   -- nothing replaces a panic
        else runDefers f rest sg st                    -- the error replaces the outcome
      | none => (sg, st)                               -- out of fuel / outside the model

/-- `builtins.Try`: the arguments in order; a function (or builtin) is called — with the last
    caught error if it declares a parameter (a builtin: always) —, any other value is the result;
    an error that `try` can catch makes it go on with the next argument; `nil` when none is left -/
def tryArgs : Nat → List Val → Option Val → St → Sig × St
  | 0, _, _, st => (.oof, st)
  | _ + 1, [], _, st => (.val .nil, st)
  | f + 1, a :: rest, last, st =>
    if callable a then
      match callVal f a (tryCallArgs st a last) st with
      | (.val v, st) => (.val v, st)
      | (sg, st) =>
        match sg.errInfo with
        | some (cls, msg) => if uncatchable cls then (sg, st) else tryArgs f rest (some (.err cls msg)) st
        | none => (sg, st)
    else (.val a, st)

end

/-- outcome of a whole program -/
structure Outcome where
  sig : Sig
  st : St

def runProg (fuel : Nat) (p : N) : Outcome :=
  match p with
  | .prog stmts =>
    match execStmts fuel stmts [] {} with
    | (.unit, _, st) => ⟨.val .nil, st⟩
    | (sg, _, st) => ⟨sg, st⟩
  | _ => ⟨.unsupported "program expected", {}⟩

end Risor.C01
