/-
C01 — abstract syntax of the risor core grammar, as one inductive type so that structural
induction is plain.  Sequences (statement lists, argument lists, list items, switch cases,
template parts) are `cons`/`nilL` chains inside the same type.  One constructor per `ast`
node the core grammar uses (ast/expressions.go, ast/statements.go, ast/literals.go),
including `defer`, pipes, set and map literals.
Core Lean only.
-/
namespace Risor.C01

inductive BinOp where
  | add | sub | mul | div | mod | pow | lshift | rshift | bitand
  | lt | le | gt | ge | eq | ne
  | and | or
  deriving Repr, DecidableEq, Inhabited

inductive AssignOp where
  | set | add | sub | mul | div
  deriving Repr, DecidableEq, Inhabited

inductive N where
  | nilLit | none_
  | int (i : Int) | bool (b : Bool) | str (s : String)
  | id (x : String)
  | infix (op : BinOp) (l r : N)
  | neg (e : N) | not (e : N)
  | tern (c a b : N)
  | in_ (x c : N) | notin (x c : N)
  | call (f args : N)
  | mcall (obj : N) (name : String) (args : N)
  | index (e i : N)
  | slice (e lo hi : N)
  | list (items : N)
  | set (items : N)                             -- `{a, b}`
  | map (entries : N)                           -- `{k: v, …}`: cons-list alternating key, value
  | pipe (stages : N)                           -- `a | f | g(1)`: cons-list of >= 2 expressions
  | tmpl (parts : N)
  | func (name : String) (params body : N)      -- params: cons-list of `param`
  | param (name : String) (dflt : N)
  | if_ (c t e : N)                             -- `e` is `none_` when there is no else
  | switch (subj cases : N)                     -- cases: cons-list of `case_` / `default_`
  | case_ (vals body : N)
  | default_ (body : N)
  -- statements
  | var (x : String) (e : N)
  | const (x : String) (e : N)
  | assign (x : String) (op : AssignOp) (e : N)
  | setitem (op : AssignOp) (obj i v : N)
  | multi (names : N) (e : N)                   -- names: cons-list of `id`
  | postfix (x : String) (inc : Bool)
  | for3 (init cond post body : N)
  | forcond (c body : N)
  | forever (body : N)
  | forrange (k v : String) (cont body : N)     -- "" = name absent
  | forin (v : String) (cont body : N)
  | break_ | continue_
  | return_ (e : N)                             -- `none_` = bare return
  | defer_ (call : N)                           -- `defer f(args)`: `call` is a `call` or `mcall` node
  | expr (e : N)
  | block (stmts : N)
  | prog (stmts : N)
  | cons (hd tl : N) | nilL
  deriving Repr, Inhabited

def N.toList : N → List N
  | .cons h t => h :: t.toList
  | _ => []

def N.ofList : List N → N
  | [] => .nilL
  | h :: t => .cons h (N.ofList t)

end Risor.C01
