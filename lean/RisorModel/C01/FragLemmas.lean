import RisorModel.C01.Frag
/-!
C01 fragment — helper lemmas for `FragProps.lean`: multi-step execution (`Steps`), the
position-independence predicate `CodeAt code pc fragment` (every risor jump is relative, so
a compiled fragment behaves the same wherever it sits), one simulation lemma per construct
(`sim_*`), and the generic loop lemma.  Core Lean only.
-/
namespace Risor.C01.Frag
open Risor.C01

/-! ### multi-step execution -/

inductive Steps (code : Code) : Cfg → Cfg → Prop where
  | refl (c : Cfg) : Steps code c c
  | cons {a b c : Cfg} : step code a = .ok b → Steps code b c → Steps code a c

theorem Steps.trans {code : Code} {a b c : Cfg} (h1 : Steps code a b) (h2 : Steps code b c) : Steps code a c := by
  induction h1 with
  | refl => exact h2
  | cons hs _ ih => exact .cons hs (ih h2)

theorem Steps.one {code : Code} {a b : Cfg} (h : step code a = .ok b) : Steps code a b := .cons h (.refl _)

theorem Steps.snoc {code : Code} {a b c : Cfg} (h1 : Steps code a b) (h : step code b = .ok c) : Steps code a c :=
  h1.trans (.one h)

theorem Steps.cast {code : Code} {a : Cfg} {p q : Nat} {s : List FVal} {σ : Store}
    (h : Steps code a ⟨p, s, σ⟩) (e : p = q) : Steps code a ⟨q, s, σ⟩ := e ▸ h

theorem Steps.castL {code : Code} {b : Cfg} {p q : Nat} {s : List FVal} {σ : Store}
    (h : Steps code ⟨p, s, σ⟩ b) (e : p = q) : Steps code ⟨q, s, σ⟩ b := e ▸ h

/-- the run reaches a configuration whose next step is the error `cls`, with store `σ'` -/
def Fails (code : Code) (c0 : Cfg) (cls : String) (σ' : Store) : Prop :=
  ∃ c1, Steps code c0 c1 ∧ c1.σ = σ' ∧ step code c1 = .error (.err cls)

theorem Fails.pre {code : Code} {a b : Cfg} {cls : String} {σ' : Store}
    (h : Steps code a b) (f : Fails code b cls σ') : Fails code a cls σ' := by
  obtain ⟨c1, h1, h2, h3⟩ := f
  exact ⟨c1, h.trans h1, h2, h3⟩

/-- outcome `r` with final store `σ'` is realised from `c0`: a value lands at `pcE` on top of
    `stk`, unit lands at `pcE` with `stk` itself, `break` / `continue` land on the enclosing
    loop's targets (`kb` / `kc` slots after `pcE`) with `stk` itself, an error is raised by the
    VM with the same class; nothing is claimed for out-of-fuel -/
def Lands (code : Code) (c0 : Cfg) (pcE kb kc : Nat) (stk : List FVal) (r : Out) (σ' : Store) : Prop :=
  match r with
  | .val v => Steps code c0 ⟨pcE, v :: stk, σ'⟩
  | .unit => Steps code c0 ⟨pcE, stk, σ'⟩
  | .brk => Steps code c0 ⟨pcE + kb, stk, σ'⟩
  | .cont => Steps code c0 ⟨pcE + kc, stk, σ'⟩
  | .err c => Fails code c0 c σ'
  | .oof => True

theorem Lands.pre {code : Code} {a b : Cfg} {pcE kb kc : Nat} {stk : List FVal} {r : Out} {σ' : Store}
    (h : Steps code a b) (l : Lands code b pcE kb kc stk r σ') : Lands code a pcE kb kc stk r σ' := by
  cases r with
  | val v => exact h.trans l
  | unit => exact h.trans l
  | brk => exact h.trans l
  | cont => exact h.trans l
  | err c => exact Fails.pre h l
  | oof => trivial

theorem Lands.cast {code : Code} {a : Cfg} {p q kb kc : Nat} {stk : List FVal} {r : Out} {σ' : Store}
    (l : Lands code a p kb kc stk r σ') (e : p = q) : Lands code a q kb kc stk r σ' := e ▸ l

/-- which nodes end with a value, which with `unit`, and which can be left by a break/continue -/
def Shape (n : N) (r : Out) : Prop :=
  match r with
  | .val _ => isUnitNode n = false
  | .unit => isUnitNode n = true
  | .brk => escapes n = true
  | .cont => escapes n = true
  | _ => True

/-- the simulation statement for one node at one place -/
def Post (code : Code) (kb kc : Nat) (n : N) (pc : Nat) (stk : List FVal) (σ : Store) (r : Out) (σ' : Store) : Prop :=
  Shape n r ∧ Lands code ⟨pc, stk, σ⟩ (pc + size n) kb kc stk r σ'

/-! ### `CodeAt code pc frag`: the fragment sits at slot offset `pc` of the enclosing code -/

def CodeAt (code : Code) (pc : Nat) (frag : Code) : Prop :=
  ∀ i, i < frag.length → code[pc + i]? = frag[i]?

theorem CodeAt.append_left {code : Code} {pc : Nat} {a b : Code} (h : CodeAt code pc (a ++ b)) : CodeAt code pc a := by
  intro i hi
  have := h i (by simp; omega)
  rw [this, List.getElem?_append_left hi]

theorem CodeAt.append_right {code : Code} {pc : Nat} {a b : Code} (h : CodeAt code pc (a ++ b)) :
    CodeAt code (pc + a.length) b := by
  intro i hi
  have := h (a.length + i) (by simp; omega)
  rw [← Nat.add_assoc] at this
  rw [this, List.getElem?_append_right (by omega)]
  simp

theorem CodeAt.head {code : Code} {pc : Nat} {x : Option FIns} {rest : Code} (h : CodeAt code pc (x :: rest)) :
    code[pc]? = some x := by
  have := h 0 (by simp)
  simpa using this

theorem CodeAt.cast {code : Code} {p q : Nat} {frag : Code} (h : CodeAt code p frag) (e : p = q) :
    CodeAt code q frag := e ▸ h

theorem CodeAt.self (code : Code) : CodeAt code 0 code := by
  intro i _
  simp

theorem at_eq {code : Code} {p q : Nat} {x : Option FIns} (h : code[p]? = some x) (e : p = q) :
    code[q]? = some x := e ▸ h

@[simp] theorem one_length (i : FIns) : (one i).length = 1 := rfl
@[simp] theorem two_length (i : FIns) : (two i).length = 2 := rfl

theorem CodeAt.one {code : Code} {pc : Nat} {i : FIns} (h : CodeAt code pc (one i)) : code[pc]? = some (some i) :=
  CodeAt.head h
theorem CodeAt.two {code : Code} {pc : Nat} {i : FIns} (h : CodeAt code pc (two i)) : code[pc]? = some (some i) :=
  CodeAt.head h

/-- executing the instruction found at `pc` -/
theorem step_of {code : Code} {pc : Nat} {i : FIns} (h : code[pc]? = some (some i)) (stk : List FVal) (σ : Store) :
    step code ⟨pc, stk, σ⟩ = execIns i ⟨pc, stk, σ⟩ := by
  have hlt : pc < code.length := by
    rcases Nat.lt_or_ge pc code.length with h1 | h1
    · exact h1
    · rw [List.getElem?_eq_none h1] at h; cases h
  have : ¬ (pc ≥ code.length) := by omega
  simp only [step, this, if_false, h]

/-! ### shallow class facts -/

theorem isE_not_unit {n : N} (h : isE n = true) : isUnitNode n = false := by
  cases n <;> simp_all [isE, isUnitNode]
theorem isBlock_not_unit {n : N} (h : isBlock n = true) : isUnitNode n = false := by
  cases n <;> simp_all [isBlock, isUnitNode]
theorem isElse_not_unit {n : N} (h : isElse n = true) : isUnitNode n = false := by
  cases n <;> simp_all [isElse, isUnitNode]
theorem isL_not_unit {n : N} (h : isL n = true) : isUnitNode n = false := by
  cases n <;> simp_all [isL, isUnitNode]
theorem isInit_unit {n : N} (h : isInit n = true) : isUnitNode n = true := by
  cases n <;> simp_all [isInit, isUnitNode]

/-! ### operators: the VM's numeric dispatch agrees with the source-level operator -/

theorem execIns_opIns (op : BinOp) (hok : opOK op = true) (hand : op ≠ .and) (hor : op ≠ .or)
    (a b : FVal) (s : List FVal) (pc : Nat) (σ : Store) :
    execIns (opIns op) ⟨pc, b :: a :: s, σ⟩ =
      (match binopF op a b with
       | .ok v => .ok ⟨pc + 2, v :: s, σ⟩
       | .error e => .error (.err e)) := by
  cases op <;> simp_all [opOK] <;> cases a <;> cases b <;>
    simp [opIns, execIns, binopF, vBinaryF, vCompareF] <;> split <;> simp_all

theorem vBinaryF_assign (op : AssignOp) (h : op ≠ .set) (cur v : FVal) :
    vBinaryF (assignK op) cur v = applyF op cur v := by
  cases op <;> simp_all <;> cases cur <;> cases v <;> simp [assignK, applyF, binopF, vBinaryF]

theorem vBinaryF_add (a b : FVal) : vBinaryF 1 a b = binopF .add a b := by
  cases a <;> cases b <;> simp [binopF, vBinaryF]

/-! ### sequencing helper of the reference semantics -/

theorem seqV_elim {x : Out × Store} {k : FVal → Store → Out × Store} {r : Out} {σ' : Store}
    (h : seqV x k = (r, σ')) :
    (∃ v σ1, x = (.val v, σ1) ∧ k v σ1 = (r, σ')) ∨ ((∀ v, r ≠ .val v) ∧ x = (r, σ')) := by
  obtain ⟨r1, σ1⟩ := x
  cases r1 with
  | val v => exact .inl ⟨v, σ1, rfl, h⟩
  | unit => simp only [seqV] at h; cases h; exact .inr ⟨(by intro v hv; cases hv), rfl⟩
  | brk => simp only [seqV] at h; cases h; exact .inr ⟨(by intro v hv; cases hv), rfl⟩
  | cont => simp only [seqV] at h; cases h; exact .inr ⟨(by intro v hv; cases hv), rfl⟩
  | err c => simp only [seqV] at h; cases h; exact .inr ⟨(by intro v hv; cases hv), rfl⟩
  | oof => simp only [seqV] at h; cases h; exact .inr ⟨(by intro v hv; cases hv), rfl⟩

/-- the induction hypothesis: sub-nodes evaluated through `rec` are simulated wherever their
    code sits -/
def IH (code : Code) (rec : N → Store → Out × Store) : Prop :=
  ∀ n, wf n = true → ∀ kb kc pc stk σ r σ', CodeAt code pc (comp kb kc n) → rec n σ = (r, σ') →
    Post code kb kc n pc stk σ r σ'

/-- a sub-evaluation (of an operand: no break/continue escapes it) that did not produce a value
    (error, out of fuel) is the result of the whole node -/
theorem Post.propagate {code : Code} {sub n : N} {pc1 pc0 kb1 kc1 kb kc : Nat} {stk1 stk0 : List FVal}
    {σ1 σ0 σ' : Store} {r : Out}
    (hpre : Steps code ⟨pc0, stk0, σ0⟩ ⟨pc1, stk1, σ1⟩)
    (h : Post code kb1 kc1 sub pc1 stk1 σ1 r σ') (hnv : ∀ v, r ≠ .val v) (hu : isUnitNode sub = false)
    (hx : escapes sub = false) :
    Post code kb kc n pc0 stk0 σ0 r σ' := by
  cases r with
  | val v => exact absurd rfl (hnv v)
  | unit => have := h.1; simp only [Shape] at this; rw [hu] at this; cases this
  | brk => have := h.1; simp only [Shape] at this; rw [hx] at this; cases this
  | cont => have := h.1; simp only [Shape] at this; rw [hx] at this; cases this
  | err c => exact ⟨trivial, Fails.pre hpre h.2⟩
  | oof => exact ⟨trivial, trivial⟩

theorem Post.val_steps {code : Code} {n : N} {pc kb kc : Nat} {stk : List FVal} {σ σ' : Store} {v : FVal}
    (h : Post code kb kc n pc stk σ (.val v) σ') : Steps code ⟨pc, stk, σ⟩ ⟨pc + size n, v :: stk, σ'⟩ := h.2

theorem Post.unit_steps {code : Code} {n : N} {pc kb kc : Nat} {stk : List FVal} {σ σ' : Store}
    (h : Post code kb kc n pc stk σ .unit σ') : Steps code ⟨pc, stk, σ⟩ ⟨pc + size n, stk, σ'⟩ := h.2

/-! ### the length of a node's code does not depend on where the loop targets are -/

theorem pre_length (h : N) : (pre h).length = preLen h := by
  unfold pre preLen
  cases postName h <;> rfl

/-- the seven list-shaped components of `comp_lengths` are trivial on a node that is neither a
    list nor a case -/
macro "len_rest" : tactic =>
  `(tactic| (refine ⟨?_, by intro k; simp [compVals, valsLen], by intro k; simp [compCmpCase, caseCmpLen],
      by intro b; simp [compCmp, cmpLen], by intro a; simp [compBody, caseBodyLen],
      by intro d; simp [compBodies, bodiesLen], by simp [compDfltBody, dfltBodyLen], by simp [compDflt, defLen]⟩))

/-- lengths of every piece of generated code (the mutual functions of `comp`), by structural
    induction on the node -/
theorem comp_lengths (n : N) :
    (∀ kb kc, (comp kb kc n).length = size n) ∧ (∀ k, (compVals k n).length = valsLen n) ∧
    (∀ k, (compCmpCase k n).length = caseCmpLen n) ∧ (∀ b, (compCmp b n).length = cmpLen n) ∧
    (∀ a, (compBody a n).length = caseBodyLen n) ∧ (∀ d, (compBodies d n).length = bodiesLen n) ∧
    ((compDfltBody n).length = dfltBodyLen n) ∧ ((compDflt n).length = defLen n) := by
  induction n with
  | cons h t ihh iht =>
    obtain ⟨h1, _, h3, _, h5, _, h7, _⟩ := ihh
    obtain ⟨t1, t2, _, t4, _, t6, _, t8⟩ := iht
    refine ⟨?_, ?_, ?_, ?_, ?_, ?_, ?_, ?_⟩
    · intro kb kc
      simp only [comp, size, List.length_append, pre_length]
      split <;> split <;> simp [h1, t1] <;> omega
    · intro k; simp [compVals, valsLen, h1, t2]; omega
    · intro k; simp [compCmpCase, caseCmpLen]
    · intro b; simp [compCmp, cmpLen, h3, t4]
    · intro a; simp [compBody, caseBodyLen]
    · intro d; simp [compBodies, bodiesLen, h5, t6]
    · simp [compDfltBody, dfltBodyLen]
    · simp only [compDflt, defLen]; split <;> simp [h7, t8]
  | case_ vals body ihv ihb =>
    refine ⟨?_, ?_, ?_, ?_, ?_, ?_, ?_, ?_⟩
    · intro kb kc; simp [comp, size]
    · intro k; simp [compVals, valsLen]
    · intro k; simp [compCmpCase, caseCmpLen, ihv.2.1]
    · intro b; simp [compCmp, cmpLen]
    · intro a; simp [compBody, caseBodyLen, ihb.1]
    · intro d; simp [compBodies, bodiesLen]
    · simp [compDfltBody, dfltBodyLen]
    · simp [compDflt, defLen]
  | default_ body ihb =>
    refine ⟨?_, ?_, ?_, ?_, ?_, ?_, ?_, ?_⟩
    · intro kb kc; simp [comp, size]
    · intro k; simp [compVals, valsLen]
    · intro k; simp [compCmpCase, caseCmpLen]
    · intro b; simp [compCmp, cmpLen]
    · intro a; simp [compBody, caseBodyLen]
    · intro d; simp [compBodies, bodiesLen]
    · simp [compDfltBody, dfltBodyLen, ihb.1]
    · simp [compDflt, defLen]
  | «infix» op l r ihl ihr =>
    len_rest
    intro kb kc
    by_cases h1 : op = .and
    · simp [comp, size, h1, ihl.1, ihr.1]; omega
    · by_cases h2 : op = .or
      · simp [comp, size, h2, ihl.1, ihr.1]; omega
      · simp [comp, size, h1, h2, ihl.1, ihr.1]; omega
  | assign x op e ih =>
    len_rest
    intro kb kc
    by_cases h1 : op = .set
    · simp [comp, size, h1, ih.1]
    · simp [comp, size, h1, ih.1]; omega
  | for3 i c p b ihi ihc ihp ihb =>
    len_rest
    intro kb kc
    simp only [comp, size, List.length_append, ihi.1, ihc.1, ihp.1, ihb.1, two_length, one_length]
    split <;> simp <;> omega
  | switch subj cases ihs ihc =>
    len_rest
    intro kb kc
    simp [comp, size, ihs.1, ihc.2.2.2.1, ihc.2.2.2.2.2.1, ihc.2.2.2.2.2.2.2]; omega
  | tern c a b ihc iha ihb => len_rest; intro kb kc; simp [comp, size, ihc.1, iha.1, ihb.1]; omega
  | if_ c a b ihc iha ihb => len_rest; intro kb kc; simp [comp, size, ihc.1, iha.1, ihb.1]; omega
  | forcond c b ihc ihb => len_rest; intro kb kc; simp [comp, size, ihc.1, ihb.1]; omega
  | forever b ihb => len_rest; intro kb kc; simp [comp, size, ihb.1]
  | neg e ih => len_rest; intro kb kc; simp [comp, size, ih.1]
  | not e ih => len_rest; intro kb kc; simp [comp, size, ih.1]
  | var x e ih => len_rest; intro kb kc; simp [comp, size, ih.1]
  | block s ih => len_rest; intro kb kc; simp [comp, size, ih.1]
  | prog s ih => len_rest; intro kb kc; simp [comp, size, ih.1]
  | expr s ih => len_rest; intro kb kc; simp [comp, size, ih.1]
  | _ => len_rest; intro kb kc; simp [comp, size]

theorem comp_length (n : N) (kb kc : Nat) : (comp kb kc n).length = size n := (comp_lengths n).1 kb kc
theorem compVals_length (n : N) (k : Nat) : (compVals k n).length = valsLen n := (comp_lengths n).2.1 k
theorem compCmp_length (n : N) (b : Nat) : (compCmp b n).length = cmpLen n := (comp_lengths n).2.2.2.1 b
theorem compBody_length (n : N) (a : Nat) : (compBody a n).length = caseBodyLen n := (comp_lengths n).2.2.2.2.1 a
theorem compBodies_length (n : N) (d : Nat) : (compBodies d n).length = bodiesLen n := (comp_lengths n).2.2.2.2.2.1 d
theorem compDflt_length (n : N) : (compDflt n).length = defLen n := (comp_lengths n).2.2.2.2.2.2.2

/-! ### one simulation lemma per construct (sub-nodes through the induction hypothesis) -/

variable {code : Code} {rec : N → Store → Out × Store} {fuel : Nat} {kb kc : Nat}

theorem Post.fail {n : N} {pc0 pc1 : Nat} {stk0 stk1 : List FVal} {σ0 σ1 : Store} {c : String}
    (hpre : Steps code ⟨pc0, stk0, σ0⟩ ⟨pc1, stk1, σ1⟩) (h : step code ⟨pc1, stk1, σ1⟩ = .error (.err c)) :
    Post code kb kc n pc0 stk0 σ0 (.err c) σ1 := ⟨trivial, _, hpre, rfl, h⟩

theorem Post.congr {n m : N} {pc : Nat} {stk : List FVal} {σ σ' : Store} {r : Out}
    (hc : size n = size m) (hu : isUnitNode n = isUnitNode m) (hx : escapes n = escapes m)
    (h : Post code kb kc m pc stk σ r σ') :
    Post code kb kc n pc stk σ r σ' := by
  unfold Post Shape at *
  rw [hc, hu, hx]; exact h

theorem sim_and (ih : IH code rec) (l r : N)
    (hwf : wf (.infix .and l r) = true) (pc : Nat) (stk : List FVal) (σ : Store) (res : Out) (σ' : Store)
    (hat : CodeAt code pc (comp kb kc (.infix .and l r))) (he : evNode fuel rec (.infix .and l r) σ = (res, σ')) :
    Post code kb kc (.infix .and l r) pc stk σ res σ' := by
  simp only [wf, Bool.and_eq_true, Bool.not_eq_true'] at hwf
  obtain ⟨⟨⟨⟨⟨⟨_, hel⟩, her⟩, hxl⟩, hxr⟩, hwl⟩, hwr⟩ := hwf
  simp only [comp, ↓reduceIte] at hat
  simp only [evNode, ↓reduceIte] at he
  have hlen : size (.infix .and l r) = size l + size r + 7 := by simp [size]
  have hatl := hat.append_left.append_left.append_left.append_left.append_left
  have hcopy := CodeAt.two hat.append_left.append_left.append_left.append_left.append_right
  have hpjf := CodeAt.two hat.append_left.append_left.append_left.append_right
  have hatr := hat.append_left.append_left.append_right
  have hbin := CodeAt.two hat.append_left.append_right
  have hnop := CodeAt.one hat.append_right
  simp only [List.length_append, two_length, comp_length] at hcopy hpjf hatr hbin hnop
  rcases seqV_elim he with ⟨a, σ1, hl, he⟩ | ⟨hnv, hx⟩
  · have Pl := (ih l hwl 0 0 pc stk σ _ _ hatl hl).val_steps
    have s1 : step code ⟨pc + size l, a :: stk, σ1⟩ = .ok ⟨pc + size l + 2, a :: a :: stk, σ1⟩ := by
      rw [step_of hcopy]; rfl
    have hpjf := at_eq hpjf (q := pc + size l + 2) (by omega)
    by_cases ht : a.truthy = true
    · simp only [ht, ↓reduceIte] at he
      have s2 : step code ⟨pc + size l + 2, a :: a :: stk, σ1⟩ = .ok ⟨pc + size l + 4, a :: stk, σ1⟩ := by
        rw [step_of hpjf]; simp [execIns, ht]
      have pre := (Pl.snoc s1).snoc s2
      have hatr := hatr.cast (q := pc + size l + 4) (by omega)
      rcases seqV_elim he with ⟨b, σ2, hr, he⟩ | ⟨hnv, hx⟩
      · cases he
        have Pr := (ih r hwr 0 0 _ (a :: stk) σ1 _ _ hatr hr).val_steps
        have hbin := at_eq hbin (q := pc + size l + 4 + size r) (by omega)
        have hnop := at_eq hnop (q := pc + size l + 4 + size r + 2) (by omega)
        have s3 : step code ⟨pc + size l + 4 + size r, b :: a :: stk, σ'⟩
            = .ok ⟨pc + size l + 4 + size r + 2, b :: stk, σ'⟩ := by
          rw [step_of hbin]; simp [execIns, vBinaryF, ht]
        have s4 : step code ⟨pc + size l + 4 + size r + 2, b :: stk, σ'⟩
            = .ok ⟨pc + size l + 4 + size r + 2 + 1, b :: stk, σ'⟩ := by
          rw [step_of hnop]; rfl
        refine ⟨rfl, ?_⟩
        show Steps code _ ⟨_, b :: stk, _⟩
        rw [hlen]
        exact (((pre.trans Pr).snoc s3).snoc s4).cast (by omega)
      · exact Post.propagate pre (ih r hwr 0 0 _ (a :: stk) σ1 _ _ hatr hx) hnv (isE_not_unit her) hxr
    · simp only [ht] at he
      have ht' : a.truthy = false := by simpa using ht
      simp only [Bool.false_eq_true, ↓reduceIte] at he
      cases he
      have s2 : step code ⟨pc + size l + 2, a :: a :: stk, σ'⟩
          = .ok ⟨pc + size l + 2 + (size r + 5), a :: stk, σ'⟩ := by
        rw [step_of hpjf]; simp [execIns, ht']
      refine ⟨rfl, ?_⟩
      show Steps code _ ⟨_, a :: stk, _⟩
      rw [hlen]
      exact ((Pl.snoc s1).snoc s2).cast (by omega)
  · exact Post.propagate (.refl _) (ih l hwl 0 0 pc stk σ _ _ hatl hx) hnv (isE_not_unit hel) hxl

theorem sim_infix (ih : IH code rec) (op : BinOp) (l r : N) (hop : op ≠ .and) (hor : op ≠ .or)
    (hwf : wf (.infix op l r) = true) (pc : Nat) (stk : List FVal) (σ : Store) (res : Out) (σ' : Store)
    (hat : CodeAt code pc (comp kb kc (.infix op l r))) (he : evNode fuel rec (.infix op l r) σ = (res, σ')) :
    Post code kb kc (.infix op l r) pc stk σ res σ' := by
  simp only [wf, Bool.and_eq_true, Bool.not_eq_true'] at hwf
  obtain ⟨⟨⟨⟨⟨⟨hok, hel⟩, her⟩, hxl⟩, hxr⟩, hwl⟩, hwr⟩ := hwf
  simp only [comp, if_neg hop, if_neg hor] at hat
  simp only [evNode, if_neg hop, if_neg hor] at he
  have hlen : size (.infix op l r) = size l + size r + 2 := by
    simp [size, hop, hor]
  have hatl := hat.append_left.append_left
  have hatr := hat.append_left.append_right
  have hins := CodeAt.two hat.append_right
  simp only [List.length_append, comp_length] at hins hatr
  have hins := at_eq hins (q := pc + size l + size r) (by omega)
  rcases seqV_elim he with ⟨a, σ1, hl, he⟩ | ⟨hnv, hx⟩
  · have Pl := (ih l hwl 0 0 pc stk σ _ _ hatl hl).val_steps
    rcases seqV_elim he with ⟨b, σ2, hr, he⟩ | ⟨hnv, hx⟩
    · have Pr := (ih r hwr 0 0 _ (a :: stk) σ1 _ _ hatr hr).val_steps
      have hstep := step_of hins (b :: a :: stk) σ2
      rw [execIns_opIns op hok hop hor] at hstep
      cases hb : binopF op a b with
      | ok v =>
        simp only [hb, liftE] at he hstep; cases he
        refine ⟨rfl, ?_⟩
        show Steps code _ ⟨_, v :: stk, _⟩
        rw [hlen]
        exact (Pl.trans (Pr.snoc hstep)).cast (by omega)
      | error c =>
        simp only [hb, liftE] at he hstep; cases he
        exact ⟨trivial, _, Pl.trans Pr, rfl, hstep⟩
    · exact Post.propagate Pl (ih r hwr 0 0 _ (a :: stk) σ1 _ _ hatr hx) hnv (isE_not_unit her) hxr
  · exact Post.propagate (.refl _) (ih l hwl 0 0 pc stk σ _ _ hatl hx) hnv (isE_not_unit hel) hxl

theorem sim_or (ih : IH code rec) (l r : N)
    (hwf : wf (.infix .or l r) = true) (pc : Nat) (stk : List FVal) (σ : Store) (res : Out) (σ' : Store)
    (hat : CodeAt code pc (comp kb kc (.infix .or l r))) (he : evNode fuel rec (.infix .or l r) σ = (res, σ')) :
    Post code kb kc (.infix .or l r) pc stk σ res σ' := by
  simp only [wf, Bool.and_eq_true, Bool.not_eq_true'] at hwf
  obtain ⟨⟨⟨⟨⟨⟨_, hel⟩, her⟩, hxl⟩, hxr⟩, hwl⟩, hwr⟩ := hwf
  simp only [comp, reduceCtorEq, ↓reduceIte] at hat
  simp only [evNode, reduceCtorEq, ↓reduceIte] at he
  have hlen : size (.infix .or l r) = size l + size r + 7 := by simp [size]
  have hatl := hat.append_left.append_left.append_left.append_left.append_left
  have hcopy := CodeAt.two hat.append_left.append_left.append_left.append_left.append_right
  have hpjt := CodeAt.two hat.append_left.append_left.append_left.append_right
  have hatr := hat.append_left.append_left.append_right
  have hbin := CodeAt.two hat.append_left.append_right
  have hnop := CodeAt.one hat.append_right
  simp only [List.length_append, two_length, comp_length] at hcopy hpjt hatr hbin hnop
  rcases seqV_elim he with ⟨a, σ1, hl, he⟩ | ⟨hnv, hx⟩
  · have Pl := (ih l hwl 0 0 pc stk σ _ _ hatl hl).val_steps
    have s1 : step code ⟨pc + size l, a :: stk, σ1⟩ = .ok ⟨pc + size l + 2, a :: a :: stk, σ1⟩ := by
      rw [step_of hcopy]; rfl
    have hpjt := at_eq hpjt (q := pc + size l + 2) (by omega)
    by_cases ht : a.truthy = true
    · simp only [ht, ↓reduceIte] at he
      cases he
      have s2 : step code ⟨pc + size l + 2, a :: a :: stk, σ'⟩
          = .ok ⟨pc + size l + 2 + (size r + 5), a :: stk, σ'⟩ := by
        rw [step_of hpjt]; simp [execIns, ht]
      refine ⟨rfl, ?_⟩
      show Steps code _ ⟨_, a :: stk, _⟩
      rw [hlen]
      exact ((Pl.snoc s1).snoc s2).cast (by omega)
    · have ht' : a.truthy = false := by simpa using ht
      simp only [ht', Bool.false_eq_true, ↓reduceIte] at he
      have s2 : step code ⟨pc + size l + 2, a :: a :: stk, σ1⟩ = .ok ⟨pc + size l + 4, a :: stk, σ1⟩ := by
        rw [step_of hpjt]; simp [execIns, ht']
      have pre := (Pl.snoc s1).snoc s2
      have hatr := hatr.cast (q := pc + size l + 4) (by omega)
      rcases seqV_elim he with ⟨b, σ2, hr, he⟩ | ⟨hnv, hx⟩
      · cases he
        have Pr := (ih r hwr 0 0 _ (a :: stk) σ1 _ _ hatr hr).val_steps
        have hbin := at_eq hbin (q := pc + size l + 4 + size r) (by omega)
        have hnop := at_eq hnop (q := pc + size l + 4 + size r + 2) (by omega)
        have s3 : step code ⟨pc + size l + 4 + size r, b :: a :: stk, σ'⟩
            = .ok ⟨pc + size l + 4 + size r + 2, b :: stk, σ'⟩ := by
          rw [step_of hbin]; simp [execIns, vBinaryF, ht']
        have s4 : step code ⟨pc + size l + 4 + size r + 2, b :: stk, σ'⟩
            = .ok ⟨pc + size l + 4 + size r + 2 + 1, b :: stk, σ'⟩ := by
          rw [step_of hnop]; rfl
        refine ⟨rfl, ?_⟩
        show Steps code _ ⟨_, b :: stk, _⟩
        rw [hlen]
        exact (((pre.trans Pr).snoc s3).snoc s4).cast (by omega)
      · exact Post.propagate pre (ih r hwr 0 0 _ (a :: stk) σ1 _ _ hatr hx) hnv (isE_not_unit her) hxr
  · exact Post.propagate (.refl _) (ih l hwl 0 0 pc stk σ _ _ hatl hx) hnv (isE_not_unit hel) hxl

theorem sim_neg (ih : IH code rec) (e : N)
    (hwf : wf (.neg e) = true) (pc : Nat) (stk : List FVal) (σ : Store) (res : Out) (σ' : Store)
    (hat : CodeAt code pc (comp kb kc (.neg e))) (he : evNode fuel rec (.neg e) σ = (res, σ')) :
    Post code kb kc (.neg e) pc stk σ res σ' := by
  simp only [wf, Bool.and_eq_true, Bool.not_eq_true'] at hwf
  obtain ⟨⟨hee, hxe⟩, hwe⟩ := hwf
  simp only [comp] at hat
  simp only [evNode] at he
  have hlen : size (.neg e) = size e + 1 := by simp [size]
  have hins := CodeAt.one hat.append_right
  simp only [comp_length] at hins
  rcases seqV_elim he with ⟨v, σ1, h1, he⟩ | ⟨hnv, hx⟩
  · have P1 := (ih e hwe 0 0 pc stk σ _ _ hat.append_left h1).val_steps
    cases v with
    | int i =>
      simp only at he; cases he
      refine ⟨rfl, ?_⟩
      show Steps code _ ⟨_, .int (wrap64 (-i)) :: stk, _⟩
      rw [hlen]
      have s1 : step code ⟨pc + size e, .int i :: stk, σ'⟩ = .ok ⟨pc + size e + 1, .int (wrap64 (-i)) :: stk, σ'⟩ := by
        rw [step_of hins]; rfl
      exact (P1.snoc s1).cast (by omega)
    | nil => simp only at he; cases he; exact Post.fail P1 (by rw [step_of hins]; rfl)
    | bool b => simp only at he; cases he; exact Post.fail P1 (by rw [step_of hins]; rfl)
    | str s => simp only at he; cases he; exact Post.fail P1 (by rw [step_of hins]; rfl)
  · exact Post.propagate (.refl _) (ih e hwe 0 0 pc stk σ _ _ hat.append_left hx) hnv (isE_not_unit hee) hxe

theorem sim_not (ih : IH code rec) (e : N)
    (hwf : wf (.not e) = true) (pc : Nat) (stk : List FVal) (σ : Store) (res : Out) (σ' : Store)
    (hat : CodeAt code pc (comp kb kc (.not e))) (he : evNode fuel rec (.not e) σ = (res, σ')) :
    Post code kb kc (.not e) pc stk σ res σ' := by
  simp only [wf, Bool.and_eq_true, Bool.not_eq_true'] at hwf
  obtain ⟨⟨hee, hxe⟩, hwe⟩ := hwf
  simp only [comp] at hat
  simp only [evNode] at he
  have hlen : size (.not e) = size e + 1 := by simp [size]
  have hins := CodeAt.one hat.append_right
  simp only [comp_length] at hins
  rcases seqV_elim he with ⟨v, σ1, h1, he⟩ | ⟨hnv, hx⟩
  · have P1 := (ih e hwe 0 0 pc stk σ _ _ hat.append_left h1).val_steps
    cases he
    refine ⟨rfl, ?_⟩
    show Steps code _ ⟨_, .bool (!v.truthy) :: stk, _⟩
    rw [hlen]
    have s1 : step code ⟨pc + size e, v :: stk, σ'⟩ = .ok ⟨pc + size e + 1, .bool (!v.truthy) :: stk, σ'⟩ := by
      rw [step_of hins]; rfl
    exact (P1.snoc s1).cast (by omega)
  · exact Post.propagate (.refl _) (ih e hwe 0 0 pc stk σ _ _ hat.append_left hx) hnv (isE_not_unit hee) hxe

/-- ternary and if/else share their shape: the condition is an operand, the two branches
    inherit the loop targets (shifted by what follows them) -/
theorem sim_cond (ih : IH code rec) (n c a b : N)
    (hcomp : comp kb kc n = comp 0 0 c ++ two (.pjf (size a + 4)) ++ comp (kb + (size b + 2)) (kc + (size b + 2)) a
      ++ two (.jf (size b + 2)) ++ comp kb kc b)
    (hsize : size n = size c + size a + size b + 4)
    (hun : isUnitNode n = false) (hesc : escapes n = (escapes c || escapes a || escapes b))
    (hwc : wf c = true) (hwa : wf a = true) (hwb : wf b = true)
    (huc : isUnitNode c = false) (hua : isUnitNode a = false) (hub : isUnitNode b = false)
    (hxc : escapes c = false)
    (pc : Nat) (stk : List FVal) (σ : Store) (res : Out) (σ' : Store)
    (hat : CodeAt code pc (comp kb kc n))
    (he : (seqV (rec c σ) fun v σ1 => if v.truthy = true then rec a σ1 else rec b σ1) = (res, σ')) :
    Post code kb kc n pc stk σ res σ' := by
  have hlen := hsize
  rw [hcomp] at hat
  have hatc := hat.append_left.append_left.append_left.append_left
  have hpjf := CodeAt.two hat.append_left.append_left.append_left.append_right
  have hata := hat.append_left.append_left.append_right
  have hjf := CodeAt.two hat.append_left.append_right
  have hatb := hat.append_right
  simp only [List.length_append, two_length, comp_length] at hpjf hata hjf hatb
  rcases seqV_elim he with ⟨v, σ1, h1, he⟩ | ⟨hnv, hx⟩
  · have Pc := (ih c hwc 0 0 pc stk σ _ _ hatc h1).val_steps
    by_cases ht : v.truthy = true
    · simp only [ht, ↓reduceIte] at he
      have s1 : step code ⟨pc + size c, v :: stk, σ1⟩ = .ok ⟨pc + size c + 2, stk, σ1⟩ := by
        rw [step_of hpjf]; simp [execIns, ht]
      have pre := Pc.snoc s1
      have Pa := ih a hwa _ _ _ stk σ1 _ _ hata he
      have hjf := at_eq hjf (q := pc + size c + 2 + size a) (by omega)
      cases res with
      | val w =>
        refine ⟨by simp [Shape, hun], ?_⟩
        show Steps code _ ⟨_, w :: stk, _⟩
        have s2 : step code ⟨pc + size c + 2 + size a, w :: stk, σ'⟩
            = .ok ⟨pc + size c + 2 + size a + (size b + 2), w :: stk, σ'⟩ := by
          rw [step_of hjf]; rfl
        rw [hlen]
        exact ((pre.trans Pa.val_steps).snoc s2).cast (by omega)
      | unit => have := Pa.1; simp only [Shape] at this; rw [hua] at this; cases this
      | brk =>
        have hxa : escapes a = true := Pa.1
        refine ⟨by simp [Shape, hesc, hxa], ?_⟩
        show Steps code _ ⟨_, stk, _⟩
        rw [hlen]
        exact (pre.trans Pa.2).cast (by omega)
      | cont =>
        have hxa : escapes a = true := Pa.1
        refine ⟨by simp [Shape, hesc, hxa], ?_⟩
        show Steps code _ ⟨_, stk, _⟩
        rw [hlen]
        exact (pre.trans Pa.2).cast (by omega)
      | err e => exact ⟨trivial, Fails.pre pre Pa.2⟩
      | oof => exact ⟨trivial, trivial⟩
    · have ht' : v.truthy = false := by simpa using ht
      simp only [ht', Bool.false_eq_true, ↓reduceIte] at he
      have s1 : step code ⟨pc + size c, v :: stk, σ1⟩
          = .ok ⟨pc + size c + (size a + 4), stk, σ1⟩ := by
        rw [step_of hpjf]; simp [execIns, ht']
      have pre := Pc.snoc s1
      have Pb := ih b hwb kb kc _ stk σ1 _ _ (hatb.cast (q := pc + size c + (size a + 4)) (by omega)) he
      cases res with
      | val w =>
        refine ⟨by simp [Shape, hun], ?_⟩
        show Steps code _ ⟨_, w :: stk, _⟩
        rw [hlen]
        exact (pre.trans Pb.val_steps).cast (by omega)
      | unit => have := Pb.1; simp only [Shape] at this; rw [hub] at this; cases this
      | brk =>
        have hxb : escapes b = true := Pb.1
        refine ⟨by simp [Shape, hesc, hxb], ?_⟩
        show Steps code _ ⟨_, stk, _⟩
        rw [hlen]
        exact (pre.trans Pb.2).cast (by omega)
      | cont =>
        have hxb : escapes b = true := Pb.1
        refine ⟨by simp [Shape, hesc, hxb], ?_⟩
        show Steps code _ ⟨_, stk, _⟩
        rw [hlen]
        exact (pre.trans Pb.2).cast (by omega)
      | err e => exact ⟨trivial, Fails.pre pre Pb.2⟩
      | oof => exact ⟨trivial, trivial⟩
  · exact Post.propagate (.refl _) (ih c hwc 0 0 pc stk σ _ _ hatc hx) hnv huc hxc

/-- a leaf: one instruction pushes the value, the store is untouched -/
theorem sim_leaf (n : N) (i : FIns) (v : FVal) (w : Nat) (pc : Nat) (stk : List FVal) (σ : Store) (r : Out) (σ' : Store)
    (hun : isUnitNode n = false)
    (hins : code[pc]? = some (some i)) (hlen : size n = w)
    (hex : execIns i ⟨pc, stk, σ⟩ = .ok ⟨pc + w, v :: stk, σ⟩)
    (he : (Out.val v, σ) = (r, σ')) : Post code kb kc n pc stk σ r σ' := by
  cases he
  refine ⟨hun, ?_⟩
  show Steps code _ ⟨_, v :: stk, _⟩
  rw [hlen]
  exact .one (by rw [step_of hins]; exact hex)

theorem pre_steps (h : N) (pc : Nat) (stk : List FVal) (σ : Store) (hat : CodeAt code pc (pre h)) :
    Steps code ⟨pc, stk, σ⟩ ⟨pc + preLen h, stk, σ⟩ := by
  cases hp : postName h with
  | none => simp only [preLen, hp]; exact .refl _
  | some x =>
    simp only [pre, hp] at hat
    simp only [preLen, hp]
    have h1 := CodeAt.two hat.append_left
    have h2 := CodeAt.one hat.append_right
    simp only [two_length] at h2
    have s1 : step code ⟨pc, stk, σ⟩ = .ok ⟨pc + 2, σ.get x :: stk, σ⟩ := by rw [step_of h1]; rfl
    have s2 : step code ⟨pc + 2, σ.get x :: stk, σ⟩ = .ok ⟨pc + 2 + 1, stk, σ⟩ := by rw [step_of h2]; rfl
    exact (Steps.one s1).snoc s2

theorem unit_not_leaves {n : N} (h : isUnitNode n = true) : leaves n = false := by
  cases n <;> simp_all [isUnitNode, leaves]

theorem sim_cons (ih : IH code rec) (h t : N)
    (hwf : wf (.cons h t) = true) (pc : Nat) (stk : List FVal) (σ : Store) (res : Out) (σ' : Store)
    (hat : CodeAt code pc (comp kb kc (.cons h t))) (he : evNode fuel rec (.cons h t) σ = (res, σ')) :
    Post code kb kc (.cons h t) pc stk σ res σ' := by
  simp only [wf, Bool.and_eq_true] at hwf
  obtain ⟨⟨⟨hsh, hlt⟩, hwh⟩, hwt⟩ := hwf
  simp only [isS, Bool.or_eq_true] at hsh
  simp only [comp] at hat
  simp only [evNode] at he
  have hpre := pre_steps h pc stk σ hat.append_left
  have hrest := hat.append_right
  simp only [pre_length] at hrest
  have hesc : escapes (.cons h t) = (escapes h || escapes t) := by simp [escapes]
  -- the head statement
  rcases hh : rec h σ with ⟨r1, σ1⟩
  rw [hh] at he
  -- a value forces an expression statement, unit / break / continue a non-expression
  have hleaves : ∀ {kb' kc' pc'}, Post code kb' kc' h pc' stk σ r1 σ1 →
      (∀ v, r1 = .val v → leaves h = true) ∧ (r1 = .unit → leaves h = false) := by
    intro kb' kc' pc' P
    refine ⟨?_, ?_⟩
    · intro v hv; subst hv
      rcases hsh with hu | hl
      · have := P.1; simp only [Shape] at this; rw [hu] at this; cases this
      · exact hl
    · intro hv; subst hv
      exact unit_not_leaves P.1
  by_cases hnil : isNilL t = true
  · -- last statement
    simp only [hnil, ↓reduceIte] at he hrest
    cases hl : leaves h with
    | true =>
      simp only [hl, ↓reduceIte, List.append_nil, Nat.add_zero] at hrest
      have hsz : size (.cons h t) = preLen h + size h := by simp [size, hnil, hl]
      have Ph := ih h hwh _ _ _ stk σ _ _ hrest hh
      cases r1 with
      | val v =>
        simp only at he; cases he
        refine ⟨rfl, ?_⟩
        show Steps code _ ⟨_, v :: stk, _⟩
        rw [hsz]
        exact (hpre.trans Ph.val_steps).cast (by omega)
      | unit => have := (hleaves Ph).2 rfl; rw [hl] at this; cases this
      | brk =>
        simp only at he; cases he
        have hxh : escapes h = true := Ph.1
        refine ⟨by simp [Shape, hesc, hxh], ?_⟩
        show Steps code _ ⟨_, stk, _⟩
        rw [hsz]
        exact (hpre.trans Ph.2).cast (by omega)
      | cont =>
        simp only at he; cases he
        have hxh : escapes h = true := Ph.1
        refine ⟨by simp [Shape, hesc, hxh], ?_⟩
        show Steps code _ ⟨_, stk, _⟩
        rw [hsz]
        exact (hpre.trans Ph.2).cast (by omega)
      | err c => simp only at he; cases he; exact ⟨trivial, Fails.pre hpre Ph.2⟩
      | oof => simp only at he; cases he; exact ⟨trivial, trivial⟩
    | false =>
      simp only [hl, Bool.false_eq_true, ↓reduceIte] at hrest
      have hsz : size (.cons h t) = preLen h + size h + 1 := by simp [size, hnil, hl]
      have Ph := ih h hwh _ _ _ stk σ _ _ hrest.append_left hh
      have hins := CodeAt.one hrest.append_right
      simp only [comp_length] at hins
      cases r1 with
      | val v => have := (hleaves Ph).1 v rfl; rw [hl] at this; cases this
      | unit =>
        simp only at he; cases he
        have s1 : step code ⟨pc + preLen h + size h, stk, σ'⟩ = .ok ⟨pc + preLen h + size h + 1, .nil :: stk, σ'⟩ := by
          rw [step_of hins]; rfl
        refine ⟨rfl, ?_⟩
        show Steps code _ ⟨_, .nil :: stk, _⟩
        rw [hsz]
        exact ((hpre.trans Ph.unit_steps).snoc s1).cast (by omega)
      | brk =>
        simp only at he; cases he
        have hxh : escapes h = true := Ph.1
        refine ⟨by simp [Shape, hesc, hxh], ?_⟩
        show Steps code _ ⟨_, stk, _⟩
        rw [hsz]
        exact (hpre.trans Ph.2).cast (by omega)
      | cont =>
        simp only at he; cases he
        have hxh : escapes h = true := Ph.1
        refine ⟨by simp [Shape, hesc, hxh], ?_⟩
        show Steps code _ ⟨_, stk, _⟩
        rw [hsz]
        exact (hpre.trans Ph.2).cast (by omega)
      | err c => simp only at he; cases he; exact ⟨trivial, Fails.pre hpre Ph.2⟩
      | oof => simp only at he; cases he; exact ⟨trivial, trivial⟩
  · have hnil' : isNilL t = false := by simpa using hnil
    simp only [hnil', Bool.false_eq_true, ↓reduceIte] at he hrest
    have hut := isL_not_unit hlt
    -- the rest of the list runs from the state after the head
    have rest : ∀ pcT, Steps code ⟨pc, stk, σ⟩ ⟨pcT, stk, σ1⟩ → CodeAt code pcT (comp kb kc t) →
        pcT + size t = pc + size (.cons h t) → rec t σ1 = (res, σ') →
        Post code kb kc (.cons h t) pc stk σ res σ' := by
      intro pcT hs hatT hend heT
      have Pt := ih t hwt kb kc pcT stk σ1 _ _ hatT heT
      refine ⟨?_, ?_⟩
      · have := Pt.1
        cases res <;> simp_all [Shape, isUnitNode]
      · exact (Lands.pre hs Pt.2).cast hend
    cases hl : leaves h with
    | true =>
      simp only [hl, ↓reduceIte] at hrest
      have hsz : size (.cons h t) = preLen h + size h + 1 + size t := by simp [size, hnil', hl]; omega
      have Ph := ih h hwh _ _ _ stk σ _ _ hrest.append_left hh
      have hpop := CodeAt.one hrest.append_right.append_left
      have hatT := hrest.append_right.append_right
      simp only [comp_length, one_length] at hpop hatT
      cases r1 with
      | val v =>
        simp only at he
        have s1 : step code ⟨pc + preLen h + size h, v :: stk, σ1⟩ = .ok ⟨pc + preLen h + size h + 1, stk, σ1⟩ := by
          rw [step_of hpop]; rfl
        exact rest _ ((hpre.trans Ph.val_steps).snoc s1) hatT (by rw [hsz]; omega) he
      | unit => have := (hleaves Ph).2 rfl; rw [hl] at this; cases this
      | brk =>
        simp only at he; cases he
        have hxh : escapes h = true := Ph.1
        refine ⟨by simp [Shape, hesc, hxh], ?_⟩
        show Steps code _ ⟨_, stk, _⟩
        rw [hsz]
        exact (hpre.trans Ph.2).cast (by omega)
      | cont =>
        simp only at he; cases he
        have hxh : escapes h = true := Ph.1
        refine ⟨by simp [Shape, hesc, hxh], ?_⟩
        show Steps code _ ⟨_, stk, _⟩
        rw [hsz]
        exact (hpre.trans Ph.2).cast (by omega)
      | err c => simp only at he; cases he; exact ⟨trivial, Fails.pre hpre Ph.2⟩
      | oof => simp only at he; cases he; exact ⟨trivial, trivial⟩
    | false =>
      simp only [hl, Bool.false_eq_true, ↓reduceIte, List.nil_append, Nat.zero_add] at hrest
      have hsz : size (.cons h t) = preLen h + size h + size t := by simp [size, hnil', hl]
      have Ph := ih h hwh _ _ _ stk σ _ _ hrest.append_left hh
      have hatT := hrest.append_right
      simp only [comp_length] at hatT
      cases r1 with
      | val v => have := (hleaves Ph).1 v rfl; rw [hl] at this; cases this
      | unit =>
        simp only at he
        exact rest _ (hpre.trans Ph.unit_steps) hatT (by rw [hsz]; omega) he
      | brk =>
        simp only at he; cases he
        have hxh : escapes h = true := Ph.1
        refine ⟨by simp [Shape, hesc, hxh], ?_⟩
        show Steps code _ ⟨_, stk, _⟩
        rw [hsz]
        exact (hpre.trans Ph.2).cast (by omega)
      | cont =>
        simp only at he; cases he
        have hxh : escapes h = true := Ph.1
        refine ⟨by simp [Shape, hesc, hxh], ?_⟩
        show Steps code _ ⟨_, stk, _⟩
        rw [hsz]
        exact (hpre.trans Ph.2).cast (by omega)
      | err c => simp only at he; cases he; exact ⟨trivial, Fails.pre hpre Ph.2⟩
      | oof => simp only at he; cases he; exact ⟨trivial, trivial⟩

theorem sim_ctl (isBrk : Bool) (pc : Nat) (stk : List FVal) (σ : Store) (res : Out) (σ' : Store)
    (hat : CodeAt code pc (comp kb kc (if isBrk then .break_ else .continue_)))
    (he : ((if isBrk then Out.brk else Out.cont), σ) = (res, σ')) :
    Post code kb kc (if isBrk then .break_ else .continue_) pc stk σ res σ' := by
  cases isBrk with
  | true =>
    simp only [↓reduceIte] at hat he ⊢
    cases he
    have hins := CodeAt.two hat
    refine ⟨rfl, ?_⟩
    show Steps code _ ⟨pc + size .break_ + kb, stk, σ⟩
    have s1 : step code ⟨pc, stk, σ⟩ = .ok ⟨pc + (kb + 2), stk, σ⟩ := by rw [step_of hins]; rfl
    exact (Steps.one s1).cast (by simp [size]; omega)
  | false =>
    simp only [Bool.false_eq_true, ↓reduceIte] at hat he ⊢
    cases he
    have hins := CodeAt.two hat
    refine ⟨rfl, ?_⟩
    show Steps code _ ⟨pc + size .continue_ + kc, stk, σ⟩
    have s1 : step code ⟨pc, stk, σ⟩ = .ok ⟨pc + (kc + 2), stk, σ⟩ := by rw [step_of hins]; rfl
    exact (Steps.one s1).cast (by simp [size]; omega)

theorem sim_var (ih : IH code rec) (x : String) (e : N)
    (hwf : wf (.var x e) = true) (pc : Nat) (stk : List FVal) (σ : Store) (res : Out) (σ' : Store)
    (hat : CodeAt code pc (comp kb kc (.var x e))) (he : evNode fuel rec (.var x e) σ = (res, σ')) :
    Post code kb kc (.var x e) pc stk σ res σ' := by
  simp only [wf, Bool.and_eq_true, Bool.not_eq_true'] at hwf
  obtain ⟨⟨hee, hxe⟩, hwe⟩ := hwf
  simp only [comp] at hat
  simp only [evNode] at he
  have hlen : size (.var x e) = size e + 2 := by simp [size]
  have hins := CodeAt.two hat.append_right
  simp only [comp_length] at hins
  rcases seqV_elim he with ⟨v, σ1, h1, he⟩ | ⟨hnv, hx⟩
  · have P1 := (ih e hwe 0 0 pc stk σ _ _ hat.append_left h1).val_steps
    cases he
    refine ⟨rfl, ?_⟩
    show Steps code _ ⟨_, stk, _⟩
    rw [hlen]
    have s1 : step code ⟨pc + size e, v :: stk, σ1⟩ = .ok ⟨pc + size e + 2, stk, σ1.set x v⟩ := by
      rw [step_of hins]; rfl
    exact (P1.snoc s1).cast (by omega)
  · exact Post.propagate (.refl _) (ih e hwe 0 0 pc stk σ _ _ hat.append_left hx) hnv (isE_not_unit hee) hxe

theorem sim_assign (ih : IH code rec) (x : String) (op : AssignOp) (e : N)
    (hwf : wf (.assign x op e) = true) (pc : Nat) (stk : List FVal) (σ : Store) (res : Out) (σ' : Store)
    (hat : CodeAt code pc (comp kb kc (.assign x op e))) (he : evNode fuel rec (.assign x op e) σ = (res, σ')) :
    Post code kb kc (.assign x op e) pc stk σ res σ' := by
  simp only [wf, Bool.and_eq_true, Bool.not_eq_true'] at hwf
  obtain ⟨⟨hee, hxe⟩, hwe⟩ := hwf
  simp only [evNode] at he
  by_cases hop : op = .set
  · subst hop
    simp only [comp, ↓reduceIte] at hat
    have hlen : size (.assign x .set e) = size e + 2 := by simp [size]
    have hins := CodeAt.two hat.append_right
    simp only [comp_length] at hins
    rcases seqV_elim he with ⟨v, σ1, h1, he⟩ | ⟨hnv, hx⟩
    · have P1 := (ih e hwe 0 0 pc stk σ _ _ hat.append_left h1).val_steps
      simp only [applyF] at he; cases he
      refine ⟨rfl, ?_⟩
      show Steps code _ ⟨_, stk, _⟩
      rw [hlen]
      have s1 : step code ⟨pc + size e, v :: stk, σ1⟩ = .ok ⟨pc + size e + 2, stk, σ1.set x v⟩ := by
        rw [step_of hins]; rfl
      exact (P1.snoc s1).cast (by omega)
    · exact Post.propagate (.refl _) (ih e hwe 0 0 pc stk σ _ _ hat.append_left hx) hnv (isE_not_unit hee) hxe
  · simp only [comp, if_neg hop] at hat
    have hlen : size (.assign x op e) = size e + 6 := by simp [size, hop]
    have hload := CodeAt.two hat.append_left.append_left.append_left
    have hate := hat.append_left.append_left.append_right
    have hbin := CodeAt.two hat.append_left.append_right
    have hsto := CodeAt.two hat.append_right
    simp only [List.length_append, two_length, comp_length] at hate hbin hsto
    have s0 : step code ⟨pc, stk, σ⟩ = .ok ⟨pc + 2, σ.get x :: stk, σ⟩ := by rw [step_of hload]; rfl
    rcases seqV_elim he with ⟨v, σ1, h1, he⟩ | ⟨hnv, hx⟩
    · have P1 := (ih e hwe 0 0 _ (σ.get x :: stk) σ _ _ hate h1).val_steps
      have hbin := at_eq hbin (q := pc + 2 + size e) (by omega)
      have hsto := at_eq hsto (q := pc + 2 + size e + 2) (by omega)
      cases ha : applyF op (σ.get x) v with
      | ok w =>
        simp only [ha] at he; cases he
        have s1 : step code ⟨pc + 2 + size e, v :: σ.get x :: stk, σ1⟩
            = .ok ⟨pc + 2 + size e + 2, w :: stk, σ1⟩ := by
          rw [step_of hbin]; simp [execIns, vBinaryF_assign op hop, ha]
        have s2 : step code ⟨pc + 2 + size e + 2, w :: stk, σ1⟩
            = .ok ⟨pc + 2 + size e + 2 + 2, stk, σ1.set x w⟩ := by
          rw [step_of hsto]; rfl
        refine ⟨rfl, ?_⟩
        show Steps code _ ⟨_, stk, _⟩
        rw [hlen]
        exact ((((Steps.one s0).trans P1).snoc s1).snoc s2).cast (by omega)
      | error c =>
        simp only [ha] at he; cases he
        exact Post.fail ((Steps.one s0).trans P1) (by rw [step_of hbin]; simp [execIns, vBinaryF_assign op hop, ha])
    · exact Post.propagate (.one s0) (ih e hwe 0 0 _ (σ.get x :: stk) σ _ _ hate hx) hnv (isE_not_unit hee) hxe

theorem sim_postfix (x : String) (inc : Bool)
    (pc : Nat) (stk : List FVal) (σ : Store) (res : Out) (σ' : Store)
    (hat : CodeAt code pc (comp kb kc (.postfix x inc))) (he : evNode fuel rec (.postfix x inc) σ = (res, σ')) :
    Post code kb kc (.postfix x inc) pc stk σ res σ' := by
  simp only [comp] at hat
  simp only [evNode] at he
  have hload := CodeAt.two hat.append_left.append_left.append_left
  have hcon := CodeAt.two hat.append_left.append_left.append_right
  have hbin := CodeAt.two hat.append_left.append_right
  have hsto := CodeAt.two hat.append_right
  simp only [List.length_append, two_length] at hcon hbin hsto
  have s0 : step code ⟨pc, stk, σ⟩ = .ok ⟨pc + 2, σ.get x :: stk, σ⟩ := by rw [step_of hload]; rfl
  have s1 : step code ⟨pc + 2, σ.get x :: stk, σ⟩ = .ok ⟨pc + 2 + 2, .int (if inc then 1 else -1) :: σ.get x :: stk, σ⟩ := by
    rw [step_of hcon]; rfl
  have pre := (Steps.one s0).snoc s1
  cases ha : binopF .add (σ.get x) (.int (if inc then 1 else -1)) with
  | ok w =>
    simp only [ha] at he; cases he
    have s2 : step code ⟨pc + 2 + 2, .int (if inc then 1 else -1) :: σ.get x :: stk, σ⟩ = .ok ⟨pc + 2 + 2 + 2, w :: stk, σ⟩ := by
      rw [step_of hbin]; simp [execIns, vBinaryF_add, ha]
    have s3 : step code ⟨pc + 2 + 2 + 2, w :: stk, σ⟩ = .ok ⟨pc + 2 + 2 + 2 + 2, stk, σ.set x w⟩ := by
      rw [step_of hsto]; rfl
    refine ⟨rfl, ?_⟩
    show Steps code _ ⟨_, stk, _⟩
    exact ((pre.snoc s2).snoc s3).cast (by simp [size])
  | error c =>
    simp only [ha] at he; cases he
    exact Post.fail pre (by rw [step_of hbin]; simp [execIns, vBinaryF_add, ha])

/-! ### loops -/

/-- the post-statement phase, and the result of a whole loop: value and unit both land at
    `tgt` with the loop's stack; no break/continue gets out -/
def PhaseTo (code : Code) (c0 : Cfg) (tgt : Nat) (stk : List FVal) (r : Out) (σ' : Store) : Prop :=
  match r with
  | .val _ => Steps code c0 ⟨tgt, stk, σ'⟩
  | .unit => Steps code c0 ⟨tgt, stk, σ'⟩
  | .brk => False
  | .cont => False
  | .err c => Fails code c0 c σ'
  | .oof => True

/-- the body phase: the block's value is popped and control is at the post statement; a
    `continue` lands there too, a `break` at the loop's exit -/
def BodyTo (code : Code) (c0 : Cfg) (pcP pcX : Nat) (stk : List FVal) (r : Out) (σ' : Store) : Prop :=
  match r with
  | .val _ => Steps code c0 ⟨pcP, stk, σ'⟩
  | .cont => Steps code c0 ⟨pcP, stk, σ'⟩
  | .brk => Steps code c0 ⟨pcX, stk, σ'⟩
  | .unit => False
  | .err c => Fails code c0 c σ'
  | .oof => True

/-- the condition phase: a truthy value lands at the body, a falsy one at the exit -/
def CondTo (code : Code) (c0 : Cfg) (pcB pcX : Nat) (stk : List FVal) (r : Out) (σ' : Store) : Prop :=
  match r with
  | .val v => Steps code c0 ⟨if v.truthy = true then pcB else pcX, stk, σ'⟩
  | .unit => False
  | .brk => False
  | .cont => False
  | .err c => Fails code c0 c σ'
  | .oof => True

/-- the generic loop: condition at `pc0` (exit to `pcX`), body at `pcB`, post statement at
    `pcP` ending with the backward jump to `pc0`; by induction on the iteration bound -/
theorem loop_sim {cond body post : Store → Out × Store} {pc0 pcB pcP pcX : Nat} {stk : List FVal}
    (HC : ∀ σ r σ1, cond σ = (r, σ1) → CondTo code ⟨pc0, stk, σ⟩ pcB pcX stk r σ1)
    (HB : ∀ σ r σ1, body σ = (r, σ1) → BodyTo code ⟨pcB, stk, σ⟩ pcP pcX stk r σ1)
    (HP : ∀ σ r σ1, post σ = (r, σ1) → PhaseTo code ⟨pcP, stk, σ⟩ pc0 stk r σ1) :
    ∀ k σ r σ', loopF cond body post k σ = (r, σ') →
      (∀ v, r ≠ .val v) ∧ PhaseTo code ⟨pc0, stk, σ⟩ pcX stk r σ' := by
  intro k
  induction k with
  | zero =>
    intro σ r σ' h
    simp only [loopF] at h; cases h
    exact ⟨(by intro v hv; cases hv), trivial⟩
  | succ k ihk =>
    intro σ r σ' h
    simp only [loopF] at h
    -- the post statement and the next round, from the state after the body
    have after : ∀ σ2, Steps code ⟨pc0, stk, σ⟩ ⟨pcP, stk, σ2⟩ →
        (match post σ2 with
          | (.unit, σ3) => loopF cond body post k σ3
          | (.val _, σ3) => loopF cond body post k σ3
          | other => other) = (r, σ') →
        (∀ v, r ≠ .val v) ∧ PhaseTo code ⟨pc0, stk, σ⟩ pcX stk r σ' := by
      intro σ2 pre0 h
      rcases hp : post σ2 with ⟨rp, σ3⟩
      have P := HP σ2 _ _ hp
      rw [hp] at h
      have next : Steps code ⟨pcP, stk, σ2⟩ ⟨pc0, stk, σ3⟩ → loopF cond body post k σ3 = (r, σ') →
          (∀ v, r ≠ .val v) ∧ PhaseTo code ⟨pc0, stk, σ⟩ pcX stk r σ' := by
        intro P h
        have R := ihk σ3 r σ' h
        have pre : Steps code ⟨pc0, stk, σ⟩ ⟨pc0, stk, σ3⟩ := pre0.trans P
        refine ⟨R.1, ?_⟩
        cases r with
        | val u => exact absurd rfl (R.1 u)
        | unit => exact pre.trans R.2
        | brk => exact R.2
        | cont => exact R.2
        | err c => exact Fails.pre pre R.2
        | oof => trivial
      cases rp with
      | val u => exact next P h
      | unit => exact next P h
      | brk => exact P.elim
      | cont => exact P.elim
      | err c =>
        simp only at h; cases h
        exact ⟨(by intro v hv; cases hv), Fails.pre pre0 P⟩
      | oof =>
        simp only at h; cases h
        exact ⟨(by intro v hv; cases hv), trivial⟩
    rcases seqV_elim h with ⟨v, σ1, hc, h⟩ | ⟨hnv, hx⟩
    · have C := HC σ _ _ hc
      simp only [CondTo] at C
      by_cases ht : v.truthy = true
      · simp only [ht, ↓reduceIte] at h C
        rcases hb : body σ1 with ⟨rb, σ2⟩
        have B := HB σ1 _ _ hb
        rw [hb] at h
        cases rb with
        | val w => exact after σ2 (C.trans B) h
        | cont => exact after σ2 (C.trans B) h
        | brk =>
          simp only at h; cases h
          exact ⟨(by intro v hv; cases hv), C.trans B⟩
        | unit => exact B.elim
        | err c =>
          simp only at h; cases h
          exact ⟨(by intro v hv; cases hv), Fails.pre C B⟩
        | oof =>
          simp only at h; cases h
          exact ⟨(by intro v hv; cases hv), trivial⟩
      · have ht' : v.truthy = false := by simpa using ht
        simp only [ht', Bool.false_eq_true, ↓reduceIte] at h C
        cases h
        exact ⟨(by intro v hv; cases hv), C⟩
    · have C := HC σ _ _ hx
      refine ⟨hnv, ?_⟩
      cases r with
      | val u => exact absurd rfl (hnv u)
      | unit => exact C.elim
      | brk => exact C.elim
      | cont => exact C.elim
      | err c => exact C
      | oof => trivial

/-- from the loop's phases to the statement's `Post` -/
theorem Post.of_loop {n : N} {pc : Nat} {stk : List FVal} {σ σ' : Store} {r : Out}
    (hun : isUnitNode n = true)
    (h : (∀ v, r ≠ .val v) ∧ PhaseTo code ⟨pc, stk, σ⟩ (pc + size n) stk r σ') :
    Post code kb kc n pc stk σ r σ' := by
  cases r with
  | val v => exact absurd rfl (h.1 v)
  | unit => exact ⟨hun, h.2⟩
  | brk => exact h.2.elim
  | cont => exact h.2.elim
  | err c => exact ⟨trivial, h.2⟩
  | oof => exact ⟨trivial, trivial⟩

/-- the body phase of every loop: the block's value is popped; `continue` lands right after
    that `PopTop`, `break` `kbB` slots after the block, from where `hbrk` leads to the exit -/
theorem body_phase (ih : IH code rec) (b : N) (hwb : wf b = true) (hbb : isBlock b = true)
    (kbB pcB pcX : Nat) (stk : List FVal) (hatb : CodeAt code pcB (comp kbB 1 b))
    (hpop : code[pcB + size b]? = some (some .popTop))
    (hbrk : ∀ σ, Steps code ⟨pcB + size b + kbB, stk, σ⟩ ⟨pcX, stk, σ⟩) :
    ∀ σ r σ1, rec b σ = (r, σ1) → BodyTo code ⟨pcB, stk, σ⟩ (pcB + size b + 1) pcX stk r σ1 := by
  intro σ r σ1 h
  have P := ih b hwb kbB 1 pcB stk σ _ _ hatb h
  cases r with
  | val v =>
    have s1 : step code ⟨pcB + size b, v :: stk, σ1⟩ = .ok ⟨pcB + size b + 1, stk, σ1⟩ := by
      rw [step_of hpop]; rfl
    exact P.val_steps.snoc s1
  | unit => have := P.1; simp only [Shape] at this; rw [isBlock_not_unit hbb] at this; cases this
  | brk => exact Steps.trans P.2 (hbrk σ1)
  | cont => exact P.2
  | err c => exact P.2
  | oof => trivial

/-- the condition phase of `for c { }` and `for i; c; p { }` -/
theorem cond_phase (ih : IH code rec) (c : N) (hwc : wf c = true) (hec : isE c = true) (hxc : escapes c = false)
    (pc0 d : Nat) (stk : List FVal) (hatc : CodeAt code pc0 (comp 0 0 c))
    (hpjf : code[pc0 + size c]? = some (some (.pjf d))) :
    ∀ σ r σ1, rec c σ = (r, σ1) →
      CondTo code ⟨pc0, stk, σ⟩ (pc0 + size c + 2) (pc0 + size c + d) stk r σ1 := by
  intro σ r σ1 h
  have P := ih c hwc 0 0 pc0 stk σ _ _ hatc h
  cases r with
  | val v =>
    show Steps code _ _
    have s1 : step code ⟨pc0 + size c, v :: stk, σ1⟩
        = .ok ⟨if v.truthy = true then pc0 + size c + 2 else pc0 + size c + d, stk, σ1⟩ := by
      rw [step_of hpjf]; rfl
    exact P.val_steps.snoc s1
  | unit => have := P.1; simp only [Shape] at this; rw [isE_not_unit hec] at this; cases this
  | brk => have := P.1; simp only [Shape] at this; rw [hxc] at this; cases this
  | cont => have := P.1; simp only [Shape] at this; rw [hxc] at this; cases this
  | err e => exact P.2
  | oof => trivial

theorem sim_forcond (ih : IH code rec) (c b : N)
    (hwf : wf (.forcond c b) = true) (pc : Nat) (stk : List FVal) (σ : Store) (res : Out) (σ' : Store)
    (hat : CodeAt code pc (comp kb kc (.forcond c b))) (he : evNode fuel rec (.forcond c b) σ = (res, σ')) :
    Post code kb kc (.forcond c b) pc stk σ res σ' := by
  simp only [wf, Bool.and_eq_true, Bool.not_eq_true'] at hwf
  obtain ⟨⟨⟨⟨hec, hbb⟩, hxc⟩, hwc⟩, hwb⟩ := hwf
  simp only [comp] at hat
  simp only [evNode] at he
  have hlen : size (.forcond c b) = size c + size b + 6 := by simp [size]
  have hatc := hat.append_left.append_left.append_left.append_left.append_left
  have hpjf := CodeAt.two hat.append_left.append_left.append_left.append_left.append_right
  have hatb := hat.append_left.append_left.append_left.append_right
  have hpop := CodeAt.one hat.append_left.append_left.append_right
  have hjb := CodeAt.two hat.append_left.append_right
  have hnop := CodeAt.one hat.append_right
  simp only [List.length_append, two_length, one_length, comp_length] at hpjf hatb hpop hjb hnop
  have hatb := hatb.cast (q := pc + size c + 2) (by omega)
  have hpop := at_eq hpop (q := pc + size c + 2 + size b) (by omega)
  have hjb := at_eq hjb (q := pc + size c + 2 + size b + 1) (by omega)
  have hnop := at_eq hnop (q := pc + size c + 2 + size b + 3) (by omega)
  have HC := cond_phase ih c hwc hec hxc pc (size b + 6) stk hatc hpjf
  have HB := body_phase ih b hwb hbb 3 (pc + size c + 2) (pc + size c + (size b + 6)) stk hatb hpop
    (by
      intro σ
      have s1 : step code ⟨pc + size c + 2 + size b + 3, stk, σ⟩ = .ok ⟨pc + size c + 2 + size b + 3 + 1, stk, σ⟩ := by
        rw [step_of hnop]; rfl
      exact (Steps.one s1).cast (by omega))
  have HP : ∀ σ r σ1, (fun σ => ((Out.unit, σ) : Out × Store)) σ = (r, σ1) →
      PhaseTo code ⟨pc + size c + 2 + size b + 1, stk, σ⟩ pc stk r σ1 := by
    intro σ r σ1 h
    cases h
    show Steps code _ _
    have s1 : step code ⟨pc + size c + 2 + size b + 1, stk, σ⟩
        = .ok ⟨pc + size c + 2 + size b + 1 - (size c + size b + 3), stk, σ⟩ := by
      rw [step_of hjb]; rfl
    exact (Steps.one s1).cast (by omega)
  have R := loop_sim HC HB HP fuel σ res σ' he
  apply Post.of_loop rfl
  rw [hlen]
  refine ⟨R.1, ?_⟩
  have e : pc + size c + (size b + 6) = pc + (size c + size b + 6) := by omega
  rw [← e]; exact R.2

theorem sim_forever (ih : IH code rec) (b : N)
    (hwf : wf (.forever b) = true) (pc : Nat) (stk : List FVal) (σ : Store) (res : Out) (σ' : Store)
    (hat : CodeAt code pc (comp kb kc (.forever b))) (he : evNode fuel rec (.forever b) σ = (res, σ')) :
    Post code kb kc (.forever b) pc stk σ res σ' := by
  simp only [wf, Bool.and_eq_true] at hwf
  obtain ⟨hbb, hwb⟩ := hwf
  simp only [comp] at hat
  simp only [evNode] at he
  have hlen : size (.forever b) = size b + 4 := by simp [size]
  have hatb := hat.append_left.append_left.append_left
  have hpop := CodeAt.one hat.append_left.append_left.append_right
  have hjb := CodeAt.two hat.append_left.append_right
  have hnop := CodeAt.one hat.append_right
  simp only [List.length_append, one_length, two_length, comp_length] at hpop hjb hnop
  have HC : ∀ σ r σ1, (fun σ => ((Out.val (.bool true), σ) : Out × Store)) σ = (r, σ1) →
      CondTo code ⟨pc, stk, σ⟩ pc (pc + size (.forever b)) stk r σ1 := by
    intro σ r σ1 h
    cases h
    exact .refl _
  have HB := body_phase ih b hwb hbb 3 pc (pc + size (.forever b)) stk hatb hpop
    (by
      intro σ
      have s1 : step code ⟨pc + size b + 3, stk, σ⟩ = .ok ⟨pc + size b + 3 + 1, stk, σ⟩ := by
        rw [step_of (at_eq hnop (by omega))]; rfl
      exact (Steps.one s1).cast (by rw [hlen]; omega))
  have HP : ∀ σ r σ1, (fun σ => ((Out.unit, σ) : Out × Store)) σ = (r, σ1) →
      PhaseTo code ⟨pc + size b + 1, stk, σ⟩ pc stk r σ1 := by
    intro σ r σ1 h
    cases h
    show Steps code _ _
    have s1 : step code ⟨pc + size b + 1, stk, σ⟩
        = .ok ⟨pc + size b + 1 - (size b + 1), stk, σ⟩ := by
      rw [step_of (at_eq hjb (by omega))]; rfl
    exact (Steps.one s1).cast (by omega)
  exact Post.of_loop rfl (loop_sim HC HB HP fuel σ res σ' he)

theorem isPost_cases {n : N} (h : isPost n = true) : isUnitNode n = true ∨ leaves n = true := by
  cases n <;> simp_all [isPost, isUnitNode, leaves]

theorem sim_for3 (ih : IH code rec) (i c p b : N)
    (hwf : wf (.for3 i c p b) = true) (pc : Nat) (stk : List FVal) (σ : Store) (res : Out) (σ' : Store)
    (hat : CodeAt code pc (comp kb kc (.for3 i c p b))) (he : evNode fuel rec (.for3 i c p b) σ = (res, σ')) :
    Post code kb kc (.for3 i c p b) pc stk σ res σ' := by
  simp only [wf, Bool.and_eq_true, Bool.not_eq_true'] at hwf
  obtain ⟨⟨⟨⟨⟨⟨⟨⟨⟨⟨hii, hec⟩, hpp⟩, hbb⟩, hxi⟩, hxc⟩, hxp⟩, hwi⟩, hwc⟩, hwp⟩, hwb⟩ := hwf
  simp only [comp] at hat
  simp only [evNode] at he
  have hlen : size (.for3 i c p b) = size i + size c + size b
      + (size p + (if leaves p = true then 1 else 0)) + 5 := by
    simp [size]
  have hati := hat.append_left.append_left.append_left.append_left.append_left.append_left.append_left
  have hatc := hat.append_left.append_left.append_left.append_left.append_left.append_left.append_right
  have hpjf := CodeAt.two hat.append_left.append_left.append_left.append_left.append_left.append_right
  have hatb := hat.append_left.append_left.append_left.append_left.append_right
  have hpop := CodeAt.one hat.append_left.append_left.append_left.append_right
  have hatp := hat.append_left.append_left.append_right
  have hpp2 := hat.append_left.append_right
  have hjb := CodeAt.two hat.append_right
  simp only [List.length_append, two_length, one_length, comp_length] at hatc hpjf hatb hpop hatp hpp2 hjb
  -- positions
  have hpjf := at_eq hpjf (q := pc + size i + size c) (by omega)
  have hatb := hatb.cast (q := pc + size i + size c + 2) (by omega)
  have hpop := at_eq hpop (q := pc + size i + size c + 2 + size b) (by omega)
  have hatp := hatp.cast (q := pc + size i + size c + 2 + size b + 1) (by omega)
  have hpp2 := hpp2.cast (q := pc + size i + size c + 2 + size b + 1 + size p) (by omega)
  -- the init statement
  rcases hi : rec i σ with ⟨r1, σ1⟩
  have Pi := ih i hwi 0 0 pc stk σ _ _ hati hi
  rw [hi] at he
  cases r1 with
  | val v => have := Pi.1; simp only [Shape] at this; rw [isInit_unit hii] at this; cases this
  | brk => have := Pi.1; simp only [Shape] at this; rw [hxi] at this; cases this
  | cont => have := Pi.1; simp only [Shape] at this; rw [hxi] at this; cases this
  | err e => simp only at he; cases he; exact ⟨trivial, Pi.2⟩
  | oof => simp only at he; cases he; exact ⟨trivial, trivial⟩
  | unit =>
    simp only at he
    have HC := cond_phase ih c hwc hec hxc (pc + size i)
      (size b + (size p + (if leaves p = true then 1 else 0)) + 5) stk hatc hpjf
    have HB := body_phase ih b hwb hbb ((size p + (if leaves p = true then 1 else 0)) + 3)
      (pc + size i + size c + 2)
      (pc + size i + size c + (size b + (size p + (if leaves p = true then 1 else 0)) + 5)) stk hatb hpop
      (by intro σ; exact (Steps.refl _).cast (by omega))
    have HP : ∀ σ r σ1, rec p σ = (r, σ1) →
        PhaseTo code ⟨pc + size i + size c + 2 + size b + 1, stk, σ⟩ (pc + size i) stk r σ1 := by
      intro σ r σ1 h
      have P := ih p hwp 0 0 _ stk σ _ _ hatp h
      cases r with
      | val v =>
        have hl : leaves p = true := by
          rcases isPost_cases hpp with hu | hl
          · have := P.1; simp only [Shape] at this; rw [hu] at this; cases this
          · exact hl
        simp only [hl, ↓reduceIte] at hpp2 hjb
        have hpop2 := CodeAt.one hpp2
        have s1 : step code ⟨pc + size i + size c + 2 + size b + 1 + size p, v :: stk, σ1⟩
            = .ok ⟨pc + size i + size c + 2 + size b + 1 + size p + 1, stk, σ1⟩ := by
          rw [step_of hpop2]; rfl
        have s2 : step code ⟨pc + size i + size c + 2 + size b + 1 + size p + 1, stk, σ1⟩
            = .ok ⟨pc + size i + size c + 2 + size b + 1 + size p + 1
                - (size c + size b + (size p + 1) + 3), stk, σ1⟩ := by
          rw [step_of (at_eq hjb (by simp only [one_length]; omega))]; rfl
        show Steps code _ _
        exact ((P.val_steps.snoc s1).snoc s2).cast (by omega)
      | unit =>
        have hu : isUnitNode p = true := P.1
        have hl := unit_not_leaves hu
        simp only [hl, Bool.false_eq_true, ↓reduceIte] at hjb
        have s2 : step code ⟨pc + size i + size c + 2 + size b + 1 + size p, stk, σ1⟩
            = .ok ⟨pc + size i + size c + 2 + size b + 1 + size p
                - (size c + size b + (size p + 0) + 3), stk, σ1⟩ := by
          rw [step_of (at_eq hjb (by simp only [List.length_nil]; omega))]; rfl
        show Steps code _ _
        exact (P.unit_steps.snoc s2).cast (by omega)
      | brk => have := P.1; simp only [Shape] at this; rw [hxp] at this; cases this
      | cont => have := P.1; simp only [Shape] at this; rw [hxp] at this; cases this
      | err e => exact P.2
      | oof => trivial
    have R := loop_sim HC HB HP fuel σ1 res σ' he
    have pre : Steps code ⟨pc, stk, σ⟩ ⟨pc + size i, stk, σ1⟩ := Pi.unit_steps
    apply Post.of_loop rfl
    rw [hlen]
    refine ⟨R.1, ?_⟩
    have e : pc + size i + size c
        + (size b + (size p + (if leaves p = true then 1 else 0)) + 5)
        = pc + (size i + size c + size b
          + (size p + (if leaves p = true then 1 else 0)) + 5) := by omega
    rw [← e]
    have R2 := R.2
    cases res with
    | val u => exact absurd rfl (R.1 u)
    | unit => exact pre.trans R2
    | brk => exact R2
    | cont => exact R2
    | err c => exact Fails.pre pre R2
    | oof => trivial

/-! ### switch -/

/-- inside a switch (the subject `sv` stays on the stack): a sub-evaluation that fails -/
def ErrTo (code : Code) (c0 : Cfg) (o : Out) (σ' : Store) : Prop :=
  match o with
  | .err c => Fails code c0 c σ'
  | .oof => True
  | _ => False

/-- inside a switch: the selected body's value lands on the `Swap` at `W`, above the subject -/
def SwTo (code : Code) (c0 : Cfg) (W : Nat) (sv : FVal) (stk : List FVal) (r : Out) (σ' : Store) : Prop :=
  match r with
  | .val v => Steps code c0 ⟨W, v :: sv :: stk, σ'⟩
  | .err c => Fails code c0 c σ'
  | .oof => True
  | _ => False

theorem SwTo.pre {c0 c1 : Cfg} {W : Nat} {sv : FVal} {stk : List FVal} {r : Out} {σ' : Store}
    (h : Steps code c0 c1) (l : SwTo code c1 W sv stk r σ') : SwTo code c0 W sv stk r σ' := by
  cases r with
  | val v => exact h.trans l
  | err c => exact Fails.pre h l
  | oof => trivial
  | unit => exact l
  | brk => exact l
  | cont => exact l

/-- a block (or any operand no break/continue escapes) run inside a switch -/
theorem sw_body (ih : IH code rec) (b : N) (hwb : wf b = true) (hub : isUnitNode b = false) (hxb : escapes b = false)
    (pcB : Nat) (sv : FVal) (stk : List FVal) (hatb : CodeAt code pcB (comp 0 0 b)) (σ : Store) (r : Out) (σ' : Store)
    (h : rec b σ = (r, σ')) :
    SwTo code ⟨pcB, sv :: stk, σ⟩ (pcB + size b) sv stk r σ' := by
  have P := ih b hwb 0 0 pcB (sv :: stk) σ _ _ hatb h
  cases r with
  | val v => exact P.val_steps
  | unit => have := P.1; simp only [Shape] at this; rw [hub] at this; cases this
  | brk => have := P.1; simp only [Shape] at this; rw [hxb] at this; cases this
  | cont => have := P.1; simp only [Shape] at this; rw [hxb] at this; cases this
  | err c => exact P.2
  | oof => trivial

/-- the comparisons of one case: on a match control is `k` slots after them (at the case's
    body), otherwise right after them; the subject stays on the stack -/
theorem vals_sim (ih : IH code rec) (sv : FVal) (stk : List FVal) :
    ∀ (vs : N), wfVals vs = true → ∀ (k P : Nat) (σ : Store) (res : Except Out Bool) (σ' : Store),
      CodeAt code P (compVals k vs) → matchValsF rec sv vs σ = (res, σ') →
      (match res with
       | .ok true => Steps code ⟨P, sv :: stk, σ⟩ ⟨P + valsLen vs + k, sv :: stk, σ'⟩
       | .ok false => Steps code ⟨P, sv :: stk, σ⟩ ⟨P + valsLen vs, sv :: stk, σ'⟩
       | .error o => ErrTo code ⟨P, sv :: stk, σ⟩ o σ') := by
  intro vs
  induction vs with
  | nilL =>
    intro _ k P σ res σ' _ he
    simp only [matchValsF] at he; cases he
    simp only [valsLen]; exact .refl _
  | cons v vs _ ihvs =>
    intro hw k P σ res σ' hat he
    simp only [wfVals, Bool.and_eq_true, Bool.not_eq_true'] at hw
    obtain ⟨⟨⟨hev, hxv⟩, hwv⟩, hwvs⟩ := hw
    simp only [compVals] at hat
    simp only [matchValsF] at he
    have hcopy := CodeAt.two hat.append_left.append_left.append_left.append_left
    have hatv := hat.append_left.append_left.append_left.append_right
    have hcmp := CodeAt.two hat.append_left.append_left.append_right
    have hpjt := CodeAt.two hat.append_left.append_right
    have hatvs := hat.append_right
    simp only [List.length_append, two_length, comp_length] at hatv hcmp hpjt hatvs
    have hlen : valsLen (.cons v vs) = size v + 6 + valsLen vs := by simp [valsLen]
    have s1 : step code ⟨P, sv :: stk, σ⟩ = .ok ⟨P + 2, sv :: sv :: stk, σ⟩ := by rw [step_of hcopy]; rfl
    rcases hv : rec v σ with ⟨o, σ1⟩
    rw [hv] at he
    have Pv := ih v hwv 0 0 (P + 2) (sv :: sv :: stk) σ _ _ hatv hv
    cases o with
    | val x =>
      simp only at he
      have hcmp := at_eq hcmp (q := P + 2 + size v) (by omega)
      have s2 : step code ⟨P + 2 + size v, x :: sv :: sv :: stk, σ1⟩
          = .ok ⟨P + 2 + size v + 2, .bool (sv == x) :: sv :: stk, σ1⟩ := by
        rw [step_of hcmp]; simp [execIns, vCompareF]
      have hpjt := at_eq hpjt (q := P + 2 + size v + 2) (by omega)
      have pre := ((Steps.one s1).trans Pv.val_steps).snoc s2
      by_cases heq : (sv == x) = true
      · simp only [heq, ↓reduceIte] at he; cases he
        have s3 : step code ⟨P + 2 + size v + 2, .bool (sv == x) :: sv :: stk, σ'⟩
            = .ok ⟨P + 2 + size v + 2 + (valsLen vs + k + 2), sv :: stk, σ'⟩ := by
          rw [step_of hpjt]; simp [execIns, FVal.truthy, heq]
        show Steps code _ _
        rw [hlen]
        exact (pre.snoc s3).cast (by omega)
      · have heq' : (sv == x) = false := by simpa using heq
        simp only [heq', Bool.false_eq_true, ↓reduceIte] at he
        have s3 : step code ⟨P + 2 + size v + 2, .bool (sv == x) :: sv :: stk, σ1⟩
            = .ok ⟨P + 2 + size v + 2 + 2, sv :: stk, σ1⟩ := by
          rw [step_of hpjt]; simp [execIns, FVal.truthy, heq']
        have R := ihvs hwvs k (P + 2 + size v + 2 + 2) σ1 res σ' (hatvs.cast (by omega)) he
        have pre2 := pre.snoc s3
        cases res with
        | ok b =>
          cases b with
          | true => exact (pre2.trans R).cast (by rw [hlen]; omega)
          | false => exact (pre2.trans R).cast (by rw [hlen]; omega)
        | error o =>
          cases o with
          | err c => exact Fails.pre pre2 R
          | oof => trivial
          | val _ => exact R
          | unit => exact R
          | brk => exact R
          | cont => exact R
    | unit => have := Pv.1; simp only [Shape] at this; rw [isE_not_unit hev] at this; cases this
    | brk => have := Pv.1; simp only [Shape] at this; rw [hxv] at this; cases this
    | cont => have := Pv.1; simp only [Shape] at this; rw [hxv] at this; cases this
    | err c => simp only at he; cases he; exact Fails.pre (.one s1) Pv.2
    | oof => simp only at he; cases he; trivial
  | _ => intro hw; simp [wfVals] at hw

/-- facts about the default clause of a well-formed case list -/
theorem dflt_facts : ∀ (cs : N), wfCases cs = true →
    (match dfltBody cs with
     | some b => compDflt cs = comp 0 0 b ∧ defLen cs = size b ∧ wf b = true ∧ isBlock b = true ∧ escapes b = false
     | none => compDflt cs = one .nil_ ∧ defLen cs = 1) := by
  intro cs
  induction cs with
  | nilL => intro _; simp [dfltBody, compDflt, defLen]
  | cons h t _ iht =>
    intro hw
    simp only [wfCases, Bool.and_eq_true] at hw
    obtain ⟨hwh, hwt⟩ := hw
    cases h with
    | case_ vals body =>
      have := iht hwt
      simp only [dfltBody, compDflt, defLen, isDefault, Bool.false_eq_true, ↓reduceIte]
      exact this
    | default_ b =>
      simp only [wfCase, Bool.and_eq_true, Bool.not_eq_true'] at hwh
      simp [dfltBody, compDflt, defLen, isDefault, compDfltBody, dfltBodyLen, hwh.1.1, hwh.1.2, hwh.2]
    | _ => simp [wfCase] at hwh
  | _ => intro hw; simp [wfCases] at hw

/-- the two sections of a switch, for a suffix `cs` of the case list whose comparisons sit at
    `P` and whose bodies sit `before` slots into the body section `Bs`: whatever
    `evCasesF` selects (a case body, the default, nil), its value lands on the `Swap` at `W` -/
theorem cases_sim (ih : IH code rec) (sv : FVal) (stk : List FVal) (dflt : Option N) (E Bs D W d : Nat)
    (hBs : Bs = E + 2) (hW : W = D + d)
    (hjd : ∀ σ, Steps code ⟨E, sv :: stk, σ⟩ ⟨D, sv :: stk, σ⟩)
    (hdef : ∀ σ res σ', runDflt rec dflt σ = (res, σ') → SwTo code ⟨D, sv :: stk, σ⟩ W sv stk res σ') :
    ∀ (cs : N), wfCases cs = true → ∀ (before P : Nat) (σ : Store) (res : Out) (σ' : Store),
      CodeAt code P (compCmp before cs) → P + cmpLen cs = E →
      CodeAt code (Bs + before) (compBodies d cs) → Bs + before + bodiesLen cs = D →
      evCasesF rec sv dflt cs σ = (res, σ') →
      SwTo code ⟨P, sv :: stk, σ⟩ W sv stk res σ' := by
  intro cs
  induction cs with
  | nilL =>
    intro _ before P σ res σ' _ hP _ _ he
    simp only [cmpLen, Nat.add_zero] at hP
    subst hP
    simp only [evCasesF] at he
    exact SwTo.pre (hjd σ) (hdef σ res σ' he)
  | cons h t _ iht =>
    intro hw before P σ res σ' hatc hP hatb hB he
    simp only [wfCases, Bool.and_eq_true] at hw
    obtain ⟨hwh, hwt⟩ := hw
    cases h with
    | case_ vals body =>
      simp only [wfCase, Bool.and_eq_true, Bool.not_eq_true'] at hwh
      obtain ⟨⟨⟨hwv, hbb⟩, hxb⟩, hwb⟩ := hwh
      simp only [compCmp, compCmpCase, caseBodyLen] at hatc
      simp only [compBodies, compBody] at hatb
      simp only [cmpLen, caseCmpLen] at hP
      simp only [bodiesLen, caseBodyLen] at hB
      simp only [evCasesF] at he
      have hatv := hatc.append_left
      have hatc' := hatc.append_right
      have hatbody := hatb.append_left.append_left
      have hjf := CodeAt.two hatb.append_left.append_right
      have hatb' := hatb.append_right
      simp only [List.length_append, two_length, comp_length, compVals_length] at hatc' hjf hatb'
      rcases hm : matchValsF rec sv vals σ with ⟨m, σ1⟩
      rw [hm] at he
      have V := vals_sim ih sv stk vals hwv (cmpLen t + 2 + before) P σ m σ1 hatv hm
      cases m with
      | ok b =>
        cases b with
        | true =>
          simp only at he V
          have V' : Steps code ⟨P, sv :: stk, σ⟩ ⟨Bs + before, sv :: stk, σ1⟩ := V.cast (by omega)
          have B := sw_body ih body hwb (isBlock_not_unit hbb) hxb (Bs + before) sv stk hatbody σ1 res σ' he
          cases res with
          | val v =>
            have s1 : step code ⟨Bs + before + size body, v :: sv :: stk, σ'⟩
                = .ok ⟨Bs + before + size body + (bodiesLen t + d + 2), v :: sv :: stk, σ'⟩ := by
              rw [step_of hjf]; rfl
            exact ((V'.trans B).snoc s1).cast (by omega)
          | err c => exact Fails.pre V' B
          | oof => trivial
          | unit => exact B
          | brk => exact B
          | cont => exact B
        | false =>
          simp only at he V
          exact SwTo.pre V (iht hwt (before + (size body + 2)) (P + valsLen vals) σ1 res σ' hatc' (by omega)
            (hatb'.cast (by omega)) (by omega) he)
      | error o =>
        simp only at he V; cases he
        cases res with
        | err c => exact V
        | oof => trivial
        | val _ => exact V.elim
        | unit => exact V.elim
        | brk => exact V.elim
        | cont => exact V.elim
    | default_ b =>
      simp only [compCmp, compCmpCase, caseBodyLen, List.nil_append, Nat.add_zero] at hatc
      simp only [compBodies, compBody, List.nil_append] at hatb
      simp only [cmpLen, caseCmpLen, Nat.zero_add] at hP
      simp only [bodiesLen, caseBodyLen, Nat.zero_add] at hB
      simp only [evCasesF] at he
      exact iht hwt before P σ res σ' hatc hP hatb hB he
    | _ => simp [wfCase] at hwh
  | _ => intro hw; simp [wfCases] at hw

theorem sim_switch (ih : IH code rec) (subj cases : N)
    (hwf : wf (.switch subj cases) = true) (pc : Nat) (stk : List FVal) (σ : Store) (res : Out) (σ' : Store)
    (hat : CodeAt code pc (comp kb kc (.switch subj cases))) (he : evNode fuel rec (.switch subj cases) σ = (res, σ')) :
    Post code kb kc (.switch subj cases) pc stk σ res σ' := by
  simp only [wf, Bool.and_eq_true, Bool.not_eq_true'] at hwf
  obtain ⟨⟨⟨⟨hes, hxs⟩, hws⟩, hwc⟩, _⟩ := hwf
  simp only [comp] at hat
  simp only [evNode] at he
  have hlen : size (.switch subj cases) = size subj + cmpLen cases + 2 + bodiesLen cases + defLen cases + 3 := by
    simp [size]
  have hats := hat.append_left.append_left.append_left.append_left.append_left.append_left
  have hatc := hat.append_left.append_left.append_left.append_left.append_left.append_right
  have hjd := CodeAt.two hat.append_left.append_left.append_left.append_left.append_right
  have hatb := hat.append_left.append_left.append_left.append_right
  have hatd := hat.append_left.append_left.append_right
  have hswap := CodeAt.two hat.append_left.append_right
  have hpop := CodeAt.one hat.append_right
  simp only [List.length_append, two_length, comp_length, compCmp_length, compBodies_length, compDflt_length]
    at hatc hjd hatb hatd hswap hpop
  rcases seqV_elim he with ⟨sv, σ1, hs, he⟩ | ⟨hnv, hx⟩
  · have Ps := (ih subj hws 0 0 pc stk σ _ _ hats hs).val_steps
    -- positions
    have hjd' : ∀ σ, Steps code ⟨pc + size subj + cmpLen cases, sv :: stk, σ⟩
        ⟨pc + size subj + cmpLen cases + 2 + bodiesLen cases, sv :: stk, σ⟩ := by
      intro σ
      have s1 : step code ⟨pc + size subj + cmpLen cases, sv :: stk, σ⟩
          = .ok ⟨pc + size subj + cmpLen cases + (bodiesLen cases + 2), sv :: stk, σ⟩ := by
        rw [step_of (at_eq hjd (by omega))]; rfl
      exact (Steps.one s1).cast (by omega)
    have F := dflt_facts cases hwc
    have hdef : ∀ σ res σ', runDflt rec (dfltBody cases) σ = (res, σ') →
        SwTo code ⟨pc + size subj + cmpLen cases + 2 + bodiesLen cases, sv :: stk, σ⟩
          (pc + size subj + cmpLen cases + 2 + bodiesLen cases + defLen cases) sv stk res σ' := by
      intro σ res σ' h
      cases hd : dfltBody cases with
      | some b =>
        rw [hd] at F h
        simp only [runDflt] at F h
        obtain ⟨hc, hl, hwb, hbb, hxb⟩ := F
        rw [hc] at hatd
        rw [hl]
        exact sw_body ih b hwb (isBlock_not_unit hbb) hxb _ sv stk (hatd.cast (by omega)) σ res σ' h
      | none =>
        rw [hd] at F h
        simp only [runDflt] at F h
        obtain ⟨hc, hl⟩ := F
        rw [hc] at hatd
        cases h
        have hnil := CodeAt.one hatd
        rw [hl]
        have s1 : step code ⟨pc + size subj + cmpLen cases + 2 + bodiesLen cases, sv :: stk, σ⟩
            = .ok ⟨pc + size subj + cmpLen cases + 2 + bodiesLen cases + 1, .nil :: sv :: stk, σ⟩ := by
          rw [step_of (at_eq hnil (by omega))]; rfl
        exact Steps.one s1
    have R := cases_sim ih sv stk (dfltBody cases) (pc + size subj + cmpLen cases)
      (pc + size subj + cmpLen cases + 2) (pc + size subj + cmpLen cases + 2 + bodiesLen cases)
      (pc + size subj + cmpLen cases + 2 + bodiesLen cases + defLen cases) (defLen cases) rfl rfl hjd' hdef
      cases hwc 0 (pc + size subj) σ1 res σ' hatc rfl (hatb.cast (by omega)) (by omega) he
    cases res with
    | val v =>
      have s1 : step code ⟨pc + size subj + cmpLen cases + 2 + bodiesLen cases + defLen cases, v :: sv :: stk, σ'⟩
          = .ok ⟨pc + size subj + cmpLen cases + 2 + bodiesLen cases + defLen cases + 2, sv :: v :: stk, σ'⟩ := by
        rw [step_of (at_eq hswap (by omega))]; rfl
      have s2 : step code ⟨pc + size subj + cmpLen cases + 2 + bodiesLen cases + defLen cases + 2, sv :: v :: stk, σ'⟩
          = .ok ⟨pc + size subj + cmpLen cases + 2 + bodiesLen cases + defLen cases + 2 + 1, v :: stk, σ'⟩ := by
        rw [step_of (at_eq hpop (by omega))]; rfl
      refine ⟨rfl, ?_⟩
      show Steps code _ ⟨_, v :: stk, _⟩
      rw [hlen]
      exact (((Ps.trans R).snoc s1).snoc s2).cast (by omega)
    | err c => exact ⟨trivial, Fails.pre Ps R⟩
    | oof => exact ⟨trivial, trivial⟩
    | unit => exact R.elim
    | brk => exact R.elim
    | cont => exact R.elim
  · exact Post.propagate (.refl _) (ih subj hws 0 0 pc stk σ _ _ hats hx) hnv (isE_not_unit hes) hxs

/-- every node form of the fragment: if the sub-nodes are simulated, so is the node -/
theorem evNode_sim (ih : IH code rec) (fuel : Nat) : IH code (evNode fuel rec) := by
  intro n hwf kb kc pc stk σ r σ' hat he
  cases n with
  | nilLit => exact sim_leaf _ .nil_ .nil 1 pc stk σ r σ' rfl (CodeAt.one hat) rfl rfl (by simpa [evNode] using he)
  | none_ => exact sim_leaf _ .nil_ .nil 1 pc stk σ r σ' rfl (CodeAt.one hat) rfl rfl (by simpa [evNode] using he)
  | nilL => exact sim_leaf _ .nil_ .nil 1 pc stk σ r σ' rfl (CodeAt.one hat) rfl rfl (by simpa [evNode] using he)
  | int i => exact sim_leaf _ (.constInt i) (.int i) 2 pc stk σ r σ' rfl (CodeAt.two hat) rfl rfl (by simpa [evNode] using he)
  | str s => exact sim_leaf _ (.constStr s) (.str s) 2 pc stk σ r σ' rfl (CodeAt.two hat) rfl rfl (by simpa [evNode] using he)
  | id x => exact sim_leaf _ (.loadG x) (σ.get x) 2 pc stk σ r σ' rfl (CodeAt.two hat) rfl rfl (by simpa [evNode] using he)
  | bool b =>
    exact sim_leaf _ (if b then .true_ else .false_) (.bool b) 1 pc stk σ r σ' rfl (CodeAt.one hat) rfl
      (by cases b <;> rfl) (by simpa [evNode] using he)
  | «infix» op l r =>
    by_cases hand : op = .and
    · subst hand; exact sim_and ih l r hwf pc stk σ _ σ' hat he
    · by_cases hor : op = .or
      · subst hor; exact sim_or ih l r hwf pc stk σ _ σ' hat he
      · exact sim_infix ih op l r hand hor hwf pc stk σ _ σ' hat he
  | neg e => exact sim_neg ih e hwf pc stk σ r σ' hat he
  | not e => exact sim_not ih e hwf pc stk σ r σ' hat he
  | tern c a b =>
    simp only [wf, Bool.and_eq_true, Bool.not_eq_true'] at hwf
    obtain ⟨⟨⟨⟨⟨⟨⟨⟨hec, hea⟩, heb⟩, hxc⟩, _⟩, _⟩, hwc⟩, hwa⟩, hwb⟩ := hwf
    exact sim_cond ih _ c a b (by simp only [comp]) (by simp [size]) rfl (by simp [escapes]) hwc hwa hwb
      (isE_not_unit hec) (isE_not_unit hea) (isE_not_unit heb) hxc pc stk σ r σ' hat (by simpa only [evNode] using he)
  | if_ c t e =>
    simp only [wf, Bool.and_eq_true, Bool.not_eq_true'] at hwf
    obtain ⟨⟨⟨⟨⟨⟨hec, hbt⟩, hee⟩, hxc⟩, hwc⟩, hwt⟩, hwe⟩ := hwf
    exact sim_cond ih _ c t e (by simp only [comp]) (by simp [size]) rfl (by simp [escapes]) hwc hwt hwe
      (isE_not_unit hec) (isBlock_not_unit hbt) (isElse_not_unit hee) hxc pc stk σ r σ' hat
      (by simpa only [evNode] using he)
  | block s =>
    simp only [wf, Bool.and_eq_true] at hwf
    simp only [comp] at hat
    simp only [evNode] at he
    exact Post.congr (by simp [size]) (by rw [isL_not_unit hwf.1]; rfl) (by simp [escapes])
      (ih s hwf.2 kb kc pc stk σ r σ' hat he)
  | prog s =>
    simp only [wf, Bool.and_eq_true] at hwf
    simp only [comp] at hat
    simp only [evNode] at he
    exact Post.congr (by simp [size]) (by rw [isL_not_unit hwf.1.1]; rfl) (by simp [escapes])
      (ih s hwf.2 kb kc pc stk σ r σ' hat he)
  | expr e =>
    simp only [wf, Bool.and_eq_true] at hwf
    simp only [comp] at hat
    simp only [evNode] at he
    exact Post.congr (by simp [size]) (by rw [isE_not_unit hwf.1]; rfl) (by simp [escapes])
      (ih e hwf.2 kb kc pc stk σ r σ' hat he)
  | cons h t => exact sim_cons ih h t hwf pc stk σ r σ' hat he
  | var x e => exact sim_var ih x e hwf pc stk σ r σ' hat he
  | assign x op e => exact sim_assign ih x op e hwf pc stk σ r σ' hat he
  | «postfix» x inc => exact sim_postfix x inc pc stk σ r σ' hat he
  | break_ => exact sim_ctl true pc stk σ r σ' hat (by simpa [evNode] using he)
  | continue_ => exact sim_ctl false pc stk σ r σ' hat (by simpa [evNode] using he)
  | forcond c b => exact sim_forcond ih c b hwf pc stk σ r σ' hat he
  | forever b => exact sim_forever ih b hwf pc stk σ r σ' hat he
  | for3 i c p b => exact sim_for3 ih i c p b hwf pc stk σ r σ' hat he
  | switch subj cases => exact sim_switch ih subj cases hwf pc stk σ r σ' hat he
  | _ => simp [wf] at hwf

/-- the simulation, for every fuel: induction on fuel only (each node evaluates its sub-nodes
    with one unit of fuel less; loops iterate inside `loop_sim`) -/
theorem ev_sim (code : Code) : ∀ f, IH code (ev f)
  | 0 => by
    intro n _ kb kc pc stk σ r σ' _ he
    simp only [ev] at he; cases he
    exact ⟨trivial, trivial⟩
  | f + 1 => by
    intro n hwf kb kc pc stk σ r σ' hat he
    exact evNode_sim (ev_sim code f) f n hwf kb kc pc stk σ r σ' hat he

/-! ### from `Steps` to the fuel-indexed `run` -/

theorem run_of_steps {code : Code} {a b : Cfg} (h : Steps code a b) :
    ∃ n, ∀ k, run code (n + k) a = run code k b := by
  induction h with
  | refl c => exact ⟨0, fun k => by rw [Nat.zero_add]⟩
  | cons hs _ ih =>
    obtain ⟨n, hn⟩ := ih
    refine ⟨n + 1, fun k => ?_⟩
    have : n + 1 + k = (n + k) + 1 := by omega
    rw [this, run, hs]
    exact hn k

/-- once the VM has halted, more fuel does not change the outcome -/
theorem run_mono {code : Code} : ∀ (k : Nat) (c : Cfg) (res : RunRes) (σ : Store),
    run code k c = (res, σ) → res ≠ .running → run code (k + 1) c = (res, σ)
  | 0, c, res, σ, h, hr => by simp only [run] at h; cases h; exact absurd rfl hr
  | k + 1, c, res, σ, h, hr => by
    rw [run] at h ⊢
    cases hs : step code c with
    | ok c' => rw [hs] at h; simp only at h ⊢; exact run_mono k c' res σ h hr
    | error e => rw [hs] at h; cases e <;> exact h

end Risor.C01.Frag
