import RisorModel.C01.VM
/-!
C01 — theorems about the VM model's run functions (the executable definitions that the
correspondence check drives).  `runVMTrace` is the run used for the LOCKSTEP tie with
`vm.eval` (the harness compares its dispatch trace with the real VM's through the
build-tag-guarded hook `vm.VerifTrace`); these theorems say that observing a run does not
change it, and that the trace of a longer run extends the trace of a shorter one, for every
machine state and every fuel.
-/
namespace Risor.C01

/-- **Observing does not disturb.**  For every fuel, machine state and trace prefix, the traced
    run ends with exactly the result and final state of the plain run `runVM`. -/
theorem runVMTrace_eq (f : Nat) (m : VM) (t : Array (String × Nat × Nat)) :
    (runVMTrace f m t).1 = runVM f m := by
  induction f generalizing m t with
  | zero => rfl
  | succ f ih =>
    simp only [runVMTrace, runVM]
    cases h : step m with
    | ok m' => simp only [ih]
    | error r => rfl

/-- the trace only grows: what was recorded before the run stays a prefix -/
theorem runVMTrace_extends (f : Nat) (m : VM) (t : Array (String × Nat × Nat)) :
    ∃ ext : List (String × Nat × Nat), (runVMTrace f m t).2.toList = t.toList ++ ext := by
  induction f generalizing m t with
  | zero => exact ⟨[], by simp [runVMTrace]⟩
  | succ f ih =>
    simp only [runVMTrace]
    cases hd : dispatchInfo m with
    | none =>
      cases h : step m with
      | ok m' => simpa using ih m' t
      | error r => exact ⟨[], by simp⟩
    | some e =>
      cases h : step m with
      | ok m' =>
        obtain ⟨ext, he⟩ := ih m' (t.push e)
        exact ⟨e :: ext, by simp [he]⟩
      | error r => exact ⟨[e], by simp⟩

/-- at most one observation per step: a run of `f` steps dispatches at most `f` instructions -/
theorem runVMTrace_size_le (f : Nat) (m : VM) (t : Array (String × Nat × Nat)) :
    (runVMTrace f m t).2.size ≤ t.size + f := by
  induction f generalizing m t with
  | zero => simp [runVMTrace]
  | succ f ih =>
    simp only [runVMTrace]
    cases hd : dispatchInfo m with
    | none =>
      cases h : step m with
      | ok m' => have := ih m' t; simp only; omega
      | error r => simp only; omega
    | some e =>
      cases h : step m with
      | ok m' => have := ih m' (t.push e); simp only [Array.size_push] at this ⊢; omega
      | error r => simp only [Array.size_push]; omega

/-- **Fuel monotonicity of the trace.**  The dispatch trace of a run with more fuel extends the
    trace of the run with less: the instruction sequence the model executes does not depend on
    when it is stopped. -/
theorem runVMTrace_fuel_mono (f k : Nat) (m : VM) (t : Array (String × Nat × Nat)) :
    ∃ ext : List (String × Nat × Nat),
      (runVMTrace (f + k) m t).2.toList = (runVMTrace f m t).2.toList ++ ext := by
  induction f generalizing m t with
  | zero =>
    obtain ⟨ext, he⟩ := runVMTrace_extends k m t
    exact ⟨ext, by simpa [runVMTrace] using he⟩
  | succ f ih =>
    have hk : f + 1 + k = (f + k) + 1 := by omega
    rw [hk]
    simp only [runVMTrace]
    cases h : step m with
    | ok m' => exact ih m' _
    | error r => exact ⟨[], by simp⟩

/-- a run that has ended (anything but `running`) is not changed by more fuel -/
theorem runVM_stable (f k : Nat) (m : VM) (h : (runVM f m).1 ≠ .running) :
    runVM (f + k) m = runVM f m := by
  induction f generalizing m with
  | zero => simp [runVM] at h
  | succ f ih =>
    have hk : f + 1 + k = (f + k) + 1 := by omega
    rw [hk]
    simp only [runVM] at h ⊢
    cases hs : step m with
    | ok m' => simp only [hs] at h; exact ih m' h
    | error r => rfl

/-- a closed instance: `1 + 2` (LoadConst 0; LoadConst 1; BinaryOp 1 = Add) dispatches three
    instructions of the main code at stack heights 0, 1, 2 and ends with 3 -/
example :
    let code : CodeB := { id := "__main__", ins := #[(0, { op := .loadConst, a := 0 }), (2, { op := .loadConst, a := 1 }), (4, { op := .binaryOp, a := 1 })],
                          len := 6, consts := #[.int 1, .int 2], names := #[] }
    (runCodesTrace 10 [] [code]).2.toList = [("__main__", 0, 0), ("__main__", 2, 1), ("__main__", 4, 2)] := by
  decide

/-- the repaired defect, kept as a checked statement: before the repair a set literal holding a
    list evaluated to an error VALUE (nothing was raised); the reference semantics and the repaired
    VM raise a type error -/
theorem C01_fixed_set_literal_was_error_value :
    buildSetPreFix [.list 0, .int 2] = some (.err "type" none) ∧ buildSetPreFix [.int 1, .int 2] = none := by
  constructor <;> rfl

end Risor.C01
