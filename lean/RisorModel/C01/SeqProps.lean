import RisorModel.C01.SeqLemmas
/-!
C01 — COMPILER CORRECTNESS for fragment F6 = MUTABLE CONTAINERS WITH IDENTITY AND ITERATION
(`inSeq`, Seq.lean), proved for ALL programs of the fragment, ALL fuel, ALL operand stacks and
ALL states (globals + heap).

The fragment: everything of F1 + F2 + F3 (FragProps.lean: scalar expressions with their errors,
`&&` / `||`, unary operators, ternary, if / else-if / else, `:=`, assignments, `++`, statement
lists, the three `for` forms, break / continue in statement position, switch), top-level
programs with global variables, PLUS
  * list literals `[e1, …, en]` (`e1 … en; BuildList n`): a NEW object at the next free address;
  * index reads `a[i]` (`a; i; BinarySubscr`) with risor's negative-index rule
    (`object.ResolveIndex`), the error class "index" out of range, "type" for an index that is
    not an int and for an object that is not a container;
  * item assignment `a[i] = e` (`e; a; i; StoreSubscr`) and `a[i] op= e`
    (`a; i; BinarySubscr; e; BinaryOp; a; i; StoreSubscr`: container and index expressions are
    evaluated TWICE, finding C01-compound-index-evaluated-twice: the model follows the code);
  * values are REFERENCES: `b := a` copies the reference, a write through one is read through
    the other; list equality `==` / `!=` is deep (`List.Equals`), a list is truthy when not empty;
  * range loops `for k, v := range c { }`, `for k := range c { }`, `for range c { }`,
    `for v in c { }` (`c; GetIter; ForIter d m; StoreGlobal…; body; PopTop; JumpBackward`) over a
    list or an int: the iterator object sits in the loop's operand-stack slot, `ForIter` drops
    it on exhaustion, `break` is `PopTop; JumpForward` (drops it), `continue` jumps to the
    backward jump (keeps it); the list is re-read at every round (`iter.l.items`), so writes of
    the body to later positions are seen.
Not in the fragment: functions / calls (`len`), slices, sets, maps, strings as containers,
`list + list`, ordered comparison of lists (both sides give the class "unsupported" for these),
`append` (no construct of the fragment changes the length of a list).

The store / heap relation of the simulation is the IDENTITY: the machine (`step`) runs on the
same state type `St` (globals and heap) as the reference semantics (`ev`), list objects get the
same addresses on both sides, so values are compared by `=` (same scalars, same addresses) and
final states by `=` (same globals, same heap) — stronger than equality up to heap isomorphism
or of deep (printed) values, which follow from it.

What ties the three definitions to the Go code is checked by correspondence on every run
(harness/c01seq.go): `compSeq` = real bytecode = `Compile.lean`; `evalSeq` = `Sem.lean` = real
result (deep value and final globals); `runSeq ∘ compSeq` = `VM.lean` = real result.
-/
namespace Risor.C01.Seq
open Risor.C01
open Risor.C01.Frag (isNilL leaves isBlock isElse isL isInit isPost opOK postName isDefault countDefault
  dfltBody assignK nodup preLen)

/-- **Simulation, at full strength** (the generalisation of `frag_simulation` over the heap).  For
    every well-formed node `n`, every enclosing code in which the code of `n` sits at offset `pc` —
    compiled for an enclosing loop whose `break` target lies `kb` and whose `continue` target lies
    `kc` slots after the end of `n`, that loop being a range loop iff `rng` —, every operand stack
    `stk`, every state `σ` (globals and heap) and every fuel: if the reference semantics gives `r`
    with final state `σ'` then the machine, from `(pc, stk, σ)`,
    * `r = val v`  — runs to `(pc + size n, v :: stk, σ')` (and `n` is not a unit statement);
    * `r = unit`   — runs to `(pc + size n, stk, σ')` (and `n` is a unit statement);
    * `r = brk`    — runs to the loop's break target with the stack `stk` it started with, or,
      when the loop is a range loop, with `stk` WITHOUT ITS TOP (the iterator, which the `break`
      pops): for every `out` with `BrkStk rng stk out`;
    * `r = cont`   — runs to the loop's continue target with `stk` (iterator included);
    * `r = err c`  — reaches a configuration with state `σ'` whose next step raises class `c`;
    * `r = oof`    — nothing is claimed.
    The final state of the machine IS the final state of the semantics (same heap). -/
theorem seq_simulation (code : Code) (f : Nat) (n : N) (hwf : wf n = true) (kb kc : Nat) (rng : Bool)
    (pc : Nat) (stk : List SVal) (σ : St) (r : Out) (σ' : St)
    (hat : CodeAt code pc (comp kb kc rng n)) (he : ev f n σ = (r, σ')) :
    (match r with
     | .val v => isUnitNode n = false ∧ Steps code ⟨pc, stk, σ⟩ ⟨pc + size rng n, v :: stk, σ'⟩
     | .unit => isUnitNode n = true ∧ Steps code ⟨pc, stk, σ⟩ ⟨pc + size rng n, stk, σ'⟩
     | .brk => escapes n = true ∧
        ∀ out, BrkStk rng stk out → Steps code ⟨pc, stk, σ⟩ ⟨pc + size rng n + kb, out, σ'⟩
     | .cont => escapes n = true ∧ Steps code ⟨pc, stk, σ⟩ ⟨pc + size rng n + kc, stk, σ'⟩
     | .err c => ∃ c1, Steps code ⟨pc, stk, σ⟩ c1 ∧ c1.σ = σ' ∧ step code c1 = .error (.err c)
     | .oof => True) := by
  have P := ev_sim code f n hwf kb kc rng pc stk σ r σ' hat he
  cases r with
  | val v => exact ⟨P.1, P.2⟩
  | unit => exact ⟨P.1, P.2⟩
  | brk => exact ⟨P.1, P.2⟩
  | cont => exact ⟨P.1, P.2⟩
  | err c => exact P.2
  | oof => trivial

/-- the length of a node's code is `size`, wherever the loop targets are -/
theorem seq_code_length (n : N) (kb kc : Nat) (rng : Bool) : (comp kb kc rng n).length = size rng n :=
  comp_length n kb kc rng

/-- **Compiler correctness for the fragment** (the property C01 on `inSeq`): for every program `p`
    of the fragment and every fuel, if the reference semantics ends (anything but out-of-fuel)
    then it ends with a value or an error — never with a stray break/continue — and there is a
    fuel for which the machine, run on the compiled code from the empty stack and the empty
    state, halts with the SAME value (the same scalar / the same list address), resp. the SAME
    error class, and the SAME final state: the same globals and the same heap. -/
theorem seq_compile_correct (p : N) (hp : inSeq p = true) (fuel : Nat) (r : Out) (σ' : St)
    (he : evalSeq fuel p = (r, σ')) (hr : r ≠ .oof) :
    (∃ v, r = .val v ∧ ∃ fuel', runSeq fuel' (compSeq p) = (.done v, σ')) ∨
    (∃ c, r = .err c ∧ ∃ fuel', runSeq fuel' (compSeq p) = (.err c, σ')) := by
  have hwf : wf p = true ∧ isUnitNode p = false ∧ escapes p = false := by
    cases p <;> simp_all [inSeq, isUnitNode, wf, escapes]
  have P := ev_sim (compSeq p) fuel p hwf.1 0 0 false 0 [] St.empty r σ' (CodeAt.self _) he
  cases r with
  | oof => exact absurd rfl hr
  | unit => have := P.1; simp only [Shape] at this; rw [hwf.2.1] at this; cases this
  | brk => have := P.1; simp only [Shape] at this; rw [hwf.2.2] at this; cases this
  | cont => have := P.1; simp only [Shape] at this; rw [hwf.2.2] at this; cases this
  | val v =>
    obtain ⟨n, hn⟩ := run_of_steps P.val_steps
    refine .inl ⟨v, rfl, n + 1, ?_⟩
    show run (compSeq p) (n + 1) ⟨0, [], St.empty⟩ = _
    rw [hn 1]
    simp [run, step, compSeq, comp_length]
  | err c =>
    obtain ⟨c1, hs, hσ, hst⟩ := P.2
    obtain ⟨n, hn⟩ := run_of_steps hs
    refine .inr ⟨c, rfl, n + 1, ?_⟩
    show run (compSeq p) (n + 1) ⟨0, [], St.empty⟩ = _
    rw [hn 1]
    simp [run, hst, hσ]

/-- the same statement through `Out.toRun` (value ↦ done, error ↦ the same error) -/
theorem seq_compile_correct_toRun (p : N) (hp : inSeq p = true) (fuel : Nat) (r : Out) (σ' : St)
    (he : evalSeq fuel p = (r, σ')) (hr : r ≠ .oof) :
    ∃ fuel', runSeq fuel' (compSeq p) = (r.toRun, σ') := by
  rcases seq_compile_correct p hp fuel r σ' he hr with ⟨v, rfl, k, hk⟩ | ⟨c, rfl, k, hk⟩
  · exact ⟨k, hk⟩
  · exact ⟨k, hk⟩

/-- the outcome found by `seq_compile_correct` is THE outcome of the machine: every larger fuel
    gives the same halted result -/
theorem seq_run_stable (code : Code) (k j : Nat) (res : RunRes) (σ : St)
    (h : runSeq k code = (res, σ)) (hr : res ≠ .running) : runSeq (k + j) code = (res, σ) := by
  induction j with
  | zero => exact h
  | succ j ih => exact run_mono (k + j) _ res σ ih hr

/-- **An expression pushes exactly one value**: any node that is not a unit statement (an
    expression — a list literal, an index read included —, an expression statement, a block, a
    statement list), compiled anywhere, started on any operand stack `stk` in any state: when the
    reference semantics gives the value `v`, the machine ends exactly at the end of the node's
    code with `v` pushed on an otherwise untouched `stk` and the semantics' final state. -/
theorem seq_expr_pushes_one (code : Code) (f : Nat) (n : N) (hwf : wf n = true) (kb kc : Nat) (rng : Bool)
    (pc : Nat) (stk : List SVal) (σ σ' : St) (v : SVal)
    (hat : CodeAt code pc (comp kb kc rng n)) (he : ev f n σ = (.val v, σ')) :
    Steps code ⟨pc, stk, σ⟩ ⟨pc + (comp kb kc rng n).length, v :: stk, σ'⟩ := by
  rw [comp_length]
  exact (ev_sim code f n hwf kb kc rng pc stk σ _ σ' hat he).val_steps

/-- what `compileStmts` emits for a statement that is not the last of its list -/
def stmtCode (kb kc : Nat) (rng : Bool) (h : N) : Code :=
  pre h ++ comp (kb + (if leaves h then 1 else 0)) (kc + (if leaves h then 1 else 0)) rng h
    ++ (if leaves h then one .popTop else [])

/-- **Statements are stack-neutral** (C04's property, for the fragment).  Every statement of the
    fragment (`:=`, assignments, item assignments, `++`, expression statements, `break`,
    `continue`, the three `for` forms and the RANGE LOOPS — with arbitrarily nested bodies),
    compiled anywhere as `compileStmts` compiles a statement, started on any operand stack `stk`:
    however it ends — completing (with `unit` or with a value), or leaving through a `continue` —
    the operand stack is exactly `stk` again; a `break` leaves `stk`, minus the iterator on its
    top when the enclosing loop is a range loop.  In particular a range loop statement leaves
    the stack as it found it (its iterator slot is gone) on normal exit and on its own breaks. -/
theorem seq_stmt_neutral (code : Code) (f : Nat) (h : N) (hwf : wf h = true) (hs : isS h = true)
    (kb kc : Nat) (rng : Bool) (pc : Nat) (stk : List SVal) (σ σ' : St) (r : Out)
    (hat : CodeAt code pc (stmtCode kb kc rng h)) (he : ev f h σ = (r, σ')) :
    (match r with
     | .val _ => Steps code ⟨pc, stk, σ⟩ ⟨pc + (stmtCode kb kc rng h).length, stk, σ'⟩
     | .unit => Steps code ⟨pc, stk, σ⟩ ⟨pc + (stmtCode kb kc rng h).length, stk, σ'⟩
     | .brk => ∀ out, BrkStk rng stk out →
        Steps code ⟨pc, stk, σ⟩ ⟨pc + (stmtCode kb kc rng h).length + kb, out, σ'⟩
     | .cont => Steps code ⟨pc, stk, σ⟩ ⟨pc + (stmtCode kb kc rng h).length + kc, stk, σ'⟩
     | _ => True) := by
  unfold stmtCode at hat ⊢
  have hpre := pre_steps h pc stk σ hat.append_left.append_left
  have hath := hat.append_left.append_right
  have htail := hat.append_right
  simp only [List.length_append, pre_length, comp_length] at hath htail ⊢
  simp only [isS, Bool.or_eq_true] at hs
  cases hl : leaves h with
  | false =>
    simp only [hl, Bool.false_eq_true, ↓reduceIte, Nat.add_zero, List.length_nil] at hath ⊢
    have P := ev_sim code f h hwf kb kc rng _ stk σ r σ' hath he
    cases r with
    | val v =>
      rcases hs with hu | hl'
      · have := P.1; simp only [Shape] at this; rw [hu] at this; cases this
      · rw [hl] at hl'; cases hl'
    | unit => exact (hpre.trans P.unit_steps).cast (by omega)
    | brk => exact fun out ho => (hpre.trans (P.2 out ho)).cast (by omega)
    | cont => exact (hpre.trans P.2).cast (by omega)
    | err c => trivial
    | oof => trivial
  | true =>
    simp only [hl, ↓reduceIte, one_length] at hath htail ⊢
    have P := ev_sim code f h hwf (kb + 1) (kc + 1) rng _ stk σ r σ' hath he
    have hpop := CodeAt.one htail
    cases r with
    | val v =>
      have s1 : step code ⟨pc + (preLen h + size rng h), v :: stk, σ'⟩
          = .ok ⟨pc + (preLen h + size rng h) + 1, stk, σ'⟩ := by
        rw [step_of hpop]; rfl
      exact ((hpre.trans (P.val_steps.cast (by omega))).snoc s1).cast (by omega)
    | unit => have := unit_not_leaves (P.1 : isUnitNode h = true); rw [hl] at this; cases this
    | brk => exact fun out ho => (hpre.trans (P.2 out ho)).cast (by omega)
    | cont => exact (hpre.trans P.2).cast (by omega)
    | err c => trivial
    | oof => trivial

/-- **The iterator slot of a range loop.**  The body block `b` of a range loop runs with the
    iterator `it` on top of the loop's stack `stk`, compiled with the loop's targets (`break` 3
    slots, `continue` 1 slot after the body: the exit / the backward jump).  Whatever the body
    does: a completed round ends with `v :: it :: stk` (the `PopTop` after the body then leaves
    `it :: stk`), a `continue` arrives at the backward jump with `it :: stk` (iterator kept), a
    `break` arrives at the loop's exit with `stk` (iterator popped: the stack the loop found). -/
theorem range_body_discipline (code : Code) (f : Nat) (b : N) (hwf : wf b = true) (hb : isBlock b = true)
    (pc : Nat) (it : SVal) (stk : List SVal) (σ σ' : St) (r : Out)
    (hat : CodeAt code pc (comp 3 1 true b)) (he : ev f b σ = (r, σ')) :
    (match r with
     | .val v => Steps code ⟨pc, it :: stk, σ⟩ ⟨pc + size true b, v :: it :: stk, σ'⟩
     | .cont => Steps code ⟨pc, it :: stk, σ⟩ ⟨pc + size true b + 1, it :: stk, σ'⟩
     | .brk => Steps code ⟨pc, it :: stk, σ⟩ ⟨pc + size true b + 3, stk, σ'⟩
     | .unit => False
     | _ => True) := by
  have P := ev_sim code f b hwf 3 1 true pc (it :: stk) σ r σ' hat he
  cases r with
  | val v => exact P.2
  | cont => exact P.2
  | brk => exact P.2 stk ⟨it, rfl⟩
  | unit => have := P.1; simp only [Shape] at this; rw [isBlock_not_unit hb] at this; cases this
  | err c => trivial
  | oof => trivial

/-! ### identity: aliasing and freshness -/

/-- **A write through one reference is read through every other reference to the same list.**
    Two references to a list are the same value `ref a` wherever they are kept (two variables after
    `b := a`, an element of another list, an operand-stack slot).  In any state: if the item
    assignment `r[i] = nv` through one of them succeeds, then reading `r'[i]` through any other
    one gives `nv`.  (`StoreSubscr` / `BinarySubscr` of the machine are `setItemS` / `getItemS`
    on the same state, so the statement holds verbatim for the machine: `alias_write_visible_vm`.) -/
theorem alias_write_visible (σ σ' : St) (a : Nat) (r r' i nv : SVal) (hr : r = .ref a) (hr' : r' = .ref a)
    (h : setItemS σ r i nv = .ok σ') : getItemS σ' r' i = .ok nv := by
  subst hr hr'
  obtain ⟨k, j, rfl, hres, ha, rfl⟩ := setItemS_ok h
  have hj := resolveIndex_lt hres
  simp only [getItemS, items_write_same _ _ _ ha, List.length_set, hres]
  congr 1
  simp [List.getD, hj.2]

/-- the same for two VARIABLES holding the same list (`b := a; b[i] = nv; a[i]`): the write does
    not touch the globals, so `y` still holds the reference and reads the new item -/
theorem alias_write_visible_vars (σ σ' : St) (x y : String) (a : Nat) (i nv : SVal)
    (hx : σ.get x = .ref a) (hy : σ.get y = .ref a) (h : setItemS σ (σ.get x) i nv = .ok σ') :
    σ'.get y = .ref a ∧ getItemS σ' (σ'.get y) i = .ok nv := by
  rw [hx] at h
  obtain ⟨k, j, rfl, hres, ha, rfl⟩ := setItemS_ok h
  have hg : (σ.write a ((σ.items a).set j.toNat nv)).get y = .ref a := by simpa [St.get, St.write] using hy
  refine ⟨hg, ?_⟩
  rw [hg]
  exact alias_write_visible σ _ a (.ref a) (.ref a) (.int k) nv rfl rfl h

/-- the machine's side: `StoreSubscr` through one reference, then `BinarySubscr` through another
    reference to the same object with the same index, pushes the stored value -/
theorem alias_write_visible_vm (σ : St) (a : Nat) (i nv : SVal) (pc : Nat) (s : List SVal) (c1 : Cfg)
    (h : execIns .storeSubscr ⟨pc, i :: .ref a :: nv :: s, σ⟩ = .ok c1) (pc' : Nat) (s' : List SVal) :
    execIns .binarySubscr ⟨pc', i :: .ref a :: s', c1.σ⟩ = .ok ⟨pc' + 1, nv :: s', c1.σ⟩ := by
  simp only [execIns] at h
  cases hs : setItemS σ (.ref a) i nv with
  | error e => simp [hs] at h
  | ok σ1 =>
    simp only [hs] at h
    cases h
    simp [execIns, alias_write_visible σ σ1 a (.ref a) (.ref a) i nv rfl rfl hs]

/-- a write to one object is not visible in any other object -/
theorem write_other_untouched (σ σ' : St) (a b : Nat) (i nv : SVal) (hab : b ≠ a)
    (h : setItemS σ (.ref a) i nv = .ok σ') : σ'.items b = σ.items b := by
  obtain ⟨k, j, rfl, _, _, rfl⟩ := setItemS_ok h
  exact items_write_other σ a b _ hab

/-- the value of a list literal is a reference to a NEW object: its address is the first one not
    allocated in the state in which its items were evaluated, and the objects of that state are
    unchanged by the allocation -/
theorem literal_allocates (f : Nat) (items : N) (σ σ' : St) (v : SVal)
    (he : ev (f + 1) (.list items) σ = (.val v, σ')) :
    ∃ σ1 vs, evItems (ev f) items σ = (.ok vs, σ1) ∧ v = .ref σ1.h.length ∧ σ'.g = σ1.g ∧
      σ'.h = σ1.h ++ [vs] ∧ σ'.items σ1.h.length = vs ∧ ∀ b, b < σ1.h.length → σ'.items b = σ1.items b := by
  simp only [ev, evNode] at he
  rcases hi : evItems (ev f) items σ with ⟨ri, σ1⟩
  rw [hi] at he
  cases ri with
  | error o =>
    simp only at he
    cases he
    exact absurd rfl (evItems_error_not_val _ _ _ _ _ hi v)
  | ok vs =>
    simp only at he; cases he
    refine ⟨σ1, vs, rfl, rfl, rfl, rfl, ?_, ?_⟩
    · simp [St.items, St.alloc, List.getD]
    · intro b hb
      simp [St.items, St.alloc, List.getD, List.getElem?_append_left hb]

/-- **every evaluation extends the state** (`ev_ext`, SeqLemmas.lean): the heap only grows and no
    list changes its length — for every node (well-formed or not), fuel, state and outcome -/
theorem ev_heap_mono (f : Nat) (n : N) (σ σ' : St) (r : Out) (he : ev f n σ = (r, σ')) :
    σ.h.length ≤ σ'.h.length ∧ ∀ a, a < σ.h.length → (σ'.items a).length = (σ.items a).length :=
  ev_ext f n σ r σ' he

/-- truthiness of a value that refers to allocated objects only does not change along an
    evaluation (no construct of the fragment changes the length of a list): the second test of the
    left operand that `BinaryOp And / Or` makes after the right operand ran (`evNode`, `.infix`)
    always agrees with the first -/
theorem truthy_stable (σ1 σ2 : St) (v : SVal) (h : Ext σ1 σ2)
    (hv : ∀ a, (v = .ref a ∨ ∃ p, v = .iterL a p) → a < σ1.h.length) : v.truthy σ2 = v.truthy σ1 := by
  cases v with
  | ref a =>
    have := h.2 a (hv a (.inl rfl))
    simp only [SVal.truthy]
    cases h2 : σ2.items a <;> cases h1 : σ1.items a <;> simp_all
  | iterL a p =>
    have := h.2 a (hv a (.inr ⟨p, rfl⟩))
    simp only [SVal.truthy, this]
  | _ => rfl

/-- **Two evaluations of a list literal give distinct objects.**  A list literal evaluated to `v1`,
    then ANY evaluation in between (any node `n` — the rest of a loop round, say —, any outcome),
    then a list literal (the same one again, or any other) evaluated to `v2`: the two values are
    references to DIFFERENT objects, and a write to either of them is not visible in the other. -/
theorem literal_is_fresh (f1 f2 g : Nat) (items1 items2 n : N) (σ σ1 σ2 σ3 : St) (v1 v2 : SVal) (r : Out)
    (h1 : ev (f1 + 1) (.list items1) σ = (.val v1, σ1))
    (hmid : ev g n σ1 = (r, σ2))
    (h2 : ev (f2 + 1) (.list items2) σ2 = (.val v2, σ3)) :
    ∃ a1 a2, v1 = .ref a1 ∧ v2 = .ref a2 ∧ a1 ≠ a2 ∧
      (∀ i nv σ4, setItemS σ3 (.ref a2) i nv = .ok σ4 → σ4.items a1 = σ3.items a1) ∧
      (∀ i nv σ4, setItemS σ3 (.ref a1) i nv = .ok σ4 → σ4.items a2 = σ3.items a2) := by
  obtain ⟨σa, vs1, _, hv1, _, hh1, _, _⟩ := literal_allocates f1 items1 σ σ1 v1 h1
  obtain ⟨σb, vs2, hi2, hv2, _, _, _, _⟩ := literal_allocates f2 items2 σ2 σ3 v2 h2
  have e1 : σ1.h.length = σa.h.length + 1 := by rw [hh1]; simp
  have e2 := (ev_ext g n σ1 r σ2 hmid).1
  have e3 := (evItems_ext (ev_ext f2) items2 σ2 _ σb hi2).1
  have hne : σa.h.length ≠ σb.h.length := by omega
  refine ⟨σa.h.length, σb.h.length, hv1, hv2, hne, ?_, ?_⟩
  · intro i nv σ4 hs; exact write_other_untouched σ3 σ4 _ _ i nv hne hs
  · intro i nv σ4 hs; exact write_other_untouched σ3 σ4 _ _ i nv (Ne.symm hne) hs

/-! ### iteration -/

/-- the rounds a range loop over the items `l` makes, spelled out: the body is run on
    `(i, l[i])` for `i = pos, pos + 1, …` in this order, once per item; a `break` ends the loop,
    an error (or the body running out of fuel) is the loop's outcome -/
def visitAll (names : List String) (m : Nat) (body : St → Out × St) : Nat → List SVal → St → Out × St
  | _, [], σ => (.unit, σ)
  | i, x :: rest, σ =>
    match pushKV m (.int i) x with
    | none => (.err "eval", σ)
    | some vals =>
      match body (bindAll names vals σ) with
      | (.brk, σ2) => (.unit, σ2)
      | (.val _, σ2) => visitAll names m body (i + 1) rest σ2
      | (.cont, σ2) => visitAll names m body (i + 1) rest σ2
      | other => other

theorem range_visits_from (names : List String) (m : Nat) (body : St → Out × St) (a : Nat) (l : List SVal)
    (hbody : ∀ σ r σ1, σ.items a = l → body σ = (r, σ1) → σ1.items a = l) :
    ∀ (k pos : Nat) (σ : St), σ.items a = l → l.length - pos < k →
      rangeF names m body k (.iterL a pos) σ = visitAll names m body pos (l.drop pos) σ := by
  intro k
  induction k with
  | zero => intro pos σ _ hk; omega
  | succ k ih =>
    intro pos σ hl hk
    simp only [rangeF, iterNext, hl]
    cases hx : l[pos]? with
    | none =>
      have : l.length ≤ pos := by
        rcases Nat.lt_or_ge pos l.length with h1 | h1
        · rw [List.getElem?_eq_getElem h1] at hx; cases hx
        · exact h1
      rw [List.drop_eq_nil_of_le this]
      rfl
    | some x =>
      have hlt : pos < l.length := by
        rcases Nat.lt_or_ge pos l.length with h1 | h1
        · exact h1
        · rw [List.getElem?_eq_none h1] at hx; cases hx
      have hd : l.drop pos = x :: l.drop (pos + 1) := by
        rw [List.drop_eq_getElem_cons hlt]
        rw [List.getElem?_eq_getElem hlt] at hx
        cases hx; rfl
      rw [hd]
      simp only [visitAll]
      cases hp : pushKV m (.int pos) x with
      | none => rfl
      | some vals =>
        simp only
        rcases hb : body (bindAll names vals σ) with ⟨rb, σ2⟩
        have h2 := hbody _ _ _ (by rw [bindAll_items]; exact hl) hb
        cases rb with
        | val w => exact ih (pos + 1) σ2 h2 (by omega)
        | cont => exact ih (pos + 1) σ2 h2 (by omega)
        | brk => rfl
        | unit => rfl
        | err c => rfl
        | oof => rfl

/-- **A range loop over a list that its body does not mutate visits the items in order.**  On the
    semantics' side: a range loop (any of the four forms: `names` / `m`) over the list at address
    `a`, whose items are `l` when the loop starts, with a body that leaves THAT list as it is
    (it may write other lists and any variable), run with enough fuel (more rounds than items):
    the body is run on `(0, l[0]), (1, l[1]), …` in increasing index order, exactly once per item
    — `l.length` times when no round breaks or fails —, then the loop completes.  (`visitAll`
    spells the rounds out by recursion on `l`.)  The simulation (`seq_simulation` on the
    `forrange` / `forin` node) transfers the statement to the compiled code: the machine ends in
    the state `visitAll …` computes. -/
theorem range_visits_in_order (names : List String) (m : Nat) (body : St → Out × St) (a : Nat) (σ : St)
    (hbody : ∀ σ0 r σ1, σ0.items a = σ.items a → body σ0 = (r, σ1) → σ1.items a = σ.items a)
    (k : Nat) (hk : (σ.items a).length < k) :
    rangeOver names m body k (.ref a) σ = visitAll names m body 0 (σ.items a) σ := by
  simp only [rangeOver, getIterS]
  exact range_visits_from names m body a (σ.items a) hbody k 0 σ rfl (by omega)

/-- `range_visits_in_order` transferred to the compiled code by the simulation: a `for k, v := range c`
    loop whose container evaluates to the list at `a` and whose body does not mutate that list,
    compiled anywhere, started on any stack: when the rounds `visitAll` spells out (the body on
    `(0, l[0]), (1, l[1]), …`) complete in state `σ'`, the machine runs from the start of the loop's
    code to its end with the stack it started with (the iterator slot gone) and the state `σ'`. -/
theorem range_visits_in_order_compiled (code : Code) (f : Nat) (k v : String) (c b : N)
    (hwf : wf (.forrange k v c b) = true) (kb kc : Nat) (rng : Bool) (pc : Nat) (stk : List SVal)
    (σ σ1 σ' : St) (a : Nat)
    (hat : CodeAt code pc (comp kb kc rng (.forrange k v c b)))
    (hc : ev f c σ = (.val (.ref a), σ1))
    (hbody : ∀ σ0 r σ2, σ0.items a = σ1.items a → ev f b σ0 = (r, σ2) → σ2.items a = σ1.items a)
    (hk : (σ1.items a).length < f)
    (hres : visitAll (rngNames k v) (rngNames k v).length (ev f b) 0 (σ1.items a) σ1 = (.unit, σ')) :
    Steps code ⟨pc, stk, σ⟩ ⟨pc + size rng (.forrange k v c b), stk, σ'⟩ := by
  have he : ev (f + 1) (.forrange k v c b) σ = (.unit, σ') := by
    simp only [ev, evNode, hc, seqV]
    rw [range_visits_in_order _ _ _ a σ1 hbody f hk]
    exact hres
  exact (seq_simulation code (f + 1) _ hwf kb kc rng pc stk σ .unit σ' hat he).2

/-- the number of rounds: a body that always completes (value or `continue`, never `break`, an
    error or out of fuel) is run exactly `l.length` times — stated with a counter the body bumps -/
theorem visitAll_counts (names : List String) (m : Nat) (hm : m ≤ 3) (body : St → Out × St) (cnt : St → Nat)
    (hbind : ∀ vals σ, cnt (bindAll names vals σ) = cnt σ)
    (hbody : ∀ σ, ∃ v σ1, body σ = (.val v, σ1) ∧ cnt σ1 = cnt σ + 1) :
    ∀ (l : List SVal) (i : Nat) (σ : St), ∃ σ', visitAll names m body i l σ = (.unit, σ') ∧ cnt σ' = cnt σ + l.length := by
  intro l
  induction l with
  | nil => intro i σ; exact ⟨σ, rfl, rfl⟩
  | cons x rest ih =>
    intro i σ
    simp only [visitAll]
    have hp : ∃ vals, pushKV m (.int i) x = some vals := by
      unfold pushKV
      rcases Nat.lt_or_ge m 1 with h0 | h0
      · have : m = 0 := by omega
        subst this; exact ⟨_, rfl⟩
      · rcases Nat.lt_or_ge m 2 with h1 | h1
        · have : m = 1 := by omega
          subst this; exact ⟨_, rfl⟩
        · rcases Nat.lt_or_ge m 3 with h2 | h2
          · have : m = 2 := by omega
            subst this; exact ⟨_, rfl⟩
          · have : m = 3 := by omega
            subst this; exact ⟨_, rfl⟩
    obtain ⟨vals, hp⟩ := hp
    obtain ⟨v, σ1, hb, hc⟩ := hbody (bindAll names vals σ)
    simp only [hp, hb]
    obtain ⟨σ', h1, h2⟩ := ih (i + 1) σ1
    refine ⟨σ', h1, ?_⟩
    rw [h2, hc, hbind]
    simp only [List.length_cons]
    omega

/-! ### non-vacuity: both sides evaluated -/

private def L (xs : List N) : N := N.ofList xs

/-- `a := [1, 2]; b := a; b[0] = 9; a[0]` → 9 (aliasing) -/
def exAlias : N :=
  .prog (L [.var "a" (.list (L [.int 1, .int 2])), .var "b" (.id "a"),
    .setitem .set (.id "b") (.int 0) (.int 9), .expr (.index (.id "a") (.int 0))])

/-- `a := [1]; b := [1]; b[0] = 5; a[0]` → 1 (two literals, two objects); `a == b` is deep -/
def exFresh : N :=
  .prog (L [.var "a" (.list (L [.int 1])), .var "b" (.list (L [.int 1])),
    .var "e" (.infix .eq (.id "a") (.id "b")),
    .setitem .set (.id "b") (.int 0) (.int 5),
    .expr (.list (L [.index (.id "a") (.int 0), .id "e", .infix .eq (.id "a") (.id "b")]))])

/-- `a := [1, 2, 3]; a[-1]` → 3 (negative index) -/
def exNeg : N := .prog (L [.var "a" (.list (L [.int 1, .int 2, .int 3])), .expr (.index (.id "a") (.neg (.int 1)))])

/-- `a := [1, 2, 3]; a[3]` → error class "index" -/
def exRange : N := .prog (L [.var "a" (.list (L [.int 1, .int 2, .int 3])), .expr (.index (.id "a") (.int 3))])

/-- `x := 3; x[0]` → error class "type" (indexing an int) -/
def exType : N := .prog (L [.var "x" (.int 3), .expr (.index (.id "x") (.int 0))])

/-- `s := 0; for i, v := range [10, 20, 30] { s += v + i }; s` → 63 -/
def exSum : N :=
  .prog (L [.var "s" (.int 0),
    .forrange "i" "v" (.list (L [.int 10, .int 20, .int 30]))
      (.block (L [.assign "s" .add (.infix .add (.id "v") (.id "i"))])),
    .expr (.id "s")])

/-- `a := [1, 2, 3, 4]; s := 0; for i, v := range a { if v == 3 { break }; if v == 1 { continue }; s += v }; s`
    → 2 (continue on 1, break on 3, the iterator popped by the break) -/
def exBreak : N :=
  .prog (L [.var "a" (.list (L [.int 1, .int 2, .int 3, .int 4])), .var "s" (.int 0),
    .forrange "i" "v" (.id "a") (.block (L [
      .expr (.if_ (.infix .eq (.id "v") (.int 3)) (.block (L [.break_])) .none_),
      .expr (.if_ (.infix .eq (.id "v") (.int 1)) (.block (L [.continue_])) .none_),
      .assign "s" .add (.id "v")])),
    .expr (.id "s")])

/-- `[[1, 2], [3]][0][1]` → 2 (nested lists) -/
def exNested : N :=
  .prog (L [.expr (.index (.index (.list (L [.list (L [.int 1, .int 2]), .list (L [.int 3])])) (.int 0)) (.int 1))])

/-- `a := [1, 1, 1]; for i, v := range a { if i < 2 { a[i + 1] = v * 2 } }; a[2]` → 4: the body's
    writes to later positions are seen by the iterator -/
def exMutate : N :=
  .prog (L [.var "a" (.list (L [.int 1, .int 1, .int 1])),
    .forrange "i" "v" (.id "a") (.block (L [
      .expr (.if_ (.infix .lt (.id "i") (.int 2))
        (.block (L [.setitem .set (.id "a") (.infix .add (.id "i") (.int 1)) (.infix .mul (.id "v") (.int 2))])) .none_)])),
    .expr (.index (.id "a") (.int 2))])

/-- `a := [10, 20]; i := 0; a[i] += if true { i = 1; 5 } else { 0 }; a[1]` → 15: the index is
    evaluated again after the right-hand side (finding C01-compound-index-evaluated-twice) -/
def exTwice : N :=
  .prog (L [.var "a" (.list (L [.int 10, .int 20])), .var "i" (.int 0),
    .setitem .add (.id "a") (.id "i")
      (.if_ (.bool true) (.block (L [.assign "i" .set (.int 1), .expr (.int 5)])) (.block (L [.expr (.int 0)]))),
    .expr (.index (.id "a") (.int 1))])

/-- `n := 0; for k := range 4 { for v in [1, 2] { if v == 2 { break }; n += 1 } }; n` → 4 -/
def exNest2 : N :=
  .prog (L [.var "n" (.int 0),
    .forrange "k" "" (.int 4) (.block (L [
      .forin "v" (.list (L [.int 1, .int 2])) (.block (L [
        .expr (.if_ (.infix .eq (.id "v") (.int 2)) (.block (L [.break_])) .none_),
        .assign "n" .add (.int 1)]))])),
    .expr (.id "n")])

/-- a break under a pending operand inside a range body is outside the fragment -/
def exUnder : N :=
  .prog (L [.var "x" (.int 0),
    .forrange "" "" (.list (L [.int 1])) (.block (L [.assign "x" .set (.infix .add (.int 1)
      (.if_ (.bool true) (.block (L [.break_])) .none_))]))])

example : inSeq exAlias = true := by decide
example : (evalSeq 30 exAlias).1 = .val (.int 9) := by decide
example : (runSeq 300 (compSeq exAlias)).1 = .done (.int 9) := by decide
example : (runSeq 300 (compSeq exAlias)).2 = (evalSeq 30 exAlias).2 := by decide
-- both variables hold the SAME address, the heap has ONE object
example : ((evalSeq 30 exAlias).2.get "a", (evalSeq 30 exAlias).2.get "b", (evalSeq 30 exAlias).2.h)
    = (.ref 0, .ref 0, [[.int 9, .int 2]]) := by decide
example : inSeq exFresh = true := by decide
-- a[0] is still 1; a == b was true before the write and is false after it
example : (evalSeq 30 exFresh).2.items 2 = [.int 1, .bool true, .bool false] := by decide
example : (runSeq 300 (compSeq exFresh)) = ((evalSeq 30 exFresh).1.toRun, (evalSeq 30 exFresh).2) := by decide
example : ((evalSeq 30 exFresh).2.get "a", (evalSeq 30 exFresh).2.get "b") = (.ref 0, .ref 1) := by decide
example : inSeq exNeg = true := by decide
example : (evalSeq 30 exNeg).1 = .val (.int 3) := by decide
example : (runSeq 300 (compSeq exNeg)).1 = .done (.int 3) := by decide
example : inSeq exRange = true := by decide
example : (evalSeq 30 exRange).1 = .err "index" := by decide
example : (runSeq 300 (compSeq exRange)) = (.err "index", (evalSeq 30 exRange).2) := by decide
example : inSeq exType = true := by decide
example : (evalSeq 30 exType).1 = .err "type" := by decide
example : (runSeq 300 (compSeq exType)).1 = .err "type" := by decide
example : inSeq exSum = true := by decide
example : (evalSeq 30 exSum).1 = .val (.int 63) := by decide
example : (runSeq 400 (compSeq exSum)).1 = .done (.int 63) := by decide
example : (runSeq 400 (compSeq exSum)).2 = (evalSeq 30 exSum).2 := by decide
example : inSeq exBreak = true := by decide
example : (evalSeq 30 exBreak).1 = .val (.int 2) := by decide
example : (runSeq 600 (compSeq exBreak)).1 = .done (.int 2) := by decide
example : (runSeq 600 (compSeq exBreak)).2 = (evalSeq 30 exBreak).2 := by decide
example : inSeq exNested = true := by decide
example : (evalSeq 30 exNested).1 = .val (.int 2) := by decide
example : (runSeq 300 (compSeq exNested)).1 = .done (.int 2) := by decide
example : inSeq exMutate = true := by decide
example : (evalSeq 30 exMutate).1 = .val (.int 4) := by decide
example : (runSeq 900 (compSeq exMutate)) = (.done (.int 4), (evalSeq 30 exMutate).2) := by decide
example : inSeq exTwice = true := by decide
example : (evalSeq 30 exTwice).1 = .val (.int 15) := by decide
example : (runSeq 300 (compSeq exTwice)) = (.done (.int 15), (evalSeq 30 exTwice).2) := by decide
example : inSeq exNest2 = true := by decide
example : (evalSeq 40 exNest2).1 = .val (.int 4) := by decide
example : (runSeq 2000 (compSeq exNest2)) = (.done (.int 4), (evalSeq 40 exNest2).2) := by decide
example : inSeq exUnder = false := by decide
-- the hypotheses of `seq_compile_correct` are satisfiable and its conclusion is the concrete run
example : ∃ fuel', runSeq fuel' (compSeq exBreak) = (.done (.int 2), (evalSeq 30 exBreak).2) :=
  seq_compile_correct_toRun exBreak (by decide) 30 (.val (.int 2)) (evalSeq 30 exBreak).2 (by decide) (by decide)
-- `range_visits_in_order` / `visitAll`: three rounds over [10, 20, 30] with (i, v) = (0,10), (1,20), (2,30)
example : (visitAll ["i", "v"] 2 (fun σ => (.val .nil, σ.set "t" (.int 0))) 0 [.int 10, .int 20, .int 30] St.empty).2.g
    = [("t", .int 0), ("v", .int 30), ("i", .int 2), ("t", .int 0), ("v", .int 20), ("i", .int 1),
       ("t", .int 0), ("v", .int 10), ("i", .int 0)] := by decide

end Risor.C01.Seq
