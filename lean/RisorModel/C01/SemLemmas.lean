import RisorModel.C01.Sem
/-!
C01 — helper definitions and lemmas for the theorems of `Props.lean` about `error`, `try`,
`defer` and pipes: the text of a value depends on the heap only, so a `print` may be stated
against the state before the call's bookkeeping (`steps`).
-/
namespace Risor.C01

theorem textUnknown_heap (st st' : St) (h : st.heap = st'.heap) :
    ∀ (n : Nat) (v : Val), textUnknown st n v = textUnknown st' n v := by
  intro n
  induction n with
  | zero => intro v; cases v <;> first | rfl | (rename_i c m; cases m <;> rfl)
  | succ n ih =>
    intro v
    have hf : textUnknown st n = textUnknown st' n := funext ih
    cases v <;> first | rfl | (rename_i c m; cases m <;> rfl) | simp [textUnknown, h, hf]

theorem inspect_heap (st st' : St) (h : st.heap = st'.heap) :
    ∀ (n : Nat) (v : Val), inspect st n v = inspect st' n v := by
  intro n
  induction n with
  | zero => intro v; cases v <;> first | rfl | (rename_i c m; cases m <;> rfl)
  | succ n ih =>
    intro v
    have hf : inspect st n = inspect st' n := funext ih
    cases v <;> first | rfl | (rename_i c m; cases m <;> rfl) | simp [inspect, h, hf]

theorem display_heap (st st' : St) (h : st.heap = st'.heap) (v : Val) : display st v = display st' v := by
  cases v <;> simp [display, inspect_heap st st' h]

/-- the line `print(args)` writes -/
def printLine (st : St) (args : List Val) : String := " ".intercalate (args.map (display st))

theorem printLine_heap (st st' : St) (h : st.heap = st'.heap) (args : List Val) :
    printLine st args = printLine st' args := by
  have : display st = display st' := funext (display_heap st st' h)
  simp [printLine, this]

/-- `print` on values whose text the model knows: one line, no other effect than the call budget -/
theorem print_call (f : Nat) (args : List Val) (st : St) (hs : st.steps ≠ 0)
    (ht : args.any (textUnknown st 8) = false) :
    callVal (f + 1) (.builtin "print") args st =
      (.val .nil, { st with steps := st.steps - 1, out := printLine st args :: st.out }) := by
  have h1 : textUnknown { st with steps := st.steps - 1 } 8 = textUnknown st 8 :=
    funext (textUnknown_heap { st with steps := st.steps - 1 } st rfl 8)
  have h2 : printLine { st with steps := st.steps - 1 } args = printLine st args :=
    printLine_heap { st with steps := st.steps - 1 } st rfl args
  simp only [printLine] at h2
  simp [callVal, hs, printLine, h1, ht, h2]

theorem evalPipe_done (f : Nat) (x : Val) (env : Env) (st : St) :
    evalPipe (f + 1) x .nilL env st = (.val x, st) := by
  simp [evalPipe]

/-- the outcome of a function body as `callVal` reads it: a value (explicit return, last
    expression, or nil) or a raised error; `none` = out of fuel / outside the model / a stray
    break or continue -/
def bodyOutcome : Sig → Option Sig
  | .ret v => some (.val v)
  | .val v => some (.val v)
  | .unit => some (.val .nil)
  | .err c => some (.err c)
  | .uerr m => some (.uerr m)
  | _ => none

end Risor.C01
