import RisorModel.C01.Edge
/-!
C01 — theorems about the multi-assignment statement `n1, …, nk = [e1, …, ek]` and about
`int ** int` (models: Edge.lean).  Universally quantified over all stores, all name lists, all
item expressions, all operand stacks; core Lean only.
-/
namespace Risor.C01.Edge

theorem exec_append (p q : List Ins) (c : Cfg) :
    exec (p ++ q) c = (match exec p c with | some c' => exec q c' | none => none) := by
  induction p generalizing c with
  | nil => rfl
  | cons i is ih =>
    show (match step i c with | some c' => exec (is ++ q) c' | none => none) = _
    cases h : step i c with
    | none => simp [exec, h]
    | some c' => simp [exec, h, ih]

/-- the stores of compileMultiVar, run on the unpacked items above ANY operand stack, perform
`assignAll` and leave the stack below as it was -/
theorem stores_run (ts : List Nat) (vs : List Int) (stk : List V) (s : Store)
    (hl : ts.length = vs.length) :
    exec (ts.reverse.map Ins.store) (vs.reverse.map V.int ++ stk, s) = some (stk, assignAll ts vs s) := by
  induction ts generalizing vs stk with
  | nil =>
    cases vs with
    | nil => rfl
    | cons v vs => simp at hl
  | cons t ts ih =>
    cases vs with
    | nil => simp at hl
    | cons v vs =>
      have hl' : ts.length = vs.length := by simpa using hl
      have e1 : (t :: ts).reverse.map Ins.store = ts.reverse.map Ins.store ++ [Ins.store t] := by simp
      have e2 : (v :: vs).reverse.map V.int ++ stk = vs.reverse.map V.int ++ (V.int v :: stk) := by simp
      rw [e1, e2, exec_append, ih vs (V.int v :: stk) hl']
      rfl

/-- **Multi-assignment is simultaneous (compiled code = Spec).**  For every list of names, every
list of item expressions, every store and every operand stack: the code compileMultiVar emits
(right-hand side, Unpack, stores in reverse order) ends in exactly the Spec's store — every item
evaluated in the OLD store — with the operand stack as it was; a count mismatch is an error on
both sides. -/
theorem multi_simultaneous (ts : List Nat) (items : List AExp) (stk : List V) (s : Store) :
    exec (compMulti ts items) (stk, s) = (specMulti ts items s).map (fun s' => (stk, s')) := by
  unfold compMulti specMulti
  show (match step (.rhs items) (stk, s) with
        | some c' => exec ([Ins.unpack ts.length] ++ ts.reverse.map Ins.store) c' | none => none) = _
  simp only [step]
  show (match step (.unpack ts.length) (V.list (items.map (eval s)) :: stk, s) with
        | some c' => exec (ts.reverse.map Ins.store) c' | none => none) = _
  simp only [step, List.length_map]
  by_cases h : items.length = ts.length
  · simp only [h, if_true, Option.map]
    exact stores_run ts (items.map (eval s)) stk s (by simp [h])
  · simp [h]

/-- a name that is not assigned keeps its value -/
theorem assignAll_other (ts : List Nat) (vs : List Int) (s : Store) (k : Nat) (hk : k ∉ ts) :
    assignAll ts vs s k = s k := by
  induction ts generalizing vs with
  | nil => cases vs <;> rfl
  | cons t ts ih =>
    cases vs with
    | nil => rfl
    | cons v vs =>
      have h1 : k ≠ t := fun h => hk (by simp [h])
      have h2 : k ∉ ts := fun h => hk (by simp [h])
      show (if k = t then v else assignAll ts vs s k) = s k
      simp [h1, ih vs h2]

/-- **Each name receives the value of ITS item, computed before any store.**  For distinct names:
the i-th name holds the i-th value afterwards (whatever the other names and values are). -/
theorem assignAll_at (ts : List Nat) (vs : List Int) (s : Store) (hd : ts.Nodup)
    (i : Nat) (t : Nat) (v : Int) (ht : ts[i]? = some t) (hv : vs[i]? = some v) :
    assignAll ts vs s t = v := by
  induction ts generalizing vs i with
  | nil => simp at ht
  | cons t0 ts ih =>
    cases vs with
    | nil => simp at hv
    | cons v0 vs =>
      have hd' := List.nodup_cons.mp hd
      cases i with
      | zero =>
        simp at ht hv
        subst ht; subst hv
        show (if t0 = t0 then v0 else _) = v0
        simp
      | succ i =>
        simp at ht hv
        have hm : t ∈ ts := List.mem_of_getElem? ht
        have hne : t ≠ t0 := fun h => hd'.1 (h ▸ hm)
        show (if t = t0 then v0 else assignAll ts vs s t) = v
        simp [hne, ih vs hd'.2 i ht hv]

/-- the swap idiom, stated on the compiled code: after `a, b = [b, a]` (a ≠ b) a holds the old b
and b holds the old a, for every store and stack -/
theorem swap_swaps (a b : Nat) (hab : a ≠ b) (stk : List V) (s : Store) :
    ∃ s', exec (compMulti [a, b] [.var b, .var a]) (stk, s) = some (stk, s') ∧ s' a = s b ∧ s' b = s a := by
  refine ⟨assignAll [a, b] [s b, s a] s, ?_, ?_, ?_⟩
  · rw [multi_simultaneous]; rfl
  · show (if a = a then s b else _) = s b
    simp
  · show (if b = a then s b else (if b = b then s a else _)) = s a
    have : b ≠ a := fun h => hab h.symm
    simp [this]

/-- an interleaved lowering (item, store, item, store, …) is NOT the language's rule: it differs
from the Spec on the swap -/
theorem interleaved_differs :
    ∃ (ts : List Nat) (items : List AExp) (s : Store) (k : Nat),
      seqAssign ts items s k ≠ assignAll ts (items.map (eval s)) s k :=
  ⟨[0, 1], [.var 1, .var 0], (fun j => if j = 0 then 10 else 20), 1, by decide⟩

/-- … and agrees with it when no item reads an assigned name, e.g. constants only -/
example : ∀ k, k < 3 → seqAssign [0, 1] [.lit 98, .lit 99] (fun _ => 0) k
    = assignAll [0, 1] [98, 99] (fun _ => 0) k := by decide

/-! ### int ** int -/

theorem ipow_one (n : Nat) : ipow 1 n = 1 := by
  induction n with
  | zero => rfl
  | succ n ih => simp [ipow, ih]

theorem ipow_neg_one (n : Nat) : ipow (-1) n = if n % 2 = 0 then 1 else -1 := by
  induction n with
  | zero => rfl
  | succ n ih =>
    simp only [ipow, ih]
    split <;> split <;> omega

theorem ipow_big (a : Int) (n : Nat) (ha : 2 ≤ a.natAbs) : 2 ≤ (ipow a (n + 1)).natAbs := by
  induction n with
  | zero => simpa [ipow] using ha
  | succ n ih =>
    have : (ipow a (n + 1 + 1)).natAbs = a.natAbs * (ipow a (n + 1)).natAbs := by
      show (a * ipow a (n + 1)).natAbs = _
      exact Int.natAbs_mul _ _
    rw [this]
    calc 2 ≤ 2 * 2 := by omega
      _ ≤ a.natAbs * (ipow a (n + 1)).natAbs := Nat.mul_le_mul ha ih

theorem truncRecip_big (x : Int) (hx : 2 ≤ x.natAbs) : truncRecip x = 0 := by
  unfold truncRecip
  rcases Int.le_total 0 x with h | h
  · exact Int.tdiv_eq_zero_of_lt (by omega) (by omega)
  · have : Int.tdiv 1 x = -(Int.tdiv 1 (-x)) := by rw [Int.tdiv_neg, Int.neg_neg]
    rw [this, Int.tdiv_eq_zero_of_lt (by omega) (by omega)]
    rfl

/-- **`int ** int` means the mathematical power truncated toward zero.**  For all a, b: wherever
the operator's implementation is defined in the model (the float detour is exact), its result is
the Spec's — in particular 1 ** b = 1 and (-1) ** b = ±1 for NEGATIVE b, and 0 for |a| ≥ 2. -/
theorem pow_impl_is_spec (a b r : Int) (h : powImpl a b = some r) : powSpec a b = some r := by
  unfold powImpl at h
  unfold powSpec
  by_cases hb : 0 ≤ b
  · simp only [hb, if_true] at h ⊢
    split at h
    · exact h
    · cases h
  · simp only [hb, if_false] at h ⊢
    by_cases h0 : a = 0
    · simp [h0] at h
    · simp only [h0, if_false] at h ⊢
      have hn : ∃ n, (-b).toNat = n + 1 := ⟨(-b).toNat - 1, by omega⟩
      obtain ⟨n, hn⟩ := hn
      by_cases h1 : a = 1
      · simp only [h1, if_true] at h
        subst h1
        rw [ipow_one]; rw [← h]; rfl
      · simp only [h1, if_false] at h
        by_cases h2 : a = -1
        · simp only [h2, if_true] at h
          subst h2
          rw [ipow_neg_one, ← h]
          have : ((-b).toNat % 2 = 0) ↔ (b % 2 = 0) := by omega
          by_cases hp : b % 2 = 0
          · simp [hp, this.mpr hp]; rfl
          · have hq : ¬ ((-b).toNat % 2 = 0) := fun x => hp (this.mp x)
            simp [hp, hq]; rfl
        · simp only [h2, if_false] at h
          rw [hn, truncRecip_big _ (ipow_big a n (by omega))]
          exact h

/-- the unit bases, for every exponent of the modelled range (the law a program relies on when it
alternates a sign with `(-1) ** k`): the square of (-1) ** b is 1, and 1 ** b is 1 -/
theorem pow_unit_bases (b : Int) (hb : -200 ≤ b ∧ b ≤ 200) :
    powImpl 1 b = some 1 ∧ ∃ r, powImpl (-1) b = some r ∧ r * r = 1 := by
  constructor
  · unfold powImpl
    by_cases h : 0 ≤ b
    · simp [h, ipow_one, hb.2]
    · simp [h]
  · unfold powImpl
    by_cases h : 0 ≤ b
    · simp only [h, if_true, ipow_neg_one]
      by_cases hp : b.toNat % 2 = 0
      · exact ⟨1, by simp [hp, hb.2], rfl⟩
      · exact ⟨-1, by simp [hp, hb.2], rfl⟩
    · by_cases hp : b % 2 = 0
      · exact ⟨1, by simp [h, hp], rfl⟩
      · exact ⟨-1, by simp [h, hp], rfl⟩

example : powImpl (-1) (-3) = some (-1) := by decide
example : powImpl 1 (-5) = some 1 := by decide
example : powImpl 2 (-1) = some 0 := by decide
example : powImpl 3 4 = some 81 := by decide
example : powSpec 0 (-1) = none := by decide

end Risor.C01.Edge
