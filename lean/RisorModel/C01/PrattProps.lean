import RisorModel.C01.PrattLemmas
/-!
C01 — operator precedence and associativity: parsing the rendering of any expression tree gives
the tree back (`parse_render`), for trees of unbounded depth.

`parseExpr` is the token-level model of risor's Pratt parser (Pratt.lean; tied to the real
precedence table and registrations by PrattTies.lean and compared with the real lexer + parser on
every generated expression by harness/c01parse.go).  `renderTop` prints a tree with parentheses
exactly where the precedence table and left associativity require, plus the two places where
the generator's printer (harness/gen.go) always parenthesises (operands of `in`/`not in` and of
prefix operators below CALL level, ternary condition and branches below EQUALS level).

Covered forms: literals (int, bool, nil, string, identifier), all 17 infix operators with their
real levels, prefix `-` and `!`, `in` / `not in`, the ternary (branches parsed at LOWEST),
calls and method calls with argument lists, index, slice (each bound optional), list literals.
-/
namespace Risor.C01.Pratt

/-- The side condition on the continuation is "no infix function on its first token". -/
theorem stopsExpr_iff (rest : List Token) : stopsExpr rest = true ↔ firstOp rest ≤ 1 := by
  cases rest with
  | nil => simp [stopsExpr, firstOp, Level.num]
  | cons tok ts =>
    cases h : infixFn tok.kind with
    | none => simp [stopsExpr, firstOp, h, Level.num]
    | some fn =>
      have h2 : 2 ≤ prec tok.kind := prec_ge_two_of_infix _ (by simp [h])
      simp [stopsExpr, firstOp, h]
      omega

/-- **Round trip (`parse_render`).**  For every expression tree `e` of the printable core whose
    ternaries are unnested (the only trees the language admits: `parseTernary` rejects a `?`
    inside the branches of another, even in parentheses) and every continuation `rest` that does
    not extend the expression (`stopsExpr`: empty, or first token without infix function — EOF,
    newline, `)`, `]`, `,`, `:`, `;`, `}` …), there is a fuel from which on the parser, started
    at LOWEST with the `tern` flag clear on `renderTop e ++ rest`, returns exactly `e` and
    leaves exactly `rest`.  Quantifies over all trees (unbounded depth) and all continuations. -/
theorem parse_render (e : Expr) (rest : List Token) (he : unnested e = true)
    (hr : stopsExpr rest = true) :
    ∃ fuel, ∀ f, fuel ≤ f → parseExpr f Level.LOWEST.num (renderTop e ++ rest) = some (e, rest) := by
  have hr' := (stopsExpr_iff rest).1 hr
  obtain ⟨N, h⟩ := Inv.doneLowest (inv_all e) (t := false) (by simpa [okT] using he) hr'
  exact ⟨N, fun f hf => h f hf⟩

/-- the whole input is the expression -/
theorem parse_render_all (e : Expr) (he : unnested e = true) :
    ∃ fuel, ∀ f, fuel ≤ f → parseExpr f Level.LOWEST.num (renderTop e) = some (e, []) := by
  simpa using parse_render e [] he rfl

/-- **Operand positions.**  The same at every precedence level the parser uses: the text printed
    for an operand position of level `q` that is followed by a token of precedence at most `fl`,
    parsed at any level `p ≤ q` (with `fl ≤ p`, so that the follower ends the operand), gives the
    tree back.  With the `tern` flag set the tree must contain no ternary at all. -/
theorem parse_render_operand (e : Expr) (t : Bool) (q fl p : Nat) (rest : List Token)
    (he : okT t e = true) (hpq : p ≤ q) (hp : p ≤ Level.PREFIX.num) (hfl : fl ≤ p)
    (hr : firstOp rest ≤ fl) :
    ∃ fuel, ∀ f, fuel ≤ f → parseNode f t p (render q fl e ++ rest) = some (e, rest) :=
  (inv_all e t q fl p rest he hpq hp hr).done (by omega)

/-- **Unambiguity.**  Two admissible trees with the same rendering are equal: the printer is
    injective, i.e. the parenthesisation never confuses two different trees. -/
theorem render_injective (e₁ e₂ : Expr) (h₁ : unnested e₁ = true) (h₂ : unnested e₂ = true)
    (h : renderTop e₁ = renderTop e₂) : e₁ = e₂ := by
  obtain ⟨f₁, p₁⟩ := parse_render_all e₁ h₁
  obtain ⟨f₂, p₂⟩ := parse_render_all e₂ h₂
  have a := p₁ (f₁ + f₂) (by omega)
  have b := p₂ (f₁ + f₂) (by omega)
  rw [h, b] at a
  injection a with a
  injection a with a
  exact a.symm

/-- The parser is a left inverse of the printer on token lists: whatever tree the printed text
    of `e` parses to (with enough fuel), it is `e`. -/
theorem parse_of_render_unique (e e' : Expr) (rest' : List Token) (he : unnested e = true)
    (h : ∀ f, ∃ f', f ≤ f' ∧ parseExpr f' Level.LOWEST.num (renderTop e) = some (e', rest')) :
    e' = e ∧ rest' = [] := by
  obtain ⟨f₀, p⟩ := parse_render_all e he
  obtain ⟨f', hf', hp⟩ := h f₀
  rw [p f' hf'] at hp
  injection hp with hp
  injection hp with a b
  exact ⟨a.symm, b.symm⟩

/-! ### why the hypothesis on ternaries is there -/

private def ia : Expr := .ident "a"
private def ib : Expr := .ident "b"
private def ic : Expr := .ident "c"
private def id_ : Expr := .ident "d"
private def ie : Expr := .ident "e"

/-- the full statement, without the restriction to unnested ternaries -/
def parse_render_full : Prop :=
  ∀ (e : Expr) (rest : List Token), stopsExpr rest = true →
    ∃ f, parseExpr f Level.LOWEST.num (renderTop e ++ rest) = some (e, rest)

/-- `a ? (b ? c : d) : e`: the parser rejects it for every fuel (risor's "nested ternary
    expression detected", which parentheses do not lift), so no printer can make it round-trip. -/
theorem parse_render_counterexample_nested_ternary : ¬ parse_render_full := by
  intro h
  obtain ⟨f, hf⟩ := h (.tern ia (.tern ib ic id_) ie) [] rfl
  have hr : renderTop (.tern ia (.tern ib ic id_) ie)
      = ⟨.IDENT, "a"⟩ :: tk .QUESTION :: tk .LPAREN :: ⟨.IDENT, "b"⟩ :: tk .QUESTION ::
        [⟨.IDENT, "c"⟩, tk .COLON, ⟨.IDENT, "d"⟩, tk .RPAREN, tk .COLON, ⟨.IDENT, "e"⟩] := by decide
  have key : ∀ f, parseExpr f 1 (renderTop (.tern ia (.tern ib ic id_) ie)) = none := by
    intro f
    rw [hr]
    exact parse_nested_ternary_fails f "a" "b" _
  simp only [List.append_nil] at hf
  rw [show Level.LOWEST.num = 1 from rfl, key f] at hf
  cases hf

/-! ### associativity and precedence as instances of the round trip -/

private def idt (x : String) : Token := ⟨.IDENT, x⟩

/-- **Left associativity, every operator.**  `x op y op z` is what the printer emits for
    `(x op y) op z` — no parentheses — and it parses back to that tree: every infix operator of
    the table, `**` included, associates to the left. -/
theorem left_assoc (op : BinOp) (x y z : String) :
    ∃ fuel, ∀ f, fuel ≤ f →
      parseExpr f Level.LOWEST.num [idt x, tk (opKind op), idt y, tk (opKind op), idt z]
        = some (.infix op (.infix op (.ident x) (.ident y)) (.ident z), []) := by
  have hr : renderTop (.infix op (.infix op (.ident x) (.ident y)) (.ident z))
      = [idt x, tk (opKind op), idt y, tk (opKind op), idt z] := by
    cases op <;> rfl
  rw [← hr]
  exact parse_render_all _ rfl

/-- the right-nested tree needs (and gets) parentheses: `x op (y op z)` -/
theorem right_nested_needs_parens (op : BinOp) (x y z : String) :
    renderTop (.infix op (.ident x) (.infix op (.ident y) (.ident z)))
      = [idt x, tk (opKind op), tk .LPAREN, idt y, tk (opKind op), idt z, tk .RPAREN] := by
  cases op <;> rfl

/-- **Precedence, every pair of operators on different levels.**  If `o₂` binds tighter than
    `o₁`, then `x o₁ y o₂ z` parses as `x o₁ (y o₂ z)` and `x o₂ y o₁ z` as `(x o₂ y) o₁ z`. -/
theorem precedence_pairs (o₁ o₂ : BinOp) (x y z : String) (h : prec (opKind o₁) < prec (opKind o₂)) :
    (∃ fuel, ∀ f, fuel ≤ f →
      parseExpr f Level.LOWEST.num [idt x, tk (opKind o₁), idt y, tk (opKind o₂), idt z]
        = some (.infix o₁ (.ident x) (.infix o₂ (.ident y) (.ident z)), [])) ∧
    (∃ fuel, ∀ f, fuel ≤ f →
      parseExpr f Level.LOWEST.num [idt x, tk (opKind o₂), idt y, tk (opKind o₁), idt z]
        = some (.infix o₁ (.infix o₂ (.ident x) (.ident y)) (.ident z), [])) := by
  have g1 := prec_opKind_ge o₁
  have g2 := prec_opKind_ge o₂
  have hr1 : renderTop (.infix o₁ (.ident x) (.infix o₂ (.ident y) (.ident z)))
      = [idt x, tk (opKind o₁), idt y, tk (opKind o₂), idt z] := by
    have c1 : (decide (Level.LOWEST.num < prec (opKind o₁)) && decide (Level.LOWEST.num ≤ prec (opKind o₁))) = true := by
      simp only [Bool.and_eq_true, decide_eq_true_eq]; (try simp only [Level.num]); omega
    have c2 : (decide (prec (opKind o₁) < prec (opKind o₂)) && decide (Level.LOWEST.num ≤ prec (opKind o₂))) = true := by
      simp only [Bool.and_eq_true, decide_eq_true_eq]; (try simp only [Level.num]); omega
    simp only [renderTop, render, wrap, c1, c2, if_true, idt, List.cons_append, List.nil_append]
  have hr2 : renderTop (.infix o₁ (.infix o₂ (.ident x) (.ident y)) (.ident z))
      = [idt x, tk (opKind o₂), idt y, tk (opKind o₁), idt z] := by
    have c1 : (decide (Level.LOWEST.num < prec (opKind o₁)) && decide (Level.LOWEST.num ≤ prec (opKind o₁))) = true := by
      simp only [Bool.and_eq_true, decide_eq_true_eq]; (try simp only [Level.num]); omega
    have c2 : (decide (prec (opKind o₁) - 1 < prec (opKind o₂))
        && decide (prec (opKind o₁) ≤ prec (opKind o₂))) = true := by
      simp only [Bool.and_eq_true, decide_eq_true_eq]; (try simp only [Level.num]); omega
    simp only [renderTop, render, wrap, c1, c2, if_true, idt, List.cons_append, List.nil_append]
  rw [← hr1, ← hr2]
  exact ⟨parse_render_all _ rfl, parse_render_all _ rfl⟩

/-- operators on one level group from the left whatever their mix: `x o₁ y o₂ z` is
    `(x o₁ y) o₂ z` (e.g. `a || b && c` is `(a || b) && c`: `&&` and `||` share COND) -/
theorem same_level_left (o₁ o₂ : BinOp) (x y z : String) (h : prec (opKind o₁) = prec (opKind o₂)) :
    ∃ fuel, ∀ f, fuel ≤ f →
      parseExpr f Level.LOWEST.num [idt x, tk (opKind o₁), idt y, tk (opKind o₂), idt z]
        = some (.infix o₂ (.infix o₁ (.ident x) (.ident y)) (.ident z), []) := by
  have g2 := prec_opKind_ge o₂
  have hr : renderTop (.infix o₂ (.infix o₁ (.ident x) (.ident y)) (.ident z))
      = [idt x, tk (opKind o₁), idt y, tk (opKind o₂), idt z] := by
    have c1 : (decide (Level.LOWEST.num < prec (opKind o₂)) && decide (Level.LOWEST.num ≤ prec (opKind o₂))) = true := by
      simp only [Bool.and_eq_true, decide_eq_true_eq]; (try simp only [Level.num]); omega
    have c2 : (decide (prec (opKind o₂) - 1 < prec (opKind o₁))
        && decide (prec (opKind o₂) ≤ prec (opKind o₁))) = true := by
      simp only [Bool.and_eq_true, decide_eq_true_eq]; (try simp only [Level.num]); omega
    simp only [renderTop, render, wrap, c1, c2, if_true, idt, List.cons_append, List.nil_append]
  rw [← hr]
  exact parse_render_all _ rfl

/-! ### concrete instances (also non-vacuity: the hypotheses are satisfiable on nested trees) -/

/-- `a - b - c` is `(a - b) - c` -/
example : parseExpr 12 1 [idt "a", tk .MINUS, idt "b", tk .MINUS, idt "c"]
    = some (.infix .sub (.infix .sub ia ib) ic, []) := by decide
/-- `a ** b ** c` is `(a ** b) ** c`: the table makes `**` left-associative -/
example : parseExpr 12 1 [idt "a", tk .POW, idt "b", tk .POW, idt "c"]
    = some (.infix .pow (.infix .pow ia ib) ic, []) := by decide
/-- `a ** b % c` is `a ** (b % c)`: `%` (MOD) binds tighter than `**` (POWER) -/
example : parseExpr 12 1 [idt "a", tk .POW, idt "b", tk .MOD, idt "c"]
    = some (.infix .pow ia (.infix .mod ib ic), []) := by decide
/-- `a || b && c` is `(a || b) && c`: one level -/
example : parseExpr 12 1 [idt "a", tk .OR, idt "b", tk .AND, idt "c"]
    = some (.infix .and (.infix .or ia ib) ic, []) := by decide
/-- `-a ** b` is `(-a) ** b`, `-a(b)` is `-(a(b))` -/
example : parseExpr 12 1 [tk .MINUS, idt "a", tk .POW, idt "b"]
    = some (.infix .pow (.neg ia) ib, []) := by decide
example : parseExpr 12 1 [tk .MINUS, idt "a", tk .LPAREN, idt "b", tk .RPAREN]
    = some (.neg (.call ia (.cons ib .nil)), []) := by decide
/-- `a ? b : c + d` is `a ? b : (c + d)` (false branch at LOWEST) and the printer therefore
    parenthesises a ternary that is followed by an operator -/
example : parseExpr 12 1 [idt "a", tk .QUESTION, idt "b", tk .COLON, idt "c", tk .PLUS, idt "d"]
    = some (.tern ia ib (.infix .add ic id_), []) := by decide
example : renderTop (.infix .and (.tern ia ib ic) id_)
    = [tk .LPAREN, idt "a", tk .QUESTION, idt "b", tk .COLON, idt "c", tk .RPAREN, tk .AND, idt "d"] := by
  decide
/-- a ternary as right operand of `&&` needs no parentheses -/
example : renderTop (.infix .and id_ (.tern ia ib ic))
    = [idt "d", tk .AND, idt "a", tk .QUESTION, idt "b", tk .COLON, idt "c"] := by decide

/-- a deep mixed tree: `f(a - (b - c), [a, b][1:], !d)[a in b ? c : d] not in (x.m(a) ? b : c)` -/
private def big : Expr :=
  .notIn
    (.index
      (.call (.ident "f")
        (.cons (.infix .sub ia (.infix .sub ib ic))
          (.cons (.slice (.list (.cons ia (.cons ib .nil))) (.some (.int 1)) .none)
            (.cons (.not id_) .nil))))
      (.tern (.isIn ia ib) ic id_))
    (.tern (.mcall (.ident "x") "m" (.cons ia .nil)) ib ic)

example : unnested big = true := by decide
example : (renderTop big).length = 46 := by decide
example : parseExpr 40 1 (renderTop big) = some (big, []) := by decide
example : parseExpr 40 1 (renderTop big ++ [tk .RPAREN, tk .PLUS]) = some (big, [tk .RPAREN, tk .PLUS]) := by
  decide
/-- the guard of `parse_render` holds for it, so the theorem applies (and to `big` nested in
    itself any number of times) -/
example : ∃ fuel, ∀ f, fuel ≤ f → parseExpr f 1 (renderTop (.neg (.infix .mul big big)))
    = some (.neg (.infix .mul big big), []) :=
  parse_render_all _ (by decide)
/-- continuations: stop tokens are accepted, an operator is not -/
example : stopsExpr [tk .RPAREN] = true ∧ stopsExpr [tk .NEWLINE] = true ∧ stopsExpr [tk .COMMA] = true
    ∧ stopsExpr [tk .COLON] = true ∧ stopsExpr [tk .RBRACKET] = true ∧ stopsExpr [tk .EOF] = true
    ∧ stopsExpr [tk .PLUS] = false ∧ stopsExpr [tk .LPAREN] = false := by decide

end Risor.C01.Pratt
