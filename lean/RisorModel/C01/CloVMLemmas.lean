import RisorModel.C01.CloVM
import RisorModel.C01.CloLemmas
/-!
C01, closure fragment — the machine with relocation (`CloVM.lean`) runs in LOCKSTEP with the
machine whose store is the semantics' store (`Clo.lean`), under the store relation `Rel`.
Core Lean only.
-/
namespace Risor.C01.Clo
open Risor.C01

/-! ### cells -/

theorem cget_set_same (h : Cells) (a : Nat) (x : String) (v : V) : (h.set a x v).get a x = v := by
  simp [Cells.set, Cells.get]

theorem cget_set_other (h : Cells) (a b : Nat) (x y : String) (v : V) (hne : ¬ (b = a ∧ y = x)) :
    (h.set a x v).get b y = h.get b y := by
  have : (b == a && y == x) = false := by
    rcases Nat.decEq b a with h1 | h1
    · simp [h1]
    · rcases String.decEq y x with h2 | h2
      · simp [h2]
      · exact absurd ⟨h1, h2⟩ hne
  simp only [Cells.set, Cells.get, this, Bool.false_eq_true, ↓reduceIte]

theorem cget_bind_other (h : Cells) (a b : Nat) (L : Store) (x : String) (hne : b ≠ a) :
    (h.bind a L).get b x = h.get b x := by
  induction L with
  | nil => rfl
  | cons p r ih =>
    have : (b == a && x == p.1) = false := by simp [hne]
    simpa only [Cells.bind, List.map_cons, List.cons_append, Cells.get, this, Bool.false_eq_true, ↓reduceIte] using ih

/-- the slice made of the locals `L` holds what `L` held -/
theorem cget_bind_same (h : Cells) (a : Nat) (L : Store) (x : String) (hn : h.get a x = .nil) :
    (h.bind a L).get a x = L.get x := by
  induction L with
  | nil => simpa [Cells.bind, Store.get] using hn
  | cons p r ih =>
    obtain ⟨y, v⟩ := p
    simp only [Cells.bind, List.map_cons, List.cons_append, Cells.get, Store.get, beq_self_eq_true, Bool.true_and]
    by_cases hxy : (x == y) = true
    · simp [hxy]
    · simp only [hxy, Bool.false_eq_true, ↓reduceIte]; exact ih

theorem cget_nokeys (h : Cells) (a : Nat) (x : String) (hk : ∀ e ∈ h, e.1.1 ≠ a) : h.get a x = .nil := by
  induction h with
  | nil => rfl
  | cons e r ih =>
    obtain ⟨⟨b, y⟩, v⟩ := e
    have hb : b ≠ a := hk _ (List.mem_cons_self ..)
    have : (a == b && x == y) = false := by simp [Ne.symm hb]
    simp only [Cells.get, this, Bool.false_eq_true, ↓reduceIte]
    exact ih (fun e he => hk e (List.mem_cons_of_mem _ he))

/-! ### values that mention captured cells only -/

theorem okV_mono {caps caps' : List Nat} (hs : ∀ b ∈ caps, b ∈ caps') {v : V} (h : okV caps v) : okV caps' v := by
  cases v with
  | cell b x => exact hs b h
  | clo i k cs => exact fun c hc => hs _ (h c hc)
  | _ => trivial

theorem okL_mono {caps caps' : List Nat} (hs : ∀ b ∈ caps, b ∈ caps') {l : List V} (h : okL caps l) : okL caps' l :=
  fun v hv => okV_mono hs (h v hv)
theorem okS_mono {caps caps' : List Nat} (hs : ∀ b ∈ caps, b ∈ caps') {s : Store} (h : okS caps s) : okS caps' s :=
  fun e he => okV_mono hs (h e he)
theorem okA_mono {caps caps' : List Nat} (hs : ∀ b ∈ caps, b ∈ caps') {a : Act} (h : okA caps a) : okA caps' a :=
  fun c hc => hs _ (h c hc)

theorem okS_get {caps : List Nat} {s : Store} (h : okS caps s) (x : String) : okV caps (s.get x) := by
  induction s with
  | nil => trivial
  | cons e r ih =>
    obtain ⟨y, v⟩ := e
    simp only [Store.get]
    split
    · exact h (y, v) (List.mem_cons_self ..)
    · exact ih (fun e he => h e (List.mem_cons_of_mem _ he))

theorem okH_get {caps : List Nat} {h : Cells} (hok : ∀ e ∈ h, okV caps e.2) (a : Nat) (x : String) : okV caps (h.get a x) := by
  induction h with
  | nil => trivial
  | cons e r ih =>
    obtain ⟨⟨b, y⟩, v⟩ := e
    simp only [Cells.get]
    split
    · exact hok _ (List.mem_cons_self ..)
    · exact ih (fun e he => hok e (List.mem_cons_of_mem _ he))

theorem okS_set {caps : List Nat} {s : Store} (h : okS caps s) (x : String) {v : V} (hv : okV caps v) : okS caps (s.set x v) := by
  intro e he
  rcases List.mem_cons.1 he with rfl | he
  · exact hv
  · exact h e he

theorem okV_vBinaryF {caps : List Nat} {k : Nat} {a b v : V} (h : vBinaryF k a b = .ok v) (ha : okV caps a) (hb : okV caps b) :
    okV caps v := by
  unfold vBinaryF at h
  repeat' split at h
  all_goals first | (cases h; first | exact ha | exact hb | trivial) | cases h

theorem okV_vCompareF {caps : List Nat} {k : Nat} {a b v : V} (h : vCompareF k a b = .ok v) : okV caps v := by
  unfold vCompareF at h
  repeat' split at h
  all_goals first | (cases h; trivial) | cases h

/-- the cells `LoadClosure` pops were on the stack; what stays was on the stack -/
theorem popCells_ok {caps : List Nat} : ∀ (n : Nat) (s : List V) (acc cs : List Cell) (rest : List V),
    popCells n s acc = some (cs, rest) → okL caps s → (∀ c ∈ acc, c.1 ∈ caps) →
    (∀ c ∈ cs, c.1 ∈ caps) ∧ okL caps rest
  | 0, s, acc, cs, rest, h, hs, ha => by
    simp only [popCells, Option.some.injEq, Prod.mk.injEq] at h
    obtain ⟨rfl, rfl⟩ := h
    exact ⟨ha, hs⟩
  | n + 1, [], acc, cs, rest, h, _, _ => by simp [popCells] at h
  | n + 1, v :: s, acc, cs, rest, h, hs, ha => by
    cases v with
    | cell a x =>
      simp only [popCells] at h
      refine popCells_ok n s ((a, x) :: acc) cs rest h (fun v hv => hs v (List.mem_cons_of_mem _ hv)) ?_
      intro c hc
      rcases List.mem_cons.1 hc with rfl | hc
      · exact hs (.cell a x) (List.mem_cons_self ..)
      · exact ha c hc
    | _ => simp [popCells] at h

/-! ### instructions that do not look at the cells -/

/-- every instruction of an activation but `LoadFast`, `StoreFast`, `LoadFree`, `StoreFree`, `MakeCell` -/
def isPure : FIns → Bool
  | .loadF _ | .storeF _ | .loadFree _ | .storeFree _ | .makeCell _ => false
  | _ => true

theorem pure_exec_ok (i : FIns) (hp : isPure i = true) (c c' : Cfg) (h : Cells) (hx : execIns i c = .ok c') :
    execIns i (c.withCells h) = .ok (c'.withCells h) := by
  obtain ⟨pc, stk, σ⟩ := c
  cases i <;> simp only [isPure, Bool.false_eq_true] at hp <;>
    rcases stk with _ | ⟨a, _ | ⟨b, r⟩⟩ <;> simp only [execIns, Cfg.withCells] at hx ⊢ <;>
    (repeat' split at hx) <;> (try cases hx) <;> simp_all

theorem pure_exec_err (i : FIns) (hp : isPure i = true) (c : Cfg) (e : Halt) (h : Cells) (hx : execIns i c = .error e) :
    execIns i (c.withCells h) = .error e := by
  obtain ⟨pc, stk, σ⟩ := c
  cases i <;> simp only [isPure, Bool.false_eq_true] at hp <;>
    rcases stk with _ | ⟨a, _ | ⟨b, r⟩⟩ <;> simp only [execIns, Cfg.withCells] at hx ⊢ <;>
    (repeat' split at hx) <;> (try cases hx) <;> simp_all

theorem okL_cons {caps : List Nat} {v : V} {l : List V} (hv : okV caps v) (hl : okL caps l) : okL caps (v :: l) := by
  intro w hw
  rcases List.mem_cons.1 hw with rfl | hw
  · exact hv
  · exact hl w hw

theorem okL_tail {caps : List Nat} {v : V} {l : List V} (h : okL caps (v :: l)) : okL caps l :=
  fun w hw => h w (List.mem_cons_of_mem _ hw)

theorem okL_head {caps : List Nat} {v : V} {l : List V} (h : okL caps (v :: l)) : okV caps v :=
  h v (List.mem_cons_self ..)

theorem okL_getElem {caps : List Nat} {l : List V} (h : okL caps l) {k : Nat} {v : V} (hk : l[k]? = some v) : okV caps v :=
  h v (List.mem_of_getElem? hk)

theorem okL_set {caps : List Nat} {l : List V} (h : okL caps l) (k : Nat) {v : V} (hv : okV caps v) : okL caps (l.set k v) := by
  intro w hw
  rcases List.mem_or_eq_of_mem_set hw with hw | rfl
  · exact h w hw
  · exact hv

/-- what an instruction that does not look at the cells does to the rest -/
theorem pure_facts {caps : List Nat} (i : FIns) (hp : isPure i = true) (c c' : Cfg) (hx : execIns i c = .ok c')
    (hs : okL caps c.stk) (hg : okS caps c.σ.sh.glob) :
    c'.σ.sh.cells = c.σ.sh.cells ∧ c'.σ.act = c.σ.act ∧ c.σ.sh.next ≤ c'.σ.sh.next ∧
      okL caps c'.stk ∧ okS caps c'.σ.sh.glob := by
  obtain ⟨pc, stk, σ⟩ := c
  cases i <;> simp only [isPure, Bool.false_eq_true] at hp <;>
    rcases stk with _ | ⟨a, _ | ⟨b, r⟩⟩ <;> simp only [execIns] at hx <;>
    (repeat' split at hx) <;> (try cases hx) <;>
    refine ⟨rfl, rfl, (by first | exact Nat.le_refl _ | exact Nat.le_succ _), ?_, ?_⟩ <;>
    first
      | exact hg
      | exact hs
      | exact okS_set hg _ (okL_head hs)
      | exact okL_tail hs
      | exact okL_tail (okL_tail hs)
      | exact okL_cons trivial hs
      | exact okL_cons (okS_get hg _) hs
      | exact okL_cons trivial (okL_tail hs)
      | exact okL_cons (okV_vBinaryF ‹_› (okL_head (okL_tail hs)) (okL_head hs)) (okL_tail (okL_tail hs))
      | exact okL_cons (okV_vCompareF ‹_›) (okL_tail (okL_tail hs))
      | exact okL_cons (okL_getElem hs ‹_›) hs
      | exact okL_cons (okL_getElem (okL_tail hs) ‹_›) (okL_set (okL_tail hs) _ (okL_head hs))
      | exact okL_cons (fun c hc => (popCells_ok _ _ _ _ _ ‹_› hs (by intro c hc; cases hc)).1 c hc) (popCells_ok _ _ _ _ _ ‹_› hs (by intro c hc; cases hc)).2
      | skip

/-! ### writes seen through `view` -/

theorem sget_set (s : Store) (x y : String) (v : V) : (s.set x v).get y = if y == x then v else s.get y := rfl

theorem cellOf_caps {caps : List Nat} {a : Act} (ha : okA caps a) (h0 : 0 ∈ caps) (x : String) : (a.cellOf x).1 ∈ caps := by
  unfold Act.cellOf
  split
  · rename_i c hc; exact ha c (List.mem_of_find?_eq_some hc)
  · exact h0

/-- writing the heap cell `(b, y)` on both sides keeps a frame's view, provided the frame is
    captured when it is the activation `b` -/
theorem set_both {c1 h : Cells} {l : Loc} {i b : Nat} {y : String} {v : V}
    (hv : ∀ x, c1.get i x = view h l i x) (hc : i = b → l.cap = true) :
    ∀ x, (c1.set b y v).get i x = view (h.set b y v) l i x := by
  intro x
  by_cases hk : i = b ∧ x = y
  · obtain ⟨rfl, rfl⟩ := hk
    simp only [view, hc rfl, ↓reduceIte, cget_set_same]
  · rw [cget_set_other _ _ _ _ _ _ hk, hv x]
    unfold view
    split
    · rw [cget_set_other _ _ _ _ _ _ hk]
    · rfl

theorem Sus_set {c1 h : Cells} {caps : List Nat} {b : Nat} {y : String} {v : V} (hb : b ∈ caps) :
    ∀ (fs : List Frame) (ls : List Loc), Sus c1 h caps fs ls → Sus (c1.set b y v) (h.set b y v) caps fs ls
  | [], [], _ => trivial
  | fr :: fs, l :: ls, ⟨h1, h2, h3, h4, h5, h6⟩ =>
    ⟨set_both h1 (fun e => h2.2 (e ▸ hb)), h2, h3, h4, h5, Sus_set hb fs ls h6⟩
  | [], _ :: _, hf => hf.elim
  | _ :: _, [], hf => hf.elim

/-- the semantics' cells change only at activations that are not suspended -/
theorem Sus_other {c1 c1' h : Cells} {caps : List Nat} :
    ∀ (fs : List Frame) (ls : List Loc), (∀ fr ∈ fs, ∀ x, c1'.get fr.act.id x = c1.get fr.act.id x) →
      Sus c1 h caps fs ls → Sus c1' h caps fs ls
  | [], [], _, _ => trivial
  | fr :: fs, l :: ls, hc, ⟨h1, h2, h3, h4, h5, h6⟩ =>
    ⟨fun x => (hc fr (List.mem_cons_self ..) x).trans (h1 x), h2, h3, h4, h5,
      Sus_other fs ls (fun fr' hf => hc fr' (List.mem_cons_of_mem _ hf)) h6⟩
  | [], _ :: _, _, hf => hf.elim
  | _ :: _, [], _, hf => hf.elim

/-- `CaptureLocals` of the activation `a` (not suspended): the other frames do not notice -/
theorem Sus_capture {c1 h : Cells} {caps : List Nat} {a : Nat} {L : Store} :
    ∀ (fs : List Frame) (ls : List Loc), (∀ fr ∈ fs, fr.act.id ≠ a) →
      Sus c1 h caps fs ls → Sus c1 (h.bind a L) (a :: caps) fs ls
  | [], [], _, _ => trivial
  | fr :: fs, l :: ls, hne, ⟨h1, h2, h3, h4, h5, h6⟩ => by
    have hn := hne fr (List.mem_cons_self ..)
    have sub : ∀ b ∈ caps, b ∈ a :: caps := fun b hb => List.mem_cons_of_mem _ hb
    refine ⟨?_, ?_, okS_mono sub h3, okL_mono sub h4, okA_mono sub h5,
      Sus_capture fs ls (fun fr' hf => hne fr' (List.mem_cons_of_mem _ hf)) h6⟩
    · intro x
      rw [h1 x]; unfold view; split
      · rw [cget_bind_other _ _ _ _ _ hn]
      · rfl
    · rw [h2, List.mem_cons]
      exact ⟨Or.inr, fun h => h.resolve_left hn⟩
  | [], _ :: _, _, hf => hf.elim
  | _ :: _, [], _, hf => hf.elim

/-! ### lockstep -/

/-- the defaults of the program's parameters are plain values (`paramOf`: int, bool, string) -/
def ParamsPlain (P : Prog) : Prop := ∀ g fc, P.find g = some fc → ∀ p ∈ fc.params, ∀ d, p.2 = some d → okV [] d

variable {P : Prog}

theorem mstep_default (m : M) (i : FIns) (hi : (P.codeOf m.fn)[m.cfg.pc]? = some (some i))
    (h1 : ∀ n, i ≠ .call n) (h2 : i ≠ .ret) :
    mstep P m = (match execIns i m.cfg with
      | .ok c => .ok { m with cfg := c }
      | .error (.done v) => if m.frames.isEmpty then .error (.done v) else .error (.err "eval")
      | .error e => .error e) := by
  obtain ⟨⟨pc, stk, σ⟩, fn, frames⟩ := m
  unfold mstep
  simp only at hi ⊢
  rw [hi]
  split
  · rename_i n heq; simp only [Option.some.injEq] at heq; exact absurd heq (h1 n)
  · rename_i heq; simp only [Option.some.injEq] at heq; exact absurd heq h2
  · simp only [step_of hi]
    rfl

theorem mstep2_default (s : M2) (i : FIns) (hi : (P.codeOf s.m.fn)[s.m.cfg.pc]? = some (some i))
    (hp : isPure i = true ∨ (∃ x, i = .loadFree x) ∨ (∃ x, i = .storeFree x)) (h1 : ∀ n, i ≠ .call n) (h2 : i ≠ .ret) :
    mstep2 P s = (match mstep P s.m with
      | .ok m' => .ok { s with m := m' }
      | .error h => .error h) := by
  unfold mstep2
  rw [hi]
  split
  · rename_i x heq; simp only [Option.some.injEq] at heq; subst heq
    rcases hp with hp | ⟨y, hp⟩ | ⟨y, hp⟩ <;> simp [isPure] at hp
  · rename_i x heq; simp only [Option.some.injEq] at heq; subst heq
    rcases hp with hp | ⟨y, hp⟩ | ⟨y, hp⟩ <;> simp [isPure] at hp
  · rename_i x heq; simp only [Option.some.injEq] at heq; subst heq
    rcases hp with hp | ⟨y, hp⟩ | ⟨y, hp⟩ <;> simp [isPure] at hp
  · rename_i n heq; simp only [Option.some.injEq] at heq; exact absurd heq (h1 n)
  · rename_i heq; simp only [Option.some.injEq] at heq; exact absurd heq h2
  · rfl

/-- an instruction that does not look at the cells: both machines do the same -/
theorem lockstep_pure (m1 : M) (h : Cells) (cur : Loc) (frs : List Loc) (caps : List Nat) (R : RelC m1 h cur frs caps)
    (i : FIns) (hi : (P.codeOf m1.fn)[m1.cfg.pc]? = some (some i))
    (hp : isPure i = true) (h1 : ∀ n, i ≠ .call n) (h2 : i ≠ .ret) :
    (∀ m1', mstep P m1 = .ok m1' → ∃ h' cur' frs' caps',
        mstep2 P (M2.of m1 h cur frs caps) = .ok (M2.of m1' h' cur' frs' caps') ∧ RelC m1' h' cur' frs' caps') ∧
    (∀ e, mstep P m1 = .error e → mstep2 P (M2.of m1 h cur frs caps) = .error e) := by
  have hi2 : (P.codeOf (M2.of m1 h cur frs caps).m.fn)[(M2.of m1 h cur frs caps).m.cfg.pc]? = some (some i) := hi
  rw [mstep2_default _ i hi2 (.inl hp) h1 h2, mstep_default _ i hi2 h1 h2, mstep_default m1 i hi h1 h2]
  simp only [M2.of]
  cases hx : execIns i m1.cfg with
  | ok c' =>
    rw [pure_exec_ok i hp m1.cfg c' h hx]
    simp only
    refine ⟨?_, by intro e he; cases he⟩
    intro m1' hm
    simp only [Except.ok.injEq] at hm
    subst hm
    obtain ⟨f1, f2, f3, f4, f5⟩ := pure_facts i hp m1.cfg c' hx R.okStk R.okGlob
    refine ⟨h, cur, frs, caps, rfl, ?_⟩
    exact {
      run := by simp only [f1, f2]; exact R.run
      sus := by simp only [f1]; exact R.sus
      heap := by simp only [f1]; exact R.heap
      fresh := by simp only [f1]; exact fun b x hb => R.fresh b x (Nat.le_trans f3 hb)
      capcur := by simp only [f2]; exact R.capcur
      nodup := by simp only [f2]; exact R.nodup
      below := by simp only [f2]; exact fun i hi => Nat.lt_of_lt_of_le (R.below i hi) f3
      capsBelow := fun b hb => Nat.lt_of_lt_of_le (R.capsBelow b hb) f3
      heapKeys := R.heapKeys
      zero := R.zero
      okStk := f4
      okLoc := R.okLoc
      okGlob := f5
      okHeap := R.okHeap
      okAct := by simp only [f2]; exact R.okAct }
  | error e =>
    rw [pure_exec_err i hp m1.cfg e h hx]
    cases e with
    | done v =>
      simp only
      refine ⟨(by intro m1' hm; split at hm <;> cases hm), ?_⟩
      intro e' he
      split at he <;> simp_all
    | err c => exact ⟨(by intro m1' hm; cases hm), fun e' he => by simpa using he⟩
    | nonlocal => exact ⟨(by intro m1' hm; cases hm), fun e' he => by simpa using he⟩

/-- writing a heap cell `(b, y)` (of a captured activation) on both sides -/
theorem RelC_write {m1 : M} {h : Cells} {cur : Loc} {frs : List Loc} {caps : List Nat} (R : RelC m1 h cur frs caps)
    (b : Nat) (y : String) (v : V) (hb : b ∈ caps) (hv : okV caps v) (pc' : Nat) (stk' : List V) (fn' : Option FnId)
    (hstk : okL caps stk') :
    RelC ⟨⟨pc', stk', { m1.cfg.σ with sh := { m1.cfg.σ.sh with cells := m1.cfg.σ.sh.cells.set b y v } }⟩, fn', m1.frames⟩
      (h.set b y v) cur frs caps :=
  { run := set_both R.run (fun e => R.capcur.2 (e ▸ hb))
    sus := Sus_set hb _ _ R.sus
    heap := by
      intro b' hb' x
      by_cases hk : b' = b ∧ x = y
      · obtain ⟨rfl, rfl⟩ := hk; simp only [cget_set_same]
      · simp only [cget_set_other _ _ _ _ _ _ hk]; exact R.heap b' hb' x
    fresh := by
      intro b' x hb'
      have hlt : b < m1.cfg.σ.sh.next := R.capsBelow b hb
      have hb'' : m1.cfg.σ.sh.next ≤ b' := hb'
      have hk : ¬ (b' = b ∧ x = y) := fun e => by have := e.1; omega
      simp only [cget_set_other _ _ _ _ _ _ hk]; exact R.fresh b' x hb'
    capcur := R.capcur
    nodup := R.nodup
    below := R.below
    capsBelow := R.capsBelow
    heapKeys := by
      intro e he
      rcases List.mem_cons.1 he with rfl | he
      · exact hb
      · exact R.heapKeys e he
    zero := R.zero
    okStk := hstk
    okLoc := R.okLoc
    okGlob := R.okGlob
    okHeap := by
      intro e he
      rcases List.mem_cons.1 he with rfl | he
      · exact hv
      · exact R.okHeap e he
    okAct := R.okAct }

/-- only the operand stack / position changes -/
theorem RelC_stk {m1 : M} {h : Cells} {cur : Loc} {frs : List Loc} {caps : List Nat} (R : RelC m1 h cur frs caps)
    (pc' : Nat) (stk' : List V) (fn' : Option FnId) (hstk : okL caps stk') :
    RelC ⟨⟨pc', stk', m1.cfg.σ⟩, fn', m1.frames⟩ h cur frs caps :=
  { run := R.run, sus := R.sus, heap := R.heap, fresh := R.fresh, capcur := R.capcur, nodup := R.nodup, below := R.below,
    capsBelow := R.capsBelow, heapKeys := R.heapKeys, zero := R.zero, okStk := hstk, okLoc := R.okLoc, okGlob := R.okGlob,
    okHeap := R.okHeap, okAct := R.okAct }

theorem view_ok {caps : List Nat} {h : Cells} {l : Loc} (hh : ∀ e ∈ h, okV caps e.2) (hl : okS caps l.loc) (a : Nat) (x : String) :
    okV caps (view h l a x) := by
  unfold view
  split
  · exact okH_get hh a x
  · exact okS_get hl x

theorem mstep_noins (m : M) (hi : (P.codeOf m.fn)[m.cfg.pc]? = none ∨ (P.codeOf m.fn)[m.cfg.pc]? = some none) :
    mstep P m = (if m.cfg.pc ≥ (P.codeOf m.fn).length then
        (if m.frames.isEmpty then .error (.done (m.cfg.stk.headD .nil)) else .error (.err "eval"))
      else .error (.err "eval")) := by
  unfold mstep step
  rcases hi with hi | hi <;> rw [hi] <;> by_cases hp : m.cfg.pc ≥ (P.codeOf m.fn).length <;> simp [hp]

theorem lockstep_loadF {m1 : M} {h : Cells} {cur : Loc} {frs : List Loc} {caps : List Nat} (R : RelC m1 h cur frs caps)
    (x : String) (hi : (P.codeOf m1.fn)[m1.cfg.pc]? = some (some (.loadF x))) :
    (∀ m1', mstep P m1 = .ok m1' → ∃ h' cur' frs' caps',
        mstep2 P (M2.of m1 h cur frs caps) = .ok (M2.of m1' h' cur' frs' caps') ∧ RelC m1' h' cur' frs' caps') ∧
    (∀ e, mstep P m1 = .error e → mstep2 P (M2.of m1 h cur frs caps) = .error e) := by
  obtain ⟨⟨pc, stk, ⟨act, ⟨c1, glob, next⟩⟩⟩, fn, frames⟩ := m1
  rw [mstep_default _ _ hi (by intro n hn; cases hn) (by intro hn; cases hn)]
  simp only [execIns]
  refine ⟨?_, by intro e he; cases he⟩
  intro m1' hm
  cases hm
  refine ⟨h, cur, frs, caps, ?_, RelC_stk R _ _ _ (okL_cons
    (by have := R.run x; simp only at this; rw [this]; exact view_ok R.okHeap R.okLoc _ _) R.okStk)⟩
  · unfold mstep2
    have hi2 : (P.codeOf (M2.of ⟨⟨pc, stk, ⟨act, ⟨c1, glob, next⟩⟩⟩, fn, frames⟩ h cur frs caps).m.fn)[(M2.of ⟨⟨pc, stk, ⟨act, ⟨c1, glob, next⟩⟩⟩, fn, frames⟩ h cur frs caps).m.cfg.pc]? = some (some (.loadF x)) := hi
    rw [hi2]
    have := R.run x
    simp only at this
    simp only [M2.of, M2.setCfg, Cfg.withCells, M2.heap, M2.id, this]

theorem lockstep_loadFree {m1 : M} {h : Cells} {cur : Loc} {frs : List Loc} {caps : List Nat} (R : RelC m1 h cur frs caps)
    (x : String) (hi : (P.codeOf m1.fn)[m1.cfg.pc]? = some (some (.loadFree x))) :
    (∀ m1', mstep P m1 = .ok m1' → ∃ h' cur' frs' caps',
        mstep2 P (M2.of m1 h cur frs caps) = .ok (M2.of m1' h' cur' frs' caps') ∧ RelC m1' h' cur' frs' caps') ∧
    (∀ e, mstep P m1 = .error e → mstep2 P (M2.of m1 h cur frs caps) = .error e) := by
  obtain ⟨⟨pc, stk, ⟨act, ⟨c1, glob, next⟩⟩⟩, fn, frames⟩ := m1
  have hb : (act.cellOf x).1 ∈ caps := cellOf_caps R.okAct R.zero x
  have hval := R.heap _ hb (act.cellOf x).2
  simp only at hval
  have hi2 : (P.codeOf (M2.of ⟨⟨pc, stk, ⟨act, ⟨c1, glob, next⟩⟩⟩, fn, frames⟩ h cur frs caps).m.fn)[(M2.of ⟨⟨pc, stk, ⟨act, ⟨c1, glob, next⟩⟩⟩, fn, frames⟩ h cur frs caps).m.cfg.pc]? = some (some (.loadFree x)) := hi
  rw [mstep_default _ _ hi (by intro n hn; cases hn) (by intro hn; cases hn),
    mstep2_default _ _ hi2 (.inr (.inl ⟨x, rfl⟩)) (by intro n hn; cases hn) (by intro hn; cases hn),
    mstep_default _ _ hi2 (by intro n hn; cases hn) (by intro hn; cases hn)]
  simp only [execIns, M2.of, Cfg.withCells]
  refine ⟨?_, by intro e he; cases he⟩
  intro m1' hm
  cases hm
  refine ⟨h, cur, frs, caps, by rw [hval], RelC_stk R _ _ _ (okL_cons (by rw [hval]; exact okH_get R.okHeap _ _) R.okStk)⟩

theorem lockstep_storeFree {m1 : M} {h : Cells} {cur : Loc} {frs : List Loc} {caps : List Nat} (R : RelC m1 h cur frs caps)
    (x : String) (hi : (P.codeOf m1.fn)[m1.cfg.pc]? = some (some (.storeFree x))) :
    (∀ m1', mstep P m1 = .ok m1' → ∃ h' cur' frs' caps',
        mstep2 P (M2.of m1 h cur frs caps) = .ok (M2.of m1' h' cur' frs' caps') ∧ RelC m1' h' cur' frs' caps') ∧
    (∀ e, mstep P m1 = .error e → mstep2 P (M2.of m1 h cur frs caps) = .error e) := by
  obtain ⟨⟨pc, stk, ⟨act, ⟨c1, glob, next⟩⟩⟩, fn, frames⟩ := m1
  have hb : (act.cellOf x).1 ∈ caps := cellOf_caps R.okAct R.zero x
  have hi2 : (P.codeOf (M2.of ⟨⟨pc, stk, ⟨act, ⟨c1, glob, next⟩⟩⟩, fn, frames⟩ h cur frs caps).m.fn)[(M2.of ⟨⟨pc, stk, ⟨act, ⟨c1, glob, next⟩⟩⟩, fn, frames⟩ h cur frs caps).m.cfg.pc]? = some (some (.storeFree x)) := hi
  rw [mstep_default _ _ hi (by intro n hn; cases hn) (by intro hn; cases hn),
    mstep2_default _ _ hi2 (.inr (.inr ⟨x, rfl⟩)) (by intro n hn; cases hn) (by intro hn; cases hn),
    mstep_default _ _ hi2 (by intro n hn; cases hn) (by intro hn; cases hn)]
  cases stk with
  | nil =>
    simp only [execIns, M2.of, Cfg.withCells]
    exact ⟨(by intro m1' hm; cases hm), fun e he => by cases he; rfl⟩
  | cons v r =>
    simp only [execIns, M2.of, Cfg.withCells]
    refine ⟨?_, by intro e he; cases he⟩
    intro m1' hm
    cases hm
    exact ⟨h.set (act.cellOf x).1 (act.cellOf x).2 v, cur, frs, caps, rfl,
      RelC_write R _ _ v hb (okL_head R.okStk) _ _ _ (okL_tail R.okStk)⟩

theorem lockstep_storeF {m1 : M} {h : Cells} {cur : Loc} {frs : List Loc} {caps : List Nat} (R : RelC m1 h cur frs caps)
    (x : String) (hi : (P.codeOf m1.fn)[m1.cfg.pc]? = some (some (.storeF x))) :
    (∀ m1', mstep P m1 = .ok m1' → ∃ h' cur' frs' caps',
        mstep2 P (M2.of m1 h cur frs caps) = .ok (M2.of m1' h' cur' frs' caps') ∧ RelC m1' h' cur' frs' caps') ∧
    (∀ e, mstep P m1 = .error e → mstep2 P (M2.of m1 h cur frs caps) = .error e) := by
  obtain ⟨⟨pc, stk, ⟨act, ⟨c1, glob, next⟩⟩⟩, fn, frames⟩ := m1
  have hi2 : (P.codeOf (M2.of ⟨⟨pc, stk, ⟨act, ⟨c1, glob, next⟩⟩⟩, fn, frames⟩ h cur frs caps).m.fn)[(M2.of ⟨⟨pc, stk, ⟨act, ⟨c1, glob, next⟩⟩⟩, fn, frames⟩ h cur frs caps).m.cfg.pc]? = some (some (.storeF x)) := hi
  rw [mstep_default _ _ hi (by intro n hn; cases hn) (by intro hn; cases hn)]
  unfold mstep2
  rw [hi2]
  cases stk with
  | nil =>
    simp only [execIns, M2.of, Cfg.withCells]
    exact ⟨(by intro m1' hm; cases hm), fun e he => by cases he; rfl⟩
  | cons v r =>
    simp only [execIns, M2.of, Cfg.withCells, M2.setCfg, M2.heap, M2.id]
    refine ⟨?_, by intro e he; cases he⟩
    intro m1' hm
    cases hm
    by_cases hc : cur.cap = true
    · have hb : act.id ∈ caps := R.capcur.1 hc
      exact ⟨h.set act.id x v, cur, frs, caps, by simp only [hc, ↓reduceIte],
        RelC_write R _ _ v hb (okL_head R.okStk) _ _ _ (okL_tail R.okStk)⟩
    · have hc : cur.cap = false := by simpa using hc
      have hnb : act.id ∉ caps := fun hb => by have := R.capcur.2 hb; rw [hc] at this; cases this
      refine ⟨h, { cur with loc := cur.loc.set x v }, frs, caps, by simp only [hc, Bool.false_eq_true, ↓reduceIte], ?_⟩
      have hrun := R.run
      simp only [view, hc, Bool.false_eq_true, ↓reduceIte] at hrun
      exact {
        run := by
          intro y
          simp only [view, hc, Bool.false_eq_true, ↓reduceIte, sget_set]
          by_cases hy : y = x
          · subst hy; simp [cget_set_same]
          · have hk : ¬ (act.id = act.id ∧ y = x) := fun e => hy e.2
            simp only [cget_set_other _ _ _ _ _ _ hk, hrun y]
            simp [hy]
        sus := by
          refine Sus_other _ _ ?_ R.sus
          intro fr hfr y
          have hne : fr.act.id ≠ act.id := by
            intro e
            have := R.nodup
            simp only [List.nodup_cons, List.mem_map] at this
            exact this.1 ⟨fr, hfr, e⟩
          exact cget_set_other _ _ _ _ _ _ (fun e => hne e.1)
        heap := by
          intro b hb y
          have hne : b ≠ act.id := fun e => hnb (e ▸ hb)
          simp only [cget_set_other _ _ _ _ _ _ (fun e => hne e.1)]
          exact R.heap b hb y
        fresh := by
          intro b y hb
          have hlt : act.id < next := R.below act.id (List.mem_cons_self ..)
          have hb' : next ≤ b := hb
          have hne : b ≠ act.id := by omega
          simp only [cget_set_other _ _ _ _ _ _ (fun e => hne e.1)]
          exact R.fresh b y hb
        capcur := by simp only [hc]; exact ⟨(fun e => by cases e), fun e => absurd e hnb⟩
        nodup := R.nodup
        below := R.below
        capsBelow := R.capsBelow
        heapKeys := R.heapKeys
        zero := R.zero
        okStk := okL_tail R.okStk
        okLoc := okS_set R.okLoc x (okL_head R.okStk)
        okGlob := R.okGlob
        okHeap := R.okHeap
        okAct := R.okAct }

theorem lockstep_makeCell {m1 : M} {h : Cells} {cur : Loc} {frs : List Loc} {caps : List Nat} (R : RelC m1 h cur frs caps)
    (x : String) (hi : (P.codeOf m1.fn)[m1.cfg.pc]? = some (some (.makeCell x))) :
    (∀ m1', mstep P m1 = .ok m1' → ∃ h' cur' frs' caps',
        mstep2 P (M2.of m1 h cur frs caps) = .ok (M2.of m1' h' cur' frs' caps') ∧ RelC m1' h' cur' frs' caps') ∧
    (∀ e, mstep P m1 = .error e → mstep2 P (M2.of m1 h cur frs caps) = .error e) := by
  obtain ⟨⟨pc, stk, ⟨act, ⟨c1, glob, next⟩⟩⟩, fn, frames⟩ := m1
  have hi2 : (P.codeOf (M2.of ⟨⟨pc, stk, ⟨act, ⟨c1, glob, next⟩⟩⟩, fn, frames⟩ h cur frs caps).m.fn)[(M2.of ⟨⟨pc, stk, ⟨act, ⟨c1, glob, next⟩⟩⟩, fn, frames⟩ h cur frs caps).m.cfg.pc]? = some (some (.makeCell x)) := hi
  rw [mstep_default _ _ hi (by intro n hn; cases hn) (by intro hn; cases hn)]
  unfold mstep2
  rw [hi2]
  simp only [execIns, M2.of, Cfg.withCells, M2.setCfg, M2.heap, M2.id, M2.capture]
  refine ⟨?_, by intro e he; cases he⟩
  intro m1' hm
  cases hm
  by_cases hc : cur.cap = true
  · have hb : act.id ∈ caps := R.capcur.1 hc
    exact ⟨h, cur, frs, caps, by simp only [hc, ↓reduceIte], RelC_stk R _ _ _ (okL_cons hb R.okStk)⟩
  · have hc : cur.cap = false := by simpa using hc
    have hnb : act.id ∉ caps := fun hb => by have := R.capcur.2 hb; rw [hc] at this; cases this
    have sub : ∀ b ∈ caps, b ∈ act.id :: caps := fun b hb => List.mem_cons_of_mem _ hb
    have hrun := R.run
    simp only [view, hc, Bool.false_eq_true, ↓reduceIte] at hrun
    have hnil : ∀ y, h.get act.id y = .nil := fun y =>
      cget_nokeys h act.id y (fun e he hk => hnb (hk ▸ R.heapKeys e he))
    have hslice : ∀ y, c1.get act.id y = (h.bind act.id cur.loc).get act.id y := fun y => by
      rw [cget_bind_same _ _ _ _ (hnil y)]; exact hrun y
    refine ⟨h.bind act.id cur.loc, { cur with cap := true }, frs, act.id :: caps,
      by simp only [hc, Bool.false_eq_true, ↓reduceIte], ?_⟩
    exact {
      run := by intro y; simp only [view, ↓reduceIte]; exact hslice y
      sus := by
        refine Sus_capture _ _ ?_ R.sus
        intro fr hfr e
        have := R.nodup
        simp only [List.nodup_cons, List.mem_map] at this
        exact this.1 ⟨fr, hfr, e⟩
      heap := by
        intro b hb y
        rcases List.mem_cons.1 hb with rfl | hb
        · exact hslice y
        · have hne : b ≠ act.id := fun e => hnb (e ▸ hb)
          rw [cget_bind_other _ _ _ _ _ hne]; exact R.heap b hb y
      fresh := R.fresh
      capcur := ⟨fun _ => List.mem_cons_self .., fun _ => rfl⟩
      nodup := R.nodup
      below := R.below
      capsBelow := by
        intro b hb
        rcases List.mem_cons.1 hb with rfl | hb
        · exact R.below _ (List.mem_cons_self ..)
        · exact R.capsBelow b hb
      heapKeys := by
        intro e he
        rcases List.mem_append.1 he with he | he
        · obtain ⟨p, _, rfl⟩ := List.mem_map.1 he; exact List.mem_cons_self ..
        · exact sub _ (R.heapKeys e he)
      zero := sub _ R.zero
      okStk := okL_cons (List.mem_cons_self ..) (okL_mono sub R.okStk)
      okLoc := okS_mono sub R.okLoc
      okGlob := okS_mono sub R.okGlob
      okHeap := by
        intro e he
        rcases List.mem_append.1 he with he | he
        · obtain ⟨p, hp, rfl⟩ := List.mem_map.1 he; exact okV_mono sub (R.okLoc p hp)
        · exact okV_mono sub (R.okHeap e he)
      okAct := okA_mono sub R.okAct }

theorem okS_bindArgs {caps : List Nat} : ∀ (ps : List (String × Option V)) (vs : List V) (L : Store),
    bindArgs ps vs = some L → okL caps vs → (∀ p ∈ ps, ∀ d, p.2 = some d → okV [] d) → okS caps L
  | [], [], L, h, _, _ => by cases h; intro e he; cases he
  | [], _ :: _, L, h, _, _ => by cases h
  | (x, o) :: ps, a :: as, L, h, hv, hd => by
    simp only [bindArgs, Option.map_eq_some_iff] at h
    obtain ⟨L', hL, rfl⟩ := h
    intro e he
    rcases List.mem_cons.1 he with rfl | he
    · exact okL_head hv
    · exact okS_bindArgs ps as L' hL (okL_tail hv) (fun p hp => hd p (List.mem_cons_of_mem _ hp)) e he
  | (x, some d) :: ps, [], L, h, hv, hd => by
    simp only [bindArgs, Option.map_eq_some_iff] at h
    obtain ⟨L', hL, rfl⟩ := h
    intro e he
    rcases List.mem_cons.1 he with rfl | he
    · exact okV_mono (by intro b hb; cases hb) (hd (x, some d) (List.mem_cons_self ..) d rfl)
    · exact okS_bindArgs ps [] L' hL hv (fun p hp => hd p (List.mem_cons_of_mem _ hp)) e he
  | (_, none) :: _, [], L, h, _, _ => by cases h

theorem lockstep_call (hPP : ParamsPlain P) {m1 : M} {h : Cells} {cur : Loc} {frs : List Loc} {caps : List Nat}
    (R : RelC m1 h cur frs caps) (n : Nat) (hi : (P.codeOf m1.fn)[m1.cfg.pc]? = some (some (.call n))) :
    (∀ m1', mstep P m1 = .ok m1' → ∃ h' cur' frs' caps',
        mstep2 P (M2.of m1 h cur frs caps) = .ok (M2.of m1' h' cur' frs' caps') ∧ RelC m1' h' cur' frs' caps') ∧
    (∀ e, mstep P m1 = .error e → mstep2 P (M2.of m1 h cur frs caps) = .error e) := by
  obtain ⟨⟨pc, stk, ⟨act, ⟨c1, glob, next⟩⟩⟩, fn, frames⟩ := m1
  have hi2 : (P.codeOf (M2.of ⟨⟨pc, stk, ⟨act, ⟨c1, glob, next⟩⟩⟩, fn, frames⟩ h cur frs caps).m.fn)[(M2.of ⟨⟨pc, stk, ⟨act, ⟨c1, glob, next⟩⟩⟩, fn, frames⟩ h cur frs caps).m.cfg.pc]? = some (some (.call n)) := hi
  have e1 : mstep P ⟨⟨pc, stk, ⟨act, ⟨c1, glob, next⟩⟩⟩, fn, frames⟩ = doCall P n ⟨⟨pc, stk, ⟨act, ⟨c1, glob, next⟩⟩⟩, fn, frames⟩ := by
    unfold mstep; simp only at hi; simp only [hi]
  have e2 : mstep2 P (M2.of ⟨⟨pc, stk, ⟨act, ⟨c1, glob, next⟩⟩⟩, fn, frames⟩ h cur frs caps)
      = doCall2 P n (M2.of ⟨⟨pc, stk, ⟨act, ⟨c1, glob, next⟩⟩⟩, fn, frames⟩ h cur frs caps) := by
    unfold mstep2; rw [hi2]
  rw [e1, e2]
  unfold doCall doCall2
  simp only [M2.of, Cfg.withCells]
  cases hd : stk.drop n with
  | nil => exact ⟨(by intro m1' hm; cases hm), fun e he => by cases he; rfl⟩
  | cons fv rest =>
    simp only
    cases hcal : fv.callee with
    | none => exact ⟨(by intro m1' hm; cases hm), fun e he => by cases he; rfl⟩
    | some gc =>
      obtain ⟨g, cs⟩ := gc
      simp only
      cases hf : P.find g with
      | none => exact ⟨(by intro m1' hm; cases hm), fun e he => by cases he; rfl⟩
      | some fc =>
        simp only
        cases hent : enterLoc fv fc.name fc.named fc.params ((stk.take n).reverse) with
        | none => exact ⟨(by intro m1' hm; cases hm), fun e he => by cases he; rfl⟩
        | some L =>
          simp only
          refine ⟨?_, by intro e he; cases he⟩
          intro m1' hm
          cases hm
          refine ⟨h, ⟨L, false⟩, cur :: frs, caps, rfl, ?_⟩
          have hfvmem : fv ∈ stk := List.mem_of_mem_drop (by rw [hd]; exact List.mem_cons_self ..)
          have hfv : okV caps fv := R.okStk fv hfvmem
          have hrest : okL caps rest := fun v hv => R.okStk v (List.mem_of_mem_drop (by rw [hd]; exact List.mem_cons_of_mem _ hv))
          have hargs : okL caps ((stk.take n).reverse) := fun v hv => R.okStk v (List.mem_of_mem_take (List.mem_reverse.1 hv))
          have hcs : ∀ c ∈ cs, c.1 ∈ caps := by
            cases fv with
            | fn k =>
              simp only [V.callee, Option.some.injEq, Prod.mk.injEq] at hcal
              obtain ⟨_, rfl⟩ := hcal; intro c hc; cases hc
            | clo i k cs' =>
              simp only [V.callee, Option.some.injEq, Prod.mk.injEq] at hcal
              obtain ⟨_, rfl⟩ := hcal; exact hfv
            | nil => simp [V.callee] at hcal
            | bool b => simp [V.callee] at hcal
            | int i => simp [V.callee] at hcal
            | str s => simp [V.callee] at hcal
            | cell a x => simp [V.callee] at hcal
          have hL : okS caps L := by
            unfold enterLoc at hent
            simp only [Option.map_eq_some_iff] at hent
            obtain ⟨L0, hL0, rfl⟩ := hent
            have h0 := okS_bindArgs fc.params _ L0 hL0 hargs (hPP g fc hf)
            split
            · intro e he
              rcases List.mem_append.1 he with he | he
              · exact h0 e he
              · simp only [List.mem_singleton] at he; subst he; exact hfv
            · exact h0
          have hidlt : act.id < next := R.below act.id (List.mem_cons_self ..)
          exact {
            run := by
              intro y
              show (c1.bind next L).get next y = view h ⟨L, false⟩ next y
              simp only [view, Bool.false_eq_true, ↓reduceIte]
              exact cget_bind_same _ _ _ _ (R.fresh next y (Nat.le_refl _))
            sus := by
              refine ⟨?_, R.capcur, R.okLoc, hrest, R.okAct, ?_⟩
              · intro y
                show (c1.bind next L).get act.id y = _
                rw [cget_bind_other _ _ _ _ _ (Nat.ne_of_lt hidlt)]; exact R.run y
              · refine Sus_other _ _ ?_ R.sus
                intro fr hfr y
                have : fr.act.id < next := R.below _ (List.mem_cons_of_mem _ (List.mem_map.2 ⟨fr, hfr, rfl⟩))
                exact cget_bind_other _ _ _ _ _ (Nat.ne_of_lt this)
            heap := by
              intro b hb y
              have : b < next := R.capsBelow b hb
              show (c1.bind next L).get b y = _
              rw [cget_bind_other _ _ _ _ _ (Nat.ne_of_lt this)]; exact R.heap b hb y
            fresh := by
              intro b y hb
              have hb' : next + 1 ≤ b := hb
              show (c1.bind next L).get b y = _
              rw [cget_bind_other _ _ _ _ _ (Nat.ne_of_gt hb')]; exact R.fresh b y (Nat.le_of_succ_le hb')
            capcur := ⟨(fun e => by cases e), fun hb => by have := R.capsBelow next hb; simp only at this; omega⟩
            nodup := by
              show (next :: (act.id :: frames.map (·.act.id))).Nodup
              refine List.nodup_cons.2 ⟨?_, R.nodup⟩
              intro hmem
              have := R.below next hmem
              simp only at this; omega
            below := by
              intro i hi
              show i < next + 1
              rcases List.mem_cons.1 hi with rfl | hi
              · omega
              · have := R.below i hi; simp only at this; omega
            capsBelow := fun b hb => by
              have hlt : b < next := R.capsBelow b hb
              show b < next + 1
              omega
            heapKeys := R.heapKeys
            zero := R.zero
            okStk := fun v hv => by cases hv
            okLoc := hL
            okGlob := R.okGlob
            okHeap := R.okHeap
            okAct := hcs }

theorem lockstep_ret {m1 : M} {h : Cells} {cur : Loc} {frs : List Loc} {caps : List Nat}
    (R : RelC m1 h cur frs caps) (hi : (P.codeOf m1.fn)[m1.cfg.pc]? = some (some .ret)) :
    (∀ m1', mstep P m1 = .ok m1' → ∃ h' cur' frs' caps',
        mstep2 P (M2.of m1 h cur frs caps) = .ok (M2.of m1' h' cur' frs' caps') ∧ RelC m1' h' cur' frs' caps') ∧
    (∀ e, mstep P m1 = .error e → mstep2 P (M2.of m1 h cur frs caps) = .error e) := by
  obtain ⟨⟨pc, stk, ⟨act, ⟨c1, glob, next⟩⟩⟩, fn, frames⟩ := m1
  have hi2 : (P.codeOf (M2.of ⟨⟨pc, stk, ⟨act, ⟨c1, glob, next⟩⟩⟩, fn, frames⟩ h cur frs caps).m.fn)[(M2.of ⟨⟨pc, stk, ⟨act, ⟨c1, glob, next⟩⟩⟩, fn, frames⟩ h cur frs caps).m.cfg.pc]? = some (some .ret) := hi
  have e1 : mstep P ⟨⟨pc, stk, ⟨act, ⟨c1, glob, next⟩⟩⟩, fn, frames⟩ = doRet ⟨⟨pc, stk, ⟨act, ⟨c1, glob, next⟩⟩⟩, fn, frames⟩ := by
    unfold mstep; simp only at hi; simp only [hi]
  have e2 : mstep2 P (M2.of ⟨⟨pc, stk, ⟨act, ⟨c1, glob, next⟩⟩⟩, fn, frames⟩ h cur frs caps)
      = doRet2 (M2.of ⟨⟨pc, stk, ⟨act, ⟨c1, glob, next⟩⟩⟩, fn, frames⟩ h cur frs caps) := by
    unfold mstep2; rw [hi2]
  rw [e1, e2]
  unfold doRet doRet2
  simp only [M2.of, Cfg.withCells]
  cases stk with
  | nil => exact ⟨(by intro m1' hm; cases hm), fun e he => by cases he; rfl⟩
  | cons v r =>
    cases frames with
    | nil => exact ⟨(by intro m1' hm; cases hm), fun e he => by cases he; rfl⟩
    | cons fr fs =>
      cases frs with
      | nil => exact (R.sus : False).elim
      | cons l ls =>
        refine ⟨?_, by intro e he; cases he⟩
        intro m1' hm
        cases hm
        obtain ⟨s1, s2, s3, s4, s5, s6⟩ := (R.sus : Sus c1 h caps (fr :: fs) (l :: ls))
        refine ⟨h, l, ls, caps, rfl, ?_⟩
        exact {
          run := s1
          sus := s6
          heap := R.heap
          fresh := R.fresh
          capcur := s2
          nodup := (List.nodup_cons.1 R.nodup).2
          below := fun i hi => R.below i (List.mem_cons_of_mem _ hi)
          capsBelow := R.capsBelow
          heapKeys := R.heapKeys
          zero := R.zero
          okStk := okL_cons (okL_head R.okStk) s4
          okLoc := s3
          okGlob := R.okGlob
          okHeap := R.okHeap
          okAct := s5 }

/-- **Lockstep.**  Whatever the machine `M` (whose store is the semantics') does in one step from a
    state related to a state of the machine with relocation, that machine does in one step too, and
    the states are related again; an error or the end of the run is the same on both. -/
theorem lockstep (hPP : ParamsPlain P) (m1 : M) (h : Cells) (cur : Loc) (frs : List Loc) (caps : List Nat)
    (R : RelC m1 h cur frs caps) :
    (∀ m1', mstep P m1 = .ok m1' → ∃ h' cur' frs' caps',
        mstep2 P (M2.of m1 h cur frs caps) = .ok (M2.of m1' h' cur' frs' caps') ∧ RelC m1' h' cur' frs' caps') ∧
    (∀ e, mstep P m1 = .error e → mstep2 P (M2.of m1 h cur frs caps) = .error e) := by
  have noins : (P.codeOf m1.fn)[m1.cfg.pc]? = none ∨ (P.codeOf m1.fn)[m1.cfg.pc]? = some none →
      (∀ m1', mstep P m1 = .ok m1' → ∃ h' cur' frs' caps',
        mstep2 P (M2.of m1 h cur frs caps) = .ok (M2.of m1' h' cur' frs' caps') ∧ RelC m1' h' cur' frs' caps') ∧
      (∀ e, mstep P m1 = .error e → mstep2 P (M2.of m1 h cur frs caps) = .error e) := by
    intro hi
    have hi2 : (P.codeOf (M2.of m1 h cur frs caps).m.fn)[(M2.of m1 h cur frs caps).m.cfg.pc]? = none ∨
        (P.codeOf (M2.of m1 h cur frs caps).m.fn)[(M2.of m1 h cur frs caps).m.cfg.pc]? = some none := hi
    have e2 : mstep2 P (M2.of m1 h cur frs caps) = (match mstep P (M2.of m1 h cur frs caps).m with
        | .ok m' => .ok { (M2.of m1 h cur frs caps) with m := m' }
        | .error h => .error h) := by
      unfold mstep2
      rcases hi2 with hi2 | hi2 <;> rw [hi2] <;> rfl
    rw [e2, mstep_noins _ hi2, mstep_noins _ hi]
    simp only [M2.of, Cfg.withCells]
    by_cases hp : m1.cfg.pc ≥ (P.codeOf m1.fn).length
    · by_cases hf : m1.frames.isEmpty = true
      · simp only [hp, hf, ↓reduceIte]
        exact ⟨(by intro m1' hm; cases hm), fun e he => by cases he; rfl⟩
      · simp only [hp, hf, ↓reduceIte]
        exact ⟨(by intro m1' hm; cases hm), fun e he => by cases he; rfl⟩
    · simp only [hp, ↓reduceIte]
      exact ⟨(by intro m1' hm; cases hm), fun e he => by cases he; rfl⟩
  cases hi : (P.codeOf m1.fn)[m1.cfg.pc]? with
  | none => exact noins (.inl hi)
  | some o =>
    cases o with
    | none => exact noins (.inr hi)
    | some i =>
      cases i
      case loadF x => exact lockstep_loadF R x hi
      case storeF x => exact lockstep_storeF R x hi
      case loadFree x => exact lockstep_loadFree R x hi
      case storeFree x => exact lockstep_storeFree R x hi
      case makeCell x => exact lockstep_makeCell R x hi
      case call n => exact lockstep_call hPP R n hi
      case ret => exact lockstep_ret R hi
      all_goals exact lockstep_pure m1 h cur frs caps R _ hi rfl (by intro n hn; cases hn) (by intro hn; cases hn)

/-! ### runs -/

inductive MSteps2 (P : Prog) : M2 → M2 → Prop where
  | refl (s : M2) : MSteps2 P s s
  | cons {a b c : M2} : mstep2 P a = .ok b → MSteps2 P b c → MSteps2 P a c

/-- a run of `M` is matched, step for step, by a run of the machine with relocation -/
theorem msteps_lock (hPP : ParamsPlain P) {m1 m1' : M} (hs : MSteps P m1 m1') :
    ∀ (h : Cells) (cur : Loc) (frs : List Loc) (caps : List Nat), RelC m1 h cur frs caps →
      ∃ h' cur' frs' caps', MSteps2 P (M2.of m1 h cur frs caps) (M2.of m1' h' cur' frs' caps') ∧ RelC m1' h' cur' frs' caps' := by
  induction hs with
  | refl m => intro h cur frs caps R; exact ⟨h, cur, frs, caps, .refl _, R⟩
  | cons hstep _ ih =>
    intro h cur frs caps R
    obtain ⟨h1, cur1, frs1, caps1, hs1, R1⟩ := (lockstep hPP _ h cur frs caps R).1 _ hstep
    obtain ⟨h2, cur2, frs2, caps2, hs2, R2⟩ := ih h1 cur1 frs1 caps1 R1
    exact ⟨h2, cur2, frs2, caps2, .cons hs1 hs2, R2⟩

/-- a finished run of `M` is a finished run of the machine with relocation: same result, same globals -/
theorem mrun_lock (hPP : ParamsPlain P) : ∀ (k : Nat) (m1 : M) (h : Cells) (cur : Loc) (frs : List Loc) (caps : List Nat),
    RelC m1 h cur frs caps → (mrun P k m1).1 ≠ .running →
    mrun2 P k (M2.of m1 h cur frs caps) = ((mrun P k m1).1, (mrun P k m1).2.glob)
  | 0, m1, h, cur, frs, caps, _, hr => by simp [mrun] at hr
  | k + 1, m1, h, cur, frs, caps, R, hr => by
    have L := lockstep hPP m1 h cur frs caps R
    simp only [mrun, mrun2] at hr ⊢
    cases hstep : mstep P m1 with
    | ok m1' =>
      obtain ⟨h1, cur1, frs1, caps1, hs1, R1⟩ := L.1 _ hstep
      rw [hstep] at hr
      simp only [hs1, hstep]
      exact mrun_lock hPP k m1' h1 cur1 frs1 caps1 R1 hr
    | error e =>
      rw [L.2 _ hstep]
      cases e <;> rfl

theorem RelC_init : RelC M.init [] ⟨[], true⟩ [] [0] :=
  { run := fun _ => rfl
    sus := trivial
    heap := fun _ _ _ => rfl
    fresh := fun _ _ _ => rfl
    capcur := ⟨fun _ => List.mem_cons_self .., fun _ => rfl⟩
    nodup := by simp [M.init]
    below := by intro i hi; simp [M.init, Env.init] at hi ⊢; omega
    capsBelow := by intro b hb; simp [M.init, Env.init] at hb ⊢; omega
    heapKeys := fun e he => by cases he
    zero := List.mem_cons_self ..
    okStk := fun v hv => by cases hv
    okLoc := fun e he => by cases he
    okGlob := fun e he => by cases he
    okHeap := fun e he => by cases he
    okAct := fun c hc => by cases hc }

theorem M2_init_of : M2.init = M2.of M.init [] ⟨[], true⟩ [] [0] := rfl

theorem okV_paramOf {q : N} {x : String} {d : V} (h : paramOf q = some (x, some d)) : okV [] d := by
  unfold paramOf at h
  split at h <;> simp only [Option.some.injEq, Prod.mk.injEq, reduceCtorEq, and_false] at h
  all_goals (obtain ⟨_, h⟩ := h; cases h; trivial)

macro "col_cut" : tactic => `(tactic| (intro d hd; simp [collectCut] at hd))
macro "col_st" : tactic => `(tactic| (intro d hd; simp [collectCut, stmtsOf] at hd))
macro "col1" ih:ident : tactic =>
  `(tactic| (refine ⟨?_, by col_cut, by col_st⟩; intro d hd; simp only [collect] at hd; exact ($ih _).1 d hd))
macro "col2" ih1:ident ih2:ident : tactic =>
  `(tactic| (refine ⟨?_, by col_cut, by col_st⟩; intro d hd; simp only [collect, List.mem_append] at hd
             rcases hd with hd | hd
             · exact ($ih1 _).1 d hd
             · exact ($ih2 _).1 d hd))
macro "col3" ih1:ident ih2:ident ih3:ident : tactic =>
  `(tactic| (refine ⟨?_, by col_cut, by col_st⟩; intro d hd; simp only [collect, List.mem_append] at hd
             rcases hd with (hd | hd) | hd
             · exact ($ih1 _).1 d hd
             · exact ($ih2 _).1 d hd
             · exact ($ih3 _).1 d hd))

/-- every function collected from a program takes its parameters from `paramsOf` -/
theorem collect_params : ∀ (n : N) (pls : List String),
    (∀ d ∈ collect pls n, ∃ ps, d.params = paramsOf ps) ∧ (∀ d ∈ collectCut pls n, ∃ ps, d.params = paramsOf ps) ∧
    (∀ d ∈ collectCut pls (stmtsOf n), ∃ ps, d.params = paramsOf ps) := by
  intro n
  induction n with
  | func name ps b ihp ihb =>
    intro pls
    refine ⟨?_, by col_cut, by col_st⟩
    intro d hd
    cases b <;> simp only [collect, List.mem_cons, List.mem_singleton, List.not_mem_nil, or_false] at hd
    case block s =>
      rcases hd with rfl | hd
      · exact ⟨ps, rfl⟩
      · exact (ihb (ownNames name ps s)).2.2 d hd
    all_goals (subst hd; exact ⟨ps, rfl⟩)
  | cons h t ihh iht =>
    intro pls
    refine ⟨?_, ?_, by col_st⟩
    · intro d hd; simp only [collect, List.mem_append] at hd
      rcases hd with hd | hd
      · exact (ihh _).1 d hd
      · exact (iht _).1 d hd
    · intro d hd; simp only [collectCut] at hd
      split at hd
      · exact (ihh _).1 d hd
      · rcases List.mem_append.1 hd with hd | hd
        · exact (ihh _).1 d hd
        · exact (iht _).2.1 d hd
  | block e ih =>
    intro pls
    refine ⟨?_, by col_cut, ?_⟩
    · intro d hd; simp only [collect] at hd; exact (ih _).1 d hd
    · intro d hd; simp only [stmtsOf] at hd; exact (ih _).2.1 d hd
  | «infix» op l r ihl ihr => intro pls; col2 ihl ihr
  | neg e ih => intro pls; col1 ih
  | not e ih => intro pls; col1 ih
  | expr e ih => intro pls; col1 ih
  | prog e ih => intro pls; col1 ih
  | var x e ih => intro pls; col1 ih
  | assign x op e ih => intro pls; col1 ih
  | forever e ih => intro pls; col1 ih
  | return_ e ih => intro pls; col1 ih
  | default_ e ih => intro pls; col1 ih
  | tern c a b i1 i2 i3 => intro pls; col3 i1 i2 i3
  | if_ c a b i1 i2 i3 => intro pls; col3 i1 i2 i3
  | forcond c b i1 i2 => intro pls; col2 i1 i2
  | call f a i1 i2 => intro pls; col2 i1 i2
  | case_ v b i1 i2 => intro pls; col2 i1 i2
  | switch s c i1 i2 => intro pls; col2 i1 i2
  | for3 i c p b i1 i2 i3 i4 =>
    intro pls
    refine ⟨?_, by col_cut, by col_st⟩; intro d hd; simp only [collect, List.mem_append] at hd
    rcases hd with ((hd | hd) | hd) | hd
    · exact (i1 _).1 d hd
    · exact (i2 _).1 d hd
    · exact (i4 _).1 d hd
    · exact (i3 _).1 d hd
  | _ => intro pls; exact ⟨by intro d hd; simp [collect] at hd, by col_cut, by col_st⟩

theorem paramsPlain_compClo (p : N) : ParamsPlain (compClo p) := by
  intro g fc hf q hq d hd
  have hmem : fc ∈ (compClo p).funs := List.mem_of_find?_eq_some hf
  simp only [compClo, List.mem_map] at hmem
  obtain ⟨dcl, hdcl, rfl⟩ := hmem
  simp only [compDecl] at hq
  obtain ⟨ps, hps⟩ := (collect_params p []).1 dcl hdcl
  rw [hps] at hq
  simp only [paramsOf, List.mem_filterMap] at hq
  obtain ⟨qn, _, hqn⟩ := hq
  obtain ⟨x, o⟩ := q
  simp only at hd; subst hd
  exact okV_paramOf hqn

end Risor.C01.Clo
