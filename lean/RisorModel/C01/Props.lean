import RisorModel.C01.Sem
import RisorModel.C01.SemLemmas
/-!
C01 — property theorems about the reference semantics (Spec sanity: these make `Sem`
trustworthy to read).  Each holds for every program fragment, state and fuel.
Compiler-correctness theorems for the proved fragment live in `FragProps.lean`.

Second half: `error`, `try`, `defer`, pipes.  `St.out` is the print log, most recent line
FIRST; `St.defers` holds the deferred calls of the running activation, most recent first.
-/
namespace Risor.C01

/-- `a && b` never evaluates `b` when `a` is falsy: the result and the state (print log,
    heap, variables) are exactly those of `a` alone. -/
theorem and_short_circuits (f : Nat) (a b : N) (env : Env) (st st' : St) (v : Val)
    (ha : evalE f a env st = (.val v, st')) (hv : v.truthy st' = false) :
    evalE (f + 1) (.infix .and a b) env st = (.val v, st') := by
  simp [evalE, ha, hv]

/-- `a || b` never evaluates `b` when `a` is truthy. -/
theorem or_short_circuits (f : Nat) (a b : N) (env : Env) (st st' : St) (v : Val)
    (ha : evalE f a env st = (.val v, st')) (hv : v.truthy st' = true) :
    evalE (f + 1) (.infix .or a b) env st = (.val v, st') := by
  simp [evalE, ha, hv]

/-- left-to-right: a binary operator evaluates its left operand first, threads the resulting
    state (including the print log) into the right operand, then applies the operator. -/
theorem binop_left_to_right (f : Nat) (op : BinOp) (a b : N) (env : Env) (st st1 st2 : St) (va vb : Val)
    (hop : op ≠ .and) (hop' : op ≠ .or)
    (ha : evalE f a env st = (.val va, st1)) (hb : evalE f b env st1 = (.val vb, st2)) :
    evalE (f + 1) (.infix op a b) env st = binop st2 op va vb := by
  cases op <;> simp_all [evalE]

/-- an error in the left operand is the error of the whole expression and the right operand
    is not evaluated -/
theorem binop_left_error (f : Nat) (op : BinOp) (a b : N) (env : Env) (st st1 : St) (c : String)
    (hop : op ≠ .and) (hop' : op ≠ .or)
    (ha : evalE f a env st = (.err c, st1)) :
    evalE (f + 1) (.infix op a b) env st = (.err c, st1) := by
  cases op <;> simp_all [evalE]

/-- block scoping: whatever a block declares, the environment after the block statement is
    the environment before it -/
theorem block_scoping (f : Nat) (stmts : N) (env : Env) (st : St) :
    (execS (f + 1) (.block stmts) env st).2.1 = env := by
  simp only [execS]

/-- the ternary evaluates exactly one branch -/
theorem ternary_one_branch (f : Nat) (c a b : N) (env : Env) (st st1 : St) (v : Val)
    (hc : evalE f c env st = (.val v, st1)) :
    evalE (f + 1) (.tern c a b) env st = if v.truthy st1 then evalE f a env st1 else evalE f b env st1 := by
  simp [evalE, hc]

/-! ### error and try -/

/-- `error(msg)` raises: the call does not produce a value but the raised-error signal carrying
    the message (for every message without a format verb, every state with call budget left). -/
theorem error_raises (f : Nat) (msg : String) (st : St) (hs : st.steps ≠ 0) (hm : msg.contains '%' = false) :
    callVal (f + 1) (.builtin "error") [.str msg] st = (.uerr msg, { st with steps := st.steps - 1 }) := by
  simp [callVal, hs, hm]

/-- `error(e)` on an error VALUE raises that error again with its class and message. -/
theorem error_reraises (f : Nat) (cls : String) (msg : Option String) (rest : List Val) (st : St) (hs : st.steps ≠ 0) :
    callVal (f + 1) (.builtin "error") (.err cls msg :: rest) st = (raiseOf cls msg, { st with steps := st.steps - 1 }) := by
  simp [callVal, hs]

/-- integer division by zero is a Go panic … -/
theorem division_by_zero_is_panic (st : St) (x : Int) : binop st .div (.int x) (.int 0) = (.err "panic", st) := by
  simp [binop]

/-- … and a panic, like the errz-fatal classes, is not catchable; type / index / script errors are. -/
theorem uncatchable_classes :
    uncatchable "panic" = true ∧ uncatchable "eval" = true ∧ uncatchable "args" = true ∧
    uncatchable "type" = false ∧ uncatchable "index" = false ∧ uncatchable "error" = false := by
  decide

/-- `try` with nothing left to try yields nil. -/
theorem try_exhausted (f : Nat) (last : Option Val) (st : St) :
    tryArgs (f + 1) [] last st = (.val .nil, st) := by
  simp [tryArgs]

/-- an argument that is not a function or builtin is returned as the value of `try`; the
    remaining arguments are not looked at and the state is unchanged. -/
theorem try_value_argument (f : Nat) (a : Val) (rest : List Val) (last : Option Val) (st : St)
    (hc : callable a = false) :
    tryArgs (f + 1) (a :: rest) last st = (.val a, st) := by
  simp [tryArgs, hc]

/-- the first callable argument that returns a value decides `try`: later arguments (handlers)
    are not called.  It is called with `tryCallArgs`: the last caught error, if any — to a
    function only if it declares a parameter. -/
theorem try_returns_first_success (f : Nat) (a : Val) (rest : List Val) (last : Option Val) (st st1 : St) (v : Val)
    (hc : callable a = true)
    (h : callVal f a (tryCallArgs st a last) st = (.val v, st1)) :
    tryArgs (f + 1) (a :: rest) last st = (.val v, st1) := by
  simp [tryArgs, hc, h]

/-- `try` CATCHES every error whose class is not fatal: evaluation goes on with the remaining
    arguments, in the state the failed call left (its print log and assignments are kept), and the
    error — class and message — is what the next handler receives. -/
theorem try_catches_nonfatal (f : Nat) (a : Val) (rest : List Val) (last : Option Val) (st st1 : St)
    (sg : Sig) (cls : String) (msg : Option String)
    (hc : callable a = true)
    (h : callVal f a (tryCallArgs st a last) st = (sg, st1))
    (he : sg.errInfo = some (cls, msg)) (hcatch : uncatchable cls = false) :
    tryArgs (f + 1) (a :: rest) last st = tryArgs f rest (some (.err cls msg)) st1 := by
  cases sg <;> simp_all [tryArgs, Sig.errInfo]

/-- `try` lets FATAL errors through (errz: eval and args errors; and recovered Go panics such as
    division by zero): the raised error is the outcome of `try` itself, no handler runs. -/
theorem try_propagates_fatal (f : Nat) (a : Val) (rest : List Val) (last : Option Val) (st st1 : St)
    (sg : Sig) (cls : String) (msg : Option String)
    (hc : callable a = true)
    (h : callVal f a (tryCallArgs st a last) st = (sg, st1))
    (he : sg.errInfo = some (cls, msg)) (hfatal : uncatchable cls = true) :
    tryArgs (f + 1) (a :: rest) last st = (sg, st1) := by
  cases sg <;> simp_all [tryArgs, Sig.errInfo]

/-- the handler receives the error only if it declares a parameter. -/
theorem try_handler_arguments (st : St) (id : Nat) (clo : Closure) (e : Val) (h : st.funcs[id]? = some clo) :
    tryCallArgs st (.fn id) (some e) = if clo.params.length > 0 then [e] else [] := by
  simp [tryCallArgs, h]

/-! ### defer -/

/-- `defer f(args)` evaluates the callee, then the arguments, NOW, and records the call in front
    of the activation's deferred calls; nothing is called. -/
theorem defer_registers (f : Nat) (fe args : N) (env : Env) (st st1 st2 : St) (fv : Val) (vs : List Val)
    (hd : st.depth ≠ 0)
    (hf : evalE f fe env st = (.val fv, st1))
    (ha : evalArgs f args env st1 = (.ok vs, st2)) :
    execS (f + 1) (.defer_ (.call fe args)) env st = (.unit, env, { st2 with defers := (fv, vs) :: st2.defers }) := by
  simp [execS, hd, hf, ha]

/-- `defer` outside of a function is rejected (the real compiler rejects the program). -/
theorem defer_at_top_level_rejected (f : Nat) (c : N) (env : Env) (st : St) (hd : st.depth = 0) :
    (execS (f + 1) (.defer_ c) env st).1 = .err "compile" := by
  cases c <;> simp [execS, hd]

/-- a function call whose body ends — with a value OR with a raised error — leaves through its
    deferred calls: the outcome of the call is what `runDefers` makes of the body's outcome and
    the calls recorded during the body; afterwards the caller's own deferred calls are back. -/
theorem call_leaves_through_defers (f id : Nat) (args : List Val) (st st1 st2 : St) (clo : Closure)
    (env env' : Env) (stmts : N) (sg out : Sig)
    (hs : st.steps ≠ 0) (hf : st.funcs[id]? = some clo)
    (hn : args.length ≤ clo.params.length) (hd : st.depth < 200)
    (hb : callVal.bind clo.params args clo.env { st with steps := st.steps - 1, depth := st.depth + 1, defers := [] } = some (env, st1))
    (hbody : clo.body = .block stmts)
    (hex : execStmts f stmts env st1 = (sg, env', st2))
    (hout : bodyOutcome sg = some out) :
    callVal (f + 1) (.fn id) args st =
      ((runDefers f st2.defers out { st2 with defers := [] }).1,
       { (runDefers f st2.defers out { st2 with defers := [] }).2 with
          depth := (runDefers f st2.defers out { st2 with defers := [] }).2.depth - 1, defers := st.defers }) := by
  have hn' : ¬ (clo.params.length < args.length) := by omega
  have hd' : ¬ (200 ≤ st.depth) := by omega
  cases sg <;> simp [bodyOutcome] at hout <;> subst hout <;>
    simp [callVal, hs, hf, hn', hd', hb, hbody, hex]

/-- a deferred call that returns: its result is discarded, the outcome stands, the next one runs. -/
theorem defer_result_discarded (f : Nat) (fv : Val) (args : List Val) (rest : List (Val × List Val))
    (out : Sig) (st st1 : St) (v : Val)
    (h : callVal f fv args st = (.val v, st1)) :
    runDefers (f + 1) ((fv, args) :: rest) out st = runDefers f rest out st1 := by
  simp [runDefers, h]

/-- an error raised by a deferred call REPLACES the function's outcome (value or earlier error),
    and the remaining deferred calls still run — unless a panic is involved. -/
theorem defer_error_replaces_outcome (f : Nat) (fv : Val) (args : List Val) (rest : List (Val × List Val))
    (out sg : Sig) (st st1 : St) (cls : String) (msg : Option String)
    (h : callVal f fv args st = (sg, st1)) (he : sg.errInfo = some (cls, msg))
    (hp : cls ≠ "panic") (ho : out.errInfo.map (·.1) ≠ some "panic") :
    runDefers (f + 1) ((fv, args) :: rest) out st = runDefers f rest sg st1 := by
  cases sg <;> simp_all [runDefers, Sig.errInfo]

/-- LIFO: when the deferred calls are prints — `ds` lists their argument lists, most recently
    deferred first — they write their lines in that order after everything the body printed
    (`st.out` is most-recent-first, so the new lines appear reversed in front of it), whatever the
    function's outcome `out` is (value or error), and leave the outcome alone. -/
theorem defer_lifo (out : Sig) (ds : List (List Val)) :
    ∀ (f : Nat) (st : St), ds.length ≤ st.steps → ds.length < f →
      (∀ a ∈ ds, a.any (textUnknown st 8) = false) →
      runDefers f (ds.map fun a => (Val.builtin "print", a)) out st =
        (out, { st with steps := st.steps - ds.length, out := (ds.map (printLine st)).reverse ++ st.out }) := by
  induction ds with
  | nil =>
    intro f st _ hf _
    cases f with
    | zero => omega
    | succ f => simp [runDefers]
  | cons a rest ih =>
    intro f st hs hf ht
    match f, hf with
    | f + 2, hf =>
      simp only [List.length_cons] at hs hf
      have hs0 : st.steps ≠ 0 := by omega
      have hta : a.any (textUnknown st 8) = false := ht a (by simp)
      simp only [List.map_cons, runDefers, print_call f a st hs0 hta]
      let st1 : St := { st with steps := st.steps - 1, out := printLine st a :: st.out }
      have hrest := ih (f + 1) st1 (by simp [st1]; omega) (by omega)
        (by
          intro b hb
          have := ht b (by simp [hb])
          rw [← this]
          congr 1
          exact funext (textUnknown_heap st1 st rfl 8))
      rw [hrest]
      have hp : ∀ b, printLine st1 b = printLine st b := fun b => printLine_heap st1 st rfl b
      simp [st1, hp]
      omega

/-! ### pipes -/

/-- an ordinary call: callee, then arguments left to right, then the call. -/
theorem call_is_callVal (f : Nat) (fe args : N) (env : Env) (st st1 st2 : St) (fv : Val) (vs : List Val)
    (hf : evalE f fe env st = (.val fv, st1))
    (ha : evalArgs f args env st1 = (.ok vs, st2)) :
    evalE (f + 1) (.call fe args) env st = callVal f fv vs st2 := by
  simp [evalE, hf, ha]

/-- `x | f(a…)` is the call `f(x, a…)`: the piped value is evaluated first, then the callee and
    the written arguments, and the callee receives the piped value as its FIRST argument. -/
theorem pipe_is_call (g : Nat) (x fe args : N) (env : Env) (st st1 st2 st3 : St) (xv fv : Val) (vs : List Val)
    (hx : evalE (g + 1) x env st = (.val xv, st1))
    (hf : evalE g fe env st1 = (.val fv, st2))
    (ha : evalArgs g args env st2 = (.ok vs, st3)) :
    evalE (g + 2) (.pipe (.cons x (.cons (.call fe args) .nilL))) env st = callVal g fv (xv :: vs) st3 := by
  rw [evalE]
  · simp only [hx]
    simp only [evalPipe, hf, ha]
    cases g with
    | zero => rw [evalE] at hf; simp at hf
    | succ g =>
      generalize callVal (g + 1) fv (xv :: vs) st3 = r
      obtain ⟨sg, st4⟩ := r
      cases sg <;> simp [evalPipe_done]
  all_goals simp

/-- `x | e` where `e` is not itself a call: the value of `e` is called with `x`. -/
theorem pipe_bare_stage (g : Nat) (x e : N) (env : Env) (st st1 st2 : St) (xv fv : Val)
    (hcall : ∀ fe args, e ≠ .call fe args) (hm : ∀ o n a, e ≠ .mcall o n a) (hp : ∀ s, e ≠ .pipe s)
    (hx : evalE (g + 1) x env st = (.val xv, st1))
    (hf : evalE g e env st1 = (.val fv, st2)) :
    evalE (g + 2) (.pipe (.cons x (.cons e .nilL))) env st = callVal g fv [xv] st2 := by
  rw [evalE]
  · simp only [hx]
    rw [evalPipe]
    · simp only [hf]
      cases g with
      | zero => rw [evalE] at hf; simp at hf
      | succ g =>
        generalize callVal (g + 1) fv [xv] st2 = r
        obtain ⟨sg, st4⟩ := r
        cases sg <;> simp [evalPipe_done]
    all_goals (intros; simp_all)
  all_goals simp

/-- stages run left to right: after a stage returned `y`, the rest of the pipe goes on with `y`;
    a stage that fails ends the pipe with its error. -/
theorem pipe_stage_then_rest (g : Nat) (xv : Val) (fe args rest : N) (env : Env) (st st1 st2 : St) (fv : Val) (vs : List Val)
    (hf : evalE g fe env st = (.val fv, st1))
    (ha : evalArgs g args env st1 = (.ok vs, st2)) :
    evalPipe (g + 1) xv (.cons (.call fe args) rest) env st =
      match callVal g fv (xv :: vs) st2 with
      | (.val y, st3) => evalPipe g y rest env st3
      | other => other := by
  simp only [evalPipe, hf, ha]
  generalize callVal g fv (xv :: vs) st2 = r
  obtain ⟨sg, st3⟩ := r
  cases sg <;> rfl

/-! ### the hypotheses are satisfiable
Whole programs exercising every theorem above (`c01DirectedErrors` in harness/c01.go: LIFO order,
arguments evaluated at the defer statement, errors in and around deferred calls, what try catches
and what it does not, pipes) are evaluated by this semantics and by the real pipeline on every
run; here, small closed instances that the kernel evaluates. -/

/-- two deferred prints, `d2` deferred last: it prints first (the log is most-recent-first) -/
example : (runDefers 3 [(.builtin "print", [.str "d2"]), (.builtin "print", [.str "d1"])] (.val (.int 7)) {}).2.out
    = ["d1", "d2"] := by rfl

/-- a deferred `error(e)` (e = a caught error "late") replaces the value 7 -/
example : (runDefers 3 [(.builtin "error", [.err "error" (some "late")])] (.val (.int 7)) {}).1.errInfo
    = some ("error", some "late") := by rfl

/-- `try` with a caught script error pending: the failing builtin handler (`error` raises its
    argument again) is caught as well and the plain value 4 is the result -/
example : (tryArgs 3 [.builtin "error", .int 4] (some (.err "error" (some "boom"))) {}).1.errInfo = none := by rfl

/-- an args error (fatal) is not caught: `try(len)` calls `len()` -/
example : (tryArgs 3 [.builtin "len", .int 4] none {}).1.errInfo = some ("args", none) := by rfl

example : callable (.builtin "print") = true ∧ callable (.fn 0) = true ∧ callable (.int 1) = false := ⟨rfl, rfl, rfl⟩

end Risor.C01
