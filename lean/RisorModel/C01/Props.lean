import RisorModel.C01.Sem
/-!
C01 — property theorems about the reference semantics (Spec sanity: these make `Sem`
trustworthy to read).  Each holds for every program fragment, state and fuel.
Compiler-correctness theorems for the proved fragment live in `FragProps.lean`.
-/
namespace Risor.C01

/-- `a && b` never evaluates `b` when `a` is falsy: the result and the state (print log,
    heap, variables) are exactly those of `a` alone. -/
theorem and_short_circuits (f : Nat) (a b : N) (env : Env) (st st' : St) (v : Val)
    (ha : evalE f a env st = (.val v, st')) (hv : v.truthy st' = false) :
    evalE (f + 1) (.infix .and a b) env st = (.val v, st') := by
  simp [evalE, ha, hv]

/-- `a || b` never evaluates `b` when `a` is truthy. -/
theorem or_short_circuits (f : Nat) (a b : N) (env : Env) (st st' : St) (v : Val)
    (ha : evalE f a env st = (.val v, st')) (hv : v.truthy st' = true) :
    evalE (f + 1) (.infix .or a b) env st = (.val v, st') := by
  simp [evalE, ha, hv]

/-- left-to-right: a binary operator evaluates its left operand first, threads the resulting
    state (including the print log) into the right operand, then applies the operator. -/
theorem binop_left_to_right (f : Nat) (op : BinOp) (a b : N) (env : Env) (st st1 st2 : St) (va vb : Val)
    (hop : op ≠ .and) (hop' : op ≠ .or)
    (ha : evalE f a env st = (.val va, st1)) (hb : evalE f b env st1 = (.val vb, st2)) :
    evalE (f + 1) (.infix op a b) env st = binop st2 op va vb := by
  cases op <;> simp_all [evalE]

/-- an error in the left operand is the error of the whole expression and the right operand
    is not evaluated -/
theorem binop_left_error (f : Nat) (op : BinOp) (a b : N) (env : Env) (st st1 : St) (c : String)
    (hop : op ≠ .and) (hop' : op ≠ .or)
    (ha : evalE f a env st = (.err c, st1)) :
    evalE (f + 1) (.infix op a b) env st = (.err c, st1) := by
  cases op <;> simp_all [evalE]

/-- block scoping: whatever a block declares, the environment after the block statement is
    the environment before it -/
theorem block_scoping (f : Nat) (stmts : N) (env : Env) (st : St) :
    (execS (f + 1) (.block stmts) env st).2.1 = env := by
  simp only [execS]

/-- the ternary evaluates exactly one branch -/
theorem ternary_one_branch (f : Nat) (c a b : N) (env : Env) (st st1 : St) (v : Val)
    (hc : evalE f c env st = (.val v, st1)) :
    evalE (f + 1) (.tern c a b) env st = if v.truthy st1 then evalE f a env st1 else evalE f b env st1 := by
  simp [evalE, hc]

end Risor.C01
