import RisorModel.C01.Frag
/-
C01 — the PROVED FRAGMENT F7 of compiler correctness: STRINGS AND MAPS AS DATA (DESIGN.md C01;
fragment "F7" of the brief).

`Seq.lean`'s development (F1 expressions incl. string literals, `+` concatenation and the six
string comparisons / assignments / if / loops, F2 break / continue, F3 switch; top-level programs,
all variables global, a heap of objects with identity) with MAP objects on the heap instead of
lists:

  * values (`SVal`) are the scalars plus REFERENCES `ref a` to a map object (the address `a` is
    the object's identity) and the int iterator a range loop over an int keeps on the stack;
  * a map object is an association list with unique string keys (`mapSet` replaces or appends);
  * `ev` / `evalStr`   the reference semantics: map literals `{k1: e1, …, kn: en}` with string-literal
                       keys (entries evaluated in SOURCE ORDER; the object is built as
                       `vm.go`'s BuildMap builds it: the pairs are popped from the top of the
                       stack, so of two entries with the same key the EARLIER one is assigned
                       last and wins — the code as it is; see StrProps.lean), index read `m[k]`
                       (a missing key is the error class "index", a key that is not a string the
                       class "type"), item assignment `m[k] = e` and `m[k] op= e` on the heap
                       object (aliases see the write), membership `k in m` / `k not in m`
                       (`Map.Contains`: a key that is not a string is not contained), deep map
                       equality, map truthiness (not empty);
  * `comp` / `compStr` the functional compiler: key constant, value code per entry in source
                       order, `BuildMap n`; `BinarySubscr`, `StoreSubscr`; `x; c; Swap 1;
                       ContainsOp 0` (+ `UnaryNot` for `not in`);
  * `step` / `runStr`  the restriction of `VM.lean`'s `step` to these opcodes on the SAME state
                       type (the heap relation of the simulation is the identity).

`StrProps.lean` proves the simulation for every node and `str_compile_correct` for whole
programs.  The links `evalStr = Sem`, `compStr = Compile.lean = compiler.go`,
`runStr = VM.lean = vm.go` are checked by correspondence on every run (`harness/c01str.go`).
Core Lean only.
-/
namespace Risor.C01.Str
open Risor.C01
open Risor.C01.Frag (isNilL leaves isBlock isElse isL isInit isPost opOK postName isDefault countDefault
  dfltBody assignK nodup preLen)

/-! ### values, states, outcomes -/

inductive SVal where
  | nil
  | bool (b : Bool)
  | int (i : Int)
  | str (s : String)
  | ref (a : Nat)                     -- a map object: its address is its identity
  | iterI (n : Int) (pos : Nat)       -- `*object.IntIter` over `n`
  deriving Repr, DecidableEq, Inhabited

/-- a map object: string keys (unique) with their values -/
abbrev MapObj := List (String × SVal)

/-- the heap: map objects by address -/
abbrev Heap := List MapObj

/-- `m.items[k]` -/
def mapGet : MapObj → String → Option SVal
  | [], _ => none
  | (k', v) :: r, k => if k == k' then some v else mapGet r k

/-- `m.items[k] = v`: replace the entry of `k`, or add one -/
def mapSet : MapObj → String → SVal → MapObj
  | [], k, v => [(k, v)]
  | (k', v') :: r, k, v => if k == k' then (k', v) :: r else (k', v') :: mapSet r k v

/-- the flat list `k1, v1, …, kn, vn` (the operands of `BuildMap`, deepest first) as pairs; `none`
    when a key is not a string (`k.(*object.String)` panics) -/
def pairsOf : List SVal → Option (List (String × SVal))
  | .str k :: v :: rest => (pairsOf rest).map ((k, v) :: ·)
  | [] => some []
  | _ => none

/-- `BuildMap` as `vm.go` runs it: the pairs are popped from the TOP of the stack, i.e. the LAST
    entry is assigned first and the FIRST entry last: of two entries with one key the earlier wins -/
def buildMapObj (ps : List (String × SVal)) : MapObj := ps.foldr (fun kv acc => mapSet acc kv.1 kv.2) []

/-- global variables by name (the most recent binding wins; an unbound name reads `nil`) and the
    heap -/
structure St where
  g : List (String × SVal)
  h : Heap
  deriving Repr, DecidableEq, Inhabited

def getG : List (String × SVal) → String → SVal
  | [], _ => .nil
  | (y, v) :: r, x => if x == y then v else getG r x

def St.get (σ : St) (x : String) : SVal := getG σ.g x

def St.set (σ : St) (x : String) (v : SVal) : St := { σ with g := (x, v) :: σ.g }

/-- the entries of the map object at `a` -/
def St.items (σ : St) (a : Nat) : MapObj := σ.h.getD a []

/-- a new list object: the next free address -/
def St.alloc (σ : St) (l : MapObj) : Nat × St := (σ.h.length, { σ with h := σ.h ++ [l] })

/-- replace the items of the object at `a` -/
def St.write (σ : St) (a : Nat) (l : MapObj) : St := { σ with h := σ.h.set a l }

def St.empty : St := ⟨[], []⟩

/-- `IsTruthy`: a list is truthy when it is not empty -/
def SVal.truthy (σ : St) : SVal → Bool
  | .nil => false
  | .bool b => b
  | .int i => i != 0
  | .str s => s != ""
  | .ref a => !(σ.items a).isEmpty
  | .iterI _ _ => true

/-- `object.Equals`: scalars by value, lists element-wise (`List.Equals`); the fuel bounds the
    nesting depth followed (below it: same object), as `Sem.valEq` / `VM.vEq` -/
def eqV (h : Heap) : Nat → SVal → SVal → Bool
  | _, .nil, .nil => true
  | _, .bool a, .bool b => a == b
  | _, .int a, .int b => a == b
  | _, .str a, .str b => a == b
  | 0, .ref a, .ref b => a == b
  | f + 1, .ref a, .ref b =>
    let la := h.getD a []
    let lb := h.getD b []
    la.length == lb.length && la.all (fun kv => match mapGet lb kv.1 with | some y => eqV h f kv.2 y | none => false)
  | _, .iterI a p, .iterI b q => a == b && p == q
  | _, _, _ => false

inductive Out where
  | val (v : SVal)        -- an expression / expression statement / statement list produced a value
  | unit                  -- a non-expression statement completed
  | brk | cont            -- a `break` / `continue` on its way to the enclosing loop
  | err (cls : String)    -- error class ("type", "index", "panic" = recovered Go panic)
  | oof                   -- out of fuel
  deriving Repr, DecidableEq, Inhabited

/-! ### operators: the Spec side (shape of `Sem.binop`) and the VM side (shape of `VM.vBinary`,
    `VM.vCompare`).  Arithmetic and ordered comparison of two LISTS (`+` concatenates into a new
    object, `<` is `List.Compare`) are outside the fragment: class "unsupported" on both sides. -/

def binopF (σ : St) (op : BinOp) (a b : SVal) : Except String SVal :=
  match op with
  | .eq => .ok (.bool (eqV σ.h 8 a b))
  | .ne => .ok (.bool (!(eqV σ.h 8 a b)))
  | .and => .ok (if a.truthy σ then b else a)
  | .or => .ok (if a.truthy σ then a else b)
  | _ =>
    match a, b with
    | .int x, .int y =>
      match op with
      | .add => .ok (.int (wrap64 (x + y)))
      | .sub => .ok (.int (wrap64 (x - y)))
      | .mul => .ok (.int (wrap64 (x * y)))
      | .div => if y == 0 then .error "panic" else .ok (.int (wrap64 (Int.tdiv x y)))
      | .mod => if y == 0 then .error "panic" else .ok (.int (wrap64 (Int.tmod x y)))
      | .lt => .ok (.bool (x < y))
      | .le => .ok (.bool (x ≤ y))
      | .gt => .ok (.bool (x > y))
      | .ge => .ok (.bool (x ≥ y))
      | _ => .error "unsupported"
    | .str x, .str y =>
      match op with
      | .add => .ok (.str (x ++ y))
      | .lt => .ok (.bool (x < y))
      | .le => .ok (.bool (x ≤ y))
      | .gt => .ok (.bool (x > y))
      | .ge => .ok (.bool (x ≥ y))
      | _ => .error "type"
    | .bool x, .bool y =>
      match op with
      | .lt => .ok (.bool (!x && y))
      | .le => .ok (.bool (!x || y))
      | .gt => .ok (.bool (x && !y))
      | .ge => .ok (.bool (x || !y))
      | _ => .error "type"
    | .nil, .nil =>
      match op with
      | .lt | .gt => .ok (.bool false)
      | .le | .ge => .ok (.bool true)
      | _ => .error "type"
    | .ref _, .ref _ => .error "unsupported"
    | _, _ => .error "type"

def applyF (σ : St) (op : AssignOp) (cur v : SVal) : Except String SVal :=
  match op with
  | .set => .ok v
  | .add => binopF σ .add cur v
  | .sub => binopF σ .sub cur v
  | .mul => binopF σ .mul cur v
  | .div => binopF σ .div cur v

def vBinaryF (σ : St) (k : Nat) (a b : SVal) : Except String SVal :=
  if k == 6 then .ok (if a.truthy σ then b else a)
  else if k == 7 then .ok (if a.truthy σ then a else b)
  else
    match a, b with
    | .int x, .int y =>
      if k == 1 then .ok (.int (wrap64 (x + y)))
      else if k == 2 then .ok (.int (wrap64 (x - y)))
      else if k == 3 then .ok (.int (wrap64 (x * y)))
      else if k == 4 then (if y == 0 then .error "panic" else .ok (.int (wrap64 (Int.tdiv x y))))
      else if k == 5 then (if y == 0 then .error "panic" else .ok (.int (wrap64 (Int.tmod x y))))
      else .error "unsupported"
    | .str x, .str y => if k == 1 then .ok (.str (x ++ y)) else .error "type"
    | .ref _, .ref _ => .error "unsupported"
    | _, _ => .error "type"

def vCompareF (σ : St) (k : Nat) (a b : SVal) : Except String SVal :=
  if k == 3 then .ok (.bool (eqV σ.h 8 a b))
  else if k == 4 then .ok (.bool (!(eqV σ.h 8 a b)))
  else
    match a, b with
    | .int x, .int y =>
      .ok (.bool (if k == 1 then x < y else if k == 2 then x ≤ y else if k == 5 then x > y else x ≥ y))
    | .str x, .str y =>
      .ok (.bool (if k == 1 then x < y else if k == 2 then x ≤ y else if k == 5 then x > y else x ≥ y))
    | .bool x, .bool y =>
      .ok (.bool (if k == 1 then !x && y else if k == 2 then !x || y else if k == 5 then x && !y else x || !y))
    | .nil, .nil => .ok (.bool (if k == 1 then false else if k == 2 then true else if k == 5 then false else true))
    | .ref _, .ref _ => .error "unsupported"
    | _, _ => .error "type"

/-! ### containers: `Container.GetItem` / `SetItem` of `*object.List`, the iterators -/

/-- `obj[idx]` (`BinarySubscr`): `Map.GetItem`; a missing key is a raised error (class "index"
    in the harness's classification of "key error"), a key that is not a string the class "type";
    an object that is not a container is the class "type"; strings as containers are outside -/
def getItemS (σ : St) (obj idx : SVal) : Except String SVal :=
  match obj, idx with
  | .ref a, .str k =>
    match mapGet (σ.items a) k with
    | some v => .ok v
    | none => .error "index"
  | .ref _, _ => .error "type"
  | .str _, _ => .error "unsupported"
  | _, _ => .error "type"

/-- `obj[idx] = nv` (`StoreSubscr`): the object at the address is updated in place -/
def setItemS (σ : St) (obj idx nv : SVal) : Except String St :=
  match obj, idx with
  | .ref a, .str k => .ok (σ.write a (mapSet (σ.items a) k nv))
  | .ref _, _ => .error "type"
  | .str _, _ => .error "unsupported"
  | _, _ => .error "type"

/-- `ContainsOp`: `Map.Contains` (a key that is not a string is not contained); an object that is
    not a container is the class "type"; strings as containers are outside the fragment -/
def containsS (σ : St) (c x : SVal) : Except String SVal :=
  match c, x with
  | .ref a, .str k => .ok (.bool (mapGet (σ.items a) k).isSome)
  | .ref _, _ => .ok (.bool false)
  | .str _, _ => .error "unsupported"
  | _, _ => .error "type"

/-- `GetIter`: an int is `Iterable`, an iterator is itself; strings and maps (iterable in risor)
    are outside the fragment; anything else is the class "type" -/
def getIterS (c : SVal) : Except String SVal :=
  match c with
  | .int n => .ok (.iterI n 0)
  | .iterI n p => .ok (.iterI n p)
  | .ref _ => .error "unsupported"
  | .str _ => .error "unsupported"
  | _ => .error "type"

/-- `Iterator.Next` + `Entry`: the advanced iterator, the key and the value; `none` = exhausted.
    A list iterator reads the list AS IT IS NOW (`iter.l.items`): writes of the loop body to later
    positions are seen -/
def iterNext (_σ : St) : SVal → Option (SVal × SVal × SVal)
  | .iterI n pos =>
    if (pos : Int) < (if n < 0 then -n else n) then
      some (.iterI n (pos + 1), .int pos, .int (if n < 0 then -(pos : Int) else pos))
    else none
  | _ => none

def isIter : SVal → Bool
  | .iterI _ _ => true
  | _ => false

/-- what `ForIter d m` pushes above the iterator: `m` = number of loop names (1: key; 2: value,
    then key on top), 3 = `for v in c` (the value) -/
def pushKV (m : Nat) (key value : SVal) : Option (List SVal) :=
  if m == 0 then some []
  else if m == 1 then some [key]
  else if m == 2 then some [key, value]
  else if m == 3 then some [value]
  else none

/-- the `StoreGlobal`s after `ForIter`: one per name, popping the top -/
def bindAll (names : List String) (vals : List SVal) (σ : St) : St :=
  match names, vals with
  | x :: xs, v :: vs => bindAll xs vs (σ.set x v)
  | _, _ => σ

/-! ### shallow syntactic classes (head constructor only) -/

/-- statements that push no value -/
def isUnitNode : N → Bool
  | .var _ _ | .assign _ _ _ | .postfix _ _ | .forcond _ _ | .forever _ | .for3 _ _ _ _
  | .break_ | .continue_ | .setitem _ _ _ _ | .forrange _ _ _ _ | .forin _ _ _ => true
  | _ => false

def isE : N → Bool
  | .nilLit | .int _ | .bool _ | .str _ | .id _ | .infix _ _ _ | .neg _ | .not _ | .tern _ _ _ | .if_ _ _ _
  | .switch _ _ | .map _ | .index _ _ | .in_ _ _ | .notin _ _ => true
  | _ => false

def isS (n : N) : Bool := isUnitNode n || leaves n

/-- the entries of a map literal: key, value, key, value, …; every key a string literal -/
def keysOK : N → Bool
  | .cons (.str _) (.cons _ rest) => keysOK rest
  | .nilL => true
  | _ => false

/-- a `break`/`continue` inside `n` can leave `n` (loops catch their own) -/
def escapes : N → Bool
  | .break_ | .continue_ => true
  | .infix _ l r | .index l r | .in_ l r | .notin l r => escapes l || escapes r
  | .neg e | .not e | .expr e | .block e | .prog e | .var _ e | .assign _ _ e | .map e => escapes e
  | .tern c a b | .if_ c a b | .setitem _ c a b => escapes c || escapes a || escapes b
  | .cons h t => escapes h || escapes t
  | _ => false

/-- the loop names of a range loop in the order of their `StoreGlobal`s, and `ForIter`'s second
    operand -/
def rngNames (k v : String) : List String := (if k == "" then [] else [k]) ++ (if v == "" then [] else [v])

/-! ### the fragment (shape) -/

mutual
/-- F1 + F2 + F3 of `Frag.lean` (same conditions), plus F7: list literals, index reads, item
    assignment (plain and compound), range loops.  Operands (items, container and index
    expressions, right-hand sides, the ranged-over expression) are expressions no break/continue
    escapes; a `break` / `continue` in the body of a range loop is in statement position as in F2
    (the iterator is the only pending operand: `break` pops it). -/
def wf : N → Bool
  | .nilLit | .none_ | .int _ | .bool _ | .str _ | .id _ | .nilL | .postfix _ _ | .break_ | .continue_ => true
  | .infix op l r => opOK op && isE l && isE r && !escapes l && !escapes r && wf l && wf r
  | .neg e | .not e => isE e && !escapes e && wf e
  | .tern c a b => isE c && isE a && isE b && !escapes c && !escapes a && !escapes b && wf c && wf a && wf b
  | .if_ c t e => isE c && isBlock t && isElse e && !escapes c && wf c && wf t && wf e
  | .block s => isL s && wf s
  | .prog s => isL s && !escapes s && wf s
  | .cons h t => isS h && isL t && wf h && wf t
  | .var _ e => isE e && !escapes e && wf e
  | .assign _ _ e => isE e && !escapes e && wf e
  | .expr e => isE e && wf e
  | .forcond c b => isE c && isBlock b && !escapes c && wf c && wf b
  | .forever b => isBlock b && wf b
  | .for3 i c p b =>
    isInit i && isE c && isPost p && isBlock b && !escapes i && !escapes c && !escapes p && wf i && wf c && wf p && wf b
  | .switch subj cases => isE subj && !escapes subj && wf subj && wfCases cases && decide (countDefault cases ≤ 1)
  | .map entries => wfVals entries && keysOK entries
  | .in_ x c | .notin x c => isE x && isE c && !escapes x && !escapes c && wf x && wf c
  | .index e i => isE e && isE i && !escapes e && !escapes i && wf e && wf i
  | .setitem _ o i v =>
    isE o && isE i && isE v && !escapes o && !escapes i && !escapes v && wf o && wf i && wf v
  | .forrange _ _ c b => isE c && isBlock b && !escapes c && wf c && wf b
  | .forin _ c b => isE c && isBlock b && !escapes c && wf c && wf b
  | _ => false
/-- case values / list items: expressions no break/continue escapes -/
def wfVals : N → Bool
  | .cons v vs => isE v && !escapes v && wf v && wfVals vs
  | .nilL => true
  | _ => false
def wfCase : N → Bool
  | .case_ vals body => wfVals vals && isBlock body && !escapes body && wf body
  | .default_ body => isBlock body && !escapes body && wf body
  | _ => false
def wfCases : N → Bool
  | .cons h t => wfCase h && wfCases t
  | .nilL => true
  | _ => false
end

/-! ### scoping (for the LINKS to `Sem.lean` / `Compile.lean`; the theorems do not need it) -/

def declOf : N → List String
  | .var x _ => [x]
  | _ => []

mutual
def scopeOK : List String → N → Bool
  | env, .id x => env.contains x
  | env, .infix _ l r | env, .index l r | env, .in_ l r | env, .notin l r => scopeOK env l && scopeOK env r
  | env, .neg e | env, .not e | env, .expr e | env, .block e | env, .prog e | env, .var _ e => scopeOK env e
  | env, .tern c a b | env, .if_ c a b | env, .setitem _ c a b => scopeOK env c && scopeOK env a && scopeOK env b
  | env, .assign x _ e => env.contains x && scopeOK env e
  | env, .postfix x _ => env.contains x
  | env, .cons h t => scopeOK env h && scopeOK (declOf h ++ env) t
  | env, .forcond c b => scopeOK env c && scopeOK env b
  | env, .forever b => scopeOK env b
  | env, .for3 i c p b =>
    scopeOK env i && scopeOK (declOf i ++ env) c && scopeOK (declOf i ++ env) p && scopeOK (declOf i ++ env) b
  | env, .switch subj cases => scopeOK env subj && scopeCases env cases
  | env, .map items => scopeVals env items
  | env, .forrange k v c b => scopeOK env c && scopeOK (rngNames k v ++ env) b
  | env, .forin v c b => scopeOK env c && scopeOK (v :: env) b
  | _, _ => true
def scopeVals : List String → N → Bool
  | env, .cons v vs => scopeOK env v && scopeVals env vs
  | _, _ => true
def scopeCase : List String → N → Bool
  | env, .case_ vals body => scopeVals env vals && scopeOK env body
  | env, .default_ body => scopeOK env body
  | _, _ => true
def scopeCases : List String → N → Bool
  | env, .cons h t => scopeCase env h && scopeCases env t
  | _, _ => true
end

mutual
/-- every declared name, in compile order (`InsertVariable` order: global indices) -/
def decls : N → List String
  | .infix _ l r | .index l r | .in_ l r | .notin l r => decls l ++ decls r
  | .neg e | .not e | .expr e | .block e | .prog e | .assign _ _ e | .forever e => decls e
  | .tern c a b | .if_ c a b => decls c ++ decls a ++ decls b
  | .var x e => decls e ++ [x]
  | .cons h t => decls h ++ decls t
  | .forcond c b => decls c ++ decls b
  | .for3 i c p b => decls i ++ decls c ++ decls b ++ decls p
  | .switch subj cases => decls subj ++ declsCmp cases ++ declsBodies cases ++ declsDflt cases
  | .map items => declsVals items
  -- the code of the container and index expressions is emitted twice by a compound assignment
  | .setitem op o i v => if op = .set then decls v ++ decls o ++ decls i else decls o ++ decls i ++ decls v ++ decls o ++ decls i
  | .forrange k v c b => decls c ++ rngNames k v ++ decls b
  | .forin v c b => decls c ++ [v] ++ decls b
  | _ => []
def declsVals : N → List String
  | .cons v vs => decls v ++ declsVals vs
  | _ => []
def declsCmpCase : N → List String
  | .case_ vals _ => declsVals vals
  | _ => []
def declsCmp : N → List String
  | .cons h t => declsCmpCase h ++ declsCmp t
  | _ => []
def declsBody : N → List String
  | .case_ _ body => decls body
  | _ => []
def declsBodies : N → List String
  | .cons h t => declsBody h ++ declsBodies t
  | _ => []
def declsDfltBody : N → List String
  | .default_ body => decls body
  | _ => []
def declsDflt : N → List String
  | .cons h t => if isDefault h then declsDfltBody h else declsDflt t
  | _ => []
end

/-- fresh names only, uses after declarations -/
def wellScoped (p : N) : Bool := scopeOK [] p && nodup (decls p)

/-- the fragment: a program (`prog`) of the shape `wf`, well scoped -/
def inStr (p : N) : Bool :=
  match p with
  | .prog _ => wf p && wellScoped p
  | _ => false

/-! ### reference semantics -/

def seqV (r : Out × St) (k : SVal → St → Out × St) : Out × St :=
  match r with
  | (.val v, σ) => k v σ
  | other => other

def liftE (x : Except String SVal) (σ : St) : Out × St :=
  match x with
  | .ok v => (.val v, σ)
  | .error c => (.err c, σ)

/-- `Sem.loop3` (as `Frag.loopF`) -/
def loopF (cond body post : St → Out × St) : Nat → St → Out × St
  | 0, σ => (.oof, σ)
  | k + 1, σ =>
    seqV (cond σ) fun v σ1 =>
      if v.truthy σ1 then
        match body σ1 with
        | (.brk, σ2) => (.unit, σ2)
        | (.val _, σ2) =>
          (match post σ2 with
          | (.unit, σ3) => loopF cond body post k σ3
          | (.val _, σ3) => loopF cond body post k σ3
          | other => other)
        | (.cont, σ2) =>
          (match post σ2 with
          | (.unit, σ3) => loopF cond body post k σ3
          | (.val _, σ3) => loopF cond body post k σ3
          | other => other)
        | other => other
      else (.unit, σ1)

/-- `Sem.loopIter`: a range loop from the iterator `it`: the next entry is taken from the state AS
    IT IS NOW, the loop names are bound, the body runs; `break` ends the loop, `continue` goes on
    with the next entry; `k` bounds the rounds -/
def rangeF (names : List String) (m : Nat) (body : St → Out × St) : Nat → SVal → St → Out × St
  | 0, _, σ => (.oof, σ)
  | k + 1, it, σ =>
    match iterNext σ it with
    | none => (.unit, σ)
    | some (it', key, value) =>
      match pushKV m key value with
      | none => (.err "eval", σ)
      | some vals =>
        match body (bindAll names vals σ) with
        | (.brk, σ2) => (.unit, σ2)
        | (.val _, σ2) => rangeF names m body k it' σ2
        | (.cont, σ2) => rangeF names m body k it' σ2
        | other => other

/-- list items / arguments left to right (`Sem.evalArgs`) -/
def evItems (rec : N → St → Out × St) : N → St → Except Out (List SVal) × St
  | .cons e es, σ =>
    match rec e σ with
    | (.val v, σ1) =>
      match evItems rec es σ1 with
      | (.ok vs, σ2) => (.ok (v :: vs), σ2)
      | other => other
    | (o, σ1) => (.error o, σ1)
  | _, σ => (.ok [], σ)

/-- `Sem.matchVals` -/
def matchValsF (rec : N → St → Out × St) (sv : SVal) : N → St → Except Out Bool × St
  | .cons v vs, σ =>
    match rec v σ with
    | (.val x, σ1) => if eqV σ1.h 8 sv x then (.ok true, σ1) else matchValsF rec sv vs σ1
    | (o, σ1) => (.error o, σ1)
  | _, σ => (.ok false, σ)

def runDflt (rec : N → St → Out × St) (dflt : Option N) (σ : St) : Out × St :=
  match dflt with
  | some b => rec b σ
  | none => (.val .nil, σ)

/-- `Sem.evalCases` -/
def evCasesF (rec : N → St → Out × St) (sv : SVal) (dflt : Option N) : N → St → Out × St
  | .cons h rest, σ =>
    match h with
    | .case_ vals body =>
      match matchValsF rec sv vals σ with
      | (.ok true, σ1) => rec body σ1
      | (.ok false, σ1) => evCasesF rec sv dflt rest σ1
      | (.error o, σ1) => (o, σ1)
    | _ => evCasesF rec sv dflt rest σ
  | _, σ => runDflt rec dflt σ

/-- a range loop over the value `cv` -/
def rangeOver (names : List String) (m : Nat) (body : St → Out × St) (fuel : Nat) (cv : SVal) (σ : St) : Out × St :=
  match getIterS cv with
  | .ok it => rangeF names m body fuel it σ
  | .error c => (.err c, σ)

/-- one node, sub-nodes through `rec` (open recursion: `ev` ties the knot on fuel) -/
def evNode (fuel : Nat) (rec : N → St → Out × St) (n : N) (σ : St) : Out × St :=
  match n with
  | .nilLit => (.val .nil, σ)
  | .none_ => (.val .nil, σ)
  | .int i => (.val (.int i), σ)
  | .bool b => (.val (.bool b), σ)
  | .str s => (.val (.str s), σ)
  | .id x => (.val (σ.get x), σ)
  | .infix op l r =>
    seqV (rec l σ) fun a σ1 =>
      if op = .and then
        -- `BinaryOp And` tests `a` again after `r` ran; no construct of the fragment changes the
        -- length of a list, so the second test always agrees with the first
        (if a.truthy σ1 then seqV (rec r σ1) (fun b σ2 => (.val (if a.truthy σ2 then b else a), σ2)) else (.val a, σ1))
      else if op = .or then
        (if a.truthy σ1 then (.val a, σ1) else seqV (rec r σ1) (fun b σ2 => (.val (if a.truthy σ2 then a else b), σ2)))
      else seqV (rec r σ1) fun b σ2 => liftE (binopF σ2 op a b) σ2
  | .neg e =>
    seqV (rec e σ) fun v σ1 =>
      match v with
      | .int i => (.val (.int (wrap64 (-i))), σ1)
      | _ => (.err "type", σ1)
  | .not e => seqV (rec e σ) fun v σ1 => (.val (.bool (!v.truthy σ1)), σ1)
  | .tern c a b => seqV (rec c σ) fun v σ1 => if v.truthy σ1 then rec a σ1 else rec b σ1
  | .if_ c t e => seqV (rec c σ) fun v σ1 => if v.truthy σ1 then rec t σ1 else rec e σ1
  | .block s => rec s σ
  | .prog s => rec s σ
  | .expr e => rec e σ
  | .nilL => (.val .nil, σ)
  | .cons h t =>
    if isNilL t then
      match rec h σ with
      | (.unit, σ1) => (.val .nil, σ1)
      | other => other
    else
      match rec h σ with
      | (.val _, σ1) => rec t σ1
      | (.unit, σ1) => rec t σ1
      | other => other
  | .var x e => seqV (rec e σ) fun v σ1 => (.unit, σ1.set x v)
  | .assign x op e =>
    seqV (rec e σ) fun v σ1 =>
      match applyF σ1 op (σ.get x) v with
      | .ok r => (.unit, σ1.set x r)
      | .error c => (.err c, σ1)
  | .postfix x inc =>
    match binopF σ .add (σ.get x) (.int (if inc then 1 else -1)) with
    | .ok r => (.unit, σ.set x r)
    | .error c => (.err c, σ)
  | .forcond c b => loopF (rec c) (rec b) (fun σ => (.unit, σ)) fuel σ
  | .forever b => loopF (fun σ => (.val (.bool true), σ)) (rec b) (fun σ => (.unit, σ)) fuel σ
  | .for3 i c p b =>
    match rec i σ with
    | (.unit, σ1) => loopF (rec c) (rec b) (rec p) fuel σ1
    | other => other
  | .break_ => (.brk, σ)
  | .continue_ => (.cont, σ)
  | .switch subj cases => seqV (rec subj σ) fun sv σ1 => evCasesF rec sv (dfltBody cases) cases σ1
  -- F7
  | .map entries =>
    -- key, value, key, value, … left to right; then the object as BuildMap makes it
    match evItems rec entries σ with
    | (.ok vs, σ1) =>
      (match pairsOf vs with
      | some ps => (.val (.ref (σ1.alloc (buildMapObj ps)).1), (σ1.alloc (buildMapObj ps)).2)
      | none => (.err "panic", σ1))
    | (.error o, σ1) => (o, σ1)
  | .in_ x c =>
    seqV (rec x σ) fun xv σ1 => seqV (rec c σ1) fun cv σ2 => liftE (containsS σ2 cv xv) σ2
  | .notin x c =>
    seqV (rec x σ) fun xv σ1 => seqV (rec c σ1) fun cv σ2 =>
      match containsS σ2 cv xv with
      | .ok b => (.val (.bool (!b.truthy σ2)), σ2)
      | .error e => (.err e, σ2)
  | .index e i =>
    seqV (rec e σ) fun ov σ1 => seqV (rec i σ1) fun iv σ2 => liftE (getItemS σ2 ov iv) σ2
  | .setitem op o i v =>
    if op = .set then
      -- the right-hand side, then the container, then the index, then the store
      seqV (rec v σ) fun rhs σ1 => seqV (rec o σ1) fun ov σ2 => seqV (rec i σ2) fun iv σ3 =>
        match setItemS σ3 ov iv rhs with
        | .ok σ4 => (.unit, σ4)
        | .error c => (.err c, σ3)
    else
      -- `a[i] op= v`: container, index, the current item, the right-hand side, the operation,
      -- then container and index AGAIN (compileSetItem compiles them twice), then the store
      seqV (rec o σ) fun ov σ1 => seqV (rec i σ1) fun iv σ2 =>
        match getItemS σ2 ov iv with
        | .error c => (.err c, σ2)
        | .ok cur =>
          seqV (rec v σ2) fun rhs σ3 =>
            match applyF σ3 op cur rhs with
            | .error c => (.err c, σ3)
            | .ok nv =>
              seqV (rec o σ3) fun ov2 σ4 => seqV (rec i σ4) fun iv2 σ5 =>
                match setItemS σ5 ov2 iv2 nv with
                | .ok σ6 => (.unit, σ6)
                | .error c => (.err c, σ5)
  | .forrange k v c b =>
    seqV (rec c σ) fun cv σ1 => rangeOver (rngNames k v) (rngNames k v).length (rec b) fuel cv σ1
  | .forin v c b =>
    seqV (rec c σ) fun cv σ1 => rangeOver [v] 3 (rec b) fuel cv σ1
  | _ => (.err "unsupported", σ)

def ev : Nat → N → St → Out × St
  | 0, _, σ => (.oof, σ)
  | f + 1, n, σ => evNode f (ev f) n σ

/-- a whole program from the empty state -/
def evalStr (fuel : Nat) (p : N) : Out × St := ev fuel p St.empty

/-! ### target: slots, instructions, the functional compiler -/

inductive FIns where
  | nop | nil_ | true_ | false_ | popTop | unaryNeg | unaryNot
  | constInt (i : Int) | constStr (s : String)
  | loadG (x : String) | storeG (x : String)
  | binary (k : Nat) | compare (k : Nat) | copy (k : Nat) | swap (k : Nat)
  | jf (d : Nat) | jb (d : Nat) | pjf (d : Nat) | pjt (d : Nat)
  | buildMap (n : Nat) | binarySubscr | storeSubscr | getIter | containsOp
  | forIter (d : Nat) (m : Nat)                       -- two operand slots
  deriving Repr, DecidableEq, Inhabited

abbrev Code := List (Option FIns)

def one (i : FIns) : Code := [some i]
def two (i : FIns) : Code := [some i, none]
def three (i : FIns) : Code := [some i, none, none]

def opIns : BinOp → FIns
  | .add => .binary 1 | .sub => .binary 2 | .mul => .binary 3 | .div => .binary 4 | .mod => .binary 5
  | .and => .binary 6 | .or => .binary 7
  | .pow => .binary 9 | .lshift => .binary 10 | .rshift => .binary 11 | .bitand => .binary 12
  | .lt => .compare 1 | .le => .compare 2 | .eq => .compare 3 | .ne => .compare 4
  | .gt => .compare 5 | .ge => .compare 6

def pre (h : N) : Code :=
  match postName h with
  | some x => two (.loadG x) ++ one .popTop
  | none => []

def countItems : N → Nat
  | .cons _ t => countItems t + 1
  | _ => 0

/-- the `StoreGlobal`s of the loop names -/
def stores : List String → Code
  | [] => []
  | x :: xs => two (.storeG x) ++ stores xs

mutual
/-- number of slots of a node's code; `rng` = the innermost enclosing loop is a range loop (its
    `break` is one slot longer) -/
def size (rng : Bool) : N → Nat
  | .nilLit | .none_ | .nilL | .bool _ => 1
  | .int _ | .str _ | .id _ | .continue_ => 2
  | .break_ => if rng then 3 else 2
  | .infix op l r => if op = .and ∨ op = .or then size rng l + size rng r + 7 else size rng l + size rng r + 2
  | .neg e | .not e => size rng e + 1
  | .tern c a b | .if_ c a b => size rng c + size rng a + size rng b + 4
  | .block s | .prog s | .expr s => size rng s
  | .cons h t =>
    preLen h + size rng h +
      (if isNilL t then (if leaves h then 0 else 1) else (if leaves h then 1 else 0) + size rng t)
  | .var _ e => size rng e + 2
  | .assign _ op e => if op = .set then size rng e + 2 else size rng e + 6
  | .postfix _ _ => 8
  | .forcond c b => size false c + size false b + 6
  | .forever b => size false b + 4
  | .for3 i c p b => size false i + size false c + size false b + (size false p + (if leaves p then 1 else 0)) + 5
  | .switch subj cases => size rng subj + cmpLen rng cases + 2 + bodiesLen rng cases + defLen rng cases + 3
  | .map items => itemsLen rng items + 2
  | .in_ x c => size rng x + size rng c + 4
  | .notin x c => size rng x + size rng c + 5
  | .index e i => size rng e + size rng i + 1
  | .setitem op o i v =>
    if op = .set then size rng v + size rng o + size rng i + 1
    else size rng o + size rng i + 1 + size rng v + 2 + size rng o + size rng i + 1
  | .forrange k v c b => size rng c + 1 + 3 + 2 * (rngNames k v).length + size true b + 3
  | .forin _ c b => size rng c + 1 + 3 + 2 + size true b + 3
  | _ => 0
def itemsLen (rng : Bool) : N → Nat
  | .cons v vs => size rng v + itemsLen rng vs
  | _ => 0
def valsLen (rng : Bool) : N → Nat
  | .cons v vs => size rng v + 6 + valsLen rng vs
  | _ => 0
def caseCmpLen (rng : Bool) : N → Nat
  | .case_ vals _ => valsLen rng vals
  | _ => 0
def cmpLen (rng : Bool) : N → Nat
  | .cons h t => caseCmpLen rng h + cmpLen rng t
  | _ => 0
def caseBodyLen (rng : Bool) : N → Nat
  | .case_ _ body => size rng body + 2
  | _ => 0
def bodiesLen (rng : Bool) : N → Nat
  | .cons h t => caseBodyLen rng h + bodiesLen rng t
  | _ => 0
def dfltBodyLen (rng : Bool) : N → Nat
  | .default_ body => size rng body
  | _ => 0
def defLen (rng : Bool) : N → Nat
  | .cons h t => if isDefault h then dfltBodyLen rng h else defLen rng t
  | _ => 1
end

mutual
/-- `comp kb kc rng n`: the code of `n` when the enclosing loop's `break` target lies `kb` slots
    and its `continue` target `kc` slots after the END of `n`'s code, and that loop is a range
    loop iff `rng` (closed form of the compiler's placeholder patching, as `Frag.comp`). -/
def comp (kb kc : Nat) (rng : Bool) : N → Code
  | .nilLit => one .nil_
  | .none_ => one .nil_
  | .int i => two (.constInt i)
  | .bool b => one (if b then .true_ else .false_)
  | .str s => two (.constStr s)
  | .id x => two (.loadG x)
  | .infix op l r =>
    if op = .and then
      comp 0 0 rng l ++ two (.copy 0) ++ two (.pjf (size rng r + 5)) ++ comp 0 0 rng r ++ two (.binary 6) ++ one .nop
    else if op = .or then
      comp 0 0 rng l ++ two (.copy 0) ++ two (.pjt (size rng r + 5)) ++ comp 0 0 rng r ++ two (.binary 7) ++ one .nop
    else comp 0 0 rng l ++ comp 0 0 rng r ++ two (opIns op)
  | .neg e => comp 0 0 rng e ++ one .unaryNeg
  | .not e => comp 0 0 rng e ++ one .unaryNot
  | .tern c a b =>
    comp 0 0 rng c ++ two (.pjf (size rng a + 4)) ++ comp (kb + (size rng b + 2)) (kc + (size rng b + 2)) rng a
      ++ two (.jf (size rng b + 2)) ++ comp kb kc rng b
  | .if_ c t e =>
    comp 0 0 rng c ++ two (.pjf (size rng t + 4)) ++ comp (kb + (size rng e + 2)) (kc + (size rng e + 2)) rng t
      ++ two (.jf (size rng e + 2)) ++ comp kb kc rng e
  | .block s => comp kb kc rng s
  | .prog s => comp kb kc rng s
  | .expr e => comp kb kc rng e
  | .nilL => one .nil_
  | .cons h t =>
    pre h ++
      (if isNilL t then
        comp (kb + (if leaves h then 0 else 1)) (kc + (if leaves h then 0 else 1)) rng h
          ++ (if leaves h then [] else one .nil_)
       else
        comp (kb + ((if leaves h then 1 else 0) + size rng t)) (kc + ((if leaves h then 1 else 0) + size rng t)) rng h
          ++ ((if leaves h then one .popTop else []) ++ comp kb kc rng t))
  | .var x e => comp 0 0 rng e ++ two (.storeG x)
  | .assign x op e =>
    if op = .set then comp 0 0 rng e ++ two (.storeG x)
    else two (.loadG x) ++ comp 0 0 rng e ++ two (.binary (assignK op)) ++ two (.storeG x)
  | .postfix x inc =>
    two (.loadG x) ++ two (.constInt (if inc then 1 else -1)) ++ two (.binary 1) ++ two (.storeG x)
  -- `compileControl`: leaving a range loop drops its iterator first
  | .break_ => (if rng then one .popTop else []) ++ two (.jf (kb + 2))
  | .continue_ => two (.jf (kc + 2))
  | .forcond c b =>
    comp 0 0 false c ++ two (.pjf (size false b + 6)) ++ comp 3 1 false b ++ one .popTop
      ++ two (.jb (size false c + size false b + 3)) ++ one .nop
  | .forever b => comp 3 1 false b ++ one .popTop ++ two (.jb (size false b + 1)) ++ one .nop
  | .for3 i c p b =>
    comp 0 0 false i ++ comp 0 0 false c
      ++ two (.pjf (size false b + (size false p + (if leaves p then 1 else 0)) + 5))
      ++ comp ((size false p + (if leaves p then 1 else 0)) + 3) 1 false b ++ one .popTop
      ++ comp 0 0 false p ++ (if leaves p then one .popTop else [])
      ++ two (.jb (size false c + size false b + (size false p + (if leaves p then 1 else 0)) + 3))
  | .switch subj cases =>
    comp 0 0 rng subj ++ compCmp rng 0 cases ++ two (.jf (bodiesLen rng cases + 2)) ++ compBodies rng (defLen rng cases) cases
      ++ compDflt rng cases ++ two (.swap 1) ++ one .popTop
  -- F7
  | .map entries => compItems rng entries ++ two (.buildMap (countItems entries / 2))
  | .in_ x c => comp 0 0 rng x ++ comp 0 0 rng c ++ two (.swap 1) ++ two .containsOp
  | .notin x c => comp 0 0 rng x ++ comp 0 0 rng c ++ two (.swap 1) ++ two .containsOp ++ one .unaryNot
  | .index e i => comp 0 0 rng e ++ comp 0 0 rng i ++ one .binarySubscr
  | .setitem op o i v =>
    if op = .set then comp 0 0 rng v ++ comp 0 0 rng o ++ comp 0 0 rng i ++ one .storeSubscr
    else
      comp 0 0 rng o ++ comp 0 0 rng i ++ one .binarySubscr ++ comp 0 0 rng v ++ two (.binary (assignK op))
        ++ comp 0 0 rng o ++ comp 0 0 rng i ++ one .storeSubscr
  | .forrange k v c b =>
    -- container; GetIter; ForIter (exit: after the backward jump); the names; body; PopTop;
    -- JumpBackward to the ForIter.  break lands after the backward jump, continue on it.
    comp 0 0 rng c ++ one .getIter
      ++ three (.forIter (3 + 2 * (rngNames k v).length + size true b + 3) (rngNames k v).length)
      ++ stores (rngNames k v) ++ comp 3 1 true b ++ one .popTop
      ++ two (.jb (3 + 2 * (rngNames k v).length + size true b + 1))
  | .forin v c b =>
    comp 0 0 rng c ++ one .getIter
      ++ three (.forIter (3 + 2 + size true b + 3) 3)
      ++ stores [v] ++ comp 3 1 true b ++ one .popTop
      ++ two (.jb (3 + 2 + size true b + 1))
  | _ => []
/-- list items in order -/
def compItems (rng : Bool) : N → Code
  | .cons v vs => comp 0 0 rng v ++ compItems rng vs
  | _ => []
def compVals (rng : Bool) (k : Nat) : N → Code
  | .cons v vs =>
    two (.copy 0) ++ comp 0 0 rng v ++ two (.compare 3) ++ two (.pjt (valsLen rng vs + k + 2)) ++ compVals rng k vs
  | _ => []
def compCmpCase (rng : Bool) (k : Nat) : N → Code
  | .case_ vals _ => compVals rng k vals
  | _ => []
def compCmp (rng : Bool) (before : Nat) : N → Code
  | .cons h t => compCmpCase rng (cmpLen rng t + 2 + before) h ++ compCmp rng (before + caseBodyLen rng h) t
  | _ => []
def compBody (rng : Bool) (a : Nat) : N → Code
  | .case_ _ body => comp 0 0 rng body ++ two (.jf (a + 2))
  | _ => []
def compBodies (rng : Bool) (d : Nat) : N → Code
  | .cons h t => compBody rng (bodiesLen rng t + d) h ++ compBodies rng d t
  | _ => []
def compDfltBody (rng : Bool) : N → Code
  | .default_ body => comp 0 0 rng body
  | _ => []
def compDflt (rng : Bool) : N → Code
  | .cons h t => if isDefault h then compDfltBody rng h else compDflt rng t
  | _ => one .nil_
end

/-- the main code object of a program -/
def compStr (p : N) : Code := comp 0 0 false p

/-! ### the VM restricted to these opcodes (shape of `VM.step`) -/

structure Cfg where
  pc : Nat
  stk : List SVal         -- top first
  σ : St
  deriving Repr

inductive Halt where
  | done (v : SVal)
  | err (cls : String)
  deriving Repr, DecidableEq

def execIns (i : FIns) (c : Cfg) : Except Halt Cfg :=
  match i, c.stk with
  | .nop, _ => .ok { c with pc := c.pc + 1 }
  | .nil_, s => .ok { c with pc := c.pc + 1, stk := .nil :: s }
  | .true_, s => .ok { c with pc := c.pc + 1, stk := .bool true :: s }
  | .false_, s => .ok { c with pc := c.pc + 1, stk := .bool false :: s }
  | .constInt k, s => .ok { c with pc := c.pc + 2, stk := .int k :: s }
  | .constStr k, s => .ok { c with pc := c.pc + 2, stk := .str k :: s }
  | .loadG x, s => .ok { c with pc := c.pc + 2, stk := c.σ.get x :: s }
  | .storeG x, v :: s => .ok { pc := c.pc + 2, stk := s, σ := c.σ.set x v }
  | .binary k, b :: a :: s =>
    match vBinaryF c.σ k a b with
    | .ok v => .ok { c with pc := c.pc + 2, stk := v :: s }
    | .error e => .error (.err e)
  | .compare k, b :: a :: s =>
    match vCompareF c.σ k a b with
    | .ok v => .ok { c with pc := c.pc + 2, stk := v :: s }
    | .error e => .error (.err e)
  | .unaryNeg, v :: s =>
    match v with
    | .int k => .ok { c with pc := c.pc + 1, stk := .int (wrap64 (-k)) :: s }
    | _ => .error (.err "type")
  | .unaryNot, v :: s => .ok { c with pc := c.pc + 1, stk := .bool (!v.truthy c.σ) :: s }
  | .popTop, _ :: s => .ok { c with pc := c.pc + 1, stk := s }
  | .copy k, s =>
    match s[k]? with
    | some v => .ok { c with pc := c.pc + 2, stk := v :: s }
    | none => .error (.err "panic")
  | .swap k, top :: s =>
    if k == 0 then .ok { c with pc := c.pc + 2 }
    else
      match s[k - 1]? with
      | some other => .ok { c with pc := c.pc + 2, stk := other :: s.set (k - 1) top }
      | none => .error (.err "panic")
  | .jf d, _ => .ok { c with pc := c.pc + d }
  | .jb d, _ => .ok { c with pc := c.pc - d }
  | .pjf d, v :: s => .ok { c with pc := if v.truthy c.σ then c.pc + 2 else c.pc + d, stk := s }
  | .pjt d, v :: s => .ok { c with pc := if v.truthy c.σ then c.pc + d else c.pc + 2, stk := s }
  -- F7
  | .buildMap n, s =>
    -- the `2 n` topmost values (key, value per entry, the deepest first) become a new map object
    if 2 * n ≤ s.length then
      match pairsOf (s.take (2 * n)).reverse with
      | some ps =>
        .ok { pc := c.pc + 2, stk := .ref (c.σ.alloc (buildMapObj ps)).1 :: s.drop (2 * n), σ := (c.σ.alloc (buildMapObj ps)).2 }
      | none => .error (.err "panic")                              -- `k.(*object.String)`
    else .error (.err "panic")
  | .containsOp, x :: cont :: s =>
    match containsS c.σ cont x with
    | .ok v => .ok { c with pc := c.pc + 2, stk := v :: s }
    | .error e => .error (.err e)
  | .binarySubscr, idx :: obj :: s =>
    match getItemS c.σ obj idx with
    | .ok v => .ok { c with pc := c.pc + 1, stk := v :: s }
    | .error e => .error (.err e)
  | .storeSubscr, idx :: obj :: rhs :: s =>
    match setItemS c.σ obj idx rhs with
    | .ok σ' => .ok { pc := c.pc + 1, stk := s, σ := σ' }
    | .error e => .error (.err e)
  | .getIter, v :: s =>
    match getIterS v with
    | .ok it => .ok { c with pc := c.pc + 1, stk := it :: s }
    | .error e => .error (.err e)
  | .forIter d m, it :: s =>
    if isIter it then
      match iterNext c.σ it with
      | none => .ok { c with pc := c.pc + d, stk := s }            -- exhausted: the iterator is dropped
      | some (it', key, value) =>
        match pushKV m key value with
        | some vals => .ok { c with pc := c.pc + 3, stk := vals ++ it' :: s }
        | none => .error (.err "eval")
    else .error (.err "panic")                                     -- `vm.pop().(object.Iterator)`
  | _, _ => .error (.err "panic")        -- stack underflow

def step (code : Code) (c : Cfg) : Except Halt Cfg :=
  if c.pc ≥ code.length then .error (.done (c.stk.headD .nil))
  else
    match code[c.pc]? with
    | some (some i) => execIns i c
    | _ => .error (.err "eval")

inductive RunRes where
  | running
  | done (v : SVal)
  | err (cls : String)
  deriving Repr, DecidableEq

def run (code : Code) : Nat → Cfg → RunRes × St
  | 0, c => (.running, c.σ)
  | k + 1, c =>
    match step code c with
    | .ok c' => run code k c'
    | .error (.done v) => (.done v, c.σ)
    | .error (.err e) => (.err e, c.σ)

/-- run a compiled program from pc 0, empty stack, empty state -/
def runStr (fuel : Nat) (code : Code) : RunRes × St := run code fuel ⟨0, [], St.empty⟩

def Out.toRun : Out → RunRes
  | .val v => .done v
  | .unit => .done .nil
  | .brk => .err "compile"
  | .cont => .err "compile"
  | .err c => .err c
  | .oof => .running

end Risor.C01.Str
