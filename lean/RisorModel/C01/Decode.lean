import RisorModel.Util
import RisorModel.C01.Sem
/-
Oracle-side plumbing for C01 (not part of any theorem): S-expression reader for the
harness's program encoding (`Sexp` in harness/gen.go) and value printer.
-/
namespace Risor.C01
open Risor.Util

inductive SX where
  | atom (s : String)
  | node (xs : List SX)
  deriving Inhabited

partial def parseSX (cs : List Char) : Option (SX × List Char) :=
  match cs with
  | [] => none
  | ' ' :: rest => parseSX rest
  | '(' :: rest =>
    let rec items (cs : List Char) (acc : List SX) : Option (List SX × List Char) :=
      match cs with
      | [] => none
      | ' ' :: rest => items rest acc
      | ')' :: rest => some (acc.reverse, rest)
      | cs => match parseSX cs with
        | some (x, rest) => items rest (x :: acc)
        | none => none
    match items rest [] with
    | some (xs, rest) => some (.node xs, rest)
    | none => none
  | ')' :: _ => none
  | cs =>
    let tok := cs.takeWhile (fun c => c != ' ' && c != '(' && c != ')')
    some (.atom (String.ofList tok), cs.drop tok.length)

def sxStr (xs : List SX) : String :=
  match xs.findSome? (fun x => match x with
      | .atom a => if a.startsWith "s:" then some ((a.drop 2).toString) else none
      | _ => none) with
  | some h => match fromHex h with
    | some bs => match String.fromUTF8? (ByteArray.mk (bs.map (·.toUInt8)).toArray) with
      | some s => s
      | none => bytesStr bs
    | none => ""
  | none => ""

def sxInt (xs : List SX) : Int :=
  match xs.findSome? (fun x => match x with
      | .atom a => if a.startsWith "i:" then (a.drop 2).toString.toInt? else none
      | _ => none) with
  | some i => i
  | none => 0

def sxKids (xs : List SX) : List SX := xs.filter (fun x => match x with | .node _ => true | _ => false)

def binOpOf : String → Option BinOp
  | "+" => some .add | "-" => some .sub | "*" => some .mul | "/" => some .div | "%" => some .mod
  | "**" => some .pow | "<<" => some .lshift | ">>" => some .rshift | "&" => some .bitand
  | "<" => some .lt | "<=" => some .le | ">" => some .gt | ">=" => some .ge | "==" => some .eq | "!=" => some .ne
  | "&&" => some .and | "||" => some .or
  | _ => none

def assignOpOf : String → Option AssignOp
  | "=" => some .set | "+=" => some .add | "-=" => some .sub | "*=" => some .mul | "/=" => some .div
  | _ => none

partial def toN (x : SX) : Option N :=
  match x with
  | .atom _ => none
  | .node [] => none
  | .node (.node _ :: _) => none
  | .node (.atom kind :: rest) =>
    let s := sxStr rest
    let kids := sxKids rest
    let ks := kids.mapM toN
    match kind, ks with
    | "int", _ => some (.int (sxInt rest))
    | "bool", _ => some (.bool (sxInt rest == 1))
    | "nil", _ => some .nilLit
    | "none", _ => some .none_
    | "str", _ => some (.str s)
    | "id", _ => some (.id s)
    | "infix", some [l, r] => (binOpOf s).map (fun op => .infix op l r)
    | "prefix", some [e] => if s == "-" then some (.neg e) else if s == "!" then some (.not e) else none
    | "tern", some [c, a, b] => some (.tern c a b)
    | "in", some [a, b] => some (.in_ a b)
    | "notin", some [a, b] => some (.notin a b)
    | "call", some (f :: args) => some (.call f (N.ofList args))
    | "mcall", some (o :: args) => some (.mcall o s (N.ofList args))
    | "index", some [e, i] => some (.index e i)
    | "slice", some [e, lo, hi] => some (.slice e lo hi)
    | "list", some items => some (.list (N.ofList items))
    | "set", some items => some (.set (N.ofList items))
    | "map", some entries => some (.map (N.ofList entries))
    | "pipe", some stages => some (.pipe (N.ofList stages))
    | "defer", some [c] => some (.defer_ c)
    | "tmpl", some parts => some (.tmpl (N.ofList parts))
    | "params", some ps => some (N.ofList ps)
    | "param", some [] => some (.param s .none_)
    | "param", some [d] => some (.param s d)
    | "func", some [ps, body] => some (.func s ps body)
    | "if", some [c, t] => some (.if_ c t .none_)
    | "if", some [c, t, e] => some (.if_ c t e)
    | "switch", some (subj :: cases) => some (.switch subj (N.ofList cases))
    | "case", some xs =>
      match xs.reverse with
      | body :: vals => some (.case_ (N.ofList vals.reverse) body)
      | [] => none
    | "default", some [b] => some (.default_ b)
    | "paren", some [e] => some e
    | "var", some [e] => some (.var s e)
    | "const", some [e] => some (.const s e)
    | "assign", some [e] =>
      match s.splitOn " " with
      | [x, op] => (assignOpOf op).map (fun o => .assign x o e)
      | _ => none
    | "setitem", some [o, i, v] => (assignOpOf s).map (fun op => .setitem op o i v)
    | "multi", some [e] => some (.multi (N.ofList ((s.splitOn ",").map N.id)) e)
    | "postfix", _ =>
      match s.splitOn " " with
      | [x, op] => some (.postfix x (op == "++"))
      | _ => none
    | "for3", some [i, c, p, b] => some (.for3 i c p b)
    | "forcond", some [c, b] => some (.forcond c b)
    | "forever", some [b] => some (.forever b)
    | "forrange", some [c, b] =>
      match s.splitOn "," with
      | [k, v] => some (.forrange k v c b)
      | [k] => some (.forrange k "" c b)
      | _ => none
    | "forin", some [c, b] => some (.forin s c b)
    | "break", _ => some .break_
    | "continue", _ => some .continue_
    | "return", some [] => some (.return_ .none_)
    | "return", some [e] => some (.return_ e)
    | "expr", some [e] => some (.expr e)
    | "block", some ss => some (.block (N.ofList ss))
    | "prog", some ss => some (.prog (N.ofList ss))
    | _, _ => none

def decodeProg (text : String) : Option N :=
  match parseSX text.toList with
  | some (sx, _) => toN sx
  | none => none

/-- canonical value text, the same format the harness produces from Go objects -/
partial def showVal (st : St) (v : Val) : String :=
  match v with
  | .nil => "(nil)"
  | .bool b => if b then "(bool 1)" else "(bool 0)"
  | .int i => "(int " ++ toString i ++ ")"
  | .str s => "(str " ++ toHexField (strBytes s) ++ ")"
  | .list r => "(list" ++ String.join ((st.heap.getD r []).map (fun x => " " ++ showVal st x)) ++ ")"
  | .fn _ => "(fn)"
  | .builtin n => "(builtin " ++ n ++ ")"
  | .err c _ => "(error " ++ c ++ ")"
  | .set r => "(set" ++ String.join ((st.heap.getD r []).map (fun x => " " ++ showVal st x)) ++ ")"
  | .map r => "(map" ++ String.join ((st.heap.getD r []).map (fun x => " " ++ showVal st x)) ++ ")"

def showOutcome (o : Outcome) : String :=
  let out := toHexField (strBytes (String.join (o.st.out.reverse.map (· ++ "\n"))))
  match o.sig with
  | .val v => "ok\t" ++ showVal o.st v ++ "\t" ++ out
  | .unit => "ok\t(nil)\t" ++ out
  | .ret v => "ok\t" ++ showVal o.st v ++ "\t" ++ out
  | .err c => "err\t" ++ c ++ "\t" ++ out
  | .uerr _ => "err\terror\t" ++ out
  | .brk | .cont => "err\tcompile\t" ++ out
  | .oof => "oof\t-\t" ++ out
  | .unsupported w => "unsupported\t" ++ w ++ "\t" ++ out

end Risor.C01
