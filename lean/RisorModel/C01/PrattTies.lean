import RisorModel.C01.Pratt
import RisorModel.Generated.C01
/-!
C01 ties (E3): the tables of the Pratt model (Pratt.lean) equal the tables regenerated from
/repo's working tree on this run (extract/c01.go → Generated/C01.lean).

A changed precedence entry breaks `precedences_tie`; a reordered level block (e.g. EQUALS and
LESSGREATER swapped) breaks `levels_tie`; a changed registration breaks the corresponding
`…Regs_tie`; a changed parse level inside a modelled function (e.g. the ternary's branches no
longer parsed at LOWEST) breaks `parseLevels_tie`.  On a broken tie the harness's expression
generator (harness/c01parse.go) exhibits concrete expressions on which the real parser and the
model disagree.
-/
namespace Risor.C01.Pratt

/-- the token types of token/token.go are exactly the constructors of `Kind` with these names
    and string values (the oracle decodes real tokens through `Kind.typ`) -/
theorem tokenTypes_tie :
    Risor.Generated.C01.tokenTypes = Kind.all.map (fun k => (k.name, k.typ)) := by decide

/-- `Kind.all` lists every constructor (so that the table lookups below cover all tokens) -/
theorem kind_all_complete (k : Kind) : k ∈ Kind.all := by cases k <;> decide

/-- the numeric order of the precedence levels -/
theorem levels_tie :
    Risor.Generated.C01.levels = Level.all.map (fun l => (l.name, l.num)) := by decide

/-- the precedence table: token → level, entry by entry -/
theorem precedences_tie :
    Risor.Generated.C01.precedences = precTable.map (fun e => (e.1.name, e.2.name)) := by decide

/-- the prefix registrations of `parser.New` -/
theorem prefixRegs_tie :
    Risor.Generated.C01.prefixRegs = prefixTable.map (fun e => (e.1.name, e.2.name)) := by decide

/-- the infix registrations of `parser.New` -/
theorem infixRegs_tie :
    Risor.Generated.C01.infixRegs = infixTable.map (fun e => (e.1.name, e.2.name)) := by decide

/-- the postfix registrations of `parser.New` -/
theorem postfixRegs_tie :
    Risor.Generated.C01.postfixRegs = postfixTable.map (fun k => (k.name, "parsePostfix")) := by decide

/-- the precedence every modelled parse function passes to `parseExpression`/`parseNode`:
    PREFIX for prefix operators and `in`/`not in`, the operator's own level for infix operators
    (left associativity), LOWEST for both ternary branches, parentheses, indices and list items -/
theorem parseLevels_tie :
    Risor.Generated.C01.parseLevels =
      [("parseExprList", "parseExpression(LOWEST) parseExpression(LOWEST)"),
       ("parseExpressionStatement", "parseNode(LOWEST)"),
       ("parseGroupedExpr", "parseExpression(LOWEST)"),
       ("parseIn", "parseExpression(PREFIX)"),
       ("parseIndex", "parseExpression(LOWEST) parseExpression(LOWEST)"),
       ("parseInfixExpr", "precedence=p.currentPrecedence() parseExpression(precedence)"),
       ("parseNodeList", "parseNode(LOWEST) parseNode(LOWEST)"),
       ("parseNotIn", "parseExpression(PREFIX)"),
       ("parsePrefixExpr", "parseExpression(PREFIX)"),
       ("parseTernary", "precedence=LOWEST parseExpression(precedence) parseExpression(precedence)")] := by
  decide

/-- the tables are functions: no token occurs twice (a later registration would override) -/
theorem tables_nodup :
    (precTable.map (·.1)).Nodup ∧ (prefixTable.map (·.1)).Nodup ∧ (infixTable.map (·.1)).Nodup := by
  decide

/-- the numerals the printer and the proofs use are the levels of the table -/
theorem level_numerals :
    Level.LOWEST.num = 1 ∧ Level.TERNARY.num = 6 ∧ Level.PREFIX.num = 13 ∧ Level.CALL.num = 14
      ∧ Level.INDEX.num = 15 ∧ prec .QUESTION = 6 ∧ prec .IN = 13 ∧ prec .NOT = 13
      ∧ prec .LPAREN = 14 ∧ prec .LBRACKET = 15 ∧ prec .PERIOD = 15 := by decide

end Risor.C01.Pratt
