import RisorModel.Util
import RisorModel.C01.Decode
import RisorModel.C01.Compile
import RisorModel.C01.VM
import RisorModel.C01.Frag
/-!
Line-protocol front end of the proved fragment (requests `C01 frag …`); not part of any
theorem.  It evaluates BOTH sides of every link of the layered argument on one program:

  `frag run <sexp> <globals>` →
      `out`                                   the program is outside the fragment, or
      `in` TAB f1 … f11 with
        f1  `evalF`   outcome                 `ok:<value>` | `err:<class>` | `oof`
        f2  `runF (compF p)` outcome          (theorem: equal to f1)
        f3  `evalF` final store, every declared name          `x=<value>,…` | `-`
        f4  `runF` final store, every declared name           (theorem: equal to f3)
        f5  `compF p` ASSEMBLED (constant pool in emission order, global indices from the
            symbol table) in the format of the harness's `CodeExport`      (link A, real compiler)
        f6  `same` | `differs:<text>`   f5 against `Compile.compileProg`   (link A, Lean model)
        f7  `Sem.runProg` outcome                                          (link B; = f1)
        f8  `VM.runCodes (compileProg p)` outcome                          (link C; = f2)
        f9  `evalF` store restricted to top-level names
        f10 `Sem` final environment (top-level names)                      (link B; = f9)
        f11 `VM.lean` final globals of every declared name                 (link C; = f4)
  `frag prefix <sexp> <globals>` → the largest k such that the first k top-level statements
      form a program inside the fragment (0 = none)
-/
namespace Risor.C01
open Risor.C04 (Op Ins)
open Risor.C01.Frag
open Risor.Util

def fragShowVal : FVal → String
  | .nil => "(nil)"
  | .bool b => if b then "(bool 1)" else "(bool 0)"
  | .int i => "(int " ++ toString i ++ ")"
  | .str s => "(str " ++ toHexField (strBytes s) ++ ")"

def fragShowOut : Out → String
  | .val v => "ok:" ++ fragShowVal v
  | .unit => "ok:(nil)"
  | .brk | .cont => "err:compile"
  | .err c => "err:" ++ c
  | .oof => "oof"

def fragShowRun : RunRes → String
  | .done v => "ok:" ++ fragShowVal v
  | .err c => "err:" ++ c
  | .running => "oof"

def fragShowVVal : VVal → String
  | .nil => "(nil)"
  | .bool b => if b then "(bool 1)" else "(bool 0)"
  | .int i => "(int " ++ toString i ++ ")"
  | .str s => "(str " ++ toHexField (strBytes s) ++ ")"
  | _ => "(other)"

def fragField (s : String) : String := if s.isEmpty then "-" else s

def fragShowStore (names : List String) (get : String → String) : String :=
  fragField (",".intercalate (names.map fun x => x ++ "=" ++ get x))

/-- `assemble`: constant pool in emission order without deduplication (`c.constant`), global
    indices = host globals first, then one fresh index per declaration in compile order
    (`SymbolTable.InsertVariable` claiming `count` from the function table) -/
def fragAssemble (globals : List String) (p : N) (code : Code) : String :=
  let names := globals ++ decls p
  let idx (x : String) : String := toString (names.findIdx (· == x))
  let showConst : Const → String
    | .int i => "i" ++ toString i
    | .str s => "s" ++ toHexField (strBytes s)
    | .fn id => "f" ++ id
  let (ins, consts) := code.foldl (fun (acc : List String × List Const) slot =>
    match slot with
    | none => acc
    | some i =>
      let (out, cs) := acc
      match i with
      | .nop => (out ++ ["NOP"], cs)
      | .nil_ => (out ++ ["NIL"], cs)
      | .true_ => (out ++ ["TRUE"], cs)
      | .false_ => (out ++ ["FALSE"], cs)
      | .popTop => (out ++ ["POP_TOP"], cs)
      | .unaryNeg => (out ++ ["UNARY_NEGATIVE"], cs)
      | .unaryNot => (out ++ ["UNARY_NOT"], cs)
      | .constInt k => (out ++ ["LOAD_CONST:" ++ toString cs.length], cs ++ [.int k])
      | .constStr s => (out ++ ["LOAD_CONST:" ++ toString cs.length], cs ++ [.str s])
      | .loadG x => (out ++ ["LOAD_GLOBAL:" ++ idx x], cs)
      | .storeG x => (out ++ ["STORE_GLOBAL:" ++ idx x], cs)
      | .binary k => (out ++ ["BINARY_OP:" ++ toString k], cs)
      | .compare k => (out ++ ["COMPARE_OP:" ++ toString k], cs)
      | .copy k => (out ++ ["COPY:" ++ toString k], cs)
      | .swap k => (out ++ ["SWAP:" ++ toString k], cs)
      | .jf d => (out ++ ["JUMP_FORWARD:" ++ toString d], cs)
      | .jb d => (out ++ ["JUMP_BACKWARD:" ++ toString d], cs)
      | .pjf d => (out ++ ["POP_JUMP_FORWARD_IF_FALSE:" ++ toString d], cs)
      | .pjt d => (out ++ ["POP_JUMP_FORWARD_IF_TRUE:" ++ toString d], cs)) (([] : List String), ([] : List Const))
  "id=__main__;ins=" ++ " ".intercalate ins ++ ";consts=" ++ ",".intercalate (consts.map showConst) ++ ";names="

/-- inside the fragment, and no declared name collides with a host global -/
def fragIn (globals : List String) (p : N) : Bool :=
  inFrag p && (decls p).all (fun x => !globals.contains x)

def fragSemOut (o : Outcome) : String :=
  if !o.st.out.isEmpty then "printed" else
  match o.sig with
  | .val v => "ok:" ++ showVal o.st v
  | .unit => "ok:(nil)"
  | .ret v => "ok:" ++ showVal o.st v
  | .err c => "err:" ++ c
  | .uerr _ => "err:error"
  | .brk | .cont => "err:compile"
  | .oof => "oof"
  | .unsupported w => "unsupported:" ++ w

def fragVMOut (r : VRes × VM) : String :=
  match r.1 with
  | .done v => "ok:" ++ fragShowVVal v
  | .err c => "err:" ++ c
  | .running => "oof"
  | .unsupported w => "unsupported:" ++ w

def fragTopNames (p : N) : List String :=
  match p with
  | .prog stmts => stmts.toList.flatMap declOf
  | _ => []

def handleFrag : List String → String
  | ["run", sx, globals] =>
    match decodeProg sx with
    | none => "error\tcannot decode the program"
    | some p =>
      let gs := (globals.splitOn ",").filter (· ≠ "")
      if !fragIn gs p then "out" else
      let names := decls p
      let top := fragTopNames p
      let code := compF p
      let e := evalF 4000 p
      let r := runF 400000 code
      let asm := fragAssemble gs p code
      let (linkA, vmOut, vmStore) :=
        match compileProg gs p with
        | .error err => ("differs:fail " ++ err, "compile-fail", "-")
        | .ok codes =>
          let showConst : Const → String
            | .int i => "i" ++ toString i
            | .str s => "s" ++ toHexField (strBytes s)
            | .fn id => "f" ++ id
          let one (c : CodeB) : String :=
            "id=" ++ c.id ++ ";ins=" ++ codeText c ++ ";consts=" ++ ",".intercalate (c.consts.toList.map showConst)
              ++ ";names=" ++ ",".intercalate c.names.toList
          let txt := "|".intercalate (codes.map one)
          let vr := runCodes 400000 gs codes
          let all := gs ++ names
          (if txt == asm then "same" else "differs:" ++ txt, fragVMOut vr,
            fragShowStore names fun x => fragShowVVal (vr.2.globals.getD (all.findIdx (· == x)) .nil))
      let (semOut, semStore) :=
        match p with
        | .prog stmts =>
          match execStmts 20000 stmts [] {} with
          | (sg, env, st) =>
            (fragSemOut (match sg with | .unit => ⟨.val .nil, st⟩ | sg => ⟨sg, st⟩),
              fragShowStore top fun x => match lookup env x with
                | some c => showVal st (st.cells.getD c .nil)
                | none => "(unbound)")
        | _ => ("unsupported:program", "-")
      "\t".intercalate ["in", fragShowOut e.1, fragShowRun r.1,
        fragShowStore names (fun x => fragShowVal (e.2.get x)),
        fragShowStore names (fun x => fragShowVal (r.2.get x)),
        asm, linkA, semOut, vmOut,
        fragShowStore top (fun x => if e.2.any (·.1 == x) then fragShowVal (e.2.get x) else "(unbound)"), semStore, vmStore]
  | ["prefix", sx, globals] =>
    match decodeProg sx with
    | some (.prog stmts) =>
      let gs := (globals.splitOn ",").filter (· ≠ "")
      let l := stmts.toList
      let ks := (List.range (l.length + 1)).reverse
      match ks.find? (fun k => k > 0 && fragIn gs (.prog (N.ofList (l.take k)))) with
      | some k => toString k
      | none => "0"
    | _ => "0"
  | _ => "error\tunknown-request"

end Risor.C01
