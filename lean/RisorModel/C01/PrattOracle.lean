import RisorModel.Util
import RisorModel.C01.Decode
import RisorModel.C01.Pratt
/-!
Line-protocol front end of the Pratt model (requests `C01 pratt …`; not part of any theorem).

  pratt check <tokens> <tree|->
    tokens: `typehex:lithex` items joined by `,` — the REAL lexer's output for one expression
            (token.Type string and Literal, both hex; `-` = empty), without the final EOF
    tree:   the generator's tree in the S-expression format of harness/gen.go, or `-`
  reply: ok <parsed> <roundtrip> <render>
    parsed:    canonical S-expression of what `parseExpr` returns on the tokens when it consumes
               them all; `none` when it fails; `leftover` when tokens remain
    roundtrip: 1 when a tree was given and `parseExpr` returned exactly it, else 0 (`-` without tree)
    render:    `same` when `renderTop tree` equals the token list (types and literals), otherwise
               the hex of Lean's rendering as text (`-` without tree)
  reply: unsupported <why>   when the tokens or the tree are outside the model's domain
-/
namespace Risor.C01.Pratt
open Risor.Util Risor.C01

def hexStr (h : String) : Option String :=
  match fromHex h with
  | some bs => String.fromUTF8? (ByteArray.mk (bs.map (·.toUInt8)).toArray)
  | none => none

def Kind.ofTyp (s : String) : Option Kind := Kind.all.find? (fun k => k.typ == s)

def decodeToken (item : String) : Except String Token :=
  match item.splitOn ":" with
  | [th, lh] =>
    match hexStr th, hexStr lh with
    | some ty, some lit =>
      match Kind.ofTyp ty with
      | none => .error ("unknown token type " ++ ty)
      | some k =>
        if k == .INT && toString (litNat lit) != lit then .error ("non-decimal integer literal " ++ lit)
        else if k == .IDENT && lit == "" then .error "empty identifier"
        else .ok ⟨k, lit⟩
    | _, _ => .error "bad hex in token"
  | _ => .error "bad token item"

def decodeTokens (field : String) : Except String (List Token) :=
  if field == "-" then .ok [] else (field.splitOn ",").mapM decodeToken

def opText : BinOp → String
  | .add => "+" | .sub => "-" | .mul => "*" | .div => "/" | .mod => "%" | .pow => "**"
  | .lshift => "<<" | .rshift => ">>" | .bitand => "&" | .lt => "<" | .le => "<=" | .gt => ">"
  | .ge => ">=" | .eq => "==" | .ne => "!=" | .and => "&&" | .or => "||"

def hx (s : String) : String := toHexField (strBytes s)

mutual
partial def showExpr : Expr → String
  | .int n => "(int i:" ++ toString n ++ ")"
  | .bool b => "(bool i:" ++ (if b then "1" else "0") ++ ")"
  | .nil => "(nil)"
  | .str s => if s == "" then "(str)" else "(str s:" ++ hx s ++ ")"
  | .ident x => "(id s:" ++ hx x ++ ")"
  | .infix op l r => "(infix s:" ++ hx (opText op) ++ " " ++ showExpr l ++ " " ++ showExpr r ++ ")"
  | .neg e => "(prefix s:" ++ hx "-" ++ " " ++ showExpr e ++ ")"
  | .not e => "(prefix s:" ++ hx "!" ++ " " ++ showExpr e ++ ")"
  | .tern c a b => "(tern " ++ showExpr c ++ " " ++ showExpr a ++ " " ++ showExpr b ++ ")"
  | .isIn x c => "(in " ++ showExpr x ++ " " ++ showExpr c ++ ")"
  | .notIn x c => "(notin " ++ showExpr x ++ " " ++ showExpr c ++ ")"
  | .call f args => "(call " ++ showExpr f ++ showArgs args ++ ")"
  | .mcall o name args => "(mcall s:" ++ hx name ++ " " ++ showExpr o ++ showArgs args ++ ")"
  | .index e i => "(index " ++ showExpr e ++ " " ++ showExpr i ++ ")"
  | .slice e lo hi => "(slice " ++ showExpr e ++ " " ++ showOpt lo ++ " " ++ showOpt hi ++ ")"
  | .list items => "(list" ++ showArgs items ++ ")"
partial def showArgs : Args → String
  | .nil => ""
  | .cons e es => " " ++ showExpr e ++ showArgs es
partial def showOpt : Opt → String
  | .none => "(none)"
  | .some e => showExpr e
end

partial def toExpr (x : SX) : Option Expr :=
  match x with
  | .atom _ => none
  | .node [] => none
  | .node (.node _ :: _) => none
  | .node (.atom kind :: rest) =>
    let s := sxStr rest
    let kids := sxKids rest
    let ks := kids.mapM toExpr
    let opt (k : SX) : Option Opt :=
      match k with
      | .node [.atom "none"] => some .none
      | k => (toExpr k).map Opt.some
    match kind, ks with
    | "int", _ => if sxInt rest < 0 then none else some (.int (sxInt rest).toNat)
    | "bool", _ => some (.bool (sxInt rest == 1))
    | "nil", _ => some .nil
    | "str", _ => some (.str s)
    | "id", _ => some (.ident s)
    | "infix", some [l, r] => (binOpOf s).map (fun op => .infix op l r)
    | "prefix", some [e] => if s == "-" then some (.neg e) else if s == "!" then some (.not e) else none
    | "tern", some [c, a, b] => some (.tern c a b)
    | "in", some [a, b] => some (.isIn a b)
    | "notin", some [a, b] => some (.notIn a b)
    | "call", some (f :: args) => some (.call f (Args.ofList args))
    | "mcall", some (o :: args) => some (.mcall o s (Args.ofList args))
    | "index", some [e, i] => some (.index e i)
    | "slice", _ =>
      match kids with
      | [e, lo, hi] =>
        match toExpr e, opt lo, opt hi with
        | some e, some lo, some hi => some (.slice e lo hi)
        | _, _, _ => none
      | _ => none
    | "list", some items => some (.list (Args.ofList items))
    | _, _ => none

def tokensText (ts : List Token) : String :=
  " ".intercalate (ts.map fun t => t.kind.name ++ (if t.lit == t.kind.text then "" else "<" ++ t.lit ++ ">"))

def handlePrattImpl : List String → String
  | ["check", toksField, treeField] =>
    match decodeTokens toksField with
    | .error why => "unsupported\t" ++ why
    | .ok toks =>
      let fuel := 3 * toks.length + 20
      let parsed := parseExpr fuel Level.LOWEST.num toks
      let parsedText := match parsed with
        | some (e, []) => showExpr e
        | some (_, _) => "leftover"
        | none => "none"
      if treeField == "-" then "ok\t" ++ parsedText ++ "\t-\t-"
      else
        match parseSX treeField.toList with
        | none => "unsupported\tcannot read the tree"
        | some (sx, _) =>
          match toExpr sx with
          | none => "unsupported\ttree outside the expression core"
          | some tree =>
            let rt := match parsed with
              | some (e, []) => decide (e = tree)
              | _ => false
            let r := renderTop tree
            let rend := if r == toks then "same" else hx (tokensText r)
            "ok\t" ++ parsedText ++ "\t" ++ (if rt then "1" else "0") ++ "\t" ++ rend
  | _ => "error\tunknown-pratt-request"

end Risor.C01.Pratt

namespace Risor.C01
/-- entry point used by `Risor.C01.handle` -/
def handlePratt : List String → String := Pratt.handlePrattImpl
end Risor.C01
