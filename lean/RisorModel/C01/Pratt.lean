import RisorModel.C01.Ast
/-!
C01 — token-level model of risor's Pratt expression parser (parser/parser.go: `parseNode`,
`parsePrefixExpr`, `parseGroupedExpr`, `parseInfixExpr`, `parseTernary`, `parseIn`, `parseNotIn`,
`parseCall`, `parseNodeList`/`parseExprList`, `parseIndex`, `parseGetAttr`, `parseList`), the
precedence table of parser/precedence.go, the prefix/infix/postfix registrations of `parser.New`,
and a printer `render` that inserts parentheses exactly where that table, left associativity and
the "extends as far as possible" reading of the ternary's branches require.

The round-trip theorem `parse_render` is in PrattProps.lean.  Executable, core Lean only.

Conventions.  A token list stands for `curToken :: peekToken :: …`; the empty list is end of
input (the real lexer keeps returning EOF, which has no prefix function, no infix function and
no precedence).  `parseNode f t p toks` is `parseNode(p)` entered with `curToken = toks.head`,
the `tern` flag equal to `t`, and `f` a recursion-depth bound (fuel); it returns the node and
the tokens from `peekToken` on, i.e. what the real parser has not consumed yet.  `none` stands
for "the real parser records an error or builds a node outside the expression core" (assignment,
pipe, send, func/if/switch literals, templates, maps …).
-/
namespace Risor.C01.Pratt

/-- token types: the constants of token/token.go, in source order -/
inductive Kind where
  | AND | ASSIGN | ASTERISK | ASTERISK_EQUALS | BACKTICK | FSTRING | BANG | CASE | COLON | COMMA
  | CONST | DECLARE | DEFAULT | DEFER | FUNC | ELSE | EOF | EQ | FALSE | FLOAT | FOR | GT | GT_GT
  | GT_EQUALS | GO | IDENT | IF | ILLEGAL | INT | LBRACE | LBRACKET | LPAREN | LT | LT_LT
  | LT_EQUALS | MINUS | MINUS_EQUALS | MINUS_MINUS | MOD | NOT_EQ | NIL | NOT | PIPE | OR | PERIOD
  | PLUS | AMPERSAND | PLUS_EQUALS | PLUS_PLUS | POW | QUESTION | RBRACE | RBRACKET | RETURN
  | RPAREN | SEMICOLON | SEND | SLASH | SLASH_EQUALS | STRING | STRUCT | SWITCH | TRUE | NEWLINE
  | IMPORT | BREAK | CONTINUE | VAR | IN | RANGE | FROM | AS
  deriving DecidableEq, Repr, Inhabited

open Kind in
/-- every kind, in the source order of token/token.go -/
def Kind.all : List Kind :=
  [AND, ASSIGN, ASTERISK, ASTERISK_EQUALS, BACKTICK, FSTRING, BANG, CASE, COLON, COMMA,
   CONST, DECLARE, DEFAULT, DEFER, FUNC, ELSE, EOF, EQ, FALSE, FLOAT, FOR, GT, GT_GT,
   GT_EQUALS, GO, IDENT, IF, ILLEGAL, INT, LBRACE, LBRACKET, LPAREN, LT, LT_LT,
   LT_EQUALS, MINUS, MINUS_EQUALS, MINUS_MINUS, MOD, NOT_EQ, NIL, NOT, PIPE, OR, PERIOD,
   PLUS, AMPERSAND, PLUS_EQUALS, PLUS_PLUS, POW, QUESTION, RBRACE, RBRACKET, RETURN,
   RPAREN, SEMICOLON, SEND, SLASH, SLASH_EQUALS, STRING, STRUCT, SWITCH, TRUE, NEWLINE,
   IMPORT, BREAK, CONTINUE, VAR, IN, RANGE, FROM, AS]

/-- Go constant name and string value (`token.Type`) of each kind -/
def Kind.info : Kind → String × String
  | .AND => ("AND", "&&") | .ASSIGN => ("ASSIGN", "=") | .ASTERISK => ("ASTERISK", "*")
  | .ASTERISK_EQUALS => ("ASTERISK_EQUALS", "*=") | .BACKTICK => ("BACKTICK", "`")
  | .FSTRING => ("FSTRING", "'") | .BANG => ("BANG", "!") | .CASE => ("CASE", "case")
  | .COLON => ("COLON", ":") | .COMMA => ("COMMA", ",") | .CONST => ("CONST", "CONST")
  | .DECLARE => ("DECLARE", ":=") | .DEFAULT => ("DEFAULT", "DEFAULT") | .DEFER => ("DEFER", "DEFER")
  | .FUNC => ("FUNC", "FUNC") | .ELSE => ("ELSE", "ELSE") | .EOF => ("EOF", "EOF") | .EQ => ("EQ", "==")
  | .FALSE => ("FALSE", "FALSE") | .FLOAT => ("FLOAT", "FLOAT") | .FOR => ("FOR", "FOR")
  | .GT => ("GT", ">") | .GT_GT => ("GT_GT", ">>") | .GT_EQUALS => ("GT_EQUALS", ">=")
  | .GO => ("GO", "GO") | .IDENT => ("IDENT", "IDENT") | .IF => ("IF", "IF")
  | .ILLEGAL => ("ILLEGAL", "ILLEGAL") | .INT => ("INT", "INT") | .LBRACE => ("LBRACE", "{")
  | .LBRACKET => ("LBRACKET", "[") | .LPAREN => ("LPAREN", "(") | .LT => ("LT", "<")
  | .LT_LT => ("LT_LT", "<<") | .LT_EQUALS => ("LT_EQUALS", "<=") | .MINUS => ("MINUS", "-")
  | .MINUS_EQUALS => ("MINUS_EQUALS", "-=") | .MINUS_MINUS => ("MINUS_MINUS", "--")
  | .MOD => ("MOD", "%") | .NOT_EQ => ("NOT_EQ", "!=") | .NIL => ("NIL", "nil") | .NOT => ("NOT", "NOT")
  | .PIPE => ("PIPE", "|") | .OR => ("OR", "||") | .PERIOD => ("PERIOD", ".") | .PLUS => ("PLUS", "+")
  | .AMPERSAND => ("AMPERSAND", "&") | .PLUS_EQUALS => ("PLUS_EQUALS", "+=")
  | .PLUS_PLUS => ("PLUS_PLUS", "++") | .POW => ("POW", "**") | .QUESTION => ("QUESTION", "?")
  | .RBRACE => ("RBRACE", "}") | .RBRACKET => ("RBRACKET", "]") | .RETURN => ("RETURN", "RETURN")
  | .RPAREN => ("RPAREN", ")") | .SEMICOLON => ("SEMICOLON", ";") | .SEND => ("SEND", "<-")
  | .SLASH => ("SLASH", "/") | .SLASH_EQUALS => ("SLASH_EQUALS", "/=") | .STRING => ("STRING", "STRING")
  | .STRUCT => ("STRUCT", "STRUCT") | .SWITCH => ("SWITCH", "switch") | .TRUE => ("TRUE", "TRUE")
  | .NEWLINE => ("NEWLINE", "EOL") | .IMPORT => ("IMPORT", "IMPORT") | .BREAK => ("BREAK", "BREAK")
  | .CONTINUE => ("CONTINUE", "CONTINUE") | .VAR => ("VAR", "VAR") | .IN => ("IN", "IN")
  | .RANGE => ("RANGE", "RANGE") | .FROM => ("FROM", "FROM") | .AS => ("AS", "AS")

def Kind.name (k : Kind) : String := k.info.1
def Kind.typ (k : Kind) : String := k.info.2

/-- a token: its type and its literal text (positions are irrelevant to parsing) -/
structure Token where
  kind : Kind
  lit : String
  deriving DecidableEq, Repr, Inhabited

/-! ## parser/precedence.go -/

/-- the precedence levels, in the order of the `iota` block (`LOWEST` = 1 … `HIGHEST` = 16) -/
inductive Level where
  | LOWEST | PIPE | COND | ASSIGN | DECLARE | TERNARY | EQUALS | LESSGREATER | SUM | PRODUCT
  | POWER | MOD | PREFIX | CALL | INDEX | HIGHEST
  deriving DecidableEq, Repr, Inhabited

def Level.all : List Level :=
  [.LOWEST, .PIPE, .COND, .ASSIGN, .DECLARE, .TERNARY, .EQUALS, .LESSGREATER, .SUM, .PRODUCT,
   .POWER, .MOD, .PREFIX, .CALL, .INDEX, .HIGHEST]

def Level.num : Level → Nat
  | .LOWEST => 1 | .PIPE => 2 | .COND => 3 | .ASSIGN => 4 | .DECLARE => 5 | .TERNARY => 6
  | .EQUALS => 7 | .LESSGREATER => 8 | .SUM => 9 | .PRODUCT => 10 | .POWER => 11 | .MOD => 12
  | .PREFIX => 13 | .CALL => 14 | .INDEX => 15 | .HIGHEST => 16

def Level.name : Level → String
  | .LOWEST => "LOWEST" | .PIPE => "PIPE" | .COND => "COND" | .ASSIGN => "ASSIGN"
  | .DECLARE => "DECLARE" | .TERNARY => "TERNARY" | .EQUALS => "EQUALS"
  | .LESSGREATER => "LESSGREATER" | .SUM => "SUM" | .PRODUCT => "PRODUCT" | .POWER => "POWER"
  | .MOD => "MOD" | .PREFIX => "PREFIX" | .CALL => "CALL" | .INDEX => "INDEX" | .HIGHEST => "HIGHEST"

/-- `var precedences = map[token.Type]int{…}`, sorted by the Go constant name of the token -/
def precTable : List (Kind × Level) :=
  [(.AMPERSAND, .PRODUCT), (.AND, .COND), (.ASSIGN, .ASSIGN), (.ASTERISK, .PRODUCT),
   (.ASTERISK_EQUALS, .PRODUCT), (.DECLARE, .DECLARE), (.EQ, .EQUALS), (.GT, .LESSGREATER),
   (.GT_EQUALS, .LESSGREATER), (.GT_GT, .PRODUCT), (.IN, .PREFIX), (.LBRACKET, .INDEX),
   (.LPAREN, .CALL), (.LT, .LESSGREATER), (.LT_EQUALS, .LESSGREATER), (.LT_LT, .PRODUCT),
   (.MINUS, .SUM), (.MINUS_EQUALS, .SUM), (.MOD, .MOD), (.NOT, .PREFIX), (.NOT_EQ, .EQUALS),
   (.OR, .COND), (.PERIOD, .INDEX), (.PIPE, .PIPE), (.PLUS, .SUM), (.PLUS_EQUALS, .SUM),
   (.POW, .POWER), (.QUESTION, .TERNARY), (.RANGE, .PREFIX), (.SEND, .CALL), (.SLASH, .PRODUCT),
   (.SLASH_EQUALS, .PRODUCT)]

/-- `peekPrecedence` / `currentPrecedence`: the table entry, `LOWEST` for tokens without one -/
def prec (k : Kind) : Nat :=
  match precTable.lookup k with
  | some l => l.num
  | none => Level.LOWEST.num

/-! ## the registrations of `parser.New` -/

inductive PrefixFn where
  | parseString | parsePrefixExpr | parseDefer | illegalToken | parseBoolean | parseFloat | parseFor
  | parseFromImport | parseFunc | parseGo | parseIdent | parseIf | parseImport | parseInt
  | parseMapOrSet | parseList | parseGroupedExpr | parseNewline | parseNil | parseRange
  | parseSwitch | parseReceive
  deriving DecidableEq, Repr

def PrefixFn.name : PrefixFn → String
  | .parseString => "parseString" | .parsePrefixExpr => "parsePrefixExpr" | .parseDefer => "parseDefer"
  | .illegalToken => "illegalToken" | .parseBoolean => "parseBoolean" | .parseFloat => "parseFloat"
  | .parseFor => "parseFor" | .parseFromImport => "parseFromImport" | .parseFunc => "parseFunc"
  | .parseGo => "parseGo" | .parseIdent => "parseIdent" | .parseIf => "parseIf"
  | .parseImport => "parseImport" | .parseInt => "parseInt" | .parseMapOrSet => "parseMapOrSet"
  | .parseList => "parseList" | .parseGroupedExpr => "parseGroupedExpr" | .parseNewline => "parseNewline"
  | .parseNil => "parseNil" | .parseRange => "parseRange" | .parseSwitch => "parseSwitch"
  | .parseReceive => "parseReceive"

/-- `registerPrefix` calls, sorted by the Go constant name of the token -/
def prefixTable : List (Kind × PrefixFn) :=
  [(.BACKTICK, .parseString), (.BANG, .parsePrefixExpr), (.DEFER, .parseDefer), (.EOF, .illegalToken),
   (.FALSE, .parseBoolean), (.FLOAT, .parseFloat), (.FOR, .parseFor), (.FROM, .parseFromImport),
   (.FSTRING, .parseString), (.FUNC, .parseFunc), (.GO, .parseGo), (.IDENT, .parseIdent),
   (.IF, .parseIf), (.ILLEGAL, .illegalToken), (.IMPORT, .parseImport), (.INT, .parseInt),
   (.LBRACE, .parseMapOrSet), (.LBRACKET, .parseList), (.LPAREN, .parseGroupedExpr),
   (.MINUS, .parsePrefixExpr), (.NEWLINE, .parseNewline), (.NIL, .parseNil), (.PIPE, .parsePrefixExpr),
   (.RANGE, .parseRange), (.SEND, .parseReceive), (.STRING, .parseString), (.SWITCH, .parseSwitch),
   (.TRUE, .parseBoolean)]

inductive InfixFn where
  | parseInfixExpr | parseAssign | parseIn | parseIndex | parseCall | parseNotIn | parseGetAttr
  | parsePipe | parseTernary | parseSend
  deriving DecidableEq, Repr

def InfixFn.name : InfixFn → String
  | .parseInfixExpr => "parseInfixExpr" | .parseAssign => "parseAssign" | .parseIn => "parseIn"
  | .parseIndex => "parseIndex" | .parseCall => "parseCall" | .parseNotIn => "parseNotIn"
  | .parseGetAttr => "parseGetAttr" | .parsePipe => "parsePipe" | .parseTernary => "parseTernary"
  | .parseSend => "parseSend"

/-- `registerInfix` calls, sorted by the Go constant name of the token -/
def infixTable : List (Kind × InfixFn) :=
  [(.AMPERSAND, .parseInfixExpr), (.AND, .parseInfixExpr), (.ASSIGN, .parseAssign),
   (.ASTERISK, .parseInfixExpr), (.ASTERISK_EQUALS, .parseAssign), (.EQ, .parseInfixExpr),
   (.GT, .parseInfixExpr), (.GT_EQUALS, .parseInfixExpr), (.GT_GT, .parseInfixExpr), (.IN, .parseIn),
   (.LBRACKET, .parseIndex), (.LPAREN, .parseCall), (.LT, .parseInfixExpr),
   (.LT_EQUALS, .parseInfixExpr), (.LT_LT, .parseInfixExpr), (.MINUS, .parseInfixExpr),
   (.MINUS_EQUALS, .parseAssign), (.MOD, .parseInfixExpr), (.NOT, .parseNotIn),
   (.NOT_EQ, .parseInfixExpr), (.OR, .parseInfixExpr), (.PERIOD, .parseGetAttr), (.PIPE, .parsePipe),
   (.PLUS, .parseInfixExpr), (.PLUS_EQUALS, .parseAssign), (.POW, .parseInfixExpr),
   (.QUESTION, .parseTernary), (.SEND, .parseSend), (.SLASH, .parseInfixExpr),
   (.SLASH_EQUALS, .parseAssign)]

/-- `registerPostfix` calls (both map to `parsePostfix`), sorted by constant name -/
def postfixTable : List Kind := [.MINUS_MINUS, .PLUS_PLUS]

def prefixFn (k : Kind) : Option PrefixFn := prefixTable.lookup k
def infixFn (k : Kind) : Option InfixFn := infixTable.lookup k
def isPostfix (k : Kind) : Bool := postfixTable.contains k

/-! ## expression trees of the printable core -/

mutual
/-- One constructor per `ast` node the expression core uses.  `int` carries the value of a
    decimal literal; `mcall` is `ast.ObjectCall` (`o.name(args)`).  A bare attribute access
    (`ast.GetAttr`) is not part of the core: the generator never emits one, and a tree `call (attr o
    name) args` has no unparenthesised text (`o.name(args)` always is an `ObjectCall`), so its
    printing rule would depend on the next token rather than on a precedence. -/
inductive Expr where
  | int (n : Nat) | bool (b : Bool) | nil | str (s : String) | ident (x : String)
  | infix (op : BinOp) (l r : Expr)
  | neg (e : Expr) | not (e : Expr)
  | tern (c a b : Expr)
  | isIn (x c : Expr) | notIn (x c : Expr)
  | call (f : Expr) (args : Args)
  | mcall (o : Expr) (name : String) (args : Args)
  | index (e i : Expr)
  | slice (e : Expr) (lo hi : Opt)
  | list (items : Args)
/-- argument lists and list items -/
inductive Args where
  | nil | cons (hd : Expr) (tl : Args)
/-- an optional slice bound -/
inductive Opt where
  | none | some (e : Expr)
end

deriving instance Repr for Expr, Args, Opt
deriving instance DecidableEq for Expr, Args, Opt
instance : Inhabited Expr := ⟨.nil⟩

def Args.toList : Args → List Expr
  | .nil => []
  | .cons h t => h :: t.toList

def Args.ofList : List Expr → Args
  | [] => .nil
  | h :: t => .cons h (Args.ofList t)

/-- the token type of each infix operator of the table -/
def opKind : BinOp → Kind
  | .add => .PLUS | .sub => .MINUS | .mul => .ASTERISK | .div => .SLASH | .mod => .MOD | .pow => .POW
  | .lshift => .LT_LT | .rshift => .GT_GT | .bitand => .AMPERSAND
  | .lt => .LT | .le => .LT_EQUALS | .gt => .GT | .ge => .GT_EQUALS | .eq => .EQ | .ne => .NOT_EQ
  | .and => .AND | .or => .OR

/-- the operator an `ast.Infix` node built by `parseInfixExpr` carries -/
def binOpOfKind : Kind → Option BinOp
  | .PLUS => some .add | .MINUS => some .sub | .ASTERISK => some .mul | .SLASH => some .div
  | .MOD => some .mod | .POW => some .pow | .LT_LT => some .lshift | .GT_GT => some .rshift
  | .AMPERSAND => some .bitand | .LT => some .lt | .LT_EQUALS => some .le | .GT => some .gt
  | .GT_EQUALS => some .ge | .EQ => some .eq | .NOT_EQ => some .ne | .AND => some .and | .OR => some .or
  | _ => none

/-- literal text of the fixed-text tokens the printer emits (what the lexer puts in `Literal`) -/
def Kind.text : Kind → String
  | .TRUE => "true" | .FALSE => "false" | .NIL => "nil" | .IN => "in" | .NOT => "not"
  | k => k.typ

def tk (k : Kind) : Token := ⟨k, k.text⟩

/-- value of a decimal literal (`parseInt` on a literal without `0x`/leading-zero prefix) -/
def litNat (s : String) : Nat := Nat.ofDigitChars 10 s.toList 0

/-! ## the parser -/

/-- `for p.curTokenIs(token.NEWLINE) { p.nextToken() }` -/
def skipNl : List Token → List Token
  | [] => []
  | tok :: rest => if tok.kind = .NEWLINE then skipNl rest else tok :: rest

abbrev PRes := Option (Expr × List Token)

/-- `p.peekTokenIs(k)` on the remaining input (false at end of input) -/
def headIs (k : Kind) : List Token → Bool
  | [] => false
  | tok :: _ => tok.kind = k

mutual
/-- `parseNode(precedence)`: prefix function, then the infix loop -/
def parseNode : Nat → Bool → Nat → List Token → PRes
  | 0, _, _, _ => none
  | f+1, t, p, toks =>
    match prefixP f t toks with
    | none => none
    | some (l, rest) => loop f t p l rest

/-- the prefix dispatch of `parseNode` (a token with a postfix function, or without a prefix
    function, does not start an expression) -/
def prefixP : Nat → Bool → List Token → PRes
  | 0, _, _ => none
  | _, _, [] => none
  | f+1, t, tok :: rest =>
    if isPostfix tok.kind then none else
    match prefixFn tok.kind with
    | some .parseInt => some (.int (litNat tok.lit), rest)
    | some .parseBoolean => some (.bool (tok.kind = .TRUE), rest)
    | some .parseNil => some (.nil, rest)
    | some .parseIdent => some (.ident tok.lit, rest)   -- (the lexer never yields an empty IDENT)
    | some .parseString => if tok.kind = .FSTRING then none else some (.str tok.lit, rest)
    | some .parsePrefixExpr =>
      -- operand at PREFIX
      match parseNode f t Level.PREFIX.num rest with
      | some (e, rest') =>
        if tok.kind = .MINUS then some (.neg e, rest')
        else if tok.kind = .BANG then some (.not e, rest')
        else none
      | none => none
    | some .parseGroupedExpr =>
      match parseNode f t Level.LOWEST.num rest with
      | some (e, rest') => if headIs .RPAREN rest' then some (e, rest'.tail) else none
      | none => none
    | some .parseList =>
      match exprList f t .RBRACKET rest with
      | some (items, rest') => some (.list items, rest')
      | none => none
    | _ => none

/-- the loop of `parseNode`: `for precedence < p.peekPrecedence() { infix := …; if infix == nil
    { return leftExp }; p.nextToken(); leftExp = infix(leftExp) }`.  (`SEMICOLON` has no table
    entry, so the loop's extra semicolon test is subsumed.) -/
def loop : Nat → Bool → Nat → Expr → List Token → PRes
  | 0, _, _, _, _ => none
  | _+1, _, _, l, [] => some (l, [])
  | f+1, t, p, l, tok :: rest =>
    if p < prec tok.kind then
      match infixFn tok.kind with
      | none => some (l, tok :: rest)
      | some fn =>
        match infixP f t fn l tok rest with
        | some (e, rest') => loop f t p e rest'
        | none => none
    else some (l, tok :: rest)

/-- the infix functions; `tok` is the operator token (`curToken`), `rest` what follows it -/
def infixP : Nat → Bool → InfixFn → Expr → Token → List Token → PRes
  | 0, _, _, _, _, _ => none
  | f+1, t, .parseInfixExpr, l, tok, rest =>
    match binOpOfKind tok.kind with
    | none => none
    | some op =>
      -- newlines after the operator are skipped; the right operand is parsed at the operator's
      -- own level, which makes every infix operator left-associative
      match parseNode f t (prec tok.kind) (skipNl rest) with
      | some (r, rest') => some (.infix op l r, rest')
      | none => none
  | f+1, t, .parseTernary, c, _, rest =>
    if t then none else   -- "nested ternary expression detected"
    -- both branches at LOWEST, with the flag set
    match parseNode f true Level.LOWEST.num rest with
    | some (a, rest') =>
      if headIs .COLON rest' then
        match parseNode f true Level.LOWEST.num rest'.tail with
        | some (b, rest'') => some (.tern c a b, rest'')
        | none => none
      else none
    | none => none
  | f+1, t, .parseIn, l, _, rest =>
    match parseNode f t Level.PREFIX.num rest with
    | some (r, rest') => some (.isIn l r, rest')
    | none => none
  | f+1, t, .parseNotIn, l, _, rest =>
    if headIs .IN rest then
      match parseNode f t Level.PREFIX.num rest.tail with
      | some (r, rest') => some (.notIn l r, rest')
      | none => none
    else none
  | f+1, t, .parseCall, l, _, rest =>
    match exprList f t .RPAREN rest with
    | some (args, rest') => some (.call l args, rest')
    | none => none
  | f+1, t, .parseIndex, l, _, rest =>
    if headIs .COLON rest then sliceTail f t l .none rest.tail
    else
      match parseNode f t Level.LOWEST.num rest with
      | some (i, rest') =>
        if headIs .RBRACKET rest' then some (.index l i, rest'.tail)
        else if headIs .COLON rest' then sliceTail f t l (.some i) rest'.tail
        else none
      | none => none
  | f+1, t, .parseGetAttr, l, _, rest =>
    match skipNl rest with
    | nameTok :: rest' =>
      if nameTok.kind = .IDENT then
        if headIs .LPAREN rest' then
          match exprList f t .RPAREN rest'.tail with
          | some (args, r) => some (.mcall l nameTok.lit args, r)
          | none => none
        else none   -- ast.GetAttr / ast.SetAttr: outside the core
      else none
    | [] => none
  | _+1, _, _, _, _, _ => none   -- parseAssign, parsePipe, parseSend: outside the core

/-- `parseIndex` after the `:`; `toks` starts at the token after the colon -/
def sliceTail : Nat → Bool → Expr → Opt → List Token → PRes
  | 0, _, _, _, _ => none
  | f+1, t, l, lo, toks =>
    if headIs .RBRACKET toks then some (.slice l lo .none, toks.tail)
    else
      match parseNode f t Level.LOWEST.num toks with
      | some (hi, rest') =>
        if headIs .RBRACKET rest' then some (.slice l lo (.some hi), rest'.tail) else none
      | none => none

/-- `parseExprList(end)` / `parseNodeList(end)`; `toks` starts after the opening bracket -/
def exprList : Nat → Bool → Kind → List Token → Option (Args × List Token)
  | 0, _, _, _ => none
  | f+1, t, en, toks =>
    if headIs en toks then some (.nil, toks.tail)
    else
      match parseNode f t Level.LOWEST.num (skipNl toks) with
      | some (e, rest') =>
        match listTail f t en rest' with
        | some (es, rest'') => some (.cons e es, rest'')
        | none => none
      | none => none

/-- the `for p.peekTokenIs(token.COMMA)` loop of `parseExprList` and its closing bracket -/
def listTail : Nat → Bool → Kind → List Token → Option (Args × List Token)
  | 0, _, _, _ => none
  | f+1, t, en, toks =>
    if headIs .COMMA toks then
      if headIs en (skipNl toks.tail) then some (.nil, (skipNl toks.tail).tail)   -- trailing comma
      else
        match parseNode f t Level.LOWEST.num (skipNl toks.tail) with
        | some (e, rest') =>
          match listTail f t en rest' with
          | some (es, r) => some (.cons e es, r)
          | none => none
        | none => none
    else if headIs en (skipNl toks) then some (.nil, (skipNl toks).tail)
    else none
end

/-- `parseExpr fuel precedence tokens`: `parseNode` entered with the `tern` flag clear -/
def parseExpr (fuel p : Nat) (toks : List Token) : PRes := parseNode fuel false p toks

/-! ## the printer -/

/-- level of the root operator (decides whether parentheses are needed on the left) -/
def top : Expr → Nat
  | .infix op _ _ => prec (opKind op)
  | .neg _ | .not _ | .isIn _ _ | .notIn _ _ => Level.PREFIX.num
  | .tern _ _ _ => Level.TERNARY.num
  | _ => 100

/-- the strongest operator that may follow the unparenthesised expression without being
    swallowed by its right edge: the root level, except that a ternary's false branch is parsed
    at LOWEST and therefore swallows every operator -/
def stop : Expr → Nat
  | .tern _ _ _ => Level.LOWEST.num
  | e => top e

/-- `bare q fl e`: in a position whose parse level is `q` and whose following token has
    precedence `fl`, `e` can be printed without parentheses -/
def bare (q fl : Nat) (e : Expr) : Bool := decide (q < top e) && decide (fl ≤ stop e)

def wrap (ok : Bool) (fl : Nat) (g : Nat → List Token) : List Token :=
  if ok then g fl else [tk .LPAREN] ++ g Level.LOWEST.num ++ [tk .RPAREN]

mutual
/-- `render q fl e`: the tokens of `e` as an operand in a position with parse level `q`
    (operators of level ≤ q end the operand) followed by a token of precedence `fl` -/
def render : Nat → Nat → Expr → List Token
  | _, _, .int n => [⟨.INT, toString n⟩]
  | _, _, .bool b => [tk (if b then .TRUE else .FALSE)]
  | _, _, .nil => [tk .NIL]
  | _, _, .str s => [⟨.STRING, s⟩]
  | _, _, .ident x => [⟨.IDENT, x⟩]
  | q, fl, .infix op l r =>
    wrap (decide (q < prec (opKind op)) && decide (fl ≤ prec (opKind op))) fl fun fl' =>
      render (prec (opKind op) - 1) (prec (opKind op)) l ++ [tk (opKind op)] ++ render (prec (opKind op)) fl' r
  | q, fl, .neg e =>
    wrap (decide (q < Level.PREFIX.num) && decide (fl ≤ Level.PREFIX.num)) fl fun fl' =>
      [tk .MINUS] ++ render Level.PREFIX.num fl' e
  | q, fl, .not e =>
    wrap (decide (q < Level.PREFIX.num) && decide (fl ≤ Level.PREFIX.num)) fl fun fl' =>
      [tk .BANG] ++ render Level.PREFIX.num fl' e
  | q, fl, .tern c a b =>
    wrap (decide (q < Level.TERNARY.num) && decide (fl ≤ Level.LOWEST.num)) fl fun fl' =>
      render Level.TERNARY.num Level.TERNARY.num c ++ [tk .QUESTION]
        ++ render Level.TERNARY.num Level.LOWEST.num a ++ [tk .COLON]
        ++ render Level.TERNARY.num fl' b
  | q, fl, .isIn x c =>
    wrap (decide (q < Level.PREFIX.num) && decide (fl ≤ Level.PREFIX.num)) fl fun fl' =>
      render Level.PREFIX.num Level.PREFIX.num x ++ [tk .IN] ++ render Level.PREFIX.num fl' c
  | q, fl, .notIn x c =>
    wrap (decide (q < Level.PREFIX.num) && decide (fl ≤ Level.PREFIX.num)) fl fun fl' =>
      render Level.PREFIX.num Level.PREFIX.num x ++ [tk .NOT, tk .IN] ++ render Level.PREFIX.num fl' c
  | _, _, .call f args =>
    render Level.PREFIX.num Level.CALL.num f ++ [tk .LPAREN] ++ renderArgs args ++ [tk .RPAREN]
  | _, _, .mcall o name args =>
    render Level.CALL.num Level.INDEX.num o ++ [tk .PERIOD, ⟨.IDENT, name⟩, tk .LPAREN]
      ++ renderArgs args ++ [tk .RPAREN]
  | _, _, .index e i =>
    render Level.CALL.num Level.INDEX.num e ++ [tk .LBRACKET]
      ++ render Level.LOWEST.num Level.LOWEST.num i ++ [tk .RBRACKET]
  | _, _, .slice e lo hi =>
    render Level.CALL.num Level.INDEX.num e ++ [tk .LBRACKET] ++ renderOpt lo ++ [tk .COLON]
      ++ renderOpt hi ++ [tk .RBRACKET]
  | _, _, .list items => [tk .LBRACKET] ++ renderArgs items ++ [tk .RBRACKET]
/-- items separated by commas, each printed as a whole expression -/
def renderArgs : Args → List Token
  | .nil => []
  | .cons e es => render Level.LOWEST.num Level.LOWEST.num e ++ renderTail es
def renderTail : Args → List Token
  | .nil => []
  | .cons e es => [tk .COMMA] ++ render Level.LOWEST.num Level.LOWEST.num e ++ renderTail es
def renderOpt : Opt → List Token
  | .none => []
  | .some e => render Level.LOWEST.num Level.LOWEST.num e
end

/-- the tokens of a whole expression (statement position, argument, list item, index …) -/
def renderTop (e : Expr) : List Token := render Level.LOWEST.num Level.LOWEST.num e

/-! ## the language's restriction on ternaries

`parseTernary` refuses a `?` while the `tern` flag is set, and the flag stays set through
parentheses, call arguments, indices and list items inside the branches. -/

mutual
/-- no ternary anywhere inside -/
def noTern : Expr → Bool
  | .int _ | .bool _ | .nil | .str _ | .ident _ => true
  | .infix _ l r => noTern l && noTern r
  | .neg e | .not e => noTern e
  | .tern _ _ _ => false
  | .isIn x c | .notIn x c => noTern x && noTern c
  | .call f args => noTern f && noTernArgs args
  | .mcall o _ args => noTern o && noTernArgs args
  | .index e i => noTern e && noTern i
  | .slice e lo hi => noTern e && noTernOpt lo && noTernOpt hi
  | .list items => noTernArgs items
def noTernArgs : Args → Bool
  | .nil => true
  | .cons e es => noTern e && noTernArgs es
def noTernOpt : Opt → Bool
  | .none => true
  | .some e => noTern e
end

mutual
/-- `unnested e`: the branches of every ternary inside `e` contain no ternary (its condition
    may).  This is exactly the set of trees the real parser can produce. -/
def unnested : Expr → Bool
  | .int _ | .bool _ | .nil | .str _ | .ident _ => true
  | .infix _ l r => unnested l && unnested r
  | .neg e | .not e => unnested e
  | .tern c a b => unnested c && noTern a && noTern b
  | .isIn x c | .notIn x c => unnested x && unnested c
  | .call f args => unnested f && unnestedArgs args
  | .mcall o _ args => unnested o && unnestedArgs args
  | .index e i => unnested e && unnested i
  | .slice e lo hi => unnested e && unnestedOpt lo && unnestedOpt hi
  | .list items => unnestedArgs items
def unnestedArgs : Args → Bool
  | .nil => true
  | .cons e es => unnested e && unnestedArgs es
def unnestedOpt : Opt → Bool
  | .none => true
  | .some e => unnested e
end

/-- what the tree must satisfy to be parsed with the `tern` flag equal to `t` -/
def okT (t : Bool) (e : Expr) : Bool := if t then noTern e else unnested e
def okTArgs (t : Bool) (a : Args) : Bool := if t then noTernArgs a else unnestedArgs a
def okTOpt (t : Bool) (o : Opt) : Bool := if t then noTernOpt o else unnestedOpt o

/-- the precedence with which the first token of `rest` would continue an expression:
    its table entry if it has an infix function, `LOWEST` otherwise -/
def firstOp : List Token → Nat
  | [] => Level.LOWEST.num
  | tok :: _ => if (infixFn tok.kind).isSome then prec tok.kind else Level.LOWEST.num

/-- side condition of the round trip: the continuation does not extend the expression, i.e. it
    is empty or starts with a token that has no infix function (EOF, newline, `)`, `]`, `,`, `:`,
    `;`, `}`, a literal, a keyword …) -/
def stopsExpr : List Token → Bool
  | [] => true
  | tok :: _ => (infixFn tok.kind).isNone

/-- nesting depth along operand positions (used by examples and the oracle's fuel choice) -/
def Expr.depth : Expr → Nat
  | .infix _ l r => 1 + max l.depth r.depth
  | .neg e | .not e => 1 + e.depth
  | .tern c a b => 1 + max c.depth (max a.depth b.depth)
  | .isIn x c | .notIn x c => 1 + max x.depth c.depth
  | .call f _ | .mcall f _ _ => 1 + f.depth
  | .index e i => 1 + max e.depth i.depth
  | .slice e _ _ => 1 + e.depth
  | _ => 1

end Risor.C01.Pratt
