/-
C01 — two source-level rules at the edges of the modelled core, as small self-contained models.

(1) MULTI-ASSIGNMENT `n1, …, nk = rhs` (compiler.compileMultiVar, the `=` form; the `:=` form is
    `N.multi` of Sem.lean / Compile.lean).  The code is: the code of the right-hand side (ONE
    value, pushed), `Unpack k` (vm.go: the container's items pushed in order, count checked), then
    one store per name in REVERSE order of the names (StoreGlobal / StoreFast / StoreFree by the
    name's resolution: one store of the machine below, whose `Store` is the variable space the
    names resolve into).  Impl = `exec (compMulti …)` on that machine; Spec = simultaneous
    assignment `assignAll`: every item is evaluated in the OLD store, then all names are assigned.
    The right-hand side is the instruction `rhs items` = "the compiled list literal" (its own
    correctness is fragment F6's BuildList theorem); items are integer expressions over the
    variables (`AExp`).
(2) `int ** int` (object/int.go runOperationInt, op.Power): `int64(math.Pow(float64 a, float64 b))`.
    Impl = `powImpl` on the domain where the float detour is exact and defined (|result| < 2^53 or a
    power of two below 2^63; exponent < 0 with base ≠ 0); Spec = `powSpec`: the mathematical
    power truncated toward zero.
Core Lean only.
-/
namespace Risor.C01.Edge

/-! ### (1) simultaneous assignment -/

/-- integer expressions over variable slots -/
inductive AExp where
  | lit (i : Int)
  | var (k : Nat)
  | add (a b : AExp)
  | sub (a b : AExp)
  | mul (a b : AExp)
  deriving Repr, Inhabited

/-- the variable space the names of the statement resolve into (globals, the frame's locals or
the closure's cells: one slot per variable) -/
abbrev Store := Nat → Int

def upd (s : Store) (k : Nat) (v : Int) : Store := fun j => if j = k then v else s j

def wrap64 (i : Int) : Int := (i + 9223372036854775808) % 18446744073709551616 - 9223372036854775808

def eval (s : Store) : AExp → Int
  | .lit i => i
  | .var k => s k
  | .add a b => wrap64 (eval s a + eval s b)
  | .sub a b => wrap64 (eval s a - eval s b)
  | .mul a b => wrap64 (eval s a * eval s b)

/-- Spec: simultaneous assignment of already computed values (for distinct names the order is
irrelevant: `assignAll_at`, `assignAll_other`; written in the order of the code's stores) -/
def assignAll : List Nat → List Int → Store → Store
  | t :: ts, v :: vs, s => upd (assignAll ts vs s) t v
  | _, _, s => s

/-- Spec of the statement: all items see the OLD store -/
def specMulti (ts : List Nat) (items : List AExp) (s : Store) : Option Store :=
  if items.length = ts.length then some (assignAll ts (items.map (eval s)) s) else none

/-- what an INTERLEAVED lowering computes (item i evaluated after the stores of items < i):
NOT the language's rule; used for the counterexample theorem and by the harness to name the
failure mode -/
def seqAssign : List Nat → List AExp → Store → Store
  | t :: ts, e :: es, s => seqAssign ts es (upd s t (eval s e))
  | _, _, s => s

inductive V where
  | int (i : Int)
  | list (vs : List Int)
  deriving Repr, Inhabited

inductive Ins where
  | rhs (items : List AExp)     -- the code of the right-hand side `[e1, …, ek]`: one list pushed
  | unpack (n : Nat)
  | store (k : Nat)
  deriving Repr, Inhabited

abbrev Cfg := List V × Store

def step : Ins → Cfg → Option Cfg
  | .rhs items, (stk, s) => some (.list (items.map (eval s)) :: stk, s)
  | .unpack n, (.list vs :: stk, s) =>
    if vs.length = n then some (vs.reverse.map V.int ++ stk, s) else none   -- unpack count mismatch
  | .store k, (.int v :: stk, s) => some (stk, upd s k v)
  | _, _ => none

def exec : List Ins → Cfg → Option Cfg
  | [], c => some c
  | i :: is, c =>
    match step i c with
    | some c' => exec is c'
    | none => none

/-- Impl: compileMultiVar (assignment form) -/
def compMulti (ts : List Nat) (items : List AExp) : List Ins :=
  [.rhs items, .unpack ts.length] ++ ts.reverse.map Ins.store

def insText : Ins → String
  | .rhs items => "RHS:" ++ toString items.length
  | .unpack n => "UNPACK:" ++ toString n
  | .store k => "STORE:" ++ toString k

/-! ### (2) int ** int -/

def ipow (a : Int) : Nat → Int
  | 0 => 1
  | n + 1 => a * ipow a n

/-- Spec: truncation toward zero of the reciprocal 1/x, for x ≠ 0 -/
def truncRecip (x : Int) : Int := Int.tdiv 1 x

/-- Spec: the mathematical power, truncated toward zero (undefined for 0 to a negative power) -/
def powSpec (a b : Int) : Option Int :=
  if 0 ≤ b then some (ipow a b.toNat)
  else if a = 0 then none
  else some (truncRecip (ipow a (-b).toNat))

/-- Impl: `int64(math.Pow(float64(a), float64(b)))` where the detour through float64 is exact and
the conversion defined; `none` = outside the model (rounded above 2^53, int64 of ±Inf) -/
def powImpl (a b : Int) : Option Int :=
  if 0 ≤ b then
    let r := ipow a b.toNat
    if b ≤ 200 ∧ ((-9007199254740992 < r ∧ r < 9007199254740992) ∨ ((a = 2 ∨ a = -2) ∧ b ≤ 62)) then some r else none
  else if a = 0 then none
  else if a = 1 then some 1
  else if a = -1 then some (if b % 2 = 0 then 1 else -1)
  else some 0

end Risor.C01.Edge
