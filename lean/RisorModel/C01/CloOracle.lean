import RisorModel.Util
import RisorModel.C01.Decode
import RisorModel.C01.Compile
import RisorModel.C01.VM
import RisorModel.C01.FragOracle
import RisorModel.C01.Clo
import RisorModel.C01.CloVM
/-!
Line-protocol front end of the proved CLOSURE fragment (requests `C01 clo …`); not part of any
theorem.  It evaluates BOTH sides of every link of the layered argument on one program:

  `clo run <sexp> <globals>` →
      `out`                                   the program is outside the fragment, or
      `in` TAB f1 … f14 with
        f1  `evalClo`  outcome                `ok:<value>` | `err:<class>` | `oof`
        f2  `runClo (compClo p)` outcome      (theorem: equal to f1)
        f3  `evalClo` final globals, every declared global name        `x=<value>,…` | `-`
        f4  `runClo` final globals, every declared global name         (theorem: equal to f3)
        f5  `compClo p` ASSEMBLED, EVERY code object the compiler makes (main, one per function
            literal, recursively): constant pools in emission order, global indices from the root
            symbol table, local indices from each function's own table (parameters, self slot, `:=`
            declarations) — also in the `MAKE_CELL idx 0` of the enclosing code —, FREE indices in
            resolution order (one per reference; a compound assignment and `x++` load and store
            through the same index; the target of `x = e` is resolved before `e`), `LOAD_CLOSURE
            const n`, code ids `parent.k` in compile order; in the format of the harness's
            `CodeExport`                                                  (link A, real compiler)
        f6  `same` | `differs:<text>`   f5 against `Compile.compileProg`   (link A, Lean model)
        f7  `Sem.runProg` outcome                                          (link B; = f1)
        f8  `VM.runCodes (compileProg p)` outcome                          (link C; = f2)
        f9  `evalClo` globals restricted to top-level names
        f10 `Sem` final environment (top-level names)                      (link B; = f9)
        f11 `VM.lean` final globals of every declared name                 (link C; = f4)
        f12 `lex` | `fwd`: `fwd` = a named function is used before its declaration (link B is not
            compared on such a program, as in FunOracle.lean)
        f13 `runCloVM (compClo p)` outcome: the machine that keeps locals in the frame until
            `CaptureLocals` (CloVM.lean)                                   (theorem: equal to f2)
        f14 `runCloVM` final globals                                       (theorem: equal to f4)
-/
namespace Risor.C01
open Risor.C04 (Op Ins)
open Risor.Util

namespace CloO
open Risor.C01.Clo
open Risor.C01.Frag (postName isDefault)

def showVal : V → String
  | .nil => "(nil)"
  | .bool b => if b then "(bool 1)" else "(bool 0)"
  | .int i => "(int " ++ toString i ++ ")"
  | .str s => "(str " ++ toHexField (strBytes s) ++ ")"
  | .fn _ => "(fn)"
  | .clo _ _ _ => "(fn)"
  | .cell _ _ => "(cell)"

def showOut : Out → String
  | .val v => "ok:" ++ showVal v
  | .unit => "ok:(nil)"
  | .brk | .cont => "err:compile"
  | .err (.cls c) => "err:" ++ c
  | .err (.ret v) => "ok:" ++ showVal v
  | .oof => "oof"

def showRun : RunRes → String
  | .done v => "ok:" ++ showVal v
  | .err c => "err:" ++ c
  | .running => "oof"

def showVVal : VVal → String
  | .nil => "(nil)"
  | .bool b => if b then "(bool 1)" else "(bool 0)"
  | .int i => "(int " ++ toString i ++ ")"
  | .str s => "(str " ++ toHexField (strBytes s) ++ ")"
  | .fn _ _ => "(fn)"
  | _ => "(other)"

def showConst : Const → String
  | .int i => "i" ++ toString i
  | .str s => "s" ++ toHexField (strBytes s)
  | .fn id => "f" ++ id

/-! the FREE INDEX of every `LoadFree` / `StoreFree` of a code object, in emission order: the
    index is the ordinal of the `Resolve` call (`uses` lists them in order) -/
mutual
def fixs (q : String → Bool) : N → Nat → List Nat
  | .id x, k => if q x then [k] else []
  | .infix _ l r, k => fixs q l k ++ fixs q r (k + (uses q l).length)
  | .neg e, k | .not e, k | .expr e, k | .block e, k | .prog e, k | .var _ e, k | .forever e, k | .return_ e, k => fixs q e k
  | .assign x op e, k =>
    if q x then (if op = .set then fixs q e (k + 1) ++ [k] else [k] ++ fixs q e (k + 1) ++ [k]) else fixs q e k
  | .postfix x _, k => if q x then [k, k] else []
  | .tern c a b, k | .if_ c a b, k =>
    fixs q c k ++ fixs q a (k + (uses q c).length) ++ fixs q b (k + (uses q c).length + (uses q a).length)
  | .cons h t, k =>
    let p := match postName h with
      | some x => if q x then 1 else 0
      | none => 0
    (if p = 1 then [k] else []) ++ fixs q h (k + p) ++ fixs q t (k + p + (uses q h).length)
  | .forcond c b, k => fixs q c k ++ fixs q b (k + (uses q c).length)
  | .for3 i c p b, k =>
    fixs q i k ++ fixs q c (k + (uses q i).length) ++ fixs q b (k + (uses q i).length + (uses q c).length)
      ++ fixs q p (k + (uses q i).length + (uses q c).length + (uses q b).length)
  | .switch subj cases, k =>
    fixs q subj k ++ fixsCmp q cases (k + (uses q subj).length)
      ++ fixsBodies q cases (k + (uses q subj).length + (usesCmp q cases).length)
      ++ fixsDflt q cases (k + (uses q subj).length + (usesCmp q cases).length + (usesBodies q cases).length)
  | .call f args, k => fixs q f k ++ fixsVals q args (k + (uses q f).length)
  | _, _ => []
def fixsVals (q : String → Bool) : N → Nat → List Nat
  | .cons v vs, k => fixs q v k ++ fixsVals q vs (k + (uses q v).length)
  | _, _ => []
def fixsCmpCase (q : String → Bool) : N → Nat → List Nat
  | .case_ vals _, k => fixsVals q vals k
  | _, _ => []
def fixsCmp (q : String → Bool) : N → Nat → List Nat
  | .cons h t, k => fixsCmpCase q h k ++ fixsCmp q t (k + (usesCmpCase q h).length)
  | _, _ => []
def fixsBody (q : String → Bool) : N → Nat → List Nat
  | .case_ _ body, k => fixs q body k
  | _, _ => []
def fixsBodies (q : String → Bool) : N → Nat → List Nat
  | .cons h t, k => fixsBody q h k ++ fixsBodies q t (k + (usesBody q h).length)
  | _, _ => []
def fixsDfltBody (q : String → Bool) : N → Nat → List Nat
  | .default_ body, k => fixs q body k
  | _, _ => []
def fixsDflt (q : String → Bool) : N → Nat → List Nat
  | .cons h t, k => if isDefault h then fixsDfltBody q h k else fixsDflt q t k
  | _, _ => []
end

structure Asm where
  out : List String := []
  consts : List Const := []
  free : List Nat := []         -- the free indices still to hand out
  kids : List FnId := []        -- the function constants met, in order

/-- `assemble` for one code object: constant pool in emission order without deduplication
    (`c.constant`), variables by index, function constants by child id -/
def asmCode (id : String) (gidx lidx : String → String) (code : Code) (free : List Nat) : String × List FnId :=
  let st := code.foldl (fun (st : Asm) slot =>
    match slot with
    | none => st
    | some i =>
      let put (t : String) : Asm := { st with out := st.out ++ [t] }
      let cst (c : Const) : Asm := { st with out := st.out ++ ["LOAD_CONST:" ++ toString st.consts.length], consts := st.consts ++ [c] }
      let fre (nm : String) : Asm := { st with out := st.out ++ [nm ++ ":" ++ toString (st.free.headD 9999)], free := st.free.tail }
      match i with
      | .nop => put "NOP"
      | .nil_ => put "NIL"
      | .true_ => put "TRUE"
      | .false_ => put "FALSE"
      | .popTop => put "POP_TOP"
      | .unaryNeg => put "UNARY_NEGATIVE"
      | .unaryNot => put "UNARY_NOT"
      | .constInt k => cst (.int k)
      | .constStr s => cst (.str s)
      | .constFn g =>
        { cst (.fn (id ++ "." ++ toString st.kids.length)) with kids := st.kids ++ [g] }
      | .loadClosure g n =>
        { st with out := st.out ++ ["LOAD_CLOSURE:" ++ toString st.consts.length ++ ":" ++ toString n],
                  consts := st.consts ++ [.fn (id ++ "." ++ toString st.kids.length)], kids := st.kids ++ [g] }
      | .makeCell x => put ("MAKE_CELL:" ++ lidx x ++ ":0")
      | .loadG x => put ("LOAD_GLOBAL:" ++ gidx x)
      | .storeG x => put ("STORE_GLOBAL:" ++ gidx x)
      | .loadF x => put ("LOAD_FAST:" ++ lidx x)
      | .storeF x => put ("STORE_FAST:" ++ lidx x)
      | .loadFree _ => fre "LOAD_FREE"
      | .storeFree _ => fre "STORE_FREE"
      | .binary k => put ("BINARY_OP:" ++ toString k)
      | .compare k => put ("COMPARE_OP:" ++ toString k)
      | .copy k => put ("COPY:" ++ toString k)
      | .swap k => put ("SWAP:" ++ toString k)
      | .jf d => put ("JUMP_FORWARD:" ++ toString d)
      | .jb d => put ("JUMP_BACKWARD:" ++ toString d)
      | .pjf d => put ("POP_JUMP_FORWARD_IF_FALSE:" ++ toString d)
      | .pjt d => put ("POP_JUMP_FORWARD_IF_TRUE:" ++ toString d)
      | .call n => put ("CALL:" ++ toString n)
      | .ret => put "RETURN_VALUE") ({ free := free } : Asm)
  ("id=" ++ id ++ ";ins=" ++ " ".intercalate st.out ++ ";consts=" ++ ",".intercalate (st.consts.map showConst) ++ ";names=",
    st.kids)

def sortJoin (parts : List String) : String :=
  "|".intercalate (parts.toArray.qsort (fun a b => a < b)).toList

/-- the global names of the root symbol table in index order: the host's, the named functions
    (`collectFunctionDeclarations`), then the `:=` declarations of the main code in compile order -/
def globalNames (globals : List String) (p : N) : List String := globals ++ namedFuns p ++ decls p

/-- a code object and, recursively, the code objects of the function literals it evaluates -/
def asmTree (gidx : String → String) : Nat → String → List String → Code → List Nat → List String
  | 0, _, _, _, _ => ["too-deep"]
  | fuel + 1, id, ls, code, free =>
    let (txt, kids) := asmCode id gidx (fun x => toString (ls.findIdx (· == x))) code free
    txt :: ((List.range kids.length).zip kids).flatMap fun (k, key) =>
      match declOfLit key.2 key.1 with
      | some d =>
        asmTree gidx fuel (id ++ "." ++ toString k) d.ls (compFnStmts d.sc d.body)
          (fixs (fun x => !d.ls.contains x && d.key.2.contains x) (cutRet d.body) 0)
      | none => ["not-a-literal"]

/-- every code object of `compClo p` the compiler makes, assembled -/
def assemble (globals : List String) (p : N) : String :=
  let names := globalNames globals p
  let gidx (x : String) : String := toString (names.findIdx (· == x))
  sortJoin (asmTree gidx 6 "__main__" [] (compClo p).main [])

/-- inside the fragment, and no declared global (variable or function) collides with a host global -/
def cloIn (globals : List String) (p : N) : Bool :=
  inClo p && (namedFuns p ++ decls p).all (fun x => !globals.contains x)

def topNames (p : N) : List String :=
  match p with
  | .prog stmts => stmts.toList.flatMap (fun h => fnameOf h ++ Frag.declOf h)
  | _ => []

def showStore (names : List String) (get : String → String) : String :=
  fragField (",".intercalate (names.map fun x => x ++ "=" ++ get x))

def handleClo : List String → String
  | ["run", sx, globals] =>
    match decodeProg sx with
    | none => "error\tcannot decode the program"
    | some p =>
      let gs := (globals.splitOn ",").filter (· ≠ "")
      if !cloIn gs p then "out" else
      let names := namedFuns p ++ decls p
      let top := topNames p
      let e := evalClo 3000 p
      let r := runClo 400000 (compClo p)
      let r2 := runCloVM 400000 (compClo p)
      let asm := assemble gs p
      let (linkA, vmOut, vmStore) :=
        match compileProg gs p with
        | .error err => ("differs:fail " ++ err, "compile-fail", "-")
        | .ok codes =>
          let one (c : CodeB) : String :=
            "id=" ++ c.id ++ ";ins=" ++ codeText c ++ ";consts=" ++ ",".intercalate (c.consts.toList.map showConst)
              ++ ";names=" ++ ",".intercalate c.names.toList
          let txt := sortJoin (codes.map one)
          let vr := runCodes 400000 gs codes
          let all := globalNames gs p
          (if txt == asm then "same" else "differs:" ++ txt,
            (match vr.1 with
             | .done v => "ok:" ++ showVVal v
             | .err c => "err:" ++ c
             | .running => "oof"
             | .unsupported w => "unsupported:" ++ w),
            showStore names fun x => showVVal (vr.2.globals.getD (all.findIdx (· == x)) .nil))
      let (semOut, semStore) :=
        match p with
        | .prog stmts =>
          match execStmts 20000 stmts [] {} with
          | (sg, env, st) =>
            (fragSemOut (match sg with | .unit => ⟨.val .nil, st⟩ | sg => ⟨sg, st⟩),
              showStore top fun x => match lookup env x with
                | some c => Risor.C01.showVal st (st.cells.getD c .nil)
                | none => "(unbound)")
        | _ => ("unsupported:program", "-")
      "\t".intercalate ["in", showOut e.1, showRun r.1,
        showStore names (fun x => showVal (e.2.get x)),
        showStore names (fun x => showVal (r.2.get x)),
        asm, linkA, semOut, vmOut,
        showStore top (fun x => if e.2.any (·.1 == x) then showVal (e.2.get x) else "(unbound)"), semStore, vmStore,
        if inCloLex p then "lex" else "fwd",
        showRun r2.1, showStore names (fun x => showVal (r2.2.get x))]
  | _ => "error\tunknown-request"

end CloO

def handleClo : List String → String := CloO.handleClo

end Risor.C01
