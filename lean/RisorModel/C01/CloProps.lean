import RisorModel.C01.CloLemmas
import RisorModel.C01.CloVMLemmas
/-!
C01 — COMPILER CORRECTNESS for the CLOSURE fragment `inClo` (Clo.lean; fragment F5 = closures with
depth-1 captures), proved for ALL programs of the fragment, ALL fuel, ALL operand stacks, ALL stacks
of suspended caller frames and ALL heaps of cells.

The fragment: everything of `FunProps.lean` (F1–F3 expressions, assignments, if/else, loops,
break/continue, switch; F4 functions, parameters with defaults, locals, `return`, calls, recursion)
in the main code and inside function bodies at every depth, plus
  * anonymous function literals as EXPRESSIONS anywhere in a function body (and in the main code):
    returned (`return func…`, implicitly as the last expression statement), bound to locals and
    globals, passed as arguments, used as callees (`func(x) { … }(3)`), created in if blocks and
    loop bodies;
  * literals that READ and WRITE the parameters, the self slot and the locals of the function they
    are written in (depth-1 free variables): `MakeCell idx 0` per resolution, in resolution order,
    then `LoadClosure fn n`; `LoadFree` / `StoreFree` in the body, in every position a variable
    may stand (operands, conditions, switch subjects and case values, loop headers, `x = e`,
    `x op= e`, `x++`);
  * closures called after the creating activation has RETURNED, several times (state kept in the
    captured variables), several closures of one activation sharing its variables, the creating
    function reading and writing its variables after the capture, closures passed to other
    functions and called there, closures compared (`==`: a closure is equal to itself only, a
    capture-free literal is one constant).
Not in the fragment (`inClo`): free variables two or more function levels up (recorded finding
C02-positional-capture), captured variables declared inside a loop body (recorded: one slot for all
iterations), named functions inside functions, `defer`, containers, builtins taking callbacks.

What is PROVED relates the three definitions of Clo.lean (`evalClo`, `compClo`, `runClo`); what ties
them to the Go code is checked by correspondence on every run (harness/c01clo.go).

THE STORES.  The reference semantics and the machine are stated over ONE representation of the
store, `Sh` = (cells, globals, counter): the semantics' cell of variable `x` of activation `a` IS the
machine's slot `x` of the heap slice of activation `a` (`Cells.get _ a x`), a closure value is the
same object on both sides (`V.clo id fn cells`), and neither side ever moves a cell.  So the
relation between the semantics' cells and the machine's cells is the IDENTITY on `(a, x)`; it is
explicit in the statements below as the shared `σ : Env` / `σ'.sh`.  What differs is how the two
sides REACH a cell: the semantics by the variable's name and the closure's captured environment
(`Env.get` / `Env.set`), the machine by the instruction the compiler chose (`LoadFast` into the
running frame's slice, `LoadFree` through the cell list of the running closure object, built by
`MakeCell`/`LoadClosure` on the operand stack).
TWO MACHINES.  `runClo` (Clo.lean) has every activation's locals slice on the heap from the start.
`runCloVM` (CloVM.lean) is the machine as vm/frame.go keeps locals: IN THE FRAME until the
activation's first `MakeCell` (`frame.CaptureLocals` copies them to a heap slice and redirects the
frame), uncaptured frames dropped at return.  `CloVMLemmas.lean` proves that the two run in LOCKSTEP
under the explicit store relation `RelC` (CloVM.lean): the semantics' cell `(a, x)` holds what the
frame of activation `a` holds before the capture and what the heap slice `(a, ·)` holds after it —
for every captured activation, live or RETURNED —, nothing is claimed for returned activations that
never captured (the machine has dropped them), and no value anywhere (operand stacks, variables,
closures, heap) mentions a cell of an uncaptured activation.  `clo_simulation_vm`, `runCloVM_eq`,
`clo_compile_correct_vm` below state the results on that machine.  Idealisation left: operand stack
and frame stack are unbounded (the real VM: 1024 / 1024).  Link (C) compares the outcomes with
`VM.lean` and the real VM on every generated program.

Technique: `FunLemmas.lean`'s development over the machine with cells (`CloLemmas.lean`), plus
`mk_steps` (the `MakeCell … LoadClosure` sequence builds exactly `mkClo`'s closure).
-/
namespace Risor.C01.Clo
open Risor.C01

/-- **Simulation, at full strength** (the generalisation of `frag_simulation` to a machine with
    a frame stack).  Let `P` be the compiled form of the functions `Φ` (`Compiled`), all of whose
    bodies are in the fragment (`BodiesOK`).  For every well-formed node `n` (expression,
    statement, block, list, program), every code object of ANY world `W` over `P` — i.e. any
    running code object `W.fn` and ANY stack `W.fs` of suspended caller frames — in which the code
    of `n` (compiled for local names `ls`, loop targets `kb` / `kc`) sits at offset `pc`, every
    operand stack `stk`, every state `σ` (locals and globals) and every fuel: if the reference
    semantics gives `r` with final state `σ'` then the MACHINE, started in the activation state
    `(pc, stk, σ)` on top of the frames `W.fs`,
    * `r = val v`  — reaches `(pc + size ls n, v :: stk, σ')` in the same activation on top of the
      SAME frames (whatever activations were entered in between have been left);
    * `r = unit`   — reaches `(pc + size ls n, stk, σ')` likewise;
    * `r = brk` / `cont` — reaches the loop's break / continue target with `stk`;
    * `r = err (cls c)` — reaches a machine state (possibly inside a callee) with globals
      `σ'.sh` whose next step raises the error class `c`;
    * `r = err (ret v)` (a `return v` leaving the running function) — resumes the innermost
      suspended frame `fr` at its return address with `v` pushed on ITS operand stack, ITS
      locals, the globals `σ'.sh`, and the remaining frames untouched; with no caller the
      machine halts with `v`;
    * `r = oof` — nothing is claimed. -/
theorem clo_simulation (Φ : List FDecl) (P : Prog) (hP : Compiled Φ P) (hΦ : BodiesOK Φ)
    (W : World) (hW : W.P = P) (ls : Sc) (f : Nat) (n : N) (hwf : wf n = true) (kb kc : Nat)
    (pc : Nat) (stk : List V) (σ : Env) (r : Out) (σ' : Env)
    (hat : CodeAt W.code pc (comp ls kb kc n)) (he : ev Φ f ls n σ = (r, σ')) :
    (match r with
     | .val v => isUnitNode n = false ∧
        MSteps W.P ⟨⟨pc, stk, σ⟩, W.fn, W.fs⟩ ⟨⟨pc + size ls n, v :: stk, σ'⟩, W.fn, W.fs⟩
     | .unit => isUnitNode n = true ∧
        MSteps W.P ⟨⟨pc, stk, σ⟩, W.fn, W.fs⟩ ⟨⟨pc + size ls n, stk, σ'⟩, W.fn, W.fs⟩
     | .brk => escapes n = true ∧
        MSteps W.P ⟨⟨pc, stk, σ⟩, W.fn, W.fs⟩ ⟨⟨pc + size ls n + kb, stk, σ'⟩, W.fn, W.fs⟩
     | .cont => escapes n = true ∧
        MSteps W.P ⟨⟨pc, stk, σ⟩, W.fn, W.fs⟩ ⟨⟨pc + size ls n + kc, stk, σ'⟩, W.fn, W.fs⟩
     | .err (.cls c) => ∃ m1, MSteps W.P ⟨⟨pc, stk, σ⟩, W.fn, W.fs⟩ m1 ∧ m1.cfg.σ.sh = σ'.sh ∧
        mstep W.P m1 = .error (.err c)
     | .err (.ret v) =>
        (∀ fr fs', W.fs = fr :: fs' →
          MSteps W.P ⟨⟨pc, stk, σ⟩, W.fn, W.fs⟩ ⟨⟨fr.pc, v :: fr.stk, ⟨fr.act, σ'.sh⟩⟩, fr.fn, fs'⟩) ∧
        (W.fs = [] → ∃ m1, MSteps W.P ⟨⟨pc, stk, σ⟩, W.fn, W.fs⟩ m1 ∧ m1.cfg.σ.sh = σ'.sh ∧
          mstep W.P m1 = .error (.done v))
     | .oof => True) := by
  have Q := ev_sim Φ P hP hΦ f W ls hW n hwf kb kc pc stk σ r σ' hat he
  cases r with
  | val v => exact ⟨Q.1, Q.2⟩
  | unit => exact ⟨Q.1, Q.2⟩
  | brk => exact ⟨Q.1, Q.2⟩
  | cont => exact ⟨Q.1, Q.2⟩
  | oof => trivial
  | err x =>
    cases x with
    | cls c => exact Q.2
    | ret v =>
      obtain ⟨m1, hs, hfin⟩ := Q.2
      refine ⟨?_, ?_⟩
      · intro fr fs' hfs
        simp only [Final, hfs] at hfin
        subst hfin
        exact hs
      · intro hfs
        simp only [Final, hfs] at hfin
        exact ⟨m1, hs, hfin.1, hfin.2⟩

/-- the length of a node's code is `size`, whatever the local names and loop targets -/
theorem clo_code_length (ls : Sc) (n : N) (kb kc : Nat) : (comp ls kb kc n).length = size ls n :=
  comp_length n kb kc

/-- **A call returns exactly one value** (`call_returns_one`; this is what C04's stack model
    assumes about `Call`).  In any world over the compiled program: when applying the function
    value `fv` to the argument values `vs` under globals `G` yields `v` and globals `G'`
    (reference semantics, any fuel), the machine standing at a `Call n` instruction with the `n`
    arguments and the callee on top of ANY operand stack `stk` runs — through the callee's whole
    activation and everything it calls — to the instruction after the `Call` with exactly `v`
    pushed on `stk`, the caller's locals `loc` as they were, the suspended frames `W.fs` as
    they were, and the globals `G'`. -/
theorem call_returns_one (Φ : List FDecl) (P : Prog) (hP : Compiled Φ P) (hΦ : BodiesOK Φ)
    (W : World) (hW : W.P = P) (f : Nat) (fv : V) (vs : List V) (G G' : Sh) (v : V)
    (h : applyFn Φ (ev Φ f) fv vs G = (.val v, G'))
    (pc : Nat) (stk : List V) (loc : Act) (hcall : W.code[pc]? = some (some (.call vs.length))) :
    MSteps W.P ⟨⟨pc, vs.reverse ++ fv :: stk, ⟨loc, G⟩⟩, W.fn, W.fs⟩ ⟨⟨pc + 2, v :: stk, ⟨loc, G'⟩⟩, W.fn, W.fs⟩ :=
  call_sim Φ P hP hΦ f W hW fv vs G (.val v) G' h pc stk loc hcall

/-- a call that fails raises the same error class on the machine (wrong argument count: `args`;
    a callee that is no function: `type`; an error inside the callee, at any depth) -/
theorem call_fails_alike (Φ : List FDecl) (P : Prog) (hP : Compiled Φ P) (hΦ : BodiesOK Φ)
    (W : World) (hW : W.P = P) (f : Nat) (fv : V) (vs : List V) (G G' : Sh) (c : String)
    (h : applyFn Φ (ev Φ f) fv vs G = (.err (.cls c), G'))
    (pc : Nat) (stk : List V) (loc : Act) (hcall : W.code[pc]? = some (some (.call vs.length))) :
    ∃ m1, MSteps W.P ⟨⟨pc, vs.reverse ++ fv :: stk, ⟨loc, G⟩⟩, W.fn, W.fs⟩ m1 ∧ m1.cfg.σ.sh = G' ∧
      mstep W.P m1 = .error (.err c) :=
  (call_sim Φ P hP hΦ f W hW fv vs G (.err (.cls c)) G' h pc stk loc hcall).2

/-- application never yields anything but a value, an error class or out-of-fuel: a `return`, a
    `break` or a `continue` does not cross a call -/
theorem call_outcomes (Φ : List FDecl) (evb : Sc → N → Env → Out × Env) (fv : V) (vs : List V) (G G' : Sh)
    (r : Out) (h : applyFn Φ evb fv vs G = (r, G')) :
    (∃ v, r = .val v) ∨ (∃ c, r = .err (.cls c)) ∨ r = .oof := by
  unfold applyFn at h
  split at h
  · split at h
    · cases h; exact .inr (.inl ⟨_, rfl⟩)
    · split at h
      · cases h; exact .inr (.inl ⟨_, rfl⟩)
      · split at h <;> cases h
        · exact .inl ⟨_, rfl⟩
        · exact .inl ⟨_, rfl⟩
        · exact .inr (.inl ⟨_, rfl⟩)
        · exact .inr (.inr rfl)
        · exact .inr (.inl ⟨_, rfl⟩)
  · cases h; exact .inr (.inl ⟨_, rfl⟩)

theorem bodiesOK_of_bodiesWF (p : N) (h : bodiesWF p = true) : BodiesOK (funsOf p) := by
  intro g d hf
  unfold bodiesWF at h
  rw [List.all_eq_true] at h
  exact h d (List.mem_of_find?_eq_some hf)

/-- **Compiler correctness, on the shape alone.**  For every program `p` of the fragment's SHAPE
    (`inCloShape`: well-formed nodes, well-formed function bodies — no scoping condition: both
    sides resolve names in the same way) and every fuel, if the reference semantics ends
    (anything but out-of-fuel) then it ends with a value or an error class — never with a stray
    break/continue/return — and there is a fuel for which the machine, run on the compiled
    program (`compClo p`: the main code and one code object per function) from the empty stack,
    empty stores and no frames, halts with the SAME value (resp. the SAME error class) and the
    SAME final globals. -/
theorem clo_compile_correct_shape (p : N) (hp : inCloShape p = true) (fuel : Nat) (r : Out) (G' : Store)
    (he : evalClo fuel p = (r, G')) (hr : r ≠ .oof) :
    (∃ v, r = .val v ∧ ∃ fuel', runClo fuel' (compClo p) = (.done v, G')) ∨
    (∃ c, r = .err (.cls c) ∧ ∃ fuel', runClo fuel' (compClo p) = (.err c, G')) := by
  have hwf : wf p = true ∧ isUnitNode p = false ∧ escapes p = false ∧ bodiesWF p = true := by
    cases p <;> simp_all [inCloShape, isUnitNode, wf, escapes]
  let W : World := { P := compClo p, fn := none, fs := [] }
  unfold evalClo at he
  rcases h0 : ev (funsOf p) fuel Sc.main p Env.init with ⟨r0, σ0⟩
  rw [h0] at he
  have Q := ev_sim (funsOf p) (compClo p) (compClo_compiled p) (bodiesOK_of_bodiesWF p hwf.2.2.2) fuel W Sc.main rfl
    p hwf.1 0 0 0 [] Env.init r0 σ0 (CodeAt.self _) h0
  have ofMrun : ∀ k res (G : Sh), mrun (compClo p) k M.init = (res, G) → runClo k (compClo p) = (res, G.glob) := by
    intro k res G h; simp only [runClo, h]
  -- the machine halts at the end of the main code with the value on top
  have done : ∀ v, Steps W ⟨0, [], Env.init⟩ ⟨size Sc.main p, [v], σ0⟩ → ∃ k, runClo k (compClo p) = (.done v, σ0.sh.glob) := by
    intro v hs
    obtain ⟨n, hn⟩ := mrun_of_msteps hs
    refine ⟨n + 1, ofMrun _ _ _ ?_⟩
    have : M.init = W.at ⟨0, [], Env.init⟩ := rfl
    rw [this, hn 1]
    simp [mrun, mstep, step, World.at, W, Prog.codeOf, compClo, comp_length]
  have halts : ∀ (m1 : M) (h : Halt) (res : RunRes), MSteps (compClo p) M.init m1 → mstep (compClo p) m1 = .error h →
      (match h with | .done v => res = .done v | .err c => res = .err c | .nonlocal => False) →
      ∃ k, runClo k (compClo p) = (res, m1.cfg.σ.sh.glob) := by
    intro m1 h res hs hst hres
    obtain ⟨n, hn⟩ := mrun_of_msteps hs
    refine ⟨n + 1, ofMrun _ _ _ ?_⟩
    rw [hn 1]
    cases h with
    | done v => simp only at hres; subst hres; simp [mrun, hst]
    | err c => simp only at hres; subst hres; simp [mrun, hst]
    | nonlocal => exact hres.elim
  cases r0 with
  | oof => simp only at he; cases he; exact absurd rfl hr
  | unit => have := Q.1; simp only [Shape] at this; rw [hwf.2.1] at this; cases this
  | brk => have := Q.1; simp only [Shape] at this; rw [hwf.2.2.1] at this; cases this
  | cont => have := Q.1; simp only [Shape] at this; rw [hwf.2.2.1] at this; cases this
  | val v =>
    simp only at he; cases he
    have hs : Steps W ⟨0, [], Env.init⟩ ⟨0 + size Sc.main p, [v], σ0⟩ := Q.val_steps
    rw [Nat.zero_add] at hs
    exact .inl ⟨v, rfl, done v hs⟩
  | err x =>
    cases x with
    | cls c =>
      simp only at he; cases he
      obtain ⟨m1, hs, hg, hst⟩ := Q.2
      obtain ⟨k, hk⟩ := halts m1 (.err c) (.err c) hs hst rfl
      exact .inr ⟨c, rfl, k, by rw [hk, hg]⟩
    | ret v =>
      simp only at he; cases he
      obtain ⟨m1, hs, hfin⟩ := Q.2
      have hfin' : m1.cfg.σ.sh = σ0.sh ∧ mstep (compClo p) m1 = .error (.done v) := hfin
      obtain ⟨k, hk⟩ := halts m1 (.done v) (.done v) hs hfin'.2 rfl
      exact .inl ⟨v, rfl, k, by rw [hk, hfin'.1]⟩

theorem inClo_shape (p : N) (hp : inClo p = true) : inCloShape p = true := by
  cases p <;> simp_all [inClo, inCloShape]

/-- **Compiler correctness for the function fragment** (the property C01 on `inClo`): for every
    program `p` of the fragment and every fuel, if the reference semantics ends with a value or an
    error (not out-of-fuel), there is a fuel for which the machine on the compiled program halts
    with the same value / the same error class and the same final globals.  (`inClo` adds to the
    shape the scoping conditions under which `evalClo` / `compClo` ARE `Sem.lean` / `compiler.go`
    on the program: that is what the correspondence check establishes, on `inClo` programs.) -/
theorem clo_compile_correct (p : N) (hp : inClo p = true) (fuel : Nat) (r : Out) (G' : Store)
    (he : evalClo fuel p = (r, G')) (hr : r ≠ .oof) :
    (∃ v, r = .val v ∧ ∃ fuel', runClo fuel' (compClo p) = (.done v, G')) ∨
    (∃ c, r = .err (.cls c) ∧ ∃ fuel', runClo fuel' (compClo p) = (.err c, G')) :=
  clo_compile_correct_shape p (inClo_shape p hp) fuel r G' he hr

/-- how a source outcome shows on the machine -/
def Out.toRun : Out → RunRes
  | .val v => .done v
  | .unit => .done .nil
  | .brk => .err "compile"
  | .cont => .err "compile"
  | .err (.cls c) => .err c
  | .err (.ret v) => .done v
  | .oof => .running

/-- the same statement through `Out.toRun` (value ↦ done, error ↦ the same error) -/
theorem clo_compile_correct_toRun (p : N) (hp : inClo p = true) (fuel : Nat) (r : Out) (G' : Store)
    (he : evalClo fuel p = (r, G')) (hr : r ≠ .oof) :
    ∃ fuel', runClo fuel' (compClo p) = (r.toRun, G') := by
  rcases clo_compile_correct p hp fuel r G' he hr with ⟨v, rfl, k, hk⟩ | ⟨c, rfl, k, hk⟩
  · exact ⟨k, hk⟩
  · exact ⟨k, hk⟩

/-- the outcome found by `clo_compile_correct` is THE outcome of the machine: every larger fuel
    gives the same halted result (the machine is deterministic and stays halted) -/
theorem clo_run_stable (P : Prog) (k j : Nat) (res : RunRes) (G : Store)
    (h : runClo k P = (res, G)) (hr : res ≠ .running) : runClo (k + j) P = (res, G) := by
  have hm : ∀ j, mrun P (k + j) M.init = mrun P k M.init := by
    intro j
    induction j with
    | zero => rfl
    | succ j ih =>
      have hres : (mrun P k M.init).1 = res := by simp only [runClo] at h; exact (Prod.mk.inj h).1
      exact (mrun_mono (k + j) _ res (mrun P k M.init).2 (by rw [ih, ← hres]) hr).trans (by rw [← hres])
  simp only [runClo, hm j] at h ⊢
  exact h

/-- **An expression pushes exactly one value, also across calls.**  Any node that is not a
    unit statement, compiled anywhere in any code object, started on any operand stack `stk` over
    any suspended frames: when the reference semantics gives the value `v`, the machine ends
    exactly at the end of the node's code, in the same activation, with `v` pushed on an
    otherwise untouched `stk`. -/
theorem clo_expr_pushes_one (Φ : List FDecl) (P : Prog) (hP : Compiled Φ P) (hΦ : BodiesOK Φ)
    (W : World) (hW : W.P = P) (ls : Sc) (f : Nat) (n : N) (hwf : wf n = true) (kb kc : Nat)
    (pc : Nat) (stk : List V) (σ σ' : Env) (v : V)
    (hat : CodeAt W.code pc (comp ls kb kc n)) (he : ev Φ f ls n σ = (.val v, σ')) :
    MSteps W.P ⟨⟨pc, stk, σ⟩, W.fn, W.fs⟩ ⟨⟨pc + (comp ls kb kc n).length, v :: stk, σ'⟩, W.fn, W.fs⟩ := by
  rw [comp_length]
  exact (ev_sim Φ P hP hΦ f W ls hW n hwf kb kc pc stk σ _ σ' hat he).val_steps

/-- what `compileStmts` emits for a statement that is not the last of its list -/
def stmtCode (ls : Sc) (kb kc : Nat) (h : N) : Code :=
  pre ls h ++ comp ls (kb + (if leaves h then 1 else 0)) (kc + (if leaves h then 1 else 0)) h
    ++ (if leaves h then one .popTop else [])

/-- **Statements are stack-neutral, also when they call** (C04's property, for the fragment).
    Every statement of the fragment (`:=`, assignments, `++`, expression statements — among them
    calls as statements —, `break`, `continue`, the three loop forms with arbitrarily nested
    bodies), compiled anywhere in any code object as `compileStmts` compiles a statement, started
    on any operand stack `stk` over any suspended frames: however it ends — completing (with
    `unit` or with a value), or leaving through a `break` / `continue` towards the enclosing
    loop's target — the operand stack is exactly `stk` again and the frames are untouched.
    (A `return` leaves the activation: see `clo_simulation`.) -/
theorem clo_stmt_neutral (Φ : List FDecl) (P : Prog) (hP : Compiled Φ P) (hΦ : BodiesOK Φ)
    (W : World) (hW : W.P = P) (ls : Sc) (f : Nat) (h : N) (hwf : wf h = true) (hs : isS h = true)
    (kb kc : Nat) (pc : Nat) (stk : List V) (σ σ' : Env) (r : Out)
    (hat : CodeAt W.code pc (stmtCode ls kb kc h)) (he : ev Φ f ls h σ = (r, σ')) :
    (match r with
     | .val _ => MSteps W.P ⟨⟨pc, stk, σ⟩, W.fn, W.fs⟩ ⟨⟨pc + (stmtCode ls kb kc h).length, stk, σ'⟩, W.fn, W.fs⟩
     | .unit => MSteps W.P ⟨⟨pc, stk, σ⟩, W.fn, W.fs⟩ ⟨⟨pc + (stmtCode ls kb kc h).length, stk, σ'⟩, W.fn, W.fs⟩
     | .brk => MSteps W.P ⟨⟨pc, stk, σ⟩, W.fn, W.fs⟩ ⟨⟨pc + (stmtCode ls kb kc h).length + kb, stk, σ'⟩, W.fn, W.fs⟩
     | .cont => MSteps W.P ⟨⟨pc, stk, σ⟩, W.fn, W.fs⟩ ⟨⟨pc + (stmtCode ls kb kc h).length + kc, stk, σ'⟩, W.fn, W.fs⟩
     | _ => True) := by
  unfold stmtCode at hat ⊢
  have hpre := pre_steps h pc stk σ hat.append_left.append_left
  have hath := hat.append_left.append_right
  have htail := hat.append_right
  simp only [List.length_append, pre_length, comp_length] at hath htail ⊢
  simp only [isS, Bool.or_eq_true] at hs
  cases hl : leaves h with
  | false =>
    simp only [hl, Bool.false_eq_true, ↓reduceIte, Nat.add_zero, List.length_nil] at hath ⊢
    have Q := ev_sim Φ P hP hΦ f W ls hW h hwf kb kc _ stk σ r σ' hath he
    cases r with
    | val v =>
      rcases hs with hu | hl'
      · have := Q.1; simp only [Shape] at this; rw [hu] at this; cases this
      · rw [hl] at hl'; cases hl'
    | unit => exact (hpre.trans Q.unit_steps).cast (by omega)
    | brk => exact (Steps.trans hpre Q.2).cast (by omega)
    | cont => exact (Steps.trans hpre Q.2).cast (by omega)
    | err c => trivial
    | oof => trivial
  | true =>
    simp only [hl, ↓reduceIte, one_length] at hath htail ⊢
    have Q := ev_sim Φ P hP hΦ f W ls hW h hwf (kb + 1) (kc + 1) _ stk σ r σ' hath he
    have hpop := CodeAt.one htail
    cases r with
    | val v =>
      have s1 : step W.code ⟨pc + (preLen h + size ls h), v :: stk, σ'⟩
          = .ok ⟨pc + (preLen h + size ls h) + 1, stk, σ'⟩ := by
        rw [step_of hpop]; rfl
      exact ((hpre.trans (Q.val_steps.cast (by omega))).snoc s1).cast (by omega)
    | unit => have := unit_not_leaves (Q.1 : isUnitNode h = true); rw [hl] at this; cases this
    | brk => exact (Steps.trans hpre Q.2).cast (by omega)
    | cont => exact (Steps.trans hpre Q.2).cast (by omega)
    | err c => trivial
    | oof => trivial


/-! ### cells outlive frames, and are shared -/

theorem Cells.get_set_same (h : Cells) (a : Nat) (x : String) (v : V) : (h.set a x v).get a x = v := by
  simp [Cells.set, Cells.get]

theorem Cells.get_set_other (h : Cells) (a b : Nat) (x y : String) (v : V) (hne : (b, y) ≠ (a, x)) :
    (h.set a x v).get b y = h.get b y := by
  have : (b == a && y == x) = false := by
    rcases Nat.decEq b a with h1 | h1
    · simp [h1]
    · rcases String.decEq y x with h2 | h2
      · simp [h2]
      · exact absurd (by rw [h1, h2]) hne
  simp only [Cells.set, Cells.get, this, Bool.false_eq_true, ↓reduceIte]

/-- the initial locals of a fresh activation do not touch the cells of any other activation -/
theorem Cells.get_bind_other (h : Cells) (a b : Nat) (L : Store) (x : String) (hne : b ≠ a) :
    (h.bind a L).get b x = h.get b x := by
  induction L with
  | nil => rfl
  | cons p r ih =>
    have : (b == a && x == p.1) = false := by simp [hne]
    simpa only [Cells.bind, List.map_cons, List.cons_append, Cells.get, this, Bool.false_eq_true, ↓reduceIte] using ih

/-- the cell a closure made in activation `a` holds for a captured name `x` is the cell `(a, x)` -/
theorem cellOf_made (i a : Nat) (us : List String) (x : String) (hx : x ∈ us) :
    Act.cellOf ⟨i, us.map fun y => (a, y)⟩ x = (a, x) := by
  unfold Act.cellOf
  induction us with
  | nil => cases hx
  | cons y r ih =>
    simp only [List.map_cons, List.find?_cons]
    by_cases hy : y = x
    · subst hy; simp
    · have : (y == x) = false := by simp [hy]
      simp only [this]
      rcases List.mem_cons.1 hx with h | h
      · exact absurd h.symm hy
      · exact ih h

/-- what `mkClo` makes of a literal that captures `x`: a closure whose cell for `x` is the cell of
    the RUNNING activation's `x` -/
theorem mkClo_callee (ls : Sc) (lit : N) (σ : Env) (x : String) (hx : x ∈ capt ls.ls lit) :
    (mkClo ls lit σ).1.callee = some ((lit, ls.ls), (capt ls.ls lit).map fun y => (σ.act.id, y)) := by
  have hne : (capt ls.ls lit).isEmpty = false := by
    cases h : capt ls.ls lit with
    | nil => rw [h] at hx; cases hx
    | cons _ _ => rfl
  simp [mkClo, hne, V.callee]

/-- **A closure outlives the frame that made it.**  Let a function literal `lit` whose body refers
    to the variable `x` of the enclosing function (`x ∈ capt`) be evaluated in ANY state `σ` (running
    activation `σ.act.id`), giving the closure `c = (mkClo ls lit σ).1`.  Take ANY later shared state
    `G` — nothing is assumed about the activation that made `c`: it may have RETURNED long ago, no
    frame of it need exist; only that serial numbers are not reused (`σ.act.id < G.next`) — and ANY
    call of `c` (any arguments `L`; the code of `c` resolves `x` as a free variable: `sc`).  In the
    activation the call enters (`G.enter cs L`):
    * reading `x` yields the CURRENT content of the cell `(σ.act.id, x)` — the creating activation's
      variable, as whoever wrote it last left it;
    * assigning `x := v` writes exactly that cell and no other;
    * the creating function, were it still running (or any other closure it made), would read `v`
      from its variable `x` afterwards;
    * the machine's `LoadFree x` / `StoreFree x` in that activation — over ANY stack of frames —
      push / update that same cell. -/
theorem closure_outlives_frame (ls : Sc) (lit : N) (σ : Env) (x : String) (hx : x ∈ capt ls.ls lit)
    (G : Sh) (hG : σ.act.id < G.next) (k : FnId) (cs : List Cell)
    (hc : (mkClo ls lit σ).1.callee = some (k, cs))
    (L : Store) (sc : Sc) (hl : sc.ls.contains x = false) (hf : sc.fr.contains x = true) (v : V) :
    (G.enter cs L).get sc x = G.cells.get σ.act.id x ∧
    ((G.enter cs L).set sc x v).sh.cells.get σ.act.id x = v ∧
    (∀ b y, (b, y) ≠ (σ.act.id, x) →
      ((G.enter cs L).set sc x v).sh.cells.get b y = (G.enter cs L).sh.cells.get b y) ∧
    (ls.ls.contains x = true → (⟨σ.act, ((G.enter cs L).set sc x v).sh⟩ : Env).get ls x = v) ∧
    (∀ pc stk, execIns (.loadFree x) ⟨pc, stk, G.enter cs L⟩
        = .ok ⟨pc + 2, G.cells.get σ.act.id x :: stk, G.enter cs L⟩) ∧
    (∀ pc stk, execIns (.storeFree x) ⟨pc, v :: stk, G.enter cs L⟩ = .ok ⟨pc + 2, stk, (G.enter cs L).set sc x v⟩) := by
  rw [mkClo_callee ls lit σ x hx] at hc
  cases hc
  have hcell : (G.enter ((capt ls.ls lit).map fun y => (σ.act.id, y)) L).act.cellOf x = (σ.act.id, x) :=
    cellOf_made _ _ _ _ hx
  have hne : σ.act.id ≠ G.next := by omega
  have hget : (G.enter ((capt ls.ls lit).map fun y => (σ.act.id, y)) L).sh.cells.get σ.act.id x = G.cells.get σ.act.id x :=
    Cells.get_bind_other _ _ _ _ _ hne
  have hset : ∀ w, (G.enter ((capt ls.ls lit).map fun y => (σ.act.id, y)) L).set sc x w
      = { (G.enter ((capt ls.ls lit).map fun y => (σ.act.id, y)) L) with
          sh := { (G.enter ((capt ls.ls lit).map fun y => (σ.act.id, y)) L).sh with
            cells := (G.enter ((capt ls.ls lit).map fun y => (σ.act.id, y)) L).sh.cells.set σ.act.id x w } } := by
    intro w
    simp only [Env.set, hl, hf, hcell, Bool.false_eq_true, ↓reduceIte]
  refine ⟨?_, ?_, ?_, ?_, ?_, ?_⟩
  · simp only [Env.get, hl, hf, hcell, Bool.false_eq_true, ↓reduceIte]; exact hget
  · rw [hset]; exact Cells.get_set_same ..
  · intro b y hby; rw [hset]; exact Cells.get_set_other _ _ _ _ _ _ hby
  · intro hown; rw [hset]; simp only [Env.get, hown, ↓reduceIte]; exact Cells.get_set_same ..
  · intro pc stk; simp only [execIns, hcell, hget]
  · intro pc stk; rw [hset]; simp only [execIns, hcell]

/-- **Two closures of one activation share its variable.**  Two literals that both refer to the
    variable `x` of the enclosing function, evaluated by the SAME activation (in any two states
    `σ1`, `σ2` of it), give closures `c1`, `c2`.  When a call of `c1` — from any shared state `G`,
    with any arguments — assigns `x := v`, a call of `c2` made from the state that assignment
    leaves (any arguments) reads `v` from `x`: each observes the other's writes.  (Both hold the
    cell `(σ1.act.id, x)`; neither holds a copy.) -/
theorem closures_share_variable (ls : Sc) (lit1 lit2 : N) (σ1 σ2 : Env) (hsame : σ2.act.id = σ1.act.id)
    (x : String) (h1 : x ∈ capt ls.ls lit1) (h2 : x ∈ capt ls.ls lit2)
    (G : Sh) (hG : σ1.act.id < G.next) (k1 k2 : FnId) (cs1 cs2 : List Cell)
    (hc1 : (mkClo ls lit1 σ1).1.callee = some (k1, cs1)) (hc2 : (mkClo ls lit2 σ2).1.callee = some (k2, cs2))
    (L1 L2 : Store) (sc1 sc2 : Sc)
    (hl1 : sc1.ls.contains x = false) (hf1 : sc1.fr.contains x = true)
    (hl2 : sc2.ls.contains x = false) (hf2 : sc2.fr.contains x = true) (v : V) :
    ((((G.enter cs1 L1).set sc1 x v).sh).enter cs2 L2).get sc2 x = v := by
  have A := closure_outlives_frame ls lit1 σ1 x h1 G hG k1 cs1 hc1 L1 sc1 hl1 hf1 v
  have hnext : ((G.enter cs1 L1).set sc1 x v).sh.next = G.next + 1 := by
    simp only [Env.set, hl1, hf1, Bool.false_eq_true, ↓reduceIte, Sh.enter]
  have B := closure_outlives_frame ls lit2 σ2 x h2 ((G.enter cs1 L1).set sc1 x v).sh (by rw [hnext, hsame]; omega)
    k2 cs2 hc2 L2 sc2 hl2 hf2 v
  rw [B.1, hsame]
  exact A.2.1

/-! ### non-vacuity -/

/-- the counter factory: `func counter() { n := 0; return func() { n++; return n } }; c := counter(); c(); c()` → 2 -/
def exCounter : N :=
  .prog (.cons (.expr (.func "counter" .nilL
      (.block (.cons (.var "n" (.int 0))
        (.cons (.return_ (.func "" .nilL (.block (.cons (.postfix "n" true) (.cons (.return_ (.id "n")) .nilL))))) .nilL)))))
    (.cons (.var "c" (.call (.id "counter") .nilL))
    (.cons (.expr (.call (.id "c") .nilL))
    (.cons (.expr (.call (.id "c") .nilL)) .nilL))))

/-- the adder factory (a captured PARAMETER):
    `func adder(n) { return func(x) { return x + n } }; add5 := adder(5); add5(10) + adder(1)(2)` → 18 -/
def exAdder : N :=
  .prog (.cons (.expr (.func "adder" (.cons (.param "n" .none_) .nilL)
      (.block (.cons (.return_ (.func "" (.cons (.param "x" .none_) .nilL)
        (.block (.cons (.return_ (.infix .add (.id "x") (.id "n"))) .nilL)))) .nilL))))
    (.cons (.var "add5" (.call (.id "adder") (.cons (.int 5) .nilL)))
    (.cons (.expr (.infix .add (.call (.id "add5") (.cons (.int 10) .nilL))
        (.call (.call (.id "adder") (.cons (.int 1) .nilL)) (.cons (.int 2) .nilL)))) .nilL)))

/-- two closures sharing one variable, called after their maker returned:
    `inc := nil; get := nil
     func mk() { n := 0; inc = func() { n += 1; return n }; get = func() { return n } }
     mk(); inc(); inc(); get()` → 2 -/
def exShared : N :=
  .prog (.cons (.var "inc" .nilLit) (.cons (.var "get" .nilLit)
    (.cons (.expr (.func "mk" .nilL
      (.block (.cons (.var "n" (.int 0))
        (.cons (.assign "inc" .set (.func "" .nilL (.block (.cons (.assign "n" .add (.int 1)) (.cons (.return_ (.id "n")) .nilL)))))
        (.cons (.assign "get" .set (.func "" .nilL (.block (.cons (.return_ (.id "n")) .nilL)))) .nilL))))))
    (.cons (.expr (.call (.id "mk") .nilL))
    (.cons (.expr (.call (.id "inc") .nilL))
    (.cons (.expr (.call (.id "inc") .nilL))
    (.cons (.expr (.call (.id "get") .nilL)) .nilL)))))))

/-- the creating function writes after the capture and reads what it wrote through the closure:
    `func f() { n := 1; g := func() { return n * 10 }; n = 7; a := g(); n = n + 1; return a + n }; f()` → 78 -/
def exWriteAfter : N :=
  .prog (.cons (.expr (.func "f" .nilL
      (.block (.cons (.var "n" (.int 1))
        (.cons (.var "g" (.func "" .nilL (.block (.cons (.return_ (.infix .mul (.id "n") (.int 10))) .nilL))))
        (.cons (.assign "n" .set (.int 7))
        (.cons (.var "a" (.call (.id "g") .nilL))
        (.cons (.assign "n" .set (.infix .add (.id "n") (.int 1)))
        (.cons (.return_ (.infix .add (.id "a") (.id "n"))) .nilL)))))))))
    (.cons (.expr (.call (.id "f") .nilL)) .nilL))

/-- a closure passed to another function and called there (twice), keeping its state:
    `func twice(fn, x) { fn(fn(x)) }
     func mk() { calls := 0; return func(x) { calls++; return x * 2 + calls } }
     c := mk(); twice(c, 1) * 100 + twice(c, 1)` → (2·(2·1+1)+2)·100 + (2·(2·1+3)+4) = 814 -/
def exPassed : N :=
  .prog (.cons (.expr (.func "twice" (.cons (.param "fn" .none_) (.cons (.param "x" .none_) .nilL))
      (.block (.cons (.expr (.call (.id "fn") (.cons (.call (.id "fn") (.cons (.id "x") .nilL)) .nilL))) .nilL))))
    (.cons (.expr (.func "mk" .nilL
      (.block (.cons (.var "calls" (.int 0))
        (.cons (.return_ (.func "" (.cons (.param "x" .none_) .nilL)
          (.block (.cons (.postfix "calls" true)
            (.cons (.return_ (.infix .add (.infix .mul (.id "x") (.int 2)) (.id "calls"))) .nilL))))) .nilL)))))
    (.cons (.var "c" (.call (.id "mk") .nilL))
    (.cons (.expr (.infix .add
      (.infix .mul (.call (.id "twice") (.cons (.id "c") (.cons (.int 1) .nilL))) (.int 100))
      (.call (.id "twice") (.cons (.id "c") (.cons (.int 1) .nilL))))) .nilL))))

/-- a capture two function levels up is outside the fragment (recorded finding C02-positional-capture):
    `func f(a) { return func(b) { return func(c) { return a + c } } }; f(1)(2)(3)` -/
def exDepth2 : N :=
  .prog (.cons (.expr (.func "f" (.cons (.param "a" .none_) .nilL)
      (.block (.cons (.return_ (.func "" (.cons (.param "b" .none_) .nilL)
        (.block (.cons (.return_ (.func "" (.cons (.param "c" .none_) .nilL)
          (.block (.cons (.return_ (.infix .add (.id "a") (.id "c"))) .nilL)))) .nilL)))) .nilL))))
    (.cons (.expr (.call (.call (.call (.id "f") (.cons (.int 1) .nilL)) (.cons (.int 2) .nilL)) (.cons (.int 3) .nilL))) .nilL))

example : inClo exCounter = true := by decide
example : inClo exAdder = true := by decide
example : inClo exShared = true := by decide
example : inClo exWriteAfter = true := by decide
example : inClo exPassed = true := by decide
example : inClo exDepth2 = false := by decide
-- the counter: both sides count to 2; the closure's code is LoadFree n; PopTop; LoadFree n; 1; +; StoreFree n; LoadFree n; Return
example : (evalClo 60 exCounter).1 = .val (.int 2) := by decide
example : (runClo 400 (compClo exCounter)).1 = .done (.int 2) := by decide
example : ((compClo exCounter).funs.map (·.code.length)) = [17, 14] := by decide
-- three references to `n` in the closure's body: three cells are made, one per resolution
example : ((compClo exCounter).funs.map fun fc => (fc.code.filter fun i => match i with | some (.makeCell _) => true | _ => false).length)
    = [3, 0] := by decide
-- the adder: a captured parameter
example : (evalClo 60 exAdder).1 = .val (.int 18) := by decide
example : (runClo 400 (compClo exAdder)).1 = .done (.int 18) := by decide
-- two closures, one variable, the maker's frame gone
example : (evalClo 60 exShared).1 = .val (.int 2) := by decide
example : (runClo 400 (compClo exShared)).1 = .done (.int 2) := by decide
-- writes of the creating function after the capture are seen by the closure, and vice versa
example : (evalClo 60 exWriteAfter).1 = .val (.int 78) := by decide
example : (runClo 400 (compClo exWriteAfter)).1 = .done (.int 78) := by decide
-- a closure passed to `twice` and called there
example : (evalClo 60 exPassed).1 = .val (.int 814) := by decide
example : (runClo 600 (compClo exPassed)).1 = .done (.int 814) := by decide
example : (runClo 600 (compClo exPassed)).2 = (evalClo 60 exPassed).2 := by decide
-- the hypotheses of `clo_compile_correct` are satisfiable and its conclusion is the concrete run
example : ∃ fuel', runClo fuel' (compClo exCounter) = (.done (.int 2), (evalClo 60 exCounter).2) :=
  clo_compile_correct_toRun exCounter (by decide) 60 (.val (.int 2)) (evalClo 60 exCounter).2 (by decide) (by decide)

/-! ### the machine with relocation (`CloVM.lean`: locals in the frame until `CaptureLocals`) -/

/-- **Simulation on the machine that relocates locals, with the stores related by `RelC`.**
    `clo_simulation` composed with the lockstep refinement: let the node `n` be evaluated by the
    reference semantics from `σ` to the outcome `r` and the state `σ'`, its code sitting at `pc` of
    the running code object of a world `W`.  Take ANY state of the relocating machine related to
    `(pc, stk, σ)` over the frames `W.fs` — any heap `h`, any frame storages `cur` / `frs`, any set
    of captured activations `caps` with `RelC`: the semantics' cell `(a, x)` holds what the frame of
    activation `a` or, once captured, the heap slice `(a, ·)` holds.  Then that machine runs to a
    state which has the skeleton (position, operand stack, activation, globals, counter, frames) of
    the configuration `clo_simulation` names for `r`, and whose heap, frame storages and captured
    set are again related by `RelC` to the semantics' final cells `σ'.sh.cells`.  (Stated for the
    completing outcomes; errors and `return` in the same way through `msteps_lock`.) -/
theorem clo_simulation_vm (Φ : List FDecl) (P : Prog) (hP : Compiled Φ P) (hΦ : BodiesOK Φ) (hPP : ParamsPlain P)
    (W : World) (hW : W.P = P) (ls : Sc) (f : Nat) (n : N) (hwf : wf n = true) (kb kc : Nat)
    (pc : Nat) (stk : List V) (σ : Env) (r : Out) (σ' : Env)
    (hat : CodeAt W.code pc (comp ls kb kc n)) (he : ev Φ f ls n σ = (r, σ'))
    (h : Cells) (cur : Loc) (frs : List Loc) (caps : List Nat)
    (R : RelC ⟨⟨pc, stk, σ⟩, W.fn, W.fs⟩ h cur frs caps) :
    (match r with
     | .val v => ∃ h' cur' frs' caps',
        MSteps2 W.P (M2.of ⟨⟨pc, stk, σ⟩, W.fn, W.fs⟩ h cur frs caps)
          (M2.of ⟨⟨pc + size ls n, v :: stk, σ'⟩, W.fn, W.fs⟩ h' cur' frs' caps') ∧
        RelC ⟨⟨pc + size ls n, v :: stk, σ'⟩, W.fn, W.fs⟩ h' cur' frs' caps'
     | .unit => ∃ h' cur' frs' caps',
        MSteps2 W.P (M2.of ⟨⟨pc, stk, σ⟩, W.fn, W.fs⟩ h cur frs caps)
          (M2.of ⟨⟨pc + size ls n, stk, σ'⟩, W.fn, W.fs⟩ h' cur' frs' caps') ∧
        RelC ⟨⟨pc + size ls n, stk, σ'⟩, W.fn, W.fs⟩ h' cur' frs' caps'
     | .brk => ∃ h' cur' frs' caps',
        MSteps2 W.P (M2.of ⟨⟨pc, stk, σ⟩, W.fn, W.fs⟩ h cur frs caps)
          (M2.of ⟨⟨pc + size ls n + kb, stk, σ'⟩, W.fn, W.fs⟩ h' cur' frs' caps') ∧
        RelC ⟨⟨pc + size ls n + kb, stk, σ'⟩, W.fn, W.fs⟩ h' cur' frs' caps'
     | .cont => ∃ h' cur' frs' caps',
        MSteps2 W.P (M2.of ⟨⟨pc, stk, σ⟩, W.fn, W.fs⟩ h cur frs caps)
          (M2.of ⟨⟨pc + size ls n + kc, stk, σ'⟩, W.fn, W.fs⟩ h' cur' frs' caps') ∧
        RelC ⟨⟨pc + size ls n + kc, stk, σ'⟩, W.fn, W.fs⟩ h' cur' frs' caps'
     | .err (.cls c) => ∃ m1 h' cur' frs' caps',
        MSteps2 W.P (M2.of ⟨⟨pc, stk, σ⟩, W.fn, W.fs⟩ h cur frs caps) (M2.of m1 h' cur' frs' caps') ∧
        RelC m1 h' cur' frs' caps' ∧ m1.cfg.σ.sh = σ'.sh ∧ mstep2 W.P (M2.of m1 h' cur' frs' caps') = .error (.err c)
     | _ => True) := by
  have hPP' : ParamsPlain W.P := hW ▸ hPP
  have Q := clo_simulation Φ P hP hΦ W hW ls f n hwf kb kc pc stk σ r σ' hat he
  cases r with
  | val v => exact msteps_lock hPP' Q.2 h cur frs caps R
  | unit => exact msteps_lock hPP' Q.2 h cur frs caps R
  | brk => exact msteps_lock hPP' Q.2 h cur frs caps R
  | cont => exact msteps_lock hPP' Q.2 h cur frs caps R
  | oof => trivial
  | err x =>
    cases x with
    | ret v => trivial
    | cls c =>
      obtain ⟨m1, hs, hg, hst⟩ := Q
      obtain ⟨h', cur', frs', caps', hs2, R2⟩ := msteps_lock hPP' hs h cur frs caps R
      exact ⟨m1, h', cur', frs', caps', hs2, R2, hg, (lockstep hPP' m1 h' cur' frs' caps' R2).2 _ hst⟩

/-- a finished run of `runClo` is the run of the machine with relocation: same result, same globals -/
theorem runCloVM_eq (p : N) (k : Nat) (hr : (runClo k (compClo p)).1 ≠ .running) :
    runCloVM k (compClo p) = runClo k (compClo p) := by
  unfold runCloVM runClo
  rw [M2_init_of]
  exact mrun_lock (paramsPlain_compClo p) k M.init [] ⟨[], true⟩ [] [0] RelC_init hr

/-- **Compiler correctness down to the machine that keeps locals in the frame until they are
    captured**: for every program of the fragment and every fuel, if the reference semantics ends
    with a value or an error, the machine with relocation (`CloVM.lean`: `frame.CaptureLocals` at the
    first `MakeCell` of an activation, uncaptured frames dropped at return) halts on the compiled
    program with the same value / the same error class and the same final globals. -/
theorem clo_compile_correct_vm (p : N) (hp : inClo p = true) (fuel : Nat) (r : Out) (G' : Store)
    (he : evalClo fuel p = (r, G')) (hr : r ≠ .oof) :
    (∃ v, r = .val v ∧ ∃ fuel', runCloVM fuel' (compClo p) = (.done v, G')) ∨
    (∃ c, r = .err (.cls c) ∧ ∃ fuel', runCloVM fuel' (compClo p) = (.err c, G')) := by
  rcases clo_compile_correct p hp fuel r G' he hr with ⟨v, rfl, k, hk⟩ | ⟨c, rfl, k, hk⟩
  · exact .inl ⟨v, rfl, k, by rw [runCloVM_eq p k (by rw [hk]; intro h; cases h), hk]⟩
  · exact .inr ⟨c, rfl, k, by rw [runCloVM_eq p k (by rw [hk]; intro h; cases h), hk]⟩

-- the examples on the machine with relocation
example : (runCloVM 400 (compClo exCounter)).1 = .done (.int 2) := by decide
example : (runCloVM 400 (compClo exShared)).1 = .done (.int 2) := by decide
example : (runCloVM 400 (compClo exWriteAfter)).1 = .done (.int 78) := by decide
example : (runCloVM 600 (compClo exPassed)).1 = .done (.int 814) := by decide

end Risor.C01.Clo
