import RisorModel.Util
import RisorModel.C01.Decode
import RisorModel.C01.Compile
import RisorModel.C01.VM
import RisorModel.C01.FragOracle
import RisorModel.C01.Fun
/-!
Line-protocol front end of the proved FUNCTION fragment (requests `C01 fun …`); not part of any
theorem.  It evaluates BOTH sides of every link of the layered argument on one program:

  `fun run <sexp> <globals>` →
      `out`                                   the program is outside the fragment, or
      `in` TAB f1 … f12 with
        f1  `evalFun`  outcome                `ok:<value>` | `err:<class>` | `oof`
        f2  `runFun (compFun p)` outcome      (theorem: equal to f1)
        f3  `evalFun` final globals, every declared global name        `x=<value>,…` | `-`
        f4  `runFun` final globals, every declared global name         (theorem: equal to f3)
        f5  `compFun p` ASSEMBLED, EVERY code object (main and one per function): constant pools
            in emission order, global indices from the root symbol table (host globals, named
            functions, `:=` declarations in compile order), local indices from each function's own
            table (parameters, self slot, `:=` declarations), function constants by code id; in
            the format of the harness's `CodeExport`                       (link A, real compiler)
        f6  `same` | `differs:<text>`   f5 against `Compile.compileProg`   (link A, Lean model)
        f7  `Sem.runProg` outcome                                          (link B; = f1)
        f8  `VM.runCodes (compileProg p)` outcome                          (link C; = f2)
        f9  `evalFun` globals restricted to top-level names
        f10 `Sem` final environment (top-level names)                      (link B; = f9)
        f11 `VM.lean` final globals of every declared name                 (link C; = f4)
        f12 `lex` | `fwd`: `fwd` = a named function is used before its declaration (the real
            compiler pre-declares named functions; `Sem.lean` binds the name at the declaration,
            so link B is not compared on such a program)
-/
namespace Risor.C01
open Risor.C04 (Op Ins)
open Risor.Util

namespace FunO
open Risor.C01.Fun

def showVal : V → String
  | .nil => "(nil)"
  | .bool b => if b then "(bool 1)" else "(bool 0)"
  | .int i => "(int " ++ toString i ++ ")"
  | .str s => "(str " ++ toHexField (strBytes s) ++ ")"
  | .fn _ => "(fn)"

def showOut : Out → String
  | .val v => "ok:" ++ showVal v
  | .unit => "ok:(nil)"
  | .brk | .cont => "err:compile"
  | .err (.cls c) => "err:" ++ c
  | .err (.ret v) => "ok:" ++ showVal v
  | .oof => "oof"

def showRun : RunRes → String
  | .done v => "ok:" ++ showVal v
  | .err c => "err:" ++ c
  | .running => "oof"

def showVVal : VVal → String
  | .nil => "(nil)"
  | .bool b => if b then "(bool 1)" else "(bool 0)"
  | .int i => "(int " ++ toString i ++ ")"
  | .str s => "(str " ++ toHexField (strBytes s) ++ ")"
  | .fn _ _ => "(fn)"
  | _ => "(other)"

def showConst : Const → String
  | .int i => "i" ++ toString i
  | .str s => "s" ++ toHexField (strBytes s)
  | .fn id => "f" ++ id

/-- `assemble` for one code object: constant pool in emission order without deduplication
    (`c.constant`), variables by index -/
def asmCode (id : String) (gidx lidx : String → String) (fid : String → String) (code : Code) : String :=
  let (ins, consts) := code.foldl (fun (acc : List String × List Const) slot =>
    match slot with
    | none => acc
    | some i =>
      let (out, cs) := acc
      match i with
      | .nop => (out ++ ["NOP"], cs)
      | .nil_ => (out ++ ["NIL"], cs)
      | .true_ => (out ++ ["TRUE"], cs)
      | .false_ => (out ++ ["FALSE"], cs)
      | .popTop => (out ++ ["POP_TOP"], cs)
      | .unaryNeg => (out ++ ["UNARY_NEGATIVE"], cs)
      | .unaryNot => (out ++ ["UNARY_NOT"], cs)
      | .constInt k => (out ++ ["LOAD_CONST:" ++ toString cs.length], cs ++ [.int k])
      | .constStr s => (out ++ ["LOAD_CONST:" ++ toString cs.length], cs ++ [.str s])
      | .constFn g => (out ++ ["LOAD_CONST:" ++ toString cs.length], cs ++ [.fn (fid g)])
      | .loadG x => (out ++ ["LOAD_GLOBAL:" ++ gidx x], cs)
      | .storeG x => (out ++ ["STORE_GLOBAL:" ++ gidx x], cs)
      | .loadF x => (out ++ ["LOAD_FAST:" ++ lidx x], cs)
      | .storeF x => (out ++ ["STORE_FAST:" ++ lidx x], cs)
      | .binary k => (out ++ ["BINARY_OP:" ++ toString k], cs)
      | .compare k => (out ++ ["COMPARE_OP:" ++ toString k], cs)
      | .copy k => (out ++ ["COPY:" ++ toString k], cs)
      | .swap k => (out ++ ["SWAP:" ++ toString k], cs)
      | .jf d => (out ++ ["JUMP_FORWARD:" ++ toString d], cs)
      | .jb d => (out ++ ["JUMP_BACKWARD:" ++ toString d], cs)
      | .pjf d => (out ++ ["POP_JUMP_FORWARD_IF_FALSE:" ++ toString d], cs)
      | .pjt d => (out ++ ["POP_JUMP_FORWARD_IF_TRUE:" ++ toString d], cs)
      | .call n => (out ++ ["CALL:" ++ toString n], cs)
      | .ret => (out ++ ["RETURN_VALUE"], cs)) (([] : List String), ([] : List Const))
  "id=" ++ id ++ ";ins=" ++ " ".intercalate ins ++ ";consts=" ++ ",".intercalate (consts.map showConst) ++ ";names="

def sortJoin (parts : List String) : String :=
  "|".intercalate (parts.toArray.qsort (fun a b => a < b)).toList

/-- the global names of the root symbol table in index order: the host's, the named functions
    (`collectFunctionDeclarations`), then the `:=` declarations of the main code in compile order -/
def globalNames (globals : List String) (p : N) : List String := globals ++ namedFuns p ++ decls p

/-- every code object of `compFun p`, assembled -/
def assemble (globals : List String) (p : N) : String :=
  let P := compFun p
  let Φ := funsOf p
  let names := globalNames globals p
  let gidx (x : String) : String := toString (names.findIdx (· == x))
  let fid (g : String) : String := "__main__." ++ toString (Φ.findIdx (·.name == g))
  let main := asmCode "__main__" gidx (fun _ => "?") fid P.main
  let funs := (List.range Φ.length).zip (Φ.zip P.funs) |>.map fun (k, d, fc) =>
    asmCode ("__main__." ++ toString k) gidx (fun x => toString (d.ls.findIdx (· == x))) fid fc.code
  sortJoin (main :: funs)

/-- inside the fragment, and no declared global (variable or function) collides with a host global -/
def funIn (globals : List String) (p : N) : Bool :=
  inFun p && (namedFuns p ++ decls p).all (fun x => !globals.contains x)

def topNames (p : N) : List String :=
  match p with
  | .prog stmts => stmts.toList.flatMap (fun h => fnameOf h ++ Frag.declOf h)
  | _ => []

def showStore (names : List String) (get : String → String) : String :=
  fragField (",".intercalate (names.map fun x => x ++ "=" ++ get x))

def handleFun : List String → String
  | ["run", sx, globals] =>
    match decodeProg sx with
    | none => "error\tcannot decode the program"
    | some p =>
      let gs := (globals.splitOn ",").filter (· ≠ "")
      if !funIn gs p then "out" else
      let names := namedFuns p ++ decls p
      let top := topNames p
      let e := evalFun 3000 p
      let r := runFun 400000 (compFun p)
      let asm := assemble gs p
      let (linkA, vmOut, vmStore) :=
        match compileProg gs p with
        | .error err => ("differs:fail " ++ err, "compile-fail", "-")
        | .ok codes =>
          let one (c : CodeB) : String :=
            "id=" ++ c.id ++ ";ins=" ++ codeText c ++ ";consts=" ++ ",".intercalate (c.consts.toList.map showConst)
              ++ ";names=" ++ ",".intercalate c.names.toList
          let txt := sortJoin (codes.map one)
          let vr := runCodes 400000 gs codes
          let all := globalNames gs p
          (if txt == asm then "same" else "differs:" ++ txt,
            (match vr.1 with
             | .done v => "ok:" ++ showVVal v
             | .err c => "err:" ++ c
             | .running => "oof"
             | .unsupported w => "unsupported:" ++ w),
            showStore names fun x => showVVal (vr.2.globals.getD (all.findIdx (· == x)) .nil))
      let (semOut, semStore) :=
        match p with
        | .prog stmts =>
          match execStmts 20000 stmts [] {} with
          | (sg, env, st) =>
            (fragSemOut (match sg with | .unit => ⟨.val .nil, st⟩ | sg => ⟨sg, st⟩),
              showStore top fun x => match lookup env x with
                | some c => Risor.C01.showVal st (st.cells.getD c .nil)
                | none => "(unbound)")
        | _ => ("unsupported:program", "-")
      "\t".intercalate ["in", showOut e.1, showRun r.1,
        showStore names (fun x => showVal (e.2.get x)),
        showStore names (fun x => showVal (r.2.get x)),
        asm, linkA, semOut, vmOut,
        showStore top (fun x => if e.2.any (·.1 == x) then showVal (e.2.get x) else "(unbound)"), semStore, vmStore,
        if inFunLex p then "lex" else "fwd"]
  | _ => "error\tunknown-request"

end FunO

def handleFun : List String → String := FunO.handleFun

end Risor.C01
