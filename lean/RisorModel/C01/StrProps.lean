import RisorModel.C01.StrLemmas
/-!
C01 — COMPILER CORRECTNESS for fragment F7 = STRINGS AND MAPS AS DATA (`inStr`, Str.lean), proved
for ALL programs of the fragment, ALL fuel, ALL operand stacks and ALL states (globals + heap).

The fragment: everything of F1 + F2 + F3 (FragProps.lean: scalar expressions with their errors —
string literals, `+` concatenation and the comparisons == != < <= > >= of two strings included —,
`&&` / `||`, unary operators, ternary, if / else-if / else, `:=`, assignments, `++`, statement
lists, the three `for` forms, break / continue in statement position, switch; range loops over an
int), top-level programs with global variables, PLUS
  * map literals `{k1: e1, …, kn: en}` with string-literal keys, any number of entries
    (`k1; e1; …; kn; en; BuildMap n`): the entries are evaluated in SOURCE ORDER, the value is a
    reference to a NEW object at the next free address;
  * index reads `m[k]` (`m; k; BinarySubscr`): a missing key is a raised error (class "index"),
    a key that is not a string the class "type", as is indexing a scalar;
  * item assignment `m[k] = e` (`e; m; k; StoreSubscr`) and `m[k] op= e` on the heap object;
  * values are REFERENCES: `b := a` copies the reference, a write through one is read through
    the other; map equality `==` / `!=` is deep (`Map.Equals`), a map is truthy when not empty;
  * membership `k in m` / `k not in m` (`k; m; Swap 1; ContainsOp 0` (+ `UnaryNot`)).
Not in the fragment: functions / calls (`len`), lists, sets, strings as containers, arithmetic /
ordered comparison of two maps, range over a map or a string (class "unsupported" on both sides).

The store / heap relation of the simulation is the IDENTITY, as in F6 (SeqProps.lean).

The code as it is: `vm.go`'s BuildMap pops the pairs from the top of the stack, so the LAST entry
is assigned first; of two entries with the same key the EARLIER one wins.  The models follow the
code (`buildMapObj`); the source-level rule (the later duplicate wins, as `Sem.mkMapItems`) is
`map_literal_later_wins_full`, refuted by `map_literal_later_wins_counterexample` and proved under
the guard `distinctKeys` as `map_literal_source_order`.  (Which entry order the REAL compiler emits
is C05's finding C05-map-literal-order: `compileMap` ranges over a Go map; `compStr` is the source
order, which the harness obtains from the real compiler by recompiling.)

What ties the three definitions to the Go code is checked by correspondence on every run
(harness/c01str.go): `compStr` = real bytecode = `Compile.lean`; `evalStr` = `Sem.lean` = real
result (deep value and final globals); `runStr ∘ compStr` = `VM.lean` = real result.
-/
namespace Risor.C01.Str
open Risor.C01
open Risor.C01.Frag (isNilL leaves isBlock isElse isL isInit isPost opOK postName isDefault countDefault
  dfltBody assignK nodup preLen)

/-- **Simulation, at full strength** (the generalisation of `frag_simulation` over the heap).  For
    every well-formed node `n`, every enclosing code in which the code of `n` sits at offset `pc` —
    compiled for an enclosing loop whose `break` target lies `kb` and whose `continue` target lies
    `kc` slots after the end of `n`, that loop being a range loop iff `rng` —, every operand stack
    `stk`, every state `σ` (globals and heap) and every fuel: if the reference semantics gives `r`
    with final state `σ'` then the machine, from `(pc, stk, σ)`,
    * `r = val v`  — runs to `(pc + size n, v :: stk, σ')` (and `n` is not a unit statement);
    * `r = unit`   — runs to `(pc + size n, stk, σ')` (and `n` is a unit statement);
    * `r = brk`    — runs to the loop's break target with the stack `stk` it started with, or,
      when the loop is a range loop, with `stk` WITHOUT ITS TOP (the iterator, which the `break`
      pops): for every `out` with `BrkStk rng stk out`;
    * `r = cont`   — runs to the loop's continue target with `stk` (iterator included);
    * `r = err c`  — reaches a configuration with state `σ'` whose next step raises class `c`;
    * `r = oof`    — nothing is claimed.
    The final state of the machine IS the final state of the semantics (same heap). -/
theorem str_simulation (code : Code) (f : Nat) (n : N) (hwf : wf n = true) (kb kc : Nat) (rng : Bool)
    (pc : Nat) (stk : List SVal) (σ : St) (r : Out) (σ' : St)
    (hat : CodeAt code pc (comp kb kc rng n)) (he : ev f n σ = (r, σ')) :
    (match r with
     | .val v => isUnitNode n = false ∧ Steps code ⟨pc, stk, σ⟩ ⟨pc + size rng n, v :: stk, σ'⟩
     | .unit => isUnitNode n = true ∧ Steps code ⟨pc, stk, σ⟩ ⟨pc + size rng n, stk, σ'⟩
     | .brk => escapes n = true ∧
        ∀ out, BrkStk rng stk out → Steps code ⟨pc, stk, σ⟩ ⟨pc + size rng n + kb, out, σ'⟩
     | .cont => escapes n = true ∧ Steps code ⟨pc, stk, σ⟩ ⟨pc + size rng n + kc, stk, σ'⟩
     | .err c => ∃ c1, Steps code ⟨pc, stk, σ⟩ c1 ∧ c1.σ = σ' ∧ step code c1 = .error (.err c)
     | .oof => True) := by
  have P := ev_sim code f n hwf kb kc rng pc stk σ r σ' hat he
  cases r with
  | val v => exact ⟨P.1, P.2⟩
  | unit => exact ⟨P.1, P.2⟩
  | brk => exact ⟨P.1, P.2⟩
  | cont => exact ⟨P.1, P.2⟩
  | err c => exact P.2
  | oof => trivial

/-- the length of a node's code is `size`, wherever the loop targets are -/
theorem str_code_length (n : N) (kb kc : Nat) (rng : Bool) : (comp kb kc rng n).length = size rng n :=
  comp_length n kb kc rng

/-- **Compiler correctness for the fragment** (the property C01 on `inStr`): for every program `p`
    of the fragment and every fuel, if the reference semantics ends (anything but out-of-fuel)
    then it ends with a value or an error — never with a stray break/continue — and there is a
    fuel for which the machine, run on the compiled code from the empty stack and the empty
    state, halts with the SAME value (the same scalar / the same map address), resp. the SAME
    error class, and the SAME final state: the same globals and the same heap. -/
theorem str_compile_correct (p : N) (hp : inStr p = true) (fuel : Nat) (r : Out) (σ' : St)
    (he : evalStr fuel p = (r, σ')) (hr : r ≠ .oof) :
    (∃ v, r = .val v ∧ ∃ fuel', runStr fuel' (compStr p) = (.done v, σ')) ∨
    (∃ c, r = .err c ∧ ∃ fuel', runStr fuel' (compStr p) = (.err c, σ')) := by
  have hwf : wf p = true ∧ isUnitNode p = false ∧ escapes p = false := by
    cases p <;> simp_all [inStr, isUnitNode, wf, escapes]
  have P := ev_sim (compStr p) fuel p hwf.1 0 0 false 0 [] St.empty r σ' (CodeAt.self _) he
  cases r with
  | oof => exact absurd rfl hr
  | unit => have := P.1; simp only [Shape] at this; rw [hwf.2.1] at this; cases this
  | brk => have := P.1; simp only [Shape] at this; rw [hwf.2.2] at this; cases this
  | cont => have := P.1; simp only [Shape] at this; rw [hwf.2.2] at this; cases this
  | val v =>
    obtain ⟨n, hn⟩ := run_of_steps P.val_steps
    refine .inl ⟨v, rfl, n + 1, ?_⟩
    show run (compStr p) (n + 1) ⟨0, [], St.empty⟩ = _
    rw [hn 1]
    simp [run, step, compStr, comp_length]
  | err c =>
    obtain ⟨c1, hs, hσ, hst⟩ := P.2
    obtain ⟨n, hn⟩ := run_of_steps hs
    refine .inr ⟨c, rfl, n + 1, ?_⟩
    show run (compStr p) (n + 1) ⟨0, [], St.empty⟩ = _
    rw [hn 1]
    simp [run, hst, hσ]

/-- the same statement through `Out.toRun` (value ↦ done, error ↦ the same error) -/
theorem str_compile_correct_toRun (p : N) (hp : inStr p = true) (fuel : Nat) (r : Out) (σ' : St)
    (he : evalStr fuel p = (r, σ')) (hr : r ≠ .oof) :
    ∃ fuel', runStr fuel' (compStr p) = (r.toRun, σ') := by
  rcases str_compile_correct p hp fuel r σ' he hr with ⟨v, rfl, k, hk⟩ | ⟨c, rfl, k, hk⟩
  · exact ⟨k, hk⟩
  · exact ⟨k, hk⟩

/-- the outcome found by `str_compile_correct` is THE outcome of the machine: every larger fuel
    gives the same halted result -/
theorem str_run_stable (code : Code) (k j : Nat) (res : RunRes) (σ : St)
    (h : runStr k code = (res, σ)) (hr : res ≠ .running) : runStr (k + j) code = (res, σ) := by
  induction j with
  | zero => exact h
  | succ j ih => exact run_mono (k + j) _ res σ ih hr

/-- **An expression pushes exactly one value**: any node that is not a unit statement (an
    expression — a map literal, an index read, a membership test included —, an expression statement, a block, a
    statement list), compiled anywhere, started on any operand stack `stk` in any state: when the
    reference semantics gives the value `v`, the machine ends exactly at the end of the node's
    code with `v` pushed on an otherwise untouched `stk` and the semantics' final state. -/
theorem str_expr_pushes_one (code : Code) (f : Nat) (n : N) (hwf : wf n = true) (kb kc : Nat) (rng : Bool)
    (pc : Nat) (stk : List SVal) (σ σ' : St) (v : SVal)
    (hat : CodeAt code pc (comp kb kc rng n)) (he : ev f n σ = (.val v, σ')) :
    Steps code ⟨pc, stk, σ⟩ ⟨pc + (comp kb kc rng n).length, v :: stk, σ'⟩ := by
  rw [comp_length]
  exact (ev_sim code f n hwf kb kc rng pc stk σ _ σ' hat he).val_steps

/-- what `compileStmts` emits for a statement that is not the last of its list -/
def stmtCode (kb kc : Nat) (rng : Bool) (h : N) : Code :=
  pre h ++ comp (kb + (if leaves h then 1 else 0)) (kc + (if leaves h then 1 else 0)) rng h
    ++ (if leaves h then one .popTop else [])

/-- **Statements are stack-neutral** (C04's property, for the fragment).  Every statement of the
    fragment (`:=`, assignments, item assignments, `++`, expression statements, `break`,
    `continue`, the three `for` forms and the RANGE LOOPS — with arbitrarily nested bodies),
    compiled anywhere as `compileStmts` compiles a statement, started on any operand stack `stk`:
    however it ends — completing (with `unit` or with a value), or leaving through a `continue` —
    the operand stack is exactly `stk` again; a `break` leaves `stk`, minus the iterator on its
    top when the enclosing loop is a range loop.  In particular a range loop statement leaves
    the stack as it found it (its iterator slot is gone) on normal exit and on its own breaks. -/
theorem str_stmt_neutral (code : Code) (f : Nat) (h : N) (hwf : wf h = true) (hs : isS h = true)
    (kb kc : Nat) (rng : Bool) (pc : Nat) (stk : List SVal) (σ σ' : St) (r : Out)
    (hat : CodeAt code pc (stmtCode kb kc rng h)) (he : ev f h σ = (r, σ')) :
    (match r with
     | .val _ => Steps code ⟨pc, stk, σ⟩ ⟨pc + (stmtCode kb kc rng h).length, stk, σ'⟩
     | .unit => Steps code ⟨pc, stk, σ⟩ ⟨pc + (stmtCode kb kc rng h).length, stk, σ'⟩
     | .brk => ∀ out, BrkStk rng stk out →
        Steps code ⟨pc, stk, σ⟩ ⟨pc + (stmtCode kb kc rng h).length + kb, out, σ'⟩
     | .cont => Steps code ⟨pc, stk, σ⟩ ⟨pc + (stmtCode kb kc rng h).length + kc, stk, σ'⟩
     | _ => True) := by
  unfold stmtCode at hat ⊢
  have hpre := pre_steps h pc stk σ hat.append_left.append_left
  have hath := hat.append_left.append_right
  have htail := hat.append_right
  simp only [List.length_append, pre_length, comp_length] at hath htail ⊢
  simp only [isS, Bool.or_eq_true] at hs
  cases hl : leaves h with
  | false =>
    simp only [hl, Bool.false_eq_true, ↓reduceIte, Nat.add_zero, List.length_nil] at hath ⊢
    have P := ev_sim code f h hwf kb kc rng _ stk σ r σ' hath he
    cases r with
    | val v =>
      rcases hs with hu | hl'
      · have := P.1; simp only [Shape] at this; rw [hu] at this; cases this
      · rw [hl] at hl'; cases hl'
    | unit => exact (hpre.trans P.unit_steps).cast (by omega)
    | brk => exact fun out ho => (hpre.trans (P.2 out ho)).cast (by omega)
    | cont => exact (hpre.trans P.2).cast (by omega)
    | err c => trivial
    | oof => trivial
  | true =>
    simp only [hl, ↓reduceIte, one_length] at hath htail ⊢
    have P := ev_sim code f h hwf (kb + 1) (kc + 1) rng _ stk σ r σ' hath he
    have hpop := CodeAt.one htail
    cases r with
    | val v =>
      have s1 : step code ⟨pc + (preLen h + size rng h), v :: stk, σ'⟩
          = .ok ⟨pc + (preLen h + size rng h) + 1, stk, σ'⟩ := by
        rw [step_of hpop]; rfl
      exact ((hpre.trans (P.val_steps.cast (by omega))).snoc s1).cast (by omega)
    | unit => have := unit_not_leaves (P.1 : isUnitNode h = true); rw [hl] at this; cases this
    | brk => exact fun out ho => (hpre.trans (P.2 out ho)).cast (by omega)
    | cont => exact (hpre.trans P.2).cast (by omega)
    | err c => trivial
    | oof => trivial

/-- **The iterator slot of a range loop.**  The body block `b` of a range loop runs with the
    iterator `it` on top of the loop's stack `stk`, compiled with the loop's targets (`break` 3
    slots, `continue` 1 slot after the body: the exit / the backward jump).  Whatever the body
    does: a completed round ends with `v :: it :: stk` (the `PopTop` after the body then leaves
    `it :: stk`), a `continue` arrives at the backward jump with `it :: stk` (iterator kept), a
    `break` arrives at the loop's exit with `stk` (iterator popped: the stack the loop found). -/
theorem range_body_discipline (code : Code) (f : Nat) (b : N) (hwf : wf b = true) (hb : isBlock b = true)
    (pc : Nat) (it : SVal) (stk : List SVal) (σ σ' : St) (r : Out)
    (hat : CodeAt code pc (comp 3 1 true b)) (he : ev f b σ = (r, σ')) :
    (match r with
     | .val v => Steps code ⟨pc, it :: stk, σ⟩ ⟨pc + size true b, v :: it :: stk, σ'⟩
     | .cont => Steps code ⟨pc, it :: stk, σ⟩ ⟨pc + size true b + 1, it :: stk, σ'⟩
     | .brk => Steps code ⟨pc, it :: stk, σ⟩ ⟨pc + size true b + 3, stk, σ'⟩
     | .unit => False
     | _ => True) := by
  have P := ev_sim code f b hwf 3 1 true pc (it :: stk) σ r σ' hat he
  cases r with
  | val v => exact P.2
  | cont => exact P.2
  | brk => exact P.2 stk ⟨it, rfl⟩
  | unit => have := P.1; simp only [Shape] at this; rw [isBlock_not_unit hb] at this; cases this
  | err c => trivial
  | oof => trivial

/-! ### identity: aliasing -/

/-- **A write through one reference is read through every other reference to the same map**
    (`map_alias_write_visible`).  Two references to a map are the same value `ref a` wherever they
    are kept (two variables after `b := a`, a value inside another map, an operand-stack slot).  In
    any state in which the object `a` is allocated: after the item assignment `r[k] = nv` through
    one of them, reading `r'[k]` through any other one gives `nv`, `k in r'` is true, and every
    OTHER key reads as before.  (`StoreSubscr` / `BinarySubscr` / `ContainsOp` of the machine are
    `setItemS` / `getItemS` / `containsS` on the same state: `map_alias_write_visible_vm`.) -/
theorem map_alias_write_visible (σ σ' : St) (a : Nat) (r r' : SVal) (k : String) (nv : SVal)
    (hr : r = .ref a) (hr' : r' = .ref a) (ha : a < σ.h.length)
    (h : setItemS σ r (.str k) nv = .ok σ') :
    getItemS σ' r' (.str k) = .ok nv ∧ containsS σ' r' (.str k) = .ok (.bool true) ∧
      ∀ k', k' ≠ k → getItemS σ' r' (.str k') = getItemS σ r' (.str k') := by
  subst hr hr'
  simp only [setItemS] at h
  cases h
  refine ⟨?_, ?_, ?_⟩
  · simp [getItemS, items_write_same _ _ _ ha, mapGet_mapSet]
  · simp [containsS, items_write_same _ _ _ ha, mapGet_mapSet]
  · intro k' hk
    simp [getItemS, items_write_same _ _ _ ha, mapGet_mapSet, hk]

/-- the same for two VARIABLES naming one map (`b := a; b[k] = nv; a[k]`): the write does not touch
    the globals, so `y` still holds the reference and reads the new value -/
theorem map_alias_write_visible_vars (σ σ' : St) (x y : String) (a : Nat) (k : String) (nv : SVal)
    (hx : σ.get x = .ref a) (hy : σ.get y = .ref a) (ha : a < σ.h.length)
    (h : setItemS σ (σ.get x) (.str k) nv = .ok σ') :
    σ'.get y = .ref a ∧ getItemS σ' (σ'.get y) (.str k) = .ok nv := by
  rw [hx] at h
  have hg : σ'.get y = .ref a := by
    simp only [setItemS] at h
    cases h
    simpa [St.get, St.write] using hy
  refine ⟨hg, ?_⟩
  rw [hg]
  exact (map_alias_write_visible σ σ' a (.ref a) (.ref a) k nv rfl rfl ha h).1

/-- the machine's side: `StoreSubscr` through one reference, then `BinarySubscr` through another
    reference to the same object with the same key, pushes the stored value -/
theorem map_alias_write_visible_vm (σ : St) (a : Nat) (k : String) (nv : SVal) (pc : Nat) (s : List SVal) (c1 : Cfg)
    (ha : a < σ.h.length)
    (h : execIns .storeSubscr ⟨pc, .str k :: .ref a :: nv :: s, σ⟩ = .ok c1) (pc' : Nat) (s' : List SVal) :
    execIns .binarySubscr ⟨pc', .str k :: .ref a :: s', c1.σ⟩ = .ok ⟨pc' + 1, nv :: s', c1.σ⟩ := by
  simp only [execIns] at h
  cases hs : setItemS σ (.ref a) (.str k) nv with
  | error e => simp [hs] at h
  | ok σ1 =>
    simp only [hs] at h
    cases h
    simp [execIns, (map_alias_write_visible σ σ1 a (.ref a) (.ref a) k nv rfl rfl ha hs).1]

/-- a write to one object is not visible in any other object -/
theorem map_write_other_untouched (σ σ' : St) (a b : Nat) (i nv : SVal) (hab : b ≠ a)
    (h : setItemS σ (.ref a) i nv = .ok σ') : σ'.items b = σ.items b := by
  cases i <;> simp only [setItemS] at h <;> cases h
  exact items_write_other σ a b _ hab

/-! ### map literals: source order -/

/-- the entry list of a literal `{k1: e1, …}` as the parser's node: key, value, key, value, … -/
def entriesN : List (String × N) → N
  | [] => .nilL
  | (k, e) :: r => .cons (.str k) (.cons e (entriesN r))

/-- the SOURCE-LEVEL rule for the entries: the value expressions are evaluated LEFT TO RIGHT, each
    in the state its predecessor left; the first one that does not give a value ends the literal -/
def evEntries (rec : N → St → Out × St) : List (String × N) → St → Except Out (List (String × SVal)) × St
  | [], σ => (.ok [], σ)
  | (k, e) :: r, σ =>
    match rec e σ with
    | (.val v, σ1) =>
      (match evEntries rec r σ1 with
      | (.ok ps, σ2) => (.ok ((k, v) :: ps), σ2)
      | other => other)
    | (o, σ1) => (.error o, σ1)

/-- key, value, key, value, … -/
def flat : List (String × SVal) → List SVal
  | [] => []
  | (k, v) :: r => .str k :: v :: flat r

/-- the source-level rule for duplicates: the LATER entry wins -/
def lastLookup : List (String × SVal) → String → Option SVal
  | [], _ => none
  | (k0, v0) :: r, k =>
    match lastLookup r k with
    | some v => some v
    | none => if k == k0 then some v0 else none

/-- the guard: the keys of the literal are pairwise different -/
def distinctKeys (l : List (String × N)) : Bool := nodup (l.map (·.1))

theorem pairsOf_flat (ps : List (String × SVal)) : pairsOf (flat ps) = some ps := by
  induction ps with
  | nil => rfl
  | cons e r ih => obtain ⟨k, v⟩ := e; simp [flat, pairsOf, ih]

/-- the model's item evaluation of a literal's entry list IS the left-to-right rule `evEntries`
    (for every `rec` that evaluates a string literal to itself, as `ev (f + 1)` does) -/
theorem evItems_entries (rec : N → St → Out × St) (hk : ∀ k σ, rec (.str k) σ = (.val (.str k), σ)) :
    ∀ (l : List (String × N)) (σ : St),
      evItems rec (entriesN l) σ =
        (match evEntries rec l σ with
         | (.ok ps, σ') => (.ok (flat ps), σ')
         | (.error o, σ') => (.error o, σ')) := by
  intro l
  induction l with
  | nil => intro σ; rfl
  | cons e r ih =>
    intro σ
    obtain ⟨k, x⟩ := e
    simp only [entriesN, evItems, hk, evEntries]
    rcases hx : rec x σ with ⟨o, σ1⟩
    cases o with
    | val v =>
      simp only
      rw [ih σ1]
      rcases hr : evEntries rec r σ1 with ⟨rr, σ2⟩
      cases rr <;> rfl
    | unit => rfl
    | brk => rfl
    | cont => rfl
    | err c => rfl
    | oof => rfl

theorem evEntries_keys (rec : N → St → Out × St) :
    ∀ (l : List (String × N)) (σ σ' : St) (ps : List (String × SVal)),
      evEntries rec l σ = (.ok ps, σ') → ps.map (·.1) = l.map (·.1) := by
  intro l
  induction l with
  | nil => intro σ σ' ps h; simp only [evEntries] at h; cases h; rfl
  | cons e r ih =>
    intro σ σ' ps h
    obtain ⟨k, x⟩ := e
    simp only [evEntries] at h
    rcases hx : rec x σ with ⟨o, σ1⟩
    rw [hx] at h
    cases o with
    | val v =>
      simp only at h
      rcases hr : evEntries rec r σ1 with ⟨rr, σ2⟩
      rw [hr] at h
      cases rr with
      | ok qs => simp only at h; cases h; simp [ih _ _ qs hr]
      | error o => simp only at h; cases h
    | unit => cases h
    | brk => cases h
    | cont => cases h
    | err c => cases h
    | oof => cases h

theorem lastLookup_none (ps : List (String × SVal)) (k : String) (h : (ps.map (·.1)).contains k = false) :
    lastLookup ps k = none := by
  induction ps with
  | nil => rfl
  | cons e r ih =>
    obtain ⟨k0, v0⟩ := e
    simp only [List.map_cons, List.contains_cons, Bool.or_eq_false_iff] at h
    simp [lastLookup, ih h.2, h.1]

/-- with pairwise different keys the first and the last entry of a key are the same entry -/
theorem lastLookup_eq_lookup (ps : List (String × SVal)) (k : String) (h : nodup (ps.map (·.1)) = true) :
    lastLookup ps k = ps.lookup k := by
  induction ps with
  | nil => rfl
  | cons e r ih =>
    obtain ⟨k0, v0⟩ := e
    simp only [List.map_cons, nodup, Bool.and_eq_true, Bool.not_eq_true'] at h
    rw [List.lookup_cons]
    by_cases hk : k = k0
    · subst hk
      simp [lastLookup, lastLookup_none r k h.1]
    · have hb : (k == k0) = false := by simpa using hk
      simp [lastLookup, hb, ih h.2]
      cases List.lookup k r <;> rfl

/-- **The value of a map literal** (the code as it is).  For every fuel, entry list and state: the
    literal's value expressions are evaluated LEFT TO RIGHT in source order (`evEntries`: each in
    the state its predecessor left, the first failure is the literal's outcome); when all give
    values the result is a reference to a NEW object at the next free address of the state they
    left, the globals and the other objects are untouched, and the object maps every key to the
    value of the FIRST entry with that key (`List.lookup`), as `vm.go`'s BuildMap makes it. -/
theorem map_literal_first_wins (f : Nat) (l : List (String × N)) (σ : St) :
    ev (f + 2) (.map (entriesN l)) σ =
      (match evEntries (ev (f + 1)) l σ with
       | (.ok ps, σ1) => (.val (.ref σ1.h.length), { σ1 with h := σ1.h ++ [buildMapObj ps] })
       | (.error o, σ1) => (o, σ1)) ∧
    ∀ ps σ1, evEntries (ev (f + 1)) l σ = (.ok ps, σ1) →
      ∀ k, mapGet (({ σ1 with h := σ1.h ++ [buildMapObj ps] } : St).items σ1.h.length) k = ps.lookup k := by
  constructor
  · show evNode (f + 1) (ev (f + 1)) (.map (entriesN l)) σ = _
    simp only [evNode]
    rw [evItems_entries (ev (f + 1)) (by intro k σ; rfl) l σ]
    rcases hr : evEntries (ev (f + 1)) l σ with ⟨rr, σ1⟩
    cases rr with
    | ok ps => simp only [pairsOf_flat]; rfl
    | error o => rfl
  · intro ps σ1 _ k
    simp [St.items, List.getD, mapGet_buildMapObj]

/-- the full source-level statement: entries left to right, and of two entries with one key the
    LATER one wins (`Sem.mkMapItems`) -/
def map_literal_later_wins_full : Prop :=
  ∀ (f : Nat) (l : List (String × N)) (σ : St) (ps : List (String × SVal)) (σ1 : St),
    evEntries (ev (f + 1)) l σ = (.ok ps, σ1) →
    ∃ σ', ev (f + 2) (.map (entriesN l)) σ = (.val (.ref σ1.h.length), σ') ∧ σ'.g = σ1.g ∧
      (∀ b, b < σ1.h.length → σ'.items b = σ1.items b) ∧
      ∀ k, mapGet (σ'.items σ1.h.length) k = lastLookup ps k

/-- **`map_literal_source_order`** (the partial statement, guard `distinctKeys`): for every fuel,
    state and entry list with pairwise different keys, the value expressions are evaluated left to
    right in source order, the literal's value is a reference to a new object, nothing else
    changes, and the object maps every key to the value of its entry (first = last). -/
theorem map_literal_source_order (f : Nat) (l : List (String × N)) (hd : distinctKeys l = true) (σ : St)
    (ps : List (String × SVal)) (σ1 : St) (h : evEntries (ev (f + 1)) l σ = (.ok ps, σ1)) :
    ∃ σ', ev (f + 2) (.map (entriesN l)) σ = (.val (.ref σ1.h.length), σ') ∧ σ'.g = σ1.g ∧
      (∀ b, b < σ1.h.length → σ'.items b = σ1.items b) ∧
      ∀ k, mapGet (σ'.items σ1.h.length) k = lastLookup ps k := by
  obtain ⟨h1, h2⟩ := map_literal_first_wins f l σ
  rw [h] at h1
  refine ⟨_, h1, rfl, ?_, ?_⟩
  · intro b hb
    simp [St.items, List.getD, List.getElem?_append_left hb]
  · intro k
    rw [h2 ps σ1 h k, lastLookup_eq_lookup]
    rw [evEntries_keys _ l σ σ1 ps h]
    exact hd

/-- `{"a": 1, "a": 2}`: the code keeps 1 (the pair on top of the stack is assigned first), the
    source-level rule says 2 -/
theorem map_literal_later_wins_counterexample : ¬ map_literal_later_wins_full := by
  intro h
  obtain ⟨σ', he, _, _, hk⟩ := h 0 [("a", .int 1), ("a", .int 2)] St.empty [("a", .int 1), ("a", .int 2)] St.empty (by rfl)
  have e : ev 2 (.map (entriesN [("a", .int 1), ("a", .int 2)])) St.empty
      = (.val (.ref 0), ⟨[], [[("a", .int 1)]]⟩) := by decide
  rw [e] at he
  cases he
  have := hk "a"
  revert this
  decide

/-- the compiled side: the code of the entries is key constant, value code, in SOURCE ORDER -/
theorem map_literal_code_order (rng : Bool) (k : String) (e : N) (r : List (String × N)) :
    compItems rng (entriesN ((k, e) :: r)) = two (.constStr k) ++ (comp 0 0 rng e ++ compItems rng (entriesN r)) := by
  simp [entriesN, compItems, comp]

/-! ### non-vacuity: both sides evaluated -/

def L : List N → N := N.ofList

/-- `a := {"x": 1}; b := a; b["y"] = 2; a["y"] + a["x"]` -/
def exAlias : N :=
  .prog (L [.var "a" (.map (entriesN [("x", .int 1)])), .var "b" (.id "a"),
    .setitem .set (.id "b") (.str "y") (.int 2), .expr (.infix .add (.index (.id "a") (.str "y")) (.index (.id "a") (.str "x")))])

/-- strings: `s := "ab" + "c"; if s < "abd" { s + "!" } else { "no" }` -/
def exStr : N :=
  .prog (L [.var "s" (.infix .add (.str "ab") (.str "c")),
    .expr (.if_ (.infix .lt (.id "s") (.str "abd")) (.block (L [.expr (.infix .add (.id "s") (.str "!"))]))
      (.block (L [.expr (.str "no")])))])

/-- a missing key is a raised error -/
def exMissing : N := .prog (L [.var "m" (.map (entriesN [("x", .int 1), ("y", .int 2)])), .expr (.index (.id "m") (.str "z"))])

/-- membership and a counting loop writing keys: `m := {}; for i := 0; i < 3; i++ { m["k"] = i }; "k" in m && !("z" in m)` -/
def exLoop : N :=
  .prog (L [.var "m" (.map (entriesN [])),
    .for3 (.var "i" (.int 0)) (.infix .lt (.id "i") (.int 3)) (.postfix "i" true)
      (.block (L [.setitem .set (.id "m") (.str "k") (.id "i")])),
    .expr (.infix .and (.in_ (.str "k") (.id "m")) (.notin (.str "z") (.id "m")))])

/-- a duplicated key: the earlier entry wins (the code as it is) -/
def exDup : N := .prog (L [.expr (.index (.map (entriesN [("a", .int 1), ("a", .int 2)])) (.str "a"))])

/-- a key that is not a string literal: outside the fragment -/
def exBadKey : N := .prog (L [.expr (.map (.cons (.int 1) (.cons (.int 2) .nilL)))])

example : inStr exAlias = true := by decide
example : (evalStr 30 exAlias).1 = .val (.int 3) := by decide
example : (runStr 300 (compStr exAlias)) = (.done (.int 3), (evalStr 30 exAlias).2) := by decide
example : ((evalStr 30 exAlias).2.get "a", (evalStr 30 exAlias).2.get "b", (evalStr 30 exAlias).2.h)
    = (.ref 0, .ref 0, [[("x", .int 1), ("y", .int 2)]]) := by decide
example : inStr exStr = true := by decide
example : (evalStr 30 exStr).1 = .val (.str "abc!") := by decide
example : (runStr 300 (compStr exStr)) = (.done (.str "abc!"), (evalStr 30 exStr).2) := by decide
example : inStr exMissing = true := by decide
example : (evalStr 30 exMissing).1 = .err "index" := by decide
example : (runStr 300 (compStr exMissing)) = (.err "index", (evalStr 30 exMissing).2) := by decide
example : inStr exLoop = true := by decide
example : (evalStr 30 exLoop).1 = .val (.bool true) := by decide
example : (runStr 900 (compStr exLoop)) = (.done (.bool true), (evalStr 30 exLoop).2) := by decide
example : (evalStr 30 exLoop).2.h = [[("k", .int 2)]] := by decide
example : inStr exDup = true := by decide
example : (evalStr 30 exDup).1 = .val (.int 1) := by decide
example : (runStr 300 (compStr exDup)).1 = .done (.int 1) := by decide
example : inStr exBadKey = false := by decide
example : distinctKeys [("x", .int 1), ("y", .int 2)] = true := by decide
example : evEntries (ev 1) [("x", .int 1), ("y", .int 2)] St.empty = (.ok [("x", .int 1), ("y", .int 2)], St.empty) := by rfl
example : ∃ σ', setItemS ⟨[], [[("x", .int 1)]]⟩ (.ref 0) (.str "y") (.int 2) = .ok σ' := ⟨_, rfl⟩

end Risor.C01.Str
