import RisorModel.C01.Frag
/-
C01 — the second PROVED FRAGMENT of compiler correctness: FUNCTIONS (DESIGN.md C01, fragment
"F4" of the brief: first-order functions, calls, recursion, default arguments).

The same three executable definitions as `Frag.lean`, over a machine with CALL FRAMES:

  * `ev` / `evalFun`   the restriction of the reference semantics `Sem.lean` to the fragment:
                       expressions and statements of `Frag.lean` plus calls `f(e1, …, en)`,
                       `return e`, named function declarations `func f(a, b=1) { … }` and
                       function literals bound by `g := func(a) { … }`.  The state is a pair
                       of flat stores (`Env`): the LOCAL variables of the running activation
                       and the GLOBAL variables.  A call evaluates the callee, then the
                       arguments left to right, binds the parameters (given arguments, then
                       defaults; a wrong count is the error class "args"), runs the body on a
                       fresh local store with ONE UNIT OF FUEL LESS, and yields the returned
                       value (`return e`, or the value of the body's last expression statement,
                       or nil);
  * `comp` / `compFun` a FUNCTIONAL compiler producing, for the main code and for every
                       function, the slot sequence `compiler.go` produces: `LoadFast` /
                       `StoreFast` for the names of the function's own symbol table (parameters,
                       the self slot of a named function, `:=` declarations in the body),
                       `LoadGlobal` / `StoreGlobal` otherwise, `LoadConst fn; Copy 0;
                       StoreGlobal f; PopTop` for a named declaration, `Call n`,
                       `ReturnValue`, and the body normalised as `normalizeFunctionBlock` does
                       (cut after the first top-level `return`, implicit `return` of the last
                       expression statement or of nil).  Variables and functions are referred
                       to BY NAME (indices are assigned by `FunOracle.lean`'s assembly pass);
  * `mstep` / `runFun` the restriction of `VM.lean`'s machine to these opcodes, with an explicit
                       stack of suspended caller frames (return address, the caller's operand
                       stack below the call, its locals).

`FunProps.lean` proves the simulation for every node, every enclosing code object, every
operand stack and every stack of suspended frames, and `fun_compile_correct` for whole
programs.  The links `evalFun = Sem`, `compFun = Compile.lean = compiler.go`,
`runFun = VM.lean = vm.go` are checked by correspondence on every run (`harness/c01fun.go`).
Core Lean only.
-/
namespace Risor.C01.Fun
open Risor.C01
open Risor.C01.Frag (isNilL opOK postName isDefault countDefault dfltBody assignK nodup declOf)

/-! ### values, stores, outcomes -/

/-- a function value is the function's identity: the name it is declared under (`func f …` → `f`,
    `g := func …` → `g`).  The real VM pushes the SAME `*object.Function` constant every time, and
    `Function.Equals` is pointer identity. -/
inductive V where
  | nil
  | bool (b : Bool)
  | int (i : Int)
  | str (s : String)
  | fn (name : String)
  deriving Repr, DecidableEq, Inhabited

def V.truthy : V → Bool
  | .nil => false
  | .bool b => b
  | .int i => i != 0
  | .str s => s != ""
  | .fn _ => true

/-- variables by name; the most recent binding wins; an unbound name reads `nil` -/
abbrev Store := List (String × V)

def Store.get : Store → String → V
  | [], _ => .nil
  | (y, v) :: r, x => if x == y then v else Store.get r x

def Store.set (s : Store) (x : String) (v : V) : Store := (x, v) :: s

/-- the local variables of the running activation and the global variables -/
structure Env where
  loc : Store
  glob : Store
  deriving Repr, DecidableEq, Inhabited

/-- `ls` = the names of the running function's own symbol table (empty for the main code):
    those are local, every other name is global (`SymbolTable.Resolve`) -/
def Env.get (ls : List String) (σ : Env) (x : String) : V :=
  if ls.contains x then σ.loc.get x else σ.glob.get x

def Env.set (ls : List String) (σ : Env) (x : String) (v : V) : Env :=
  if ls.contains x then { σ with loc := σ.loc.set x v } else { σ with glob := σ.glob.set x v }

/-- abrupt completion: a raised error (its class), or a `return` on its way to the call -/
inductive Exc where
  | cls (c : String)
  | ret (v : V)
  deriving Repr, DecidableEq, Inhabited

inductive Out where
  | val (v : V)           -- an expression / expression statement / statement list produced a value
  | unit                  -- a non-expression statement completed
  | brk | cont            -- a `break` / `continue` on its way to the enclosing loop
  | err (x : Exc)         -- an error (class), or a `return v` leaving the running function
  | oof                   -- out of fuel
  deriving Repr, DecidableEq, Inhabited

/-! ### operators (as `Frag.lean`; a function operand is a type error except for `==`, `!=`,
    `&&`, `||`, `!`) -/

def binopF (op : BinOp) (a b : V) : Except String V :=
  match op with
  | .eq => .ok (.bool (a == b))
  | .ne => .ok (.bool (!(a == b)))
  | .and => .ok (if a.truthy then b else a)
  | .or => .ok (if a.truthy then a else b)
  | _ =>
    match a, b with
    | .int x, .int y =>
      match op with
      | .add => .ok (.int (wrap64 (x + y)))
      | .sub => .ok (.int (wrap64 (x - y)))
      | .mul => .ok (.int (wrap64 (x * y)))
      | .div => if y == 0 then .error "panic" else .ok (.int (wrap64 (Int.tdiv x y)))
      | .mod => if y == 0 then .error "panic" else .ok (.int (wrap64 (Int.tmod x y)))
      | .lt => .ok (.bool (x < y))
      | .le => .ok (.bool (x ≤ y))
      | .gt => .ok (.bool (x > y))
      | .ge => .ok (.bool (x ≥ y))
      | _ => .error "unsupported"
    | .str x, .str y =>
      match op with
      | .add => .ok (.str (x ++ y))
      | .lt => .ok (.bool (x < y))
      | .le => .ok (.bool (x ≤ y))
      | .gt => .ok (.bool (x > y))
      | .ge => .ok (.bool (x ≥ y))
      | _ => .error "type"
    | .bool x, .bool y =>
      match op with
      | .lt => .ok (.bool (!x && y))
      | .le => .ok (.bool (!x || y))
      | .gt => .ok (.bool (x && !y))
      | .ge => .ok (.bool (x || !y))
      | _ => .error "type"
    | .nil, .nil =>
      match op with
      | .lt | .gt => .ok (.bool false)
      | .le | .ge => .ok (.bool true)
      | _ => .error "type"
    | _, _ => .error "type"

def applyF (op : AssignOp) (cur v : V) : Except String V :=
  match op with
  | .set => .ok v
  | .add => binopF .add cur v
  | .sub => binopF .sub cur v
  | .mul => binopF .mul cur v
  | .div => binopF .div cur v

def vBinaryF (k : Nat) (a b : V) : Except String V :=
  if k == 6 then .ok (if a.truthy then b else a)
  else if k == 7 then .ok (if a.truthy then a else b)
  else
    match a, b with
    | .int x, .int y =>
      if k == 1 then .ok (.int (wrap64 (x + y)))
      else if k == 2 then .ok (.int (wrap64 (x - y)))
      else if k == 3 then .ok (.int (wrap64 (x * y)))
      else if k == 4 then (if y == 0 then .error "panic" else .ok (.int (wrap64 (Int.tdiv x y))))
      else if k == 5 then (if y == 0 then .error "panic" else .ok (.int (wrap64 (Int.tmod x y))))
      else .error "unsupported"
    | .str x, .str y => if k == 1 then .ok (.str (x ++ y)) else .error "type"
    | _, _ => .error "type"

def vCompareF (k : Nat) (a b : V) : Except String V :=
  if k == 3 then .ok (.bool (a == b))
  else if k == 4 then .ok (.bool (!(a == b)))
  else
    match a, b with
    | .int x, .int y =>
      .ok (.bool (if k == 1 then x < y else if k == 2 then x ≤ y else if k == 5 then x > y else x ≥ y))
    | .str x, .str y =>
      .ok (.bool (if k == 1 then x < y else if k == 2 then x ≤ y else if k == 5 then x > y else x ≥ y))
    | .bool x, .bool y =>
      .ok (.bool (if k == 1 then !x && y else if k == 2 then !x || y else if k == 5 then x && !y else x || !y))
    | .nil, .nil => .ok (.bool (if k == 1 then false else if k == 2 then true else if k == 5 then false else true))
    | _, _ => .error "type"

/-! ### shallow syntactic classes (head constructor only) -/

def isFuncLit : N → Bool
  | .func _ _ _ => true
  | _ => false

def funcName : N → String
  | .func name _ _ => name
  | _ => ""

def isNone : N → Bool
  | .none_ => true
  | _ => false

/-- `leavesValue` of compiler.go as far as `compileStmts` has to pop: expression statements.
    (A named function declaration leaves its value too; its `PopTop` is part of the
    declaration's code here, which gives the same instruction sequence in every position.) -/
def leaves : N → Bool
  | .expr e => !isFuncLit e
  | _ => false

/-- statements that push no value -/
def isUnitNode : N → Bool
  | .var _ _ | .assign _ _ _ | .postfix _ _ | .forcond _ _ | .forever _ | .for3 _ _ _ _
  | .break_ | .continue_ | .return_ _ => true
  | .expr e => isFuncLit e
  | _ => false

def isE : N → Bool
  | .nilLit | .int _ | .bool _ | .str _ | .id _ | .infix _ _ _ | .neg _ | .not _ | .tern _ _ _ | .if_ _ _ _
  | .switch _ _ | .call _ _ => true
  | _ => false

def isBlock : N → Bool
  | .block _ => true
  | _ => false

def isElse : N → Bool
  | .block _ | .none_ | .if_ _ _ _ => true
  | _ => false

def isL : N → Bool
  | .cons _ _ | .nilL => true
  | _ => false

def isS (n : N) : Bool := isUnitNode n || leaves n

/-- a `break`/`continue` inside `n` can leave `n` (loops catch their own; a function body is
    never entered from here: function literals do not escape) -/
def escapes : N → Bool
  | .break_ | .continue_ => true
  | .infix _ l r => escapes l || escapes r
  | .neg e | .not e | .expr e | .block e | .prog e | .var _ e | .assign _ _ e | .return_ e => escapes e
  | .tern c a b | .if_ c a b => escapes c || escapes a || escapes b
  | .cons h t => escapes h || escapes t
  | .call f a => escapes f || escapes a
  | _ => false

def isInit : N → Bool
  | .var _ e => !isFuncLit e
  | .assign _ _ _ | .postfix _ _ => true
  | _ => false

def isPost : N → Bool
  | .assign _ _ _ | .postfix _ _ => true
  | .expr e => !isFuncLit e
  | _ => false

def argCount : N → Nat
  | .cons _ t => argCount t + 1
  | _ => 0

/-! ### the fragment (shape) -/

mutual
/-- F1–F3 as in `Frag.lean` (expressions, assignments, if/else, the three loop forms,
    break/continue where no operand is pending, switch), in the main code AND in function
    bodies, plus
    * calls `f(e1, …, en)`: the callee and the arguments are expressions no break/continue
      escapes;
    * `return e` and bare `return` (anywhere a statement may stand, also under pending operands:
      `ReturnValue` drops whatever the activation left on the stack);
    * named declarations `func f(params) { … }` as statements and literals bound by
      `g := func(params) { … }` (the function's body is checked by `wfBody`, not here: it does
      not run at the declaration). -/
def wf : N → Bool
  | .nilLit | .none_ | .int _ | .bool _ | .str _ | .id _ | .nilL | .postfix _ _ | .break_ | .continue_ => true
  | .infix op l r => opOK op && isE l && isE r && !escapes l && !escapes r && wf l && wf r
  | .neg e | .not e => isE e && !escapes e && wf e
  | .tern c a b => isE c && isE a && isE b && !escapes c && !escapes a && !escapes b && wf c && wf a && wf b
  | .if_ c t e => isE c && isBlock t && isElse e && !escapes c && wf c && wf t && wf e
  | .block s => isL s && wf s
  | .prog s => isL s && !escapes s && wf s
  | .cons h t => isS h && isL t && wf h && wf t
  | .var _ e => if isFuncLit e then funcName e == "" else isE e && !escapes e && wf e
  | .assign _ _ e => isE e && !escapes e && wf e
  | .expr e => if isFuncLit e then funcName e != "" else isE e && wf e
  | .forcond c b => isE c && isBlock b && !escapes c && wf c && wf b
  | .forever b => isBlock b && wf b
  | .for3 i c p b =>
    isInit i && isE c && isPost p && isBlock b && !escapes i && !escapes c && !escapes p && wf i && wf c && wf p && wf b
  | .switch subj cases => isE subj && !escapes subj && wf subj && wfCases cases && decide (countDefault cases ≤ 1)
  | .call f args => isE f && !escapes f && wf f && wfVals args
  | .return_ e => (isE e || isNone e) && !escapes e && wf e
  | _ => false
/-- case values / call arguments: expressions no break/continue escapes -/
def wfVals : N → Bool
  | .cons v vs => isE v && !escapes v && wf v && wfVals vs
  | .nilL => true
  | _ => false
def wfCase : N → Bool
  | .case_ vals body => wfVals vals && isBlock body && !escapes body && wf body
  | .default_ body => isBlock body && !escapes body && wf body
  | _ => false
def wfCases : N → Bool
  | .cons h t => wfCase h && wfCases t
  | .nilL => true
  | _ => false
end

/-- a function body (the statement list of its block): no break/continue leaves it -/
def wfBody (stmts : N) : Bool := isL stmts && !escapes stmts && wf stmts

/-! ### declared names (compile order) -/

mutual
/-- every name declared by `:=` in a code object, in compile order; function bodies are other
    code objects (not entered) -/
def decls : N → List String
  | .infix _ l r => decls l ++ decls r
  | .neg e | .not e | .expr e | .block e | .prog e | .assign _ _ e | .forever e | .return_ e => decls e
  | .tern c a b | .if_ c a b => decls c ++ decls a ++ decls b
  | .var x e => decls e ++ [x]
  | .cons h t => decls h ++ decls t
  | .forcond c b => decls c ++ decls b
  | .for3 i c p b => decls i ++ decls c ++ decls b ++ decls p
  | .switch subj cases => decls subj ++ declsCmp cases ++ declsBodies cases ++ declsDflt cases
  | .call f args => decls f ++ declsVals args
  | _ => []
def declsVals : N → List String
  | .cons v vs => decls v ++ declsVals vs
  | _ => []
def declsCmpCase : N → List String
  | .case_ vals _ => declsVals vals
  | _ => []
def declsCmp : N → List String
  | .cons h t => declsCmpCase h ++ declsCmp t
  | _ => []
def declsBody : N → List String
  | .case_ _ body => decls body
  | _ => []
def declsBodies : N → List String
  | .cons h t => declsBody h ++ declsBodies t
  | _ => []
def declsDfltBody : N → List String
  | .default_ body => decls body
  | _ => []
def declsDflt : N → List String
  | .cons h t => if isDefault h then declsDfltBody h else declsDflt t
  | _ => []
end

/-! ### functions of a program -/

/-- a parameter with its default value (int, string, bool literals; `compileFunc`).  A default
    `nil` is outside the fragment: the compiler accepts it but `object.NewFunction` counts only
    non-nil defaults, so the VM treats the parameter as required (`func f(a=nil) { a }; f()` is an
    "args" error). -/
def paramOf : N → Option (String × Option V)
  | .param x .none_ => some (x, none)
  | .param x (.int i) => some (x, some (.int i))
  | .param x (.bool b) => some (x, some (.bool b))
  | .param x (.str s) => some (x, some (.str s))
  | _ => none

def paramsOf (ps : N) : List (String × Option V) := ps.toList.filterMap paramOf

structure FDecl where
  name : String                         -- identity: the function's name / the variable it is bound to
  named : Bool                          -- `func f(…)`: the function's symbol table has a self slot
  params : List (String × Option V)
  body : N                              -- the statement list of the body block
  deriving Repr, Inhabited

def stmtsOf : N → N
  | .block s => s
  | _ => .nilL

/-- the function a top-level statement declares -/
def declOfStmt : N → Option FDecl
  | .expr (.func name ps b) => if name != "" then some ⟨name, true, paramsOf ps, stmtsOf b⟩ else none
  | .var x (.func name ps b) => if name == "" then some ⟨x, false, paramsOf ps, stmtsOf b⟩ else none
  | _ => none

def funsOf : N → List FDecl
  | .prog s => s.toList.filterMap declOfStmt
  | _ => []

def findFun (Φ : List FDecl) (g : String) : Option FDecl := Φ.find? (·.name == g)

/-- the names of the function's own symbol table, in slot order: parameters, the self slot of a
    named function, then the `:=` declarations of the body in compile order -/
def FDecl.ls (d : FDecl) : List String :=
  d.params.map (·.1) ++ (if d.named then [d.name] else []) ++ decls d.body

/-- `callFunction`: given arguments, then the defaults of the missing trailing parameters; `none` =
    the "args" error of `checkCallArgs` (too many, or a parameter without default is missing) -/
def bindArgs : List (String × Option V) → List V → Option Store
  | [], [] => some []
  | [], _ :: _ => none
  | (x, _) :: ps, a :: as => (bindArgs ps as).map ((x, a) :: ·)
  | (x, some d) :: ps, [] => (bindArgs ps []).map ((x, d) :: ·)
  | (_, none) :: _, [] => none

/-- the locals of a fresh activation: parameters, then the function itself in the self slot -/
def enterLoc (name : String) (named : Bool) (params : List (String × Option V)) (args : List V) : Option Store :=
  (bindArgs params args).map fun L => if named then L ++ [(name, .fn name)] else L

/-! ### reference semantics restricted to the fragment -/

def seqV (r : Out × Env) (k : V → Env → Out × Env) : Out × Env :=
  match r with
  | (.val v, σ) => k v σ
  | other => other

def liftE (x : Except String V) (σ : Env) : Out × Env :=
  match x with
  | .ok v => (.val v, σ)
  | .error c => (.err (.cls c), σ)

def loopF (cond body post : Env → Out × Env) : Nat → Env → Out × Env
  | 0, σ => (.oof, σ)
  | k + 1, σ =>
    seqV (cond σ) fun v σ1 =>
      if v.truthy then
        match body σ1 with
        | (.brk, σ2) => (.unit, σ2)
        | (.val _, σ2) =>
          (match post σ2 with
          | (.unit, σ3) => loopF cond body post k σ3
          | (.val _, σ3) => loopF cond body post k σ3
          | other => other)
        | (.cont, σ2) =>
          (match post σ2 with
          | (.unit, σ3) => loopF cond body post k σ3
          | (.val _, σ3) => loopF cond body post k σ3
          | other => other)
        | other => other
      else (.unit, σ1)

def matchValsF (rec : N → Env → Out × Env) (sv : V) : N → Env → Except Out Bool × Env
  | .cons v vs, σ =>
    match rec v σ with
    | (.val x, σ1) => if sv == x then (.ok true, σ1) else matchValsF rec sv vs σ1
    | (o, σ1) => (.error o, σ1)
  | _, σ => (.ok false, σ)

def runDflt (rec : N → Env → Out × Env) (dflt : Option N) (σ : Env) : Out × Env :=
  match dflt with
  | some b => rec b σ
  | none => (.val .nil, σ)

def evCasesF (rec : N → Env → Out × Env) (sv : V) (dflt : Option N) : N → Env → Out × Env
  | .cons h rest, σ =>
    match h with
    | .case_ vals body =>
      match matchValsF rec sv vals σ with
      | (.ok true, σ1) => rec body σ1
      | (.ok false, σ1) => evCasesF rec sv dflt rest σ1
      | (.error o, σ1) => (o, σ1)
    | _ => evCasesF rec sv dflt rest σ
  | _, σ => runDflt rec dflt σ

/-- call arguments, left to right; the first one that does not yield a value is the outcome -/
def evArgsF (rec : N → Env → Out × Env) : N → Env → Except Out (List V) × Env
  | .cons a as, σ =>
    match rec a σ with
    | (.val v, σ1) =>
      (match evArgsF rec as σ1 with
       | (.ok vs, σ2) => (.ok (v :: vs), σ2)
       | other => other)
    | (o, σ1) => (.error o, σ1)
  | _, σ => (.ok [], σ)

/-- one node, sub-nodes through `rec`, function application through `app` (open recursion:
    `ev` ties both knots on fuel).  `ls` = the local names of the running function. -/
def evNode (ls : List String) (fuel : Nat) (rec : N → Env → Out × Env)
    (app : V → List V → Store → Out × Store) (n : N) (σ : Env) : Out × Env :=
  match n with
  | .nilLit => (.val .nil, σ)
  | .none_ => (.val .nil, σ)
  | .int i => (.val (.int i), σ)
  | .bool b => (.val (.bool b), σ)
  | .str s => (.val (.str s), σ)
  | .id x => (.val (σ.get ls x), σ)
  | .infix op l r =>
    seqV (rec l σ) fun a σ1 =>
      if op = .and then
        (if a.truthy then seqV (rec r σ1) (fun b σ2 => (.val b, σ2)) else (.val a, σ1))
      else if op = .or then
        (if a.truthy then (.val a, σ1) else seqV (rec r σ1) (fun b σ2 => (.val b, σ2)))
      else seqV (rec r σ1) fun b σ2 => liftE (binopF op a b) σ2
  | .neg e =>
    seqV (rec e σ) fun v σ1 =>
      match v with
      | .int i => (.val (.int (wrap64 (-i))), σ1)
      | _ => (.err (.cls "type"), σ1)
  | .not e => seqV (rec e σ) fun v σ1 => (.val (.bool (!v.truthy)), σ1)
  | .tern c a b => seqV (rec c σ) fun v σ1 => if v.truthy then rec a σ1 else rec b σ1
  | .if_ c t e => seqV (rec c σ) fun v σ1 => if v.truthy then rec t σ1 else rec e σ1
  | .block s => rec s σ
  | .prog s => rec s σ
  | .expr e =>
    -- `func f(…) { … }`: the function is stored under its name (in the running code's scope)
    if isFuncLit e then (.unit, σ.set ls (funcName e) (.fn (funcName e))) else rec e σ
  | .nilL => (.val .nil, σ)
  | .cons h t =>
    if isNilL t then
      match rec h σ with
      | (.unit, σ1) => (.val .nil, σ1)
      | other => other
    else
      match rec h σ with
      | (.val _, σ1) => rec t σ1
      | (.unit, σ1) => rec t σ1
      | other => other
  | .var x e =>
    -- `g := func(…) { … }`: the function's identity is the name it is bound to
    if isFuncLit e then (.unit, σ.set ls x (.fn x))
    else seqV (rec e σ) fun v σ1 => (.unit, σ1.set ls x v)
  | .assign x op e =>
    seqV (rec e σ) fun v σ1 =>
      match applyF op (σ.get ls x) v with
      | .ok r => (.unit, σ1.set ls x r)
      | .error c => (.err (.cls c), σ1)
  | .postfix x inc =>
    match binopF .add (σ.get ls x) (.int (if inc then 1 else -1)) with
    | .ok r => (.unit, σ.set ls x r)
    | .error c => (.err (.cls c), σ)
  | .forcond c b => loopF (rec c) (rec b) (fun σ => (.unit, σ)) fuel σ
  | .forever b => loopF (fun σ => (.val (.bool true), σ)) (rec b) (fun σ => (.unit, σ)) fuel σ
  | .for3 i c p b =>
    match rec i σ with
    | (.unit, σ1) => loopF (rec c) (rec b) (rec p) fuel σ1
    | other => other
  | .break_ => (.brk, σ)
  | .continue_ => (.cont, σ)
  | .switch subj cases => seqV (rec subj σ) fun sv σ1 => evCasesF rec sv (dfltBody cases) cases σ1
  | .call fe args =>
    -- callee, then the arguments left to right, then the application: the callee sees the
    -- globals as they are after the arguments; the caller's locals are untouched by it
    seqV (rec fe σ) fun fv σ1 =>
      match evArgsF rec args σ1 with
      | (.ok vs, σ2) =>
        (match app fv vs σ2.glob with
         | (r, G) => (r, { loc := σ2.loc, glob := G }))
      | (.error o, σ2) => (o, σ2)
  | .return_ e =>
    -- never completes normally (an operand that is no value is what the compiler rejects)
    match rec e σ with
    | (.val v, σ1) => (.err (.ret v), σ1)
    | (.err x, σ1) => (.err x, σ1)
    | (.oof, σ1) => (.oof, σ1)
    | (_, σ1) => (.err (.cls "compile"), σ1)
  | _ => (.err (.cls "unsupported"), σ)

/-- the statements of a function body in order (`stmt` evaluates one statement): the value of
    the last statement when it is an expression statement, nil otherwise; a `return` (or an
    error) in any statement ends the body -/
def evBody (stmt : N → Env → Out × Env) : N → Env → Out × Env
  | .cons h t, σ =>
    match stmt h σ with
    | (.val v, σ1) => if isNilL t then (.val v, σ1) else evBody stmt t σ1
    | (.unit, σ1) => if isNilL t then (.val .nil, σ1) else evBody stmt t σ1
    | other => other
  | _, σ => (.val .nil, σ)

/-- apply a function value to argument values, given the globals; `evb ls` evaluates the
    statements of a function whose local names are `ls`.  A value that is not a function: class
    "type" (`callObject`); a wrong argument count: class "args" (`checkCallArgs`). -/
def applyFn (Φ : List FDecl) (evb : List String → N → Env → Out × Env) (fv : V) (vs : List V) (G : Store) :
    Out × Store :=
  match fv with
  | .fn g =>
    match findFun Φ g with
    | none => (.err (.cls "eval"), G)
    | some d =>
      match enterLoc d.name d.named d.params vs with
      | none => (.err (.cls "args"), G)
      | some L =>
        match evBody (evb d.ls) d.body { loc := L, glob := G } with
        | (.val v, σ) => (.val v, σ.glob)
        | (.err (.ret v), σ) => (.val v, σ.glob)
        | (.err (.cls c), σ) => (.err (.cls c), σ.glob)
        | (.oof, σ) => (.oof, σ.glob)
        | (_, σ) => (.err (.cls "compile"), σ.glob)
  | _ => (.err (.cls "type"), G)

/-- the reference semantics: every node costs one unit of fuel, and so does every call (the
    body's statements run with the fuel of the call node's sub-nodes) -/
def ev (Φ : List FDecl) : Nat → List String → N → Env → Out × Env
  | 0, _, _, σ => (.oof, σ)
  | f + 1, ls, n, σ => evNode ls f (ev Φ f ls) (applyFn Φ (ev Φ f)) n σ

/-- a whole program from the empty stores; the final GLOBALS.  (A `return` at the top level —
    which the real compiler rejects, see `inFun` — ends the program with that value.) -/
def evalFun (fuel : Nat) (p : N) : Out × Store :=
  match ev (funsOf p) fuel [] p { loc := [], glob := [] } with
  | (.err (.ret v), σ) => (.val v, σ.glob)
  | (r, σ) => (r, σ.glob)

/-! ### target: slots, instructions, the functional compiler -/

inductive FIns where
  | nop | nil_ | true_ | false_ | popTop | unaryNeg | unaryNot
  | constInt (i : Int) | constStr (s : String)        -- LoadConst k, the constant inline
  | constFn (g : String)                              -- LoadConst k, k = the function constant of `g`
  | loadG (x : String) | storeG (x : String)          -- LoadGlobal / StoreGlobal, by name
  | loadF (x : String) | storeF (x : String)          -- LoadFast / StoreFast, by name
  | binary (k : Nat) | compare (k : Nat) | copy (k : Nat) | swap (k : Nat)
  | jf (d : Nat) | jb (d : Nat) | pjf (d : Nat) | pjt (d : Nat)
  | call (n : Nat) | ret                              -- Call n / ReturnValue
  deriving Repr, DecidableEq, Inhabited

abbrev Code := List (Option FIns)

def one (i : FIns) : Code := [some i]
def two (i : FIns) : Code := [some i, none]

def opIns : BinOp → FIns
  | .add => .binary 1 | .sub => .binary 2 | .mul => .binary 3 | .div => .binary 4 | .mod => .binary 5
  | .and => .binary 6 | .or => .binary 7
  | .pow => .binary 9 | .lshift => .binary 10 | .rshift => .binary 11 | .bitand => .binary 12
  | .lt => .compare 1 | .le => .compare 2 | .eq => .compare 3 | .ne => .compare 4
  | .gt => .compare 5 | .ge => .compare 6

/-- `compileIdent` / `compileAssign`: the resolution's scope picks the opcode -/
def loadV (ls : List String) (x : String) : FIns := if ls.contains x then .loadF x else .loadG x
def storeV (ls : List String) (x : String) : FIns := if ls.contains x then .storeF x else .storeG x

def pre (ls : List String) (h : N) : Code :=
  match postName h with
  | some x => two (loadV ls x) ++ one .popTop
  | none => []

def preLen (h : N) : Nat :=
  match postName h with
  | some _ => 3
  | none => 0

mutual
def size : N → Nat
  | .nilLit | .none_ | .nilL | .bool _ => 1
  | .int _ | .str _ | .id _ | .break_ | .continue_ => 2
  | .infix op l r => if op = .and ∨ op = .or then size l + size r + 7 else size l + size r + 2
  | .neg e | .not e => size e + 1
  | .tern c a b | .if_ c a b => size c + size a + size b + 4
  | .block s | .prog s => size s
  | .expr e => if isFuncLit e then 7 else size e
  | .cons h t =>
    preLen h + size h +
      (if isNilL t then (if leaves h then 0 else 1) else (if leaves h then 1 else 0) + size t)
  | .var _ e => if isFuncLit e then 4 else size e + 2
  | .assign _ op e => if op = .set then size e + 2 else size e + 6
  | .postfix _ _ => 8
  | .forcond c b => size c + size b + 6
  | .forever b => size b + 4
  | .for3 i c p b => size i + size c + size b + (size p + (if leaves p then 1 else 0)) + 5
  | .switch subj cases => size subj + cmpLen cases + 2 + bodiesLen cases + defLen cases + 3
  | .call f args => size f + argsLen args + 2
  | .return_ e => size e + 1
  | _ => 0
def valsLen : N → Nat
  | .cons v vs => size v + 6 + valsLen vs
  | _ => 0
def caseCmpLen : N → Nat
  | .case_ vals _ => valsLen vals
  | _ => 0
def cmpLen : N → Nat
  | .cons h t => caseCmpLen h + cmpLen t
  | _ => 0
def caseBodyLen : N → Nat
  | .case_ _ body => size body + 2
  | _ => 0
def bodiesLen : N → Nat
  | .cons h t => caseBodyLen h + bodiesLen t
  | _ => 0
def dfltBodyLen : N → Nat
  | .default_ body => size body
  | _ => 0
def defLen : N → Nat
  | .cons h t => if isDefault h then dfltBodyLen h else defLen t
  | _ => 1
/-- the code of call arguments: one after the other -/
def argsLen : N → Nat
  | .cons a as => size a + argsLen as
  | _ => 0
end

mutual
/-- `comp ls kb kc n`: the code of `n` inside a code object whose own names are `ls`, when the
    enclosing loop's `break` target lies `kb` slots and its `continue` target `kc` slots after
    the END of `n`'s code (see `Frag.comp`) -/
def comp (ls : List String) (kb kc : Nat) : N → Code
  | .nilLit => one .nil_
  | .none_ => one .nil_
  | .int i => two (.constInt i)
  | .bool b => one (if b then .true_ else .false_)
  | .str s => two (.constStr s)
  | .id x => two (loadV ls x)
  | .infix op l r =>
    if op = .and then
      comp ls 0 0 l ++ two (.copy 0) ++ two (.pjf (size r + 5)) ++ comp ls 0 0 r ++ two (.binary 6) ++ one .nop
    else if op = .or then
      comp ls 0 0 l ++ two (.copy 0) ++ two (.pjt (size r + 5)) ++ comp ls 0 0 r ++ two (.binary 7) ++ one .nop
    else comp ls 0 0 l ++ comp ls 0 0 r ++ two (opIns op)
  | .neg e => comp ls 0 0 e ++ one .unaryNeg
  | .not e => comp ls 0 0 e ++ one .unaryNot
  | .tern c a b =>
    comp ls 0 0 c ++ two (.pjf (size a + 4)) ++ comp ls (kb + (size b + 2)) (kc + (size b + 2)) a
      ++ two (.jf (size b + 2)) ++ comp ls kb kc b
  | .if_ c t e =>
    comp ls 0 0 c ++ two (.pjf (size t + 4)) ++ comp ls (kb + (size e + 2)) (kc + (size e + 2)) t
      ++ two (.jf (size e + 2)) ++ comp ls kb kc e
  | .block s => comp ls kb kc s
  | .prog s => comp ls kb kc s
  | .expr e =>
    -- `compileFunc` for a named function: constant, `Copy 0`, store under the name; the copy is
    -- what `leavesValue` makes the statement list pop
    if isFuncLit e then
      two (.constFn (funcName e)) ++ two (.copy 0) ++ two (storeV ls (funcName e)) ++ one .popTop
    else comp ls kb kc e
  | .nilL => one .nil_
  | .cons h t =>
    pre ls h ++
      (if isNilL t then
        comp ls (kb + (if leaves h then 0 else 1)) (kc + (if leaves h then 0 else 1)) h
          ++ (if leaves h then [] else one .nil_)
       else
        comp ls (kb + ((if leaves h then 1 else 0) + size t)) (kc + ((if leaves h then 1 else 0) + size t)) h
          ++ ((if leaves h then one .popTop else []) ++ comp ls kb kc t))
  | .var x e =>
    if isFuncLit e then two (.constFn x) ++ two (storeV ls x)
    else comp ls 0 0 e ++ two (storeV ls x)
  | .assign x op e =>
    if op = .set then comp ls 0 0 e ++ two (storeV ls x)
    else two (loadV ls x) ++ comp ls 0 0 e ++ two (.binary (assignK op)) ++ two (storeV ls x)
  | .postfix x inc =>
    two (loadV ls x) ++ two (.constInt (if inc then 1 else -1)) ++ two (.binary 1) ++ two (storeV ls x)
  | .break_ => two (.jf (kb + 2))
  | .continue_ => two (.jf (kc + 2))
  | .forcond c b =>
    comp ls 0 0 c ++ two (.pjf (size b + 6)) ++ comp ls 3 1 b ++ one .popTop
      ++ two (.jb (size c + size b + 3)) ++ one .nop
  | .forever b => comp ls 3 1 b ++ one .popTop ++ two (.jb (size b + 1)) ++ one .nop
  | .for3 i c p b =>
    comp ls 0 0 i ++ comp ls 0 0 c
      ++ two (.pjf (size b + (size p + (if leaves p then 1 else 0)) + 5))
      ++ comp ls ((size p + (if leaves p then 1 else 0)) + 3) 1 b ++ one .popTop
      ++ comp ls 0 0 p ++ (if leaves p then one .popTop else [])
      ++ two (.jb (size c + size b + (size p + (if leaves p then 1 else 0)) + 3))
  | .switch subj cases =>
    comp ls 0 0 subj ++ compCmp ls 0 cases ++ two (.jf (bodiesLen cases + 2)) ++ compBodies ls (defLen cases) cases
      ++ compDflt ls cases ++ two (.swap 1) ++ one .popTop
  | .call f args =>
    -- `compileCall`: the callee, the arguments in order, `Call argc`
    comp ls 0 0 f ++ compArgs ls args ++ two (.call (argCount args))
  | .return_ e =>
    -- `compileReturn`: the value (`Nil` for a bare return), `ReturnValue`
    comp ls 0 0 e ++ one .ret
  | _ => []
def compVals (ls : List String) (k : Nat) : N → Code
  | .cons v vs =>
    two (.copy 0) ++ comp ls 0 0 v ++ two (.compare 3) ++ two (.pjt (valsLen vs + k + 2)) ++ compVals ls k vs
  | _ => []
def compCmpCase (ls : List String) (k : Nat) : N → Code
  | .case_ vals _ => compVals ls k vals
  | _ => []
def compCmp (ls : List String) (before : Nat) : N → Code
  | .cons h t => compCmpCase ls (cmpLen t + 2 + before) h ++ compCmp ls (before + caseBodyLen h) t
  | _ => []
def compBody (ls : List String) (a : Nat) : N → Code
  | .case_ _ body => comp ls 0 0 body ++ two (.jf (a + 2))
  | _ => []
def compBodies (ls : List String) (d : Nat) : N → Code
  | .cons h t => compBody ls (bodiesLen t + d) h ++ compBodies ls d t
  | _ => []
def compDfltBody (ls : List String) : N → Code
  | .default_ body => comp ls 0 0 body
  | _ => []
def compDflt (ls : List String) : N → Code
  | .cons h t => if isDefault h then compDfltBody ls h else compDflt ls t
  | _ => one .nil_
def compArgs (ls : List String) : N → Code
  | .cons a as => comp ls 0 0 a ++ compArgs ls as
  | _ => []
end

def isReturn : N → Bool
  | .return_ _ => true
  | _ => false

/-- `compileFunctionBlock` over `normalizeFunctionBlock`: the statements up to and including the
    first top-level `return`; without one, the last expression statement is returned, and `nil`
    when the last statement is no expression (or the body is empty) -/
def compFnStmts (ls : List String) : N → Code
  | .cons h t =>
    if isReturn h then comp ls 0 0 h
    else if isNilL t then
      pre ls h ++ comp ls 0 0 h ++ (if leaves h then one .ret else one .nil_ ++ one .ret)
    else
      pre ls h ++ comp ls 0 0 h ++ (if leaves h then one .popTop else []) ++ compFnStmts ls t
  | _ => one .nil_ ++ one .ret

/-- a compiled function -/
structure FunCode where
  name : String
  named : Bool
  params : List (String × Option V)
  code : Code
  deriving Repr, Inhabited

structure Prog where
  main : Code
  funs : List FunCode
  deriving Repr, Inhabited

def compDecl (d : FDecl) : FunCode :=
  { name := d.name, named := d.named, params := d.params, code := compFnStmts d.ls d.body }

/-- every code object of a program: the main code and one per declared function -/
def compFun (p : N) : Prog := { main := comp [] 0 0 p, funs := (funsOf p).map compDecl }

def Prog.find (P : Prog) (g : String) : Option FunCode := P.funs.find? (·.name == g)

/-- the code object with the given id (`none` = the main code) -/
def Prog.codeOf (P : Prog) : Option String → Code
  | none => P.main
  | some g =>
    match P.find g with
    | some fc => fc.code
    | none => []

/-! ### the VM restricted to these opcodes (shape of `VM.step`) -/

/-- the running activation: position, operand stack (top first), variables -/
structure Cfg where
  pc : Nat
  stk : List V
  σ : Env
  deriving Repr

/-- a suspended caller: its code object, the return address, its operand stack below the callee
    and the arguments, its locals (`frame.returnAddr`, `returnSp`, `locals`) -/
structure Frame where
  fn : Option String
  pc : Nat
  stk : List V
  loc : Store
  deriving Repr

/-- the whole machine: the running activation, its code object, the suspended callers
    (innermost first) -/
structure M where
  cfg : Cfg
  fn : Option String
  frames : List Frame
  deriving Repr

inductive Halt where
  | done (v : V)          -- end of the main code: the result is the top of the stack
  | err (cls : String)
  | nonlocal              -- `Call` / `ReturnValue`: not an instruction of one activation (see `mstep`)
  deriving Repr, DecidableEq

def execIns (i : FIns) (c : Cfg) : Except Halt Cfg :=
  match i, c.stk with
  | .nop, _ => .ok { c with pc := c.pc + 1 }
  | .nil_, s => .ok { c with pc := c.pc + 1, stk := .nil :: s }
  | .true_, s => .ok { c with pc := c.pc + 1, stk := .bool true :: s }
  | .false_, s => .ok { c with pc := c.pc + 1, stk := .bool false :: s }
  | .constInt k, s => .ok { c with pc := c.pc + 2, stk := .int k :: s }
  | .constStr k, s => .ok { c with pc := c.pc + 2, stk := .str k :: s }
  | .constFn g, s => .ok { c with pc := c.pc + 2, stk := .fn g :: s }
  | .loadG x, s => .ok { c with pc := c.pc + 2, stk := c.σ.glob.get x :: s }
  | .storeG x, v :: s => .ok { pc := c.pc + 2, stk := s, σ := { c.σ with glob := c.σ.glob.set x v } }
  | .loadF x, s => .ok { c with pc := c.pc + 2, stk := c.σ.loc.get x :: s }
  | .storeF x, v :: s => .ok { pc := c.pc + 2, stk := s, σ := { c.σ with loc := c.σ.loc.set x v } }
  | .binary k, b :: a :: s =>
    match vBinaryF k a b with
    | .ok v => .ok { c with pc := c.pc + 2, stk := v :: s }
    | .error e => .error (.err e)
  | .compare k, b :: a :: s =>
    match vCompareF k a b with
    | .ok v => .ok { c with pc := c.pc + 2, stk := v :: s }
    | .error e => .error (.err e)
  | .unaryNeg, v :: s =>
    match v with
    | .int k => .ok { c with pc := c.pc + 1, stk := .int (wrap64 (-k)) :: s }
    | _ => .error (.err "type")
  | .unaryNot, v :: s => .ok { c with pc := c.pc + 1, stk := .bool (!v.truthy) :: s }
  | .popTop, _ :: s => .ok { c with pc := c.pc + 1, stk := s }
  | .copy k, s =>
    match s[k]? with
    | some v => .ok { c with pc := c.pc + 2, stk := v :: s }
    | none => .error (.err "panic")
  | .swap k, top :: s =>
    if k == 0 then .ok { c with pc := c.pc + 2 }
    else
      match s[k - 1]? with
      | some other => .ok { c with pc := c.pc + 2, stk := other :: s.set (k - 1) top }
      | none => .error (.err "panic")
  | .jf d, _ => .ok { c with pc := c.pc + d }
  | .jb d, _ => .ok { c with pc := c.pc - d }
  | .pjf d, v :: s => .ok { c with pc := if v.truthy then c.pc + 2 else c.pc + d, stk := s }
  | .pjt d, v :: s => .ok { c with pc := if v.truthy then c.pc + d else c.pc + 2, stk := s }
  | .call _, _ => .error .nonlocal
  | .ret, _ => .error .nonlocal
  | _, _ => .error (.err "panic")        -- stack underflow

/-- one instruction of the running activation, seen from inside it -/
def step (code : Code) (c : Cfg) : Except Halt Cfg :=
  if c.pc ≥ code.length then .error (.done (c.stk.headD .nil))
  else
    match code[c.pc]? with
    | some (some i) => execIns i c
    | _ => .error (.err "eval")

/-- `Call n` (`callObject` / `callFunction`): the arguments and the callee leave the caller's
    stack, the caller is suspended, the callee starts at 0 with an empty stack and fresh locals -/
def doCall (P : Prog) (n : Nat) (m : M) : Except Halt M :=
  match m.cfg.stk.drop n with
  | fv :: rest =>
    match fv with
    | .fn g =>
      match P.find g with
      | none => .error (.err "eval")
      | some fc =>
        match enterLoc fc.name fc.named fc.params ((m.cfg.stk.take n).reverse) with
        | none => .error (.err "args")
        | some L =>
          .ok { cfg := { pc := 0, stk := [], σ := { loc := L, glob := m.cfg.σ.glob } }, fn := some g,
                frames := { fn := m.fn, pc := m.cfg.pc + 2, stk := rest, loc := m.cfg.σ.loc } :: m.frames }
    | _ => .error (.err "type")
  | [] => .error (.err "panic")

/-- `ReturnValue` (`resumeFrame`): the caller resumes after its `Call` with the result pushed;
    whatever else the callee left on its stack is dropped.  With no caller (the main code, where
    the real compiler rejects `return`) the machine halts with the value. -/
def doRet (m : M) : Except Halt M :=
  match m.cfg.stk, m.frames with
  | v :: _, fr :: fs =>
    .ok { cfg := { pc := fr.pc, stk := v :: fr.stk, σ := { loc := fr.loc, glob := m.cfg.σ.glob } }, fn := fr.fn, frames := fs }
  | v :: _, [] => .error (.done v)
  | [], _ => .error (.err "panic")

/-- one step of the machine -/
def mstep (P : Prog) (m : M) : Except Halt M :=
  match (P.codeOf m.fn)[m.cfg.pc]? with
  | some (some (.call n)) => doCall P n m
  | some (some .ret) => doRet m
  | _ =>
    match step (P.codeOf m.fn) m.cfg with
    | .ok c => .ok { m with cfg := c }
    | .error (.done v) => if m.frames.isEmpty then .error (.done v) else .error (.err "eval")
    | .error h => .error h

inductive RunRes where
  | running
  | done (v : V)
  | err (cls : String)
  deriving Repr, DecidableEq

/-- run with a step budget; the result and the final globals -/
def mrun (P : Prog) : Nat → M → RunRes × Store
  | 0, m => (.running, m.cfg.σ.glob)
  | k + 1, m =>
    match mstep P m with
    | .ok m' => mrun P k m'
    | .error (.done v) => (.done v, m.cfg.σ.glob)
    | .error (.err e) => (.err e, m.cfg.σ.glob)
    | .error .nonlocal => (.err "eval", m.cfg.σ.glob)

def M.init : M := { cfg := { pc := 0, stk := [], σ := { loc := [], glob := [] } }, fn := none, frames := [] }

/-- run a compiled program: main code from pc 0, empty stack, empty stores, no callers -/
def runFun (fuel : Nat) (P : Prog) : RunRes × Store := mrun P fuel M.init

/-! ### scoping: the decidable conditions under which the flat stores are an exact model of the
    compiler's symbol tables (needed by the LINKS to `Sem.lean` / `Compile.lean`, not by the
    theorems: `ev` and the machine resolve names in the same way) -/

mutual
/-- uses are in scope.  `ls` = the own names of the code object, `lenv` = those of them in scope
    here, `genv` = the global names visible here, `consts` = named functions (not assignable) -/
def scopeOK (ls lenv genv consts : List String) : N → Bool
  | .id x => lenv.contains x || (!ls.contains x && genv.contains x)
  | .infix _ l r => scopeOK ls lenv genv consts l && scopeOK ls lenv genv consts r
  | .neg e | .not e | .block e | .prog e | .return_ e => scopeOK ls lenv genv consts e
  | .expr e => isFuncLit e || scopeOK ls lenv genv consts e
  | .var _ e => isFuncLit e || scopeOK ls lenv genv consts e
  | .tern c a b | .if_ c a b =>
    scopeOK ls lenv genv consts c && scopeOK ls lenv genv consts a && scopeOK ls lenv genv consts b
  | .assign x _ e =>
    (lenv.contains x || (!ls.contains x && genv.contains x)) && !consts.contains x && scopeOK ls lenv genv consts e
  | .postfix x _ => (lenv.contains x || (!ls.contains x && genv.contains x)) && !consts.contains x
  | .cons h t =>
    scopeOK ls lenv genv consts h &&
      scopeOK ls (if ls.isEmpty then lenv else declOf h ++ lenv) (if ls.isEmpty then declOf h ++ genv else genv) consts t
  | .forcond c b => scopeOK ls lenv genv consts c && scopeOK ls lenv genv consts b
  | .forever b => scopeOK ls lenv genv consts b
  | .for3 i c p b =>
    scopeOK ls lenv genv consts i &&
      scopeOK ls (if ls.isEmpty then lenv else declOf i ++ lenv) (if ls.isEmpty then declOf i ++ genv else genv) consts c &&
      scopeOK ls (if ls.isEmpty then lenv else declOf i ++ lenv) (if ls.isEmpty then declOf i ++ genv else genv) consts p &&
      scopeOK ls (if ls.isEmpty then lenv else declOf i ++ lenv) (if ls.isEmpty then declOf i ++ genv else genv) consts b
  | .switch subj cases => scopeOK ls lenv genv consts subj && scopeCases ls lenv genv consts cases
  | .call f args => scopeOK ls lenv genv consts f && scopeVals ls lenv genv consts args
  | _ => true
def scopeVals (ls lenv genv consts : List String) : N → Bool
  | .cons v vs => scopeOK ls lenv genv consts v && scopeVals ls lenv genv consts vs
  | _ => true
def scopeCase (ls lenv genv consts : List String) : N → Bool
  | .case_ vals body => scopeVals ls lenv genv consts vals && scopeOK ls lenv genv consts body
  | .default_ body => scopeOK ls lenv genv consts body
  | _ => true
def scopeCases (ls lenv genv consts : List String) : N → Bool
  | .cons h t => scopeCase ls lenv genv consts h && scopeCases ls lenv genv consts t
  | _ => true
end

/-- named functions of the program, in order (`collectFunctionDeclarations`) -/
def namedFuns (p : N) : List String := ((funsOf p).filter (·.named)).map (·.name)

/-- function literals occur only as whole top-level statements -/
def noFuncInside : N → Bool
  | .func _ _ _ => false
  | .infix _ l r => noFuncInside l && noFuncInside r
  | .neg e | .not e | .expr e | .block e | .prog e | .var _ e | .assign _ _ e | .forever e | .return_ e
  | .default_ e => noFuncInside e
  | .tern c a b | .if_ c a b => noFuncInside c && noFuncInside a && noFuncInside b
  | .cons h t | .forcond h t | .switch h t | .call h t | .case_ h t => noFuncInside h && noFuncInside t
  | .for3 i c p b => noFuncInside i && noFuncInside c && noFuncInside p && noFuncInside b
  | _ => true

/-- a `return` occurs in the node (function bodies are not entered) -/
def hasReturn : N → Bool
  | .return_ _ => true
  | .infix _ l r => hasReturn l || hasReturn r
  | .neg e | .not e | .expr e | .block e | .prog e | .var _ e | .assign _ _ e | .forever e | .default_ e => hasReturn e
  | .tern c a b | .if_ c a b => hasReturn c || hasReturn a || hasReturn b
  | .cons h t | .forcond h t | .switch h t | .call h t | .case_ h t => hasReturn h || hasReturn t
  | .for3 i c p b => hasReturn i || hasReturn c || hasReturn p || hasReturn b
  | _ => false

/-- parameters: decodable (literal defaults), defaults only on trailing parameters -/
def paramsOK (ps : N) : Bool :=
  ps.toList.all (fun q => (paramOf q).isSome) &&
    (let ds := (paramsOf ps).map (·.2.isSome)
     (ds.dropWhile (· == false)).all (· == true))

/-- one top-level statement: a function declaration whose body is a well-formed, well-scoped
    function body, or a statement of the fragment without function literals inside -/
def topOK (genvFor : List String) (consts : List String) (h : N) : Bool :=
  match declOfStmt h with
  | some d =>
    (match h with
     | .expr (.func _ ps (.block _)) | .var _ (.func _ ps (.block _)) => paramsOK ps
     | _ => false) &&
    wfBody d.body && noFuncInside d.body && nodup d.ls &&
      scopeOK d.ls (d.params.map (·.1) ++ (if d.named then [d.name] else [])) genvFor consts d.body
  | none => noFuncInside h && !hasReturn h

/-- the name a top-level statement makes visible to the statements after it besides `declOf`: a
    named function -/
def fnameOf (h : N) : List String :=
  match declOfStmt h with
  | some d => if d.named then [d.name] else []
  | none => []

/-- the statements of the main code, left to right; `genv` = the global names visible so far -/
def topsOK (consts : List String) : List String → List N → Bool
  | _, [] => true
  | genv, h :: t =>
    -- a function bound by `g := func…` does not see `g` in its own body (compileVar inserts the
    -- name after the value is compiled); a named function sees itself through its self slot
    topOK genv consts h && scopeOK [] [] genv consts h && topsOK consts (declOf h ++ fnameOf h ++ genv) t

/-- the identifiers a node uses (function literals are entered: the names their bodies use) -/
def idsOf : N → List String
  | .id x => [x]
  | .infix _ l r => idsOf l ++ idsOf r
  | .neg e | .not e | .expr e | .block e | .prog e | .var _ e | .forever e | .return_ e
  | .default_ e => idsOf e
  | .assign x _ e => x :: idsOf e
  | .postfix x _ => [x]
  | .tern c a b | .if_ c a b => idsOf c ++ idsOf a ++ idsOf b
  | .cons h t | .forcond h t | .switch h t | .call h t | .case_ h t => idsOf h ++ idsOf t
  | .for3 i c p b => idsOf i ++ idsOf c ++ idsOf p ++ idsOf b
  | .func _ _ b => idsOf b
  | _ => []

/-- the functions that may run when a node runs: those it names, those their bodies name, … -/
def reach (Φ : List FDecl) : Nat → List String → List String
  | 0, S => S
  | k + 1, S =>
    reach Φ k (S ++ (Φ.filter (fun d => S.contains d.name)).flatMap (fun d => (idsOf d.body).filter (fun x => !S.contains x)))

/-- no named function can be reached before its declaration has run: `D` = the named functions
    declared so far.  (The global of a pre-declared function holds a Go nil until then; using it
    is a recovered Go panic in the real VM, not the `nil` value — outside the model.) -/
def initOK (Φ : List FDecl) (named : List String) : List String → List N → Bool
  | _, [] => true
  | D, h :: t =>
    (match declOfStmt h with
     | some _ => true
     | none => (reach Φ Φ.length (idsOf h)).all (fun x => !named.contains x || D.contains x)) &&
    initOK Φ named (fnameOf h ++ D) t

/-- every function body of the program is a well-formed function body (this, with `wf p`, is all
    the THEOREMS need; the rest of `inFun` is what the LINKS to the real compiler need) -/
def bodiesWF (p : N) : Bool := (funsOf p).all (fun d => wfBody d.body)

/-- the SHAPE of the fragment — all the theorems need: a program whose nodes are `wf` and whose
    function bodies are well-formed function bodies -/
def inFunShape (p : N) : Bool :=
  match p with
  | .prog _ => wf p && bodiesWF p
  | _ => false

/-- **the fragment**: a program of the shape `wf` whose function literals are whole top-level
    statements with well-formed bodies; every code object declares each of its names once
    (parameters, self slot and `:=` declarations of a function; `:=` declarations and function
    names of the main code); every use is in scope — named functions are visible everywhere
    (`collectFunctionDeclarations`: forward references and mutual recursion), other globals after
    their declaration —, and no named function can be reached before its declaration statement has
    run (`initOK`); named functions are not assigned to; no `return` in the main code -/
def inFun (p : N) : Bool :=
  match p with
  | .prog s =>
    wf p && bodiesWF p && nodup (namedFuns p ++ decls p) && topsOK (namedFuns p) (namedFuns p) s.toList &&
      initOK (funsOf p) (namedFuns p) [] s.toList
  | _ => false

/-- the same with purely lexical visibility (a named function is visible from its declaration
    on): the programs on which `Sem.lean`, which binds a function's name at its declaration, can be
    compared (link B) -/
def inFunLex (p : N) : Bool :=
  match p with
  | .prog s => inFun p && topsOK (namedFuns p) [] s.toList
  | _ => false

end Risor.C01.Fun
