import RisorModel.C01.Clo
/-
C01, closure fragment — the machine AS THE REAL VM KEEPS ITS LOCALS (`vm/frame.go`): a frame's
locals live IN THE FRAME (`frame.storage` / `locals`) until the first `MakeCell` of its activation;
`frame.CaptureLocals` then copies them into a fresh heap slice, redirects the frame's `locals` to
that slice, and the cell points into it; from then on `LoadFast` / `StoreFast` of that activation go
to the heap slice, so the frame and every cell see one storage.  When a frame that never captured
returns, its locals are gone (the frame slot is reused); a captured slice stays on the heap for as
long as a cell points into it.

`M2` is `Clo.lean`'s machine `M` with exactly that difference: `M` puts every activation's locals
slice on the heap when the activation starts.  `CloVMLemmas.lean` proves that the two machines run
in LOCKSTEP under the relation `Rel` below — THE RELATION BETWEEN THE SEMANTICS' CELLS AND THE
MACHINE'S CELLS — and `CloProps.lean` composes that with `clo_simulation`.
Core Lean only.
-/
namespace Risor.C01.Clo
open Risor.C01

/-- where a frame keeps its locals: in the frame (`loc`) while `cap = false`; after
    `CaptureLocals` (`cap = true`) in the heap slice of its activation, and `loc` is dead -/
structure Loc where
  loc : Store
  cap : Bool
  deriving Repr

/-- the machine with relocation.  `m` is the skeleton shared with `M` (position, operand stack,
    running activation, globals, counter, suspended frames); `m.cfg.σ.sh.cells` is the HEAP: it
    holds the slices of the activations in `caps` only. -/
structure M2 where
  m : M
  cur : Loc                 -- the running frame's locals
  frs : List Loc            -- the suspended frames' locals (parallel to `m.frames`)
  caps : List Nat           -- the activations whose locals have been captured (the heap's slices)
  deriving Repr

def M2.heap (s : M2) : Cells := s.m.cfg.σ.sh.cells
def M2.id (s : M2) : Nat := s.m.cfg.σ.act.id

/-- the content of local `x` of the activation `a` whose frame storage is `l` -/
def view (h : Cells) (l : Loc) (a : Nat) (x : String) : V := if l.cap then h.get a x else l.loc.get x

def M2.setCfg (s : M2) (c : Cfg) : M2 := { s with m := { s.m with cfg := c } }

def Cfg.withCells (c : Cfg) (h : Cells) : Cfg := { c with σ := { c.σ with sh := { c.σ.sh with cells := h } } }

/-- `frame.CaptureLocals`: the first time, copy the frame's locals to a new heap slice -/
def M2.capture (s : M2) : M2 :=
  if s.cur.cap then s
  else { m := { s.m with cfg := s.m.cfg.withCells (s.heap.bind s.id s.cur.loc) },
         cur := { s.cur with cap := true }, frs := s.frs, caps := s.id :: s.caps }

/-- `Call n`: as `doCall`, but the callee's initial locals go into ITS FRAME, not to the heap -/
def doCall2 (P : Prog) (n : Nat) (s : M2) : Except Halt M2 :=
  match s.m.cfg.stk.drop n with
  | fv :: rest =>
    match fv.callee with
    | some (g, cs) =>
      match P.find g with
      | none => .error (.err "eval")
      | some fc =>
        match enterLoc fv fc.name fc.named fc.params ((s.m.cfg.stk.take n).reverse) with
        | none => .error (.err "args")
        | some L =>
          .ok { m := { cfg := { pc := 0, stk := [],
                                σ := { act := ⟨s.m.cfg.σ.sh.next, cs⟩,
                                       sh := { s.m.cfg.σ.sh with next := s.m.cfg.σ.sh.next + 1 } } },
                       fn := some g,
                       frames := { fn := s.m.fn, pc := s.m.cfg.pc + 2, stk := rest, act := s.m.cfg.σ.act } :: s.m.frames },
                cur := ⟨L, false⟩, frs := s.cur :: s.frs, caps := s.caps }
    | none => .error (.err "type")
  | [] => .error (.err "panic")

/-- `ReturnValue`: the running frame's own storage is dropped with the frame -/
def doRet2 (s : M2) : Except Halt M2 :=
  match s.m.cfg.stk, s.m.frames, s.frs with
  | v :: _, fr :: fs, l :: ls =>
    .ok { m := { cfg := { pc := fr.pc, stk := v :: fr.stk, σ := { act := fr.act, sh := s.m.cfg.σ.sh } }, fn := fr.fn, frames := fs },
          cur := l, frs := ls, caps := s.caps }
  | v :: _, [], _ => .error (.done v)
  | _, _, _ => .error (.err "panic")

/-- one step: `LoadFast` / `StoreFast` go to the frame or to its heap slice, `MakeCell` captures
    first; every other instruction is `mstep`'s on the skeleton (`LoadFree` / `StoreFree` go
    through the cell into the heap) -/
def mstep2 (P : Prog) (s : M2) : Except Halt M2 :=
  match (P.codeOf s.m.fn)[s.m.cfg.pc]? with
  | some (some (.loadF x)) =>
    .ok (s.setCfg { s.m.cfg with pc := s.m.cfg.pc + 2, stk := view s.heap s.cur s.id x :: s.m.cfg.stk })
  | some (some (.storeF x)) =>
    match s.m.cfg.stk with
    | v :: r =>
      if s.cur.cap then .ok (s.setCfg ({ s.m.cfg with pc := s.m.cfg.pc + 2, stk := r }.withCells (s.heap.set s.id x v)))
      else .ok { s.setCfg { s.m.cfg with pc := s.m.cfg.pc + 2, stk := r } with cur := { s.cur with loc := s.cur.loc.set x v } }
    | [] => .error (.err "panic")
  | some (some (.makeCell x)) =>
    .ok (s.capture.setCfg { s.capture.m.cfg with pc := s.m.cfg.pc + 3, stk := .cell s.id x :: s.m.cfg.stk })
  | some (some (.call n)) => doCall2 P n s
  | some (some .ret) => doRet2 s
  | _ =>
    match mstep P s.m with
    | .ok m' => .ok { s with m := m' }
    | .error h => .error h

/-- run with a step budget; the result and the final globals -/
def mrun2 (P : Prog) : Nat → M2 → RunRes × Store
  | 0, s => (.running, s.m.cfg.σ.sh.glob)
  | k + 1, s =>
    match mstep2 P s with
    | .ok s' => mrun2 P k s'
    | .error (.done v) => (.done v, s.m.cfg.σ.sh.glob)
    | .error (.err e) => (.err e, s.m.cfg.σ.sh.glob)
    | .error .nonlocal => (.err "eval", s.m.cfg.σ.sh.glob)

/-- the main code's frame: no locals; its (empty) slice counts as captured, so that the default
    cell of `Act.cellOf` is a heap cell -/
def M2.init : M2 := { m := M.init, cur := ⟨[], true⟩, frs := [], caps := [0] }

/-- run a compiled program on the machine with relocation -/
def runCloVM (fuel : Nat) (P : Prog) : RunRes × Store := mrun2 P fuel M2.init

/-! ### the relation between the cells of the semantics (= of `M`) and the relocating machine's -/

/-- a value mentions only cells of captured activations -/
def okV (caps : List Nat) : V → Prop
  | .cell b _ => b ∈ caps
  | .clo _ _ cs => ∀ c ∈ cs, c.1 ∈ caps
  | _ => True

def okL (caps : List Nat) (l : List V) : Prop := ∀ v ∈ l, okV caps v
def okS (caps : List Nat) (s : Store) : Prop := ∀ e ∈ s, okV caps e.2
def okA (caps : List Nat) (a : Act) : Prop := ∀ c ∈ a.fv, c.1 ∈ caps

/-- the suspended frames, pairwise: the semantics' cells of the frame's activation are what the
    frame's storage (frame or heap slice) holds; the frame is captured iff its slice exists -/
def Sus (c1 h : Cells) (caps : List Nat) : List Frame → List Loc → Prop
  | [], [] => True
  | fr :: fs, l :: ls =>
    (∀ x, c1.get fr.act.id x = view h l fr.act.id x) ∧ (l.cap = true ↔ fr.act.id ∈ caps) ∧
      okS caps l.loc ∧ okL caps fr.stk ∧ okA caps fr.act ∧ Sus c1 h caps fs ls
  | _, _ => False

/-- **The store relation.**  `m1` is a state of the machine `M`, whose store IS the semantics'
    store (`clo_simulation`): every variable `x` of every activation `a` is the cell
    `m1.cfg.σ.sh.cells (a, x)`.  `s` is a state of the machine with relocation.  They are related
    when they agree on everything but the cells (code position, operand stack, running activation
    and closure, globals, counter, suspended frames), and
    * `run`, `sus`: for the running and for every suspended activation `a`, the semantics' cell
      `(a, x)` holds what the frame's storage of `x` holds — the frame itself before the capture,
      the heap slice `(a, ·)` after it;
    * `heap`: for every captured activation `a` — running, suspended or RETURNED — the semantics'
      cell `(a, x)` holds what the heap slice holds: the cells of closures are these;
    * nothing is claimed about the semantics' cells of returned activations that never captured:
      the real machine has dropped them, and nothing can reach them (`ok…`: every cell on the
      operand stacks, in variables, in closures and in the heap points into a captured slice);
    * bookkeeping: a frame is marked captured iff its slice exists, serial numbers of live
      activations are distinct and, like those of the slices, below the counter, cells of
      activations not yet started are unwritten.
    (`RelC`: the conditions on the cells, for the heap `h`, the frame storages `cur` / `frs` and the
    captured activations `caps` of the relocating machine; `Rel` below adds the skeleton.) -/
structure RelC (m1 : M) (h : Cells) (cur : Loc) (frs : List Loc) (caps : List Nat) : Prop where
  run : ∀ x, m1.cfg.σ.sh.cells.get m1.cfg.σ.act.id x = view h cur m1.cfg.σ.act.id x
  sus : Sus m1.cfg.σ.sh.cells h caps m1.frames frs
  heap : ∀ b ∈ caps, ∀ x, m1.cfg.σ.sh.cells.get b x = h.get b x
  fresh : ∀ b x, m1.cfg.σ.sh.next ≤ b → m1.cfg.σ.sh.cells.get b x = .nil
  capcur : cur.cap = true ↔ m1.cfg.σ.act.id ∈ caps
  nodup : (m1.cfg.σ.act.id :: m1.frames.map (·.act.id)).Nodup
  below : ∀ i ∈ m1.cfg.σ.act.id :: m1.frames.map (·.act.id), i < m1.cfg.σ.sh.next
  capsBelow : ∀ b ∈ caps, b < m1.cfg.σ.sh.next
  heapKeys : ∀ e ∈ h, e.1.1 ∈ caps
  zero : 0 ∈ caps
  okStk : okL caps m1.cfg.stk
  okLoc : okS caps cur.loc
  okGlob : okS caps m1.cfg.σ.sh.glob
  okHeap : ∀ e ∈ h, okV caps e.2
  okAct : okA caps m1.cfg.σ.act

/-- the state of the relocating machine that has `m1`'s skeleton, the heap `h`, the frame
    storages `cur` / `frs` and the captured activations `caps` -/
def M2.of (m1 : M) (h : Cells) (cur : Loc) (frs : List Loc) (caps : List Nat) : M2 :=
  { m := { cfg := m1.cfg.withCells h, fn := m1.fn, frames := m1.frames }, cur := cur, frs := frs, caps := caps }

/-- `Rel m1 s`: `s` agrees with `m1` on everything but the cells, and the cells are related by `RelC` -/
def Rel (m1 : M) (s : M2) : Prop :=
  s = M2.of m1 s.heap s.cur s.frs s.caps ∧ RelC m1 s.heap s.cur s.frs s.caps

end Risor.C01.Clo
