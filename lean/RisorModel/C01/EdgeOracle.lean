import RisorModel.C01.Edge
/-!
Line-protocol front end of Edge.lean (requests `C01 edge …`); not part of any theorem.

  `edge multi <init> <targets> <items>` with <init> = initial values of slots 0..m-1 (csv),
      <targets> = slots of the names, in source order (csv), <items> = the item expressions in
      reverse Polish notation (tokens `v<k>`, integers, `+ - *`, separated by blanks; items
      separated by `;`)  →
      `ok`  TAB final slots (Impl: exec (compMulti …)) TAB final slots (Spec: specMulti) TAB code text
            TAB final slots of the interleaved lowering (seqAssign; NOT the rule)
      `err` TAB `count` TAB Spec (`count` | slots) TAB code text TAB `-`
  `edge pow <a> <b>` → `ok` TAB Impl TAB Spec   |   `outside` TAB `-` TAB Spec   (Spec `undef` = none)
-/
namespace Risor.C01.Edge

def parseItem (toks : List String) : Option AExp :=
  let r := toks.foldl (fun (acc : Option (List AExp)) tok =>
    match acc with
    | none => none
    | some stk =>
      if tok == "+" || tok == "-" || tok == "*" then
        match stk with
        | b :: a :: rest =>
          some ((if tok == "+" then AExp.add a b else if tok == "-" then AExp.sub a b else AExp.mul a b) :: rest)
        | _ => none
      else if tok.startsWith "v" then
        match (tok.drop 1).toNat? with
        | some k => some (AExp.var k :: stk)
        | none => none
      else
        match tok.toInt? with
        | some i => some (AExp.lit i :: stk)
        | none => none) (some [])
  match r with
  | some [e] => some e
  | _ => none

def parseItems (s : String) : Option (List AExp) :=
  if s == "-" then some [] else
  (s.splitOn ";").mapM (fun it => parseItem ((it.splitOn " ").filter (· ≠ "")))

def parseCsv (s : String) : Option (List Int) :=
  if s == "-" then some [] else (s.splitOn ",").mapM (·.toInt?)

def showSlots (m : Nat) (s : Store) : String :=
  if m == 0 then "-" else ",".intercalate ((List.range m).map (fun k => toString (s k)))

def handleEdge : List String → String
  | ["multi", ini, tgs, its] =>
    match parseCsv ini, parseCsv tgs, parseItems its with
    | some vs, some ts, some items =>
      let m := vs.length
      let s : Store := fun k => vs.getD k 0
      let ts := ts.map Int.toNat
      let code := " ".intercalate ((compMulti ts items).map insText)
      let spec := match specMulti ts items s with
        | some s' => showSlots m s'
        | none => "count"
      match exec (compMulti ts items) ([], s) with
      | some (_, s') => "ok\t" ++ showSlots m s' ++ "\t" ++ spec ++ "\t" ++ code ++ "\t" ++ showSlots m (seqAssign ts items s)
      | none => "err\tcount\t" ++ spec ++ "\t" ++ code ++ "\t-"
    | _, _, _ => "error\tcannot decode the request"
  | ["pow", a, b] =>
    match a.toInt?, b.toInt? with
    | some a, some b =>
      let spec := match (if b ≤ 200 ∧ -200 ≤ b then powSpec a b else none) with
        | some r => toString r
        | none => "undef"
      match powImpl a b with
      | some r => "ok\t" ++ toString r ++ "\t" ++ spec
      | none => "outside\t-\t" ++ spec
    | _, _ => "error\tcannot decode the request"
  | _ => "error\tunknown-request"

end Risor.C01.Edge
