import RisorModel.C01.Ast
import RisorModel.C04.Model
/-
C01 — Impl model of compiler/compiler.go + symbol_table.go for the core grammar: the real
symbol-table discipline (function tables, block tables claiming indices from the enclosing
function, free-variable resolutions recorded in the innermost function on every reference,
first-pass constants for top-level named functions), constants appended without
deduplication, the names pool, relative jumps with placeholder patching.  Its output is
compared with the real compiler's INSTRUCTION FOR INSTRUCTION by the correspondence check.
Instruction shapes (`Op`, `Ins`) are shared with the C04 model.  Core Lean only.
-/
namespace Risor.C01
open Risor.C04 (Op Ins)

inductive Const where
  | int (i : Int)
  | str (s : String)
  | fn (codeId : String)
  deriving Repr, DecidableEq, Inhabited

structure Sym where
  name : String
  index : Nat
  isConst : Bool
  deriving Repr, Inhabited

structure FreeRes where
  name : String
  index : Nat       -- symbol index in the defining function
  depth : Nat       -- function levels between use and definition
  deriving Repr, Inhabited

structure LoopCtx where
  breakPos : List Nat := []
  continuePos : List Nat := []
  isRange : Bool := false
  pendingSwitch : Nat := 0
  deriving Repr, Inhabited

/-- a finished or in-progress code object -/
structure CodeB where
  id : String
  name : String := ""
  params : List String := []
  defaults : List (Option N) := []
  slots : Array Nat := #[]            -- raw slots: opcode position markers are in `ins`
  ins : Array (Nat × Ins) := #[]      -- (slot position, instruction)
  len : Nat := 0
  consts : Array Const := #[]
  names : Array String := #[]
  loops : List LoopCtx := []
  pipeActive : Bool := false
  children : Nat := 0
  deriving Inhabited

structure FnScope where
  count : Nat := 0
  blocks : List (List Sym) := [[]]
  free : List FreeRes := []
  deriving Inhabited

structure CState where
  stack : List (FnScope × CodeB)       -- innermost first; last element = main
  done : List CodeB := []              -- finished function code objects
  deriving Inhabited

abbrev CM := StateT CState (Except String)

def placeholder : Nat := 65535

inductive Scope where | global | local_ | free deriving Repr, DecidableEq

structure Resolution where
  scope : Scope
  index : Nat        -- symbol index (global/local) or free index
  isConst : Bool

def fail {α} (msg : String) : CM α := throw msg

def modCur (f : FnScope × CodeB → FnScope × CodeB) : CM Unit :=
  modify fun s => match s.stack with
    | [] => s
    | h :: t => { s with stack := f h :: t }

def getCur : CM (FnScope × CodeB) := do
  match (← get).stack with
  | h :: _ => pure h
  | [] => fail "no current code"

def isGlobalLevel : CM Bool := do pure ((← get).stack.length == 1)

def emit (op : Op) (a : Nat := 0) (b : Nat := 0) : CM Nat := do
  let (_, c) ← getCur
  let pos := c.len
  modCur fun (fs, c) => (fs, { c with ins := c.ins.push (pos, ⟨op, a, b⟩), len := c.len + 1 + op.operands })
  pure pos

def emit_ (op : Op) (a : Nat := 0) (b : Nat := 0) : CM Unit := do let _ ← emit op a b

def curLen : CM Nat := do pure (← getCur).2.len

/-- `changeOperand(pos, v)`: rewrite the first operand of the instruction at slot `pos` -/
def changeOperand (pos v : Nat) : CM Unit :=
  modCur fun (fs, c) => (fs, { c with ins := c.ins.map fun (p, i) => if p == pos then (p, { i with a := v }) else (p, i) })

/-- `calculateDelta(pos)` then `changeOperand` -/
def patchToHere (pos : Nat) : CM Unit := do
  let l ← curLen
  changeOperand pos (l - pos)

def constant (k : Const) : CM Nat := do
  let (_, c) ← getCur
  modCur fun (fs, c) => (fs, { c with consts := c.consts.push k })
  pure c.consts.size

def addName (n : String) : CM Nat := do
  let (_, c) ← getCur
  modCur fun (fs, c) => (fs, { c with names := c.names.push n })
  pure c.names.size

def pushBlock : CM Unit := modCur fun (fs, c) => ({ fs with blocks := [] :: fs.blocks }, c)
def popBlock : CM Unit := modCur fun (fs, c) => ({ fs with blocks := fs.blocks.tail }, c)

def findSym (blocks : List (List Sym)) (name : String) : Option Sym :=
  match blocks with
  | [] => none
  | b :: rest => match b.find? (·.name == name) with
    | some s => some s
    | none => findSym rest name

/-- `InsertVariable` / `InsertConstant` in the current block table -/
def insertSym (name : String) (isConst : Bool) : CM Sym := do
  let (fs, _) ← getCur
  match fs.blocks with
  | [] => fail "no block"
  | b :: rest =>
    if b.any (·.name == name) then fail s!"compile error: variable {name} already exists"
    else
      let s : Sym := { name := name, index := fs.count, isConst := isConst }
      modCur fun (fs, c) => ({ fs with count := fs.count + 1, blocks := (s :: b) :: rest }, c)
      pure s

/-- `symbols.Get(name)`: the current block table only -/
def getLocalSym (name : String) : CM (Option Sym) := do
  let (fs, _) ← getCur
  pure ((fs.blocks.head?.getD []).find? (·.name == name))

/-- `SymbolTable.Resolve` -/
def resolve (name : String) : CM (Option Resolution) := do
  let st ← get
  match st.stack with
  | [] => pure none
  | (fs, _) :: outer =>
    match findSym fs.blocks name with
    | some s => pure (some { scope := if outer.isEmpty then .global else .local_, index := s.index, isConst := s.isConst })
    | none =>
      -- ancestors: enclosing functions, innermost first
      let rec go (rest : List (FnScope × CodeB)) (depth : Nat) : Option (Sym × Nat × Bool) :=
        match rest with
        | [] => none
        | (afs, _) :: more =>
          match findSym afs.blocks name with
          | some s => some (s, depth, more.isEmpty)
          | none => go more (depth + 1)
      match go outer 1 with
      | none => pure none
      | some (s, depth, isGlobal) =>
        if isGlobal then pure (some { scope := .global, index := s.index, isConst := s.isConst })
        else
          let freeIndex := fs.free.length
          modCur fun (fs, c) => ({ fs with free := fs.free ++ [{ name := name, index := s.index, depth := depth }] }, c)
          pure (some { scope := .free, index := freeIndex, isConst := s.isConst })

def emitLoad (r : Resolution) : CM Unit :=
  match r.scope with
  | .global => emit_ .loadGlobal r.index
  | .local_ => emit_ .loadFast r.index
  | .free => emit_ .loadFree r.index

def emitStore (r : Resolution) : CM Unit :=
  match r.scope with
  | .global => emit_ .storeGlobal r.index
  | .local_ => emit_ .storeFast r.index
  | .free => emit_ .storeFree r.index

def emitStoreSym (s : Sym) : CM Unit := do
  if ← isGlobalLevel then emit_ .storeGlobal s.index else emit_ .storeFast s.index

def binOpCode : BinOp → Option (Op × Nat)
  | .add => some (.binaryOp, 1) | .sub => some (.binaryOp, 2) | .mul => some (.binaryOp, 3)
  | .div => some (.binaryOp, 4) | .mod => some (.binaryOp, 5) | .pow => some (.binaryOp, 9)
  | .lshift => some (.binaryOp, 10) | .rshift => some (.binaryOp, 11) | .bitand => some (.binaryOp, 12)
  | .lt => some (.compareOp, 1) | .le => some (.compareOp, 2) | .eq => some (.compareOp, 3)
  | .ne => some (.compareOp, 4) | .gt => some (.compareOp, 5) | .ge => some (.compareOp, 6)
  | .and | .or => none

def assignOpCode : AssignOp → Nat
  | .set => 0 | .add => 1 | .sub => 2 | .mul => 3 | .div => 4

/-- `ast.Node.IsExpression()` -/
def isExpression : N → Bool
  | .expr (.func name _ _) => name == ""
  | .expr _ => true
  | _ => false

/-- `leavesValue` (compiler.go, after the fix for named function declarations) -/
def leavesValue : N → Bool
  | .expr _ => true
  | _ => false

/-- the parser reads a statement `x++` as the expression statement `x` followed by the postfix
    node (parseStatement: the identifier is a complete expression; `++` then starts a new
    statement through the postfix table), so the compiler sees two statements -/
def expandStmts : N → N
  | .cons (.postfix x inc) t => .cons (.expr (.id x)) (.cons (.postfix x inc) (expandStmts t))
  | .cons h t => .cons h (expandStmts t)
  | n => n

def curLoop : CM (Option LoopCtx) := do pure (← getCur).2.loops.head?

def modLoop (f : LoopCtx → LoopCtx) : CM Unit :=
  modCur fun (fs, c) => (fs, { c with loops := match c.loops with | [] => [] | l :: r => f l :: r })

def startLoop (isRange : Bool) : CM Unit :=
  modCur fun (fs, c) => (fs, { c with loops := { isRange := isRange } :: c.loops })

def endLoop : CM LoopCtx := do
  let (_, c) ← getCur
  modCur fun (fs, c) => (fs, { c with loops := c.loops.tail })
  pure (c.loops.head?.getD {})

mutual

/-- `Compiler.compile` on one node; fuel = structural bound on the tree -/
def compileN : Nat → N → CM Unit
  | 0, _ => fail "compile fuel"
  | f + 1, node =>
    match node with
    | .nilLit => emit_ .nil_
    | .int i => do emit_ .loadConst (← constant (.int i))
    | .bool b => emit_ (if b then .true_ else .false_)
    | .str s => do emit_ .loadConst (← constant (.str s))
    | .id x => do
      match ← resolve x with
      | some r => emitLoad r
      | none => fail s!"compile error: undefined variable {x}"
    | .infix .and l r => do
      compileN f l
      emit_ .copy 0
      let j ← emit .popJumpForwardIfFalse placeholder
      compileN f r
      emit_ .binaryOp 6
      emit_ .nop
      patchToHere j
    | .infix .or l r => do
      compileN f l
      emit_ .copy 0
      let j ← emit .popJumpForwardIfTrue placeholder
      compileN f r
      emit_ .binaryOp 7
      emit_ .nop
      patchToHere j
    | .infix op l r => do
      compileN f l
      compileN f r
      match binOpCode op with
      | some (o, k) => emit_ o k
      | none => fail "operator"
    | .neg e => do compileN f e; emit_ .unaryNegative
    | .not e => do compileN f e; emit_ .unaryNot
    | .tern c a b => do
      compileN f c
      let j1 ← emit .popJumpForwardIfFalse placeholder
      compileN f a
      let j2 ← emit .jumpForward placeholder
      patchToHere j1
      compileN f b
      patchToHere j2
    | .in_ x c => do compileN f x; compileN f c; emit_ .swap 1; emit_ .containsOp 0
    | .notin x c => do compileN f x; compileN f c; emit_ .swap 1; emit_ .containsOp 0; emit_ .unaryNot
    | .call fe args => do
      compileN f fe
      compileList f args
      let n := args.toList.length
      if (← getCur).2.pipeActive then emit_ .partial_ n else emit_ .call n
    | .mcall obj name args => do
      compileN f obj
      emit_ .loadAttr (← addName name)
      compileList f args
      let n := args.toList.length
      if (← getCur).2.pipeActive then emit_ .partial_ n else emit_ .call n
    | .index e i => do compileN f e; compileN f i; emit_ .binarySubscr
    | .slice e lo hi => do
      compileN f e
      match lo with
      | .none_ => do emit_ .loadConst (← constant (.int 0))
      | lo => compileN f lo
      match hi with
      | .none_ => do emit_ .copy 1; emit_ .length
      | hi => compileN f hi
      emit_ .swap 1
      emit_ .slice
    | .list items => do compileList f items; emit_ .buildList items.toList.length
    | .set items => do compileList f items; emit_ .buildSet items.toList.length
    | .map entries => do
      -- key, value, …; a key is a string literal (an identifier key is its name as a string constant).
      -- The real compiler ranges over a Go map: with two or more entries the order is not
      -- determined (finding C05-map-literal-order); the model compiles them as written.
      let rec go (g : Nat) (l : List N) : CM Unit :=
        match g, l with
        | g + 1, k :: v :: rest => do
          match k with
          | .str s => emit_ .loadConst (← constant (.str s))
          | .id x => emit_ .loadConst (← constant (.str x))
          | _ => fail "compile error: invalid map key type"
          compileN f v
          go g rest
        | _, _ => pure ()
      go entries.toList.length entries.toList
      emit_ .buildMap (entries.toList.length / 2)
    | .pipe stages => do
      -- `compilePipe`: inside a pipe every call of the current code object compiles to a Partial
      if (← getCur).2.pipeActive then fail "compile error: invalid nested pipe"
      match stages with
      | .cons first rest => do
        if rest.toList.isEmpty then fail "compile error: the pipe operator requires at least two expressions"
        compileN f first
        modCur fun (fs, c) => (fs, { c with pipeActive := true })
        compilePipeStages f rest
        modCur fun (fs, c) => (fs, { c with pipeActive := false })
      | _ => fail "compile error: the pipe operator requires at least two expressions"
    | .defer_ call => do
      -- `compileDeferStmt`: callee and arguments now (`compilePartial`), the call at function exit
      if ← isGlobalLevel then fail "compile error: defer statement outside of a function"
      match call with
      | .call fe args => do
        compileN f fe
        compileList f args
        emit_ .partial_ args.toList.length
      | .mcall obj name args => do
        compileN f obj
        emit_ .loadAttr (← addName name)
        compileList f args
        emit_ .partial_ args.toList.length
      | _ => fail "parse error: invalid defer statement"
      emit_ .defer_
    | .tmpl parts => do
      -- fragments: literal text and expressions alternate as the lexer split them
      compileList f parts
      emit_ .buildString parts.toList.length
    | .func name params body => compileFunc f name params body
    | .if_ c t e => do
      compileN f c
      let j1 ← emit .popJumpForwardIfFalse placeholder
      compileN f t
      let j2 ← emit .jumpForward placeholder
      patchToHere j1
      match e with
      | .none_ => emit_ .nil_
      | e => compileN f e
      patchToHere j2
    | .switch subj cases => compileSwitch f subj cases
    | .var x e => do
      compileN f e
      emitStoreSym (← insertSym x false)
    | .const x e => do
      compileN f e
      emitStoreSym (← insertSym x true)
    | .assign x op e => do
      match ← resolve x with
      | none => fail s!"compile error: undefined variable {x}"
      | some r =>
        if r.isConst then fail s!"compile error: cannot assign to constant {x}"
        else if op == .set then do
          compileN f e
          emitStore r
        else do
          emitLoad r
          compileN f e
          emit_ .binaryOp (assignOpCode op)
          emitStore r
    | .postfix x inc => do
      match ← resolve x with
      | none => fail s!"compile error: undefined variable {x}"
      | some r =>
        emitLoad r
        emit_ .loadConst (← constant (.int (if inc then 1 else -1)))
        emit_ .binaryOp 1
        emitStore r
    | .setitem op obj i v => do
      if op == .set then compileN f v
      else do
        compileN f obj
        compileN f i
        emit_ .binarySubscr
        compileN f v
        emit_ .binaryOp (assignOpCode op)
      compileN f obj
      compileN f i
      emit_ .storeSubscr
    | .multi names e => do
      compileN f e
      let ns := names.toList
      emit_ .unpack ns.length
      for nm in ns.reverse do
        match nm with
        | .id x => emitStoreSym (← insertSym x false)
        | _ => fail "multi"
    | .expr e => compileN f e
    | .block stmts => do
      pushBlock
      compileStmts f (expandStmts stmts) false
      popBlock
    | .prog stmts => compileStmts f (expandStmts stmts) false
    | .break_ => do
      match ← curLoop with
      | none => fail "compile error: invalid break statement outside of a loop"
      | some l =>
        for _ in List.range l.pendingSwitch do emit_ .popTop
        if l.isRange then emit_ .popTop
        let p ← emit .jumpForward placeholder
        modLoop fun l => { l with breakPos := l.breakPos ++ [p] }
    | .continue_ => do
      match ← curLoop with
      | none => fail "compile error: invalid continue statement outside of a loop"
      | some l =>
        for _ in List.range l.pendingSwitch do emit_ .popTop
        let p ← emit .jumpForward placeholder
        modLoop fun l => { l with continuePos := l.continuePos ++ [p] }
    | .return_ e => do
      if ← isGlobalLevel then fail "compile error: invalid return statement outside of a function"
      match e with
      | .none_ => emit_ .nil_
      | e => compileN f e
      emit_ .returnValue
    | .forcond c body => do
      pushBlock
      startLoop false
      let start ← curLen
      compileN f c
      let jd ← emit .popJumpForwardIfFalse placeholder
      compileN f body
      emit_ .popTop
      let jb ← emit .jumpBackward ((← curLen) - start)
      let nopPos ← emit .nop
      let l ← endLoop
      for p in l.breakPos do changeOperand p (nopPos - p)
      for p in l.continuePos do changeOperand p (jb - p)
      patchToHere jd
      popBlock
    | .forever body => do
      pushBlock
      startLoop false
      let start ← curLen
      compileN f body
      emit_ .popTop
      let jb ← emit .jumpBackward ((← curLen) - start)
      let nopPos ← emit .nop
      let l ← endLoop
      for p in l.breakPos do changeOperand p (nopPos - p)
      for p in l.continuePos do changeOperand p (jb - p)
      popBlock
    | .for3 init cond post body => do
      pushBlock
      startLoop false
      compileN f init
      let start ← curLen
      let mut cj := 0
      match cond with
      | .none_ => pure ()
      | cond => do
        compileN f cond
        cj ← emit .popJumpForwardIfFalse placeholder
      compileN f body
      emit_ .popTop
      let contDst ← curLen
      match post with
      | .none_ => pure ()
      | post => do
        compileN f post
        if isExpression post then emit_ .popTop
      emit_ .jumpBackward ((← curLen) - start)
      if cj != 0 then patchToHere cj
      let l ← endLoop
      for p in l.breakPos do patchToHere p
      for p in l.continuePos do changeOperand p (contDst - p)
      popBlock
    | .forrange k v cont body => do
      compileN f cont
      emit_ .getIter
      pushBlock
      startLoop true
      let names := (if k == "" then [] else [k]) ++ (if v == "" then [] else [v])
      let iterPos ← emit .forIter 0 names.length
      for nm in names do
        let s ← insertSym nm false
        emitStoreSym s
      compileN f body
      emit_ .popTop
      let jb ← emit .jumpBackward ((← curLen) - iterPos)
      patchToHere iterPos
      let l ← endLoop
      for p in l.breakPos do patchToHere p
      for p in l.continuePos do changeOperand p (jb - p)
      popBlock
    | .forin v cont body => do
      compileN f cont
      emit_ .getIter
      pushBlock
      startLoop true
      let iterPos ← emit .forIter 0 3
      let s ← insertSym v false
      emitStoreSym s
      compileN f body
      emit_ .popTop
      let jb ← emit .jumpBackward ((← curLen) - iterPos)
      patchToHere iterPos
      let l ← endLoop
      for p in l.breakPos do patchToHere p
      for p in l.continuePos do changeOperand p (jb - p)
      popBlock
    | _ => fail "unsupported node"

/-- expression lists (arguments, list items, template fragments) in order -/
def compileList : Nat → N → CM Unit
  | 0, _ => fail "compile fuel"
  | f + 1, items =>
    match items with
    | .cons h t => do compileN f h; compileList f t
    | _ => pure ()

/-- the stages of a pipe after the first: function on top, `Swap 1`, `Call 1` -/
def compilePipeStages : Nat → N → CM Unit
  | 0, _ => fail "compile fuel"
  | f + 1, stages =>
    match stages with
    | .cons h t => do
      compileN f h
      emit_ .swap 1
      emit_ .call 1
      compilePipeStages f t
    | _ => pure ()

/-- `compileProgram` / `compileBlock` / `compileFunctionBlock` statement sequencing.
    `fnBody` = the normalised function body (always ends with a return; nothing appended) -/
def compileStmts : Nat → N → Bool → CM Unit
  | 0, _, _ => fail "compile fuel"
  | f + 1, stmts, fnBody =>
    match stmts with
    | .cons h .nilL => do
      compileN f h
      if !fnBody then
        if !isExpression h then do
          if leavesValue h then emit_ .popTop
          emit_ .nil_
    | .cons h t => do
      compileN f h
      if leavesValue h then emit_ .popTop
      compileStmts f t fnBody
    | _ => if fnBody then pure () else emit_ .nil_

/-- `compileSwitch` -/
def compileSwitch : Nat → N → N → CM Unit
  | 0, _, _ => fail "compile fuel"
  | f + 1, subj, cases => do
    compileN f subj
    let hadLoop := (← curLoop).isSome
    if hadLoop then modLoop fun l => { l with pendingSwitch := l.pendingSwitch + 1 }
    let cs := cases.toList
    -- comparisons
    let mut jumps : List Nat := []
    for c in cs do
      match c with
      | .case_ vals _ =>
        for v in vals.toList do
          emit_ .copy 0
          compileN f v
          emit_ .compareOp 3
          let j ← emit .popJumpForwardIfTrue placeholder
          jumps := jumps ++ [j]
      | _ => pure ()
    let jumpDefault ← emit .jumpForward placeholder
    -- case blocks
    let mut ends : List Nat := []
    let mut rest := jumps
    for c in cs do
      match c with
      | .case_ vals body =>
        for _ in vals.toList do
          match rest with
          | j :: more => do patchToHere j; rest := more
          | [] => pure ()
        compileN f body
        let e ← emit .jumpForward placeholder
        ends := ends ++ [e]
      | _ => pure ()
    patchToHere jumpDefault
    match cs.find? (fun c => match c with | .default_ _ => true | _ => false) with
    | some (.default_ body) => compileN f body
    | _ => emit_ .nil_
    for e in ends do patchToHere e
    emit_ .swap 1
    emit_ .popTop
    if hadLoop then modLoop fun l => { l with pendingSwitch := l.pendingSwitch - 1 }

/-- `compileFunc` -/
def compileFunc : Nat → String → N → N → CM Unit
  | 0, _, _, _ => fail "compile fuel"
  | f + 1, name, params, body => do
    let st ← get
    let (_, parentCode) ← getCur
    let childId := parentCode.id ++ "." ++ toString parentCode.children
    modCur fun (fs, c) => (fs, { c with children := c.children + 1 })
    let ps := params.toList
    let pnames := ps.map fun p => match p with | .param n _ => n | _ => ""
    let dflts := ps.map fun p => match p with
      | .param _ .none_ => none
      | .param _ d => some d
      | _ => none
    -- new function table (its parent is the current block table) and code object
    let paramSyms := (List.range pnames.length).zip pnames |>.map fun (i, n) => ({ name := n, index := i, isConst := false } : Sym)
    let selfSyms : List Sym := if name != "" then [{ name := name, index := pnames.length, isConst := true }] else []
    let fs0 : FnScope := { count := pnames.length + selfSyms.length, blocks := [selfSyms ++ paramSyms.reverse] }
    let code0 : CodeB := { id := childId, name := name, params := pnames, defaults := dflts }
    set { st with stack := (fs0, code0) :: (← get).stack }
    -- function body in its own block, normalised to end with a return
    pushBlock
    let stmts := match body with
      | .block s => (expandStmts s).toList
      | _ => []
    let norm : List N :=
      match stmts.findIdx? (fun s => match s with | .return_ _ => true | _ => false) with
      | some i => stmts.take (i + 1)
      | none =>
        match stmts.getLast? with
        | none => [.return_ .nilLit]
        | some last =>
          match last with
          | .expr e => stmts.dropLast ++ [.return_ e]
          | _ => stmts ++ [.return_ .nilLit]
    compileStmts f (N.ofList norm) true
    popBlock
    -- leave the function
    let st2 ← get
    match st2.stack with
    | (fsF, codeF) :: rest =>
      set { st2 with stack := rest, done := st2.done ++ [codeF] }
      let freeCount := fsF.free.length
      if freeCount > 0 then do
        for r in fsF.free do
          emit_ .makeCell r.index (r.depth - 1)
        emit_ .loadClosure (← constant (.fn childId)) freeCount
      else
        emit_ .loadConst (← constant (.fn childId))
      if name != "" then do
        let sym ← match ← getLocalSym name with
          | some s => pure s
          | none => insertSym name true
        emit_ .copy 0
        emitStoreSym sym
    | [] => fail "stack"

end

/-- first pass of `Compile`: top-level named functions become constants up front -/
def collectFunctionDeclarations (stmts : List N) : CM Unit := do
  for s in stmts do
    match s with
    | .expr (.func name _ _) =>
      if name != "" then
        match ← getLocalSym name with
        | some _ => fail s!"compile error: function {name} redefined"
        | none => let _ ← insertSym name true
    | _ => pure ()

def nodeSize : N → Nat
  | .infix _ l r => 1 + nodeSize l + nodeSize r
  | .neg e | .not e | .expr e | .return_ e | .block e | .prog e | .list e | .tmpl e | .default_ e | .forever e
  | .set e | .map e | .pipe e | .defer_ e => 1 + nodeSize e
  | .tern a b c | .slice a b c | .if_ a b c => 1 + nodeSize a + nodeSize b + nodeSize c
  | .in_ a b | .notin a b | .call a b | .index a b | .switch a b | .case_ a b | .forcond a b | .cons a b => 1 + nodeSize a + nodeSize b
  | .mcall o _ a => 1 + nodeSize o + nodeSize a
  | .func _ p b => 1 + nodeSize p + nodeSize b
  | .param _ d => 1 + nodeSize d
  | .var _ e | .const _ e | .assign _ _ e | .multi _ e => 1 + nodeSize e
  | .setitem _ a b c => 1 + nodeSize a + nodeSize b + nodeSize c
  | .for3 a b c d => 1 + nodeSize a + nodeSize b + nodeSize c + nodeSize d
  | .forrange _ _ a b | .forin _ a b => 1 + nodeSize a + nodeSize b
  | _ => 1

/-- compile a program given the (sorted) names of the host's globals -/
def compileProg (globals : List String) (p : N) : Except String (List CodeB) :=
  match p with
  | .prog stmts =>
    let syms : List Sym := (List.range globals.length).zip globals |>.map fun (i, n) => { name := n, index := i, isConst := false }
    let init : CState := { stack := [({ count := globals.length, blocks := [syms.reverse] }, { id := "__main__" })] }
    let act : CM Unit := do
      collectFunctionDeclarations stmts.toList
      compileStmts (2 * nodeSize p + 10) (expandStmts stmts) false
    match act.run init with
    | .ok (_, st) =>
      match st.stack with
      | [(_, main)] => .ok (main :: st.done)
      | _ => .error "unbalanced function stack"
    | .error e => .error e
  | _ => .error "program expected"

/-- text of one code object's instructions, as the harness prints the real ones -/
def opName : Op → String
  | .nop => "NOP" | .halt => "HALT" | .call => "CALL" | .returnValue => "RETURN_VALUE" | .defer_ => "DEFER" | .go => "GO"
  | .jumpBackward => "JUMP_BACKWARD" | .jumpForward => "JUMP_FORWARD"
  | .popJumpForwardIfFalse => "POP_JUMP_FORWARD_IF_FALSE" | .popJumpForwardIfTrue => "POP_JUMP_FORWARD_IF_TRUE"
  | .loadAttr => "LOAD_ATTR" | .loadFast => "LOAD_FAST" | .loadFree => "LOAD_FREE" | .loadGlobal => "LOAD_GLOBAL" | .loadConst => "LOAD_CONST"
  | .storeAttr => "STORE_ATTR" | .storeFast => "STORE_FAST" | .storeFree => "STORE_FREE" | .storeGlobal => "STORE_GLOBAL"
  | .binaryOp => "BINARY_OP" | .compareOp => "COMPARE_OP" | .unaryNegative => "UNARY_NEGATIVE" | .unaryNot => "UNARY_NOT"
  | .buildList => "BUILD_LIST" | .buildMap => "BUILD_MAP" | .buildSet => "BUILD_SET" | .buildString => "BUILD_STRING"
  | .binarySubscr => "BINARY_SUBSCR" | .storeSubscr => "STORE_SUBSCR" | .containsOp => "CONTAINS_OP" | .length => "LENGTH"
  | .slice => "SLICE" | .unpack => "UNPACK" | .swap => "SWAP" | .copy => "COPY" | .popTop => "POP_TOP"
  | .nil_ => "NIL" | .false_ => "FALSE" | .true_ => "TRUE" | .forIter => "FOR_ITER" | .getIter => "GET_ITER" | .range => "RANGE"
  | .fromImport => "FROM_IMPORT" | .import_ => "IMPORT" | .receive => "RECEIVE" | .send => "SEND"
  | .loadClosure => "LOAD_CLOSURE" | .makeCell => "MAKE_CELL" | .partial_ => "PARTIAL"

def insText (i : Ins) : String :=
  match i.op.operands with
  | 0 => opName i.op
  | 1 => opName i.op ++ ":" ++ toString i.a
  | _ => opName i.op ++ ":" ++ toString i.a ++ ":" ++ toString i.b

def codeText (c : CodeB) : String := " ".intercalate (c.ins.toList.map fun (_, i) => insText i)

end Risor.C01
