import RisorModel.C01.Sem
import RisorModel.C01.Compile
/-
C01 — Impl model of vm/vm.go's `eval` on the bytecode produced by `Compile.lean` (which the
correspondence check shows identical to the real compiler's): operand stack, frames with
local slots, cells addressing local slots POSITIONALLY (`MakeCell idx framesBack` looks at
`frames[fp - framesBack]`, as the code does), closures, iterators, builtins `len`/`print`,
`list.append`, `error`, `try`, partials (`Partial`, `Defer`), sets and maps (`BuildSet`, `BuildMap`,
subscripts, `ContainsOp`), strings by rune.  Small-step `step`, run by fuel.  Core Lean only.

Calls.  The real VM runs every function call through the RECURSIVE `callFunction` (a nested
`eval` that stops at `ReturnValue`), and `builtins.Try` and the deferred calls call back into
it.  The model keeps one explicit frame list instead; what the Go recursion remembers is kept in
the frame itself:

  * `kont`     what the caller of this activation does with its outcome: `.ret` (an ordinary
               `Call`: push the value / pass the error on) or `.tryK rest last` (the activation
               is an argument of `try`: a catchable error makes `try` go on with `rest`);
  * `defers`   the partials recorded by `Defer`, most recent first (`frame.Defer` prepends);
  * `exiting`  set when the body is over — `.value v` after `ReturnValue` (the real VM has
               already gone back to the caller's frame: the activation no longer counts for
               `MakeCell`'s positional frame lookup), `.error e` when the body failed (`vm.fp`
               still is this frame) — while the deferred calls run on top of it.

An error travels in `VM.raising`; every step with `raising` set unwinds one frame (the deferred
`resumeFrame` of `callFunction`, which also drops the operands the frame left behind).
-/
namespace Risor.C01
open Risor.C04 (Op Ins)

inductive VVal where
  | nil
  | bool (b : Bool)
  | int (i : Int)
  | str (s : String)
  | list (ref : Nat)
  | fn (codeId : String) (free : List Nat)      -- function constant / closure over cell addresses
  | builtin (name : String)
  | bound (ref : Nat) (method : String)         -- list method value
  | cell (addr : Nat)
  | iter (id : Nat)
  | err (cls : String) (msg : Option String)    -- an error value (not raised)
  | partial_ (ref : Nat)                        -- `object.Partial`: callee and arguments in `VM.partials`
  | set (ref : Nat)                             -- heap entry: items sorted by hash key
  | map (ref : Nat)                             -- heap entry: key, value, … sorted by key
  deriving Repr, DecidableEq, Inhabited

def vHashKey : VVal → Option HKey
  | .nil => some ("nil", 0, "")
  | .bool b => some ("bool", if b then 1 else 0, "")
  | .int i => some ("int", i, "")
  | .str s => some ("string", 0, s)
  | _ => none

def VVal.str? : VVal → Option String
  | .str s => some s
  | _ => none

/-- a raised error: class, and the message when the script made it -/
structure Err where
  cls : String
  msg : Option String := none
  deriving Repr, DecidableEq, Inhabited

inductive Kont where
  | ret
  | tryK (rest : List VVal) (last : Option Err)
  deriving Repr, Inhabited

inductive Exit where
  | value (v : VVal)
  | error (e : Err)
  deriving Repr, Inhabited

inductive IterSt where
  | overList (ref : Nat) (pos : Int)            -- pos = index of the current item, -1 before the first
  | overInt (n : Int) (pos : Int)
  deriving Repr, Inhabited

structure Frame where
  codeId : String
  pc : Nat                 -- slot position of the next instruction
  base : Nat               -- address of local slot 0 in `store`
  free : List Nat          -- cell addresses of the running closure
  spBase : Nat             -- operand-stack height at entry (restored on return)
  kont : Kont := .ret
  defers : List (VVal × List VVal) := []
  exiting : Option Exit := none
  exitSp : Nat := 0        -- operand-stack height at which the deferred calls of an exiting activation run
  ghost : Bool := false    -- the activation has executed `ReturnValue`: the real VM is back in the caller's frame
  deriving Repr, Inhabited

structure VM where
  codes : List CodeB
  stack : List VVal := []          -- top first
  frames : List Frame := []        -- innermost first
  globals : Array VVal := #[]
  store : Array VVal := #[]        -- local slots of all activations
  heap : Array (List VVal) := #[]
  iters : Array IterSt := #[]
  partials : Array (VVal × List VVal) := #[]
  out : List String := []
  raising : Option Err := none
  deriving Inhabited

inductive VRes where
  | running
  | done (v : VVal)
  | err (cls : String)
  | unsupported (what : String)
  deriving Repr, Inhabited

/-- frames the real VM's `fp` counts: activations that have not executed `ReturnValue` yet -/
def VM.liveFrames (m : VM) : List Frame := m.frames.filter (fun f => !f.ghost)

def raise (m : VM) (e : Err) : Except VRes VM := .ok { m with raising := some e }

def findCode (codes : List CodeB) (id : String) : Option CodeB := codes.find? (·.id == id)

def insAt (c : CodeB) (pc : Nat) : Option Ins := (c.ins.find? (fun (p, _) => p == pc)).map (·.2)

def VVal.truthy (m : VM) : VVal → Bool
  | .nil => false
  | .bool b => b
  | .int i => i != 0
  | .str s => s != ""
  | .list r | .set r | .map r => !(m.heap.getD r []).isEmpty
  | _ => true

def vEq (m : VM) : Nat → VVal → VVal → Bool
  | _, .nil, .nil => true
  | _, .bool a, .bool b => a == b
  | _, .int a, .int b => a == b
  | _, .str a, .str b => a == b
  | 0, .list a, .list b => a == b
  | f + 1, .list a, .list b =>
    let la := m.heap.getD a []
    let lb := m.heap.getD b []
    la.length == lb.length && (la.zip lb).all (fun (x, y) => vEq m f x y)
  | 0, .set a, .set b => a == b
  | f + 1, .set a, .set b =>
    let la := m.heap.getD a []
    let lb := m.heap.getD b []
    la.length == lb.length && (la.zip lb).all (fun (x, y) => vEq m f x y)
  | 0, .map a, .map b => a == b
  | f + 1, .map a, .map b =>
    let la := m.heap.getD a []
    let lb := m.heap.getD b []
    la.length == lb.length && (la.zip lb).all (fun (x, y) => vEq m f x y)
  | _, .fn a fa, .fn b fb => a == b && fa == fb
  | _, .builtin a, .builtin b => a == b
  | _, .err _ a, .err _ b => a == b
  | _, .partial_ a, .partial_ b => a == b
  | _, _, _ => false

def vInspect (m : VM) : Nat → VVal → String
  | _, .nil => "nil"
  | _, .bool b => if b then "true" else "false"
  | _, .int i => toString i
  | _, .str s => "\"" ++ s ++ "\""
  | 0, .list _ => "[...]"
  | f + 1, .list r => "[" ++ ", ".intercalate ((m.heap.getD r []).map (vInspect m f)) ++ "]"
  | _, .err _ (some msg) => "error(\"" ++ msg ++ "\")"
  | 0, .set _ | 0, .map _ => "{...}"
  | f + 1, .set r => "{" ++ ", ".intercalate ((m.heap.getD r []).map (vInspect m f)) ++ "}"
  | f + 1, .map r => "{" ++ ", ".intercalate (pairUp ((m.heap.getD r []).map (vInspect m f))) ++ "}"
  | _, _ => "object"

def vDisplay (m : VM) (v : VVal) : String :=
  match v with
  | .str s => s
  | .err _ (some msg) => msg
  | v => vInspect m 8 v

/-- the text of the value is outside the model (runtime-made error message, function source, …) -/
def vTextUnknown (m : VM) : Nat → VVal → Bool
  | _, .nil | _, .bool _ | _, .int _ | _, .str _ => false
  | _, .err _ (some _) => false
  | 0, .list _ | 0, .set _ | 0, .map _ => true
  | f + 1, .list r | f + 1, .set r | f + 1, .map r => (m.heap.getD r []).any (vTextUnknown m f)
  | _, _ => true

/-- `object.BinaryOp` (opcode operand 1..13) -/
def vBinary (m : VM) (k : Nat) (a b : VVal) : Except VRes (VVal × VM) :=
  if k == 6 then .ok ((if a.truthy m then b else a), m)
  else if k == 7 then .ok ((if a.truthy m then a else b), m)
  else
    match a, b with
    | .int x, .int y =>
      if k == 1 then .ok (.int (wrap64 (x + y)), m)
      else if k == 2 then .ok (.int (wrap64 (x - y)), m)
      else if k == 3 then .ok (.int (wrap64 (x * y)), m)
      else if k == 4 then (if y == 0 then .error (.err "panic") else .ok (.int (wrap64 (Int.tdiv x y)), m))
      else if k == 5 then (if y == 0 then .error (.err "panic") else .ok (.int (wrap64 (Int.tmod x y)), m))
      else .error (.unsupported "int operator")
    | .str x, .str y => if k == 1 then .ok (.str (x ++ y), m) else .error (.err "type")
    | .list x, .list y =>
      if k == 1 then
        .ok (.list m.heap.size, { m with heap := m.heap.push (m.heap.getD x [] ++ m.heap.getD y []) })
      else .error (.unsupported "list operator")
    | _, _ => .error (.err "type")

/-- `object.Compare` (operand 1..6) -/
def vCompare (m : VM) (k : Nat) (a b : VVal) : Except VRes VVal :=
  if k == 3 then .ok (.bool (vEq m 8 a b))
  else if k == 4 then .ok (.bool (!vEq m 8 a b))
  else
    match a, b with
    | .int x, .int y =>
      .ok (.bool (if k == 1 then x < y else if k == 2 then x ≤ y else if k == 5 then x > y else x ≥ y))
    | .str x, .str y =>
      .ok (.bool (if k == 1 then x < y else if k == 2 then x ≤ y else if k == 5 then x > y else x ≥ y))
    | .bool x, .bool y =>
      .ok (.bool (if k == 1 then !x && y else if k == 2 then !x || y else if k == 5 then x && !y else x || !y))
    | .nil, .nil => .ok (.bool (if k == 1 then false else if k == 2 then true else if k == 5 then false else true))
    | _, _ => .error (.err "type")

def setPc (m : VM) (pc : Nat) : VM :=
  match m.frames with
  | f :: rest => { m with frames := { f with pc := pc } :: rest }
  | [] => m

/-- enter a function: `callFunction` (arity, defaults, self slot) -/
def enter (m : VM) (codeId : String) (free : List Nat) (args : List VVal) (kont : Kont := .ret) : Except VRes VM :=
  match findCode m.codes codeId with
  | none => .error (.err "eval")
  | some c =>
    let np := c.params.length
    if args.length > np then .error (.err "args")
    else
      -- defaults for the missing trailing parameters
      let missing := c.defaults.drop args.length
      -- `object.NewFunction` counts only non-nil Go values as defaults, and the compiler stores a `nil`
      -- literal default as Go nil: a parameter written `p=nil` is REQUIRED at run time (finding
      -- C01-nil-default-ignored; the reference semantics binds nil)
      if missing.any (fun d => match d with | none => true | some .nilLit => true | some _ => false) then .error (.err "args")
      else
        let dvals := missing.map fun d => match d with
          | some (.int i) => VVal.int i
          | some (.bool b) => VVal.bool b
          | some (.str s) => VVal.str s
          | _ => VVal.nil
        let selfSlot : List VVal := if c.name != "" then [.fn codeId free] else []
        let locals := args ++ dvals ++ selfSlot
        -- reserve a generous fixed number of local slots for this activation
        let base := m.store.size
        let nslots := locals.length + 64
        let store := (locals ++ List.replicate (nslots - locals.length) VVal.nil).foldl (fun s v => s.push v) m.store
        if m.liveFrames.length ≥ 1024 then .error (.err "panic")
        else
          .ok { m with store := store,
                       frames := { codeId := codeId, pc := 0, base := base, free := free, spBase := m.stack.length, kont := kont } :: m.frames }

/-- outcome of a callable that runs inside the Go call (`object.Callable`) -/
inductive BRes where
  | ok (v : VVal) (m : VM)
  | fail (e : Err)
  | unsupported (what : String)

/-- builtins and bound methods other than `try` (which calls back into the VM) -/
def callImmediate (m : VM) (fv : VVal) (args : List VVal) : BRes :=
  match fv with
  | .builtin "len" =>
    match args with
    | [.str s] => .ok (.int s.length) m
    | [.list r] => .ok (.int (m.heap.getD r []).length) m
    | [.set r] => .ok (.int (m.heap.getD r []).length) m
    | [.map r] => .ok (.int ((m.heap.getD r []).length / 2)) m
    | [_] => .fail { cls := "type" }
    | _ => .fail { cls := "args" }
  | .builtin "print" =>
    if args.any (vTextUnknown m 8) then .unsupported "text of a runtime-made error or of a function"
    else .ok .nil { m with out := " ".intercalate (args.map (vDisplay m)) :: m.out }
  | .builtin "error" =>
    match args with
    | [] => .fail { cls := "args" }
    | .err c msg :: _ => .fail { cls := c, msg := msg }
    | [.str s] => if s.contains '%' then .unsupported "error() with a format string" else .fail { cls := "error", msg := some s }
    | .str _ :: _ => .unsupported "error() with format arguments"
    | _ => .fail { cls := "type" }
  | .bound r "append" =>
    match args with
    | [v] => .ok (.list r) { m with heap := m.heap.setIfInBounds r (m.heap.getD r [] ++ [v]) }
    | _ => .fail { cls := "args" }
  | .builtin n => .unsupported ("builtin " ++ n)
  | .bound _ n => .unsupported ("method " ++ n)
  | _ => .fail { cls := "type" }          -- `callObject`: object is not callable

/-- `builtins.Try` from argument `a :: rest` on, `last` = the error caught so far.  A function
    argument is ENTERED (frame with continuation `.tryK rest last`); the loop goes on from
    `step` when that frame fails with a catchable error. -/
def tryLoop (m : VM) : List VVal → Option Err → Except VRes VM
  | [], _ => .ok { m with stack := .nil :: m.stack }
  | a :: rest, last =>
    let lastArgs : List VVal := match last with
      | some e => [.err e.cls e.msg]
      | none => []
    match a with
    | .fn id free =>
      let np := match findCode m.codes id with
        | some c => c.params.length
        | none => 0
      match enter m id free (if np > 0 then lastArgs else []) (.tryK rest last) with
      | .ok m' => .ok m'
      | .error (.err cls) => raise m { cls := cls }      -- args / eval / panic: none of them catchable
      | .error r => .error r
    | .builtin "try" =>
      -- `try` as an argument of `try`: called with nothing (args error) or with the caught error, which it returns
      match lastArgs with
      | [] => raise m { cls := "args" }
      | v :: _ => .ok { m with stack := v :: m.stack }
    | .builtin _ | .bound _ _ =>
      match callImmediate m a lastArgs with
      | .ok v m' => .ok { m' with stack := v :: m'.stack }
      | .fail e => if uncatchable e.cls then raise m e else tryLoop m rest (some e)
      | .unsupported w => .error (.unsupported w)
    | v => .ok { m with stack := v :: m.stack }

/-- `callObject`: call any callable with arguments already popped; pushes the result, enters a
    frame, or starts raising an error.  Fuel bounds the nesting of partials. -/
def callValue : Nat → VM → VVal → List VVal → Except VRes VM
  | _, m, .fn id free, args =>
    match enter m id free args .ret with
    | .ok m' => .ok m'
    | .error (.err cls) => raise m { cls := cls }
    | .error r => .error r
  | _, m, .builtin "try", args =>
    if args.isEmpty || args.length > 64 then raise m { cls := "args" } else tryLoop m args none
  | 0, _, .partial_ _, _ => .error (.unsupported "deeply nested partials")
  | fuel + 1, m, .partial_ r, args =>
    match m.partials[r]? with
    | some (fn, pargs) => callValue fuel m fn (args ++ pargs)
    | none => .error (.err "eval")
  | _, m, fv, args =>
    match callImmediate m fv args with
    | .ok v m' => .ok { m' with stack := v :: m'.stack }
    | .fail e => raise m e
    | .unsupported w => .error (.unsupported w)

def popN (n : Nat) (st : List VVal) : Option (List VVal × List VVal) :=
  if n ≤ st.length then some ((st.take n).reverse, st.drop n) else none

/-- one instruction of `eval` in the running top frame.  `.error (.err cls)` = the instruction
    fails with a runtime error of that class (turned into `raising` by `step`). -/
def exec (m : VM) : Except VRes VM :=
  match m.frames with
  | [] => .error (.err "eval")
  | fr :: outer =>
    match findCode m.codes fr.codeId with
    | none => .error (.err "eval")
    | some code =>
      if fr.pc ≥ code.len then
        -- end of code: only the main code ends this way; its result is the top of the stack
        .error (.done (m.stack.headD .nil))
      else
      match insAt code fr.pc with
      | none => .error (.err "eval")
      | some i =>
        let next := fr.pc + i.size
        let m1 := setPc m next
        let isMain := outer.isEmpty
        match i.op, m.stack with
        | .nop, _ => .ok m1
        | .nil_, s => .ok { m1 with stack := .nil :: s }
        | .true_, s => .ok { m1 with stack := .bool true :: s }
        | .false_, s => .ok { m1 with stack := .bool false :: s }
        | .loadConst, s =>
          match code.consts[i.a]? with
          | some (.int k) => .ok { m1 with stack := .int k :: s }
          | some (.str k) => .ok { m1 with stack := .str k :: s }
          | some (.fn id) => .ok { m1 with stack := .fn id [] :: s }
          | none => .error (.err "panic")
        | .loadGlobal, s => .ok { m1 with stack := m.globals.getD i.a .nil :: s }
        | .storeGlobal, v :: s =>
          let g := if i.a < m.globals.size then m.globals else m.globals ++ Array.replicate (i.a + 1 - m.globals.size) VVal.nil
          .ok { m1 with stack := s, globals := g.setIfInBounds i.a v }
        | .loadFast, s => .ok { m1 with stack := m.store.getD (fr.base + i.a) .nil :: s }
        | .storeFast, v :: s => .ok { m1 with stack := s, store := m.store.setIfInBounds (fr.base + i.a) v }
        | .loadFree, s =>
          match fr.free[i.a]? with
          | some addr => .ok { m1 with stack := m.store.getD addr .nil :: s }
          | none => .error (.err "panic")
        | .storeFree, v :: s =>
          match fr.free[i.a]? with
          | some addr => .ok { m1 with stack := s, store := m.store.setIfInBounds addr v }
          | none => .error (.err "panic")
        | .makeCell, s =>
          -- positional: the frame `framesBack` below the active one
          match m.liveFrames[i.b]? with
          | some target => .ok { m1 with stack := .cell (target.base + i.a) :: s }
          | none => .error (.err "eval")
        | .loadClosure, s =>
          match popN i.b s, code.consts[i.a]? with
          | some (cells, rest), some (.fn id) =>
            let addrs := cells.filterMap fun c => match c with | .cell a => some a | _ => none
            if addrs.length != cells.length then .error (.err "eval")
            else .ok { m1 with stack := .fn id addrs :: rest }
          | _, _ => .error (.err "panic")
        | .binaryOp, b :: a :: s =>
          match vBinary m1 i.a a b with
          | .ok (v, m2) => .ok { m2 with stack := v :: s }
          | .error e => .error e
        | .compareOp, b :: a :: s =>
          match vCompare m i.a a b with
          | .ok v => .ok { m1 with stack := v :: s }
          | .error e => .error e
        | .unaryNegative, v :: s =>
          match v with
          | .int k => .ok { m1 with stack := .int (wrap64 (-k)) :: s }
          | _ => .error (.err "type")
        | .unaryNot, v :: s => .ok { m1 with stack := .bool (!v.truthy m) :: s }
        | .popTop, _ :: s => .ok { m1 with stack := s }
        | .copy, s =>
          match s[i.a]? with
          | some v => .ok { m1 with stack := v :: s }
          | none => .error (.err "panic")
        | .swap, top :: s =>
          -- swap TOS with the element `a` below it
          if i.a == 0 then .ok m1
          else
            match s[i.a - 1]? with
            | some other => .ok { m1 with stack := other :: s.set (i.a - 1) top }
            | none => .error (.err "panic")
        | .jumpForward, _ => .ok (setPc m (fr.pc + i.a))
        | .jumpBackward, _ => .ok (setPc m (fr.pc - i.a))
        | .popJumpForwardIfFalse, v :: s =>
          .ok { (if v.truthy m then m1 else setPc m (fr.pc + i.a)) with stack := s }
        | .popJumpForwardIfTrue, v :: s =>
          .ok { (if v.truthy m then setPc m (fr.pc + i.a) else m1) with stack := s }
        | .buildList, s =>
          match popN i.a s with
          | some (items, rest) => .ok { m1 with stack := .list m.heap.size :: rest, heap := m.heap.push items }
          | none => .error (.err "panic")
        | .buildSet, s =>
          match popN i.a s with
          | some (items, rest) =>
            match mkSetItems vHashKey items with
            | some l => .ok { m1 with stack := .set m.heap.size :: rest, heap := m.heap.push l }
            -- an unhashable item: `object.NewSet` returns the type error of `Set.Add` and BuildSet raises
            -- it (since the repair "fix: raise the error of a set literal with an unhashable item";
            -- before it the error object was pushed as the VALUE of the literal: `buildSetPreFix`)
            | none => .error (.err "type")
          | none => .error (.err "panic")
        | .buildMap, s =>
          match popN (2 * i.a) s with
          | some (items, rest) =>
            match mkMapItems VVal.str? VVal.str items [] with
            | some l => .ok { m1 with stack := .map m.heap.size :: rest, heap := m.heap.push l }
            | none => .error (.err "panic")       -- `k.(*object.String)`
          | none => .error (.err "panic")
        | .buildString, s =>
          match popN i.a s with
          | some (items, rest) => .ok { m1 with stack := .str (String.join (items.map (vDisplay m))) :: rest }
          | none => .error (.err "panic")
        | .binarySubscr, idx :: obj :: s =>
          match obj, idx with
          | .list r, .int k =>
            let l := m.heap.getD r []
            match resolveIndex k l.length with
            | some j => .ok { m1 with stack := l.getD j.toNat .nil :: s }
            | none => .error (.err "index")
          | .list _, _ => .error (.err "type")
          | .str x, .int k =>
            let cs := x.toList
            match resolveIndex k cs.length with
            | some j => .ok { m1 with stack := .str (String.ofList [cs.getD j.toNat ' ']) :: s }
            | none => .error (.err "index")
          | .str _, _ => .error (.err "type")
          | .map r, .str k =>
            match mapGet VVal.str? k (m.heap.getD r []) with
            | some v => .ok { m1 with stack := v :: s }
            | none => .error (.err "index")
          | .map _, _ => .error (.err "type")
          | _, _ => .error (.unsupported "index on this type")
        | .storeSubscr, idx :: obj :: rhs :: s =>
          match obj, idx with
          | .list r, .int k =>
            let l := m.heap.getD r []
            match resolveIndex k l.length with
            | some j => .ok { m1 with stack := s, heap := m.heap.setIfInBounds r (l.set j.toNat rhs) }
            | none => .error (.err "index")
          | .list _, _ => .error (.err "type")
          | .map r, .str k =>
            .ok { m1 with stack := s, heap := m.heap.setIfInBounds r (mapSet VVal.str? VVal.str k rhs (m.heap.getD r [])) }
          | .map _, _ => .error (.err "type")
          | _, _ => .error (.unsupported "item assignment on this type")
        | .containsOp, x :: c :: s =>
          match c with
          | .list r =>
            let found := (m.heap.getD r []).any (fun y => vEq m 8 y x)
            .ok { m1 with stack := .bool (if i.a == 1 then !found else found) :: s }
          | .set r =>
            match vHashKey x, x with
            | some k, _ => .ok { m1 with stack := .bool ((m.heap.getD r []).any (fun y => vHashKey y == some k)) :: s }
            | none, .err _ _ => .error (.unsupported "in with an error value")
            | none, _ => .ok { m1 with stack := .bool false :: s }
          | .map r =>
            match x with
            | .str k => .ok { m1 with stack := .bool (mapGet VVal.str? k (m.heap.getD r [])).isSome :: s }
            | _ => .ok { m1 with stack := .bool false :: s }
          | _ => .error (.unsupported "in on this type")
        | .length, c :: s =>
          match c with
          | .list r => .ok { m1 with stack := .int (m.heap.getD r []).length :: s }
          | .str x => .ok { m1 with stack := .int x.length :: s }
          | _ => .error (.err "type")
        | .slice, start :: stop :: c :: s =>
          let toB : VVal → Option (Option Int)
            | .int k => some (some k)
            | .nil => some none
            | _ => none
          match c with
          | .str x =>
            match toB start, toB stop with
            | some lo, some hi =>
              let cs := x.toList
              match resolveSlice lo hi cs.length with
              | some (a, b) => .ok { m1 with stack := .str (String.ofList ((cs.drop a.toNat).take (b - a).toNat)) :: s }
              | none => .error (.err "index")
            | _, _ => .error (.err "type")
          | .list r =>
            match toB start, toB stop with
            | some lo, some hi =>
              let l := m.heap.getD r []
              match resolveSlice lo hi l.length with
              | some (a, b) => .ok { m1 with stack := .list m.heap.size :: s, heap := m.heap.push ((l.drop a.toNat).take (b - a).toNat) }
              | none => .error (.err "index")
            | _, _ => .error (.err "type")
          | _ => .error (.unsupported "slice of this type")
        | .unpack, c :: s =>
          match c with
          | .list r =>
            let l := m.heap.getD r []
            if l.length != i.a then .error (.err "error")
            else .ok { m1 with stack := l.reverse ++ s }
          | _ => .error (.err "type")
        | .loadAttr, obj :: s =>
          match obj, code.names[i.a]? with
          | .list r, some name => .ok { m1 with stack := .bound r name :: s }
          | _, _ => .error (.unsupported "attribute")
        | .getIter, c :: s =>
          match c with
          | .list r => .ok { m1 with stack := .iter m.iters.size :: s, iters := m.iters.push (.overList r (-1)) }
          | .int n => .ok { m1 with stack := .iter m.iters.size :: s, iters := m.iters.push (.overInt n (-1)) }
          | _ => .error (.unsupported "iteration over this type")
        | .forIter, it :: s =>
          match it with
          | .iter id =>
            match m.iters[id]? with
            | some (.overList r pos) =>
              let l := m.heap.getD r []
              let np := pos + 1
              if np < l.length then
                let key := VVal.int np
                let value := l.getD np.toNat .nil
                let pushed := if i.b == 1 then [key] else if i.b == 2 then [key, value] else if i.b == 3 then [value] else []
                .ok { m1 with stack := pushed ++ (.iter id :: s), iters := m.iters.setIfInBounds id (.overList r np) }
              else .ok { (setPc m (fr.pc + i.a)) with stack := s }
            | some (.overInt n pos) =>
              let a := if n < 0 then -n else n
              if pos ≥ a - 1 then .ok { (setPc m (fr.pc + i.a)) with stack := s }
              else
                let np := pos + 1
                let key := VVal.int np
                let value := VVal.int (if n < 0 then -np else np)
                let pushed := if i.b == 1 then [key] else if i.b == 2 then [key, value] else if i.b == 3 then [value] else []
                .ok { m1 with stack := pushed ++ (.iter id :: s), iters := m.iters.setIfInBounds id (.overInt n np) }
            | none => .error (.err "panic")
          | _ => .error (.err "panic")       -- the type assertion `.(object.Iterator)`
        | .call, s =>
          match popN i.a s with
          | some (args, fv :: rest) => callValue 8 { m1 with stack := rest } fv args
          | _ => .error (.err "panic")
        | .partial_, s =>
          match popN i.a s with
          | some (args, fv :: rest) =>
            .ok { m1 with stack := .partial_ m.partials.size :: rest, partials := m.partials.push (fv, args) }
          | _ => .error (.err "panic")
        | .defer_, v :: s =>
          match v with
          | .partial_ r =>
            match m.partials[r]? with
            | some d => .ok { m with stack := s, frames := { fr with pc := next, defers := d :: fr.defers } :: outer }
            | none => .error (.err "eval")
          | _ => .error (.err "type")
        | .returnValue, v :: _ =>
          if isMain then .error (.err "eval")
          else
            -- the body is over with value `v`: `resumeFrame` drops what the activation left on the
            -- operand stack and `callFunction` pops the result (`return vm.pop(), nil`) BEFORE its
            -- deferred calls run, so they start at the caller's height (seen in the dispatch trace)
            .ok { m with stack := m.stack.drop (m.stack.length - fr.spBase),
                         frames := { fr with exiting := some (.value v), exitSp := fr.spBase, ghost := true } :: outer }
        | _, _ => .error (.err "panic")     -- stack underflow: index out of range in the real VM

/-- an activation whose body is over: run its next deferred call, or leave it (`resumeFrame`:
    the operands it left behind are dropped) and hand the outcome to its continuation -/
def exitStep (m0 : VM) (fr : Frame) (outer : List Frame) (ex : Exit) : Except VRes VM :=
  -- `callFunction` pops the result of each deferred call (and a failed one leaves nothing): the
  -- next one starts at the height the exit began with
  let m : VM := { m0 with stack := m0.stack.drop (m0.stack.length - fr.exitSp) }
  match fr.defers with
  | (fn, args) :: rest => callValue 8 { m with frames := { fr with defers := rest } :: outer } fn args
  | [] =>
    let callerStack := m.stack.drop (m.stack.length - fr.spBase)
    let m' := { m with frames := outer, stack := callerStack }
    match ex with
    | .value v => .ok { m' with stack := v :: callerStack }
    | .error e =>
      match fr.kont with
      | .ret => raise m' e
      | .tryK rest last => if uncatchable e.cls then raise m' e else tryLoop m' rest (some e)

/-- one step of error propagation: the error reaches the top frame -/
def unwind (m : VM) (e : Err) : Except VRes VM :=
  match m.frames with
  | [] => .error (.err "eval")
  | [_] => .error (.err e.cls)               -- the main code: `vm.Run` returns the error
  | fr :: outer =>
    match fr.exiting with
    | none =>
      -- the body failed: its deferred calls run with the frame still active
      .ok { m with raising := none, frames := { fr with exiting := some (.error e), exitSp := m.stack.length } :: outer }
    | some ex =>
      -- a deferred call of this activation failed: a Go panic abandons the remaining deferred
      -- calls; otherwise the error replaces the outcome, unless that is a panic under way
      let (ex', ds) : Exit × List (VVal × List VVal) :=
        if e.cls == "panic" then (.error e, [])
        else
          match ex with
          | .error e0 => if e0.cls == "panic" then (ex, fr.defers) else (.error e, fr.defers)
          | .value _ => (.error e, fr.defers)
      .ok { m with raising := none, frames := { fr with exiting := some ex', defers := ds } :: outer }

/-- one step of the machine -/
def step (m : VM) : Except VRes VM :=
  match m.raising with
  | some e => unwind m e
  | none =>
    match m.frames with
    | [] => .error (.err "eval")
    | fr :: outer =>
      match fr.exiting with
      | some ex => exitStep m fr outer ex
      | none =>
        match exec m with
        | .ok m' =>
          -- `vm.stack` has MaxStackDepth = 1024 slots: the push that needs a 1025th panics (index out
          -- of range, recovered by `Run`/`Call` like any Go panic)
          if m'.stack.length > 1024 then raise m' { cls := "panic" } else .ok m'
        | .error (.err cls) =>
          -- every arm of `eval` pops its operands before it can fail, so the error leaves the stack
          -- WITHOUT them (seen in the dispatch trace: deferred calls of the failing activation start
          -- at that height)
          let pops : Nat :=
            match (findCode m.codes fr.codeId).bind (fun c => insAt c fr.pc) with
            | some i =>
              (match i.kind with
               | .fall p _ => p
               | .condF _ => 1
               | _ => 0)
            | none => 0
          raise { m with stack := m.stack.drop (min pops m.stack.length) } { cls := cls }
        | .error r => .error r

def runVM : Nat → VM → VRes × VM
  | 0, m => (.running, m)
  | f + 1, m =>
    match step m with
    | .ok m' => runVM f m'
    | .error r => (r, m)

/-- run a compiled program: main code in frame 0, host globals preloaded -/
def runCodes (fuel : Nat) (globals : List String) (codes : List CodeB) : VRes × VM :=
  let g : Array VVal := (globals.map fun n => if n == "len" || n == "print" then VVal.builtin n else VVal.builtin n).toArray
  let m : VM := { codes := codes, globals := g, frames := [{ codeId := "__main__", pc := 0, base := 0, free := [], spBase := 0 }] }
  runVM fuel m

/-! ### dispatch trace (lockstep tie with vm.eval)

`vm/vm.go`'s `eval` calls the build-tag-guarded hook `verifTrace` once per loop iteration, just
before it dispatches an instruction.  `dispatchInfo` is the same observation on the model: the
machine is about to `exec` an instruction of the top frame (it is not unwinding an error, not
leaving an activation, not at the end of the main code).  `runVMTrace` is `runVM` that also
records the observation before every step; `runVMTrace_eq` (Props.lean) proves that it is the
same run.  The harness compares the recorded sequence — code object, slot position, operand
stack height — with the real VM's, instruction for instruction. -/

def dispatchInfo (m : VM) : Option (String × Nat × Nat) :=
  match m.raising, m.frames with
  | none, fr :: _ =>
    if fr.exiting.isSome then none else
    match findCode m.codes fr.codeId with
    | some code => if fr.pc < code.len then some (fr.codeId, fr.pc, m.stack.length) else none
    | none => none
  | _, _ => none

def runVMTrace : Nat → VM → Array (String × Nat × Nat) → (VRes × VM) × Array (String × Nat × Nat)
  | 0, m, t => ((.running, m), t)
  | f + 1, m, t =>
    let t' := match dispatchInfo m with
      | some e => t.push e
      | none => t
    match step m with
    | .ok m' => runVMTrace f m' t'
    | .error r => ((r, m), t')

def runCodesTrace (fuel : Nat) (globals : List String) (codes : List CodeB) : (VRes × VM) × Array (String × Nat × Nat) :=
  let g : Array VVal := (globals.map fun n => VVal.builtin n).toArray
  let m : VM := { codes := codes, globals := g, frames := [{ codeId := "__main__", pc := 0, base := 0, free := [], spBase := 0 }] }
  runVMTrace fuel m #[]

/-- number of instructions dispatched up to and including the one at which the machine first
    starts to unwind a Go PANIC (`none`: no panic within the fuel).  What the real VM does while a
    recovered Go panic unwinds (which deferred closures get to run, at which stack height) follows
    from accidents of the Go runtime — after an operand-stack overflow `sp` stays one past the
    array and every `resumeFrame` panics again — and is not modelled: the lockstep comparison of
    dispatch traces stops at this index when the run ends in a panic (harness/c01trace.go). -/
def panicDispatchIndex : Nat → VM → Nat → Option Nat
  | 0, _, _ => none
  | f + 1, m, k =>
    let k' := if (dispatchInfo m).isSome then k + 1 else k
    match step m with
    | .ok m' =>
      if m.raising.isNone && (m'.raising.map (·.cls)) == some "panic" then some k'
      else panicDispatchIndex f m' k'
    | .error _ => none

/-- BEFORE the repair of BuildSet: the value a set literal with an unhashable item evaluated to —
    the error object itself, pushed like any other value (finding
    C01-set-literal-unhashable-item-not-raised, fixed) -/
def buildSetPreFix (items : List VVal) : Option VVal :=
  match mkSetItems vHashKey items with
  | some _ => none
  | none => some (.err "type" none)

end Risor.C01
