import RisorModel.C01.Sem
import RisorModel.C01.Compile
/-
C01 — Impl model of vm/vm.go's `eval` on the bytecode produced by `Compile.lean` (which the
correspondence check shows identical to the real compiler's): operand stack, frames with
local slots, cells addressing local slots POSITIONALLY (`MakeCell idx framesBack` looks at
`frames[fp - framesBack]`, as the code does), closures, iterators, builtins `len`/`print`,
`list.append`.  Small-step `step`, run by fuel.  Core Lean only.
-/
namespace Risor.C01
open Risor.C04 (Op Ins)

inductive VVal where
  | nil
  | bool (b : Bool)
  | int (i : Int)
  | str (s : String)
  | list (ref : Nat)
  | fn (codeId : String) (free : List Nat)      -- function constant / closure over cell addresses
  | builtin (name : String)
  | bound (ref : Nat) (method : String)         -- list method value
  | cell (addr : Nat)
  | iter (id : Nat)
  deriving Repr, DecidableEq, Inhabited

inductive IterSt where
  | overList (ref : Nat) (pos : Int)            -- pos = index of the current item, -1 before the first
  | overInt (n : Int) (pos : Int)
  deriving Repr, Inhabited

structure Frame where
  codeId : String
  pc : Nat                 -- slot position of the next instruction
  base : Nat               -- address of local slot 0 in `store`
  free : List Nat          -- cell addresses of the running closure
  spBase : Nat             -- operand-stack height at entry (restored on return)
  deriving Repr, Inhabited

structure VM where
  codes : List CodeB
  stack : List VVal := []          -- top first
  frames : List Frame := []        -- innermost first
  globals : Array VVal := #[]
  store : Array VVal := #[]        -- local slots of all activations
  heap : Array (List VVal) := #[]
  iters : Array IterSt := #[]
  out : List String := []
  deriving Inhabited

inductive VRes where
  | running
  | done (v : VVal)
  | err (cls : String)
  | unsupported (what : String)
  deriving Repr, Inhabited

def findCode (codes : List CodeB) (id : String) : Option CodeB := codes.find? (·.id == id)

def insAt (c : CodeB) (pc : Nat) : Option Ins := (c.ins.find? (fun (p, _) => p == pc)).map (·.2)

def VVal.truthy (m : VM) : VVal → Bool
  | .nil => false
  | .bool b => b
  | .int i => i != 0
  | .str s => s != ""
  | .list r => !(m.heap.getD r []).isEmpty
  | _ => true

def vEq (m : VM) : Nat → VVal → VVal → Bool
  | _, .nil, .nil => true
  | _, .bool a, .bool b => a == b
  | _, .int a, .int b => a == b
  | _, .str a, .str b => a == b
  | 0, .list a, .list b => a == b
  | f + 1, .list a, .list b =>
    let la := m.heap.getD a []
    let lb := m.heap.getD b []
    la.length == lb.length && (la.zip lb).all (fun (x, y) => vEq m f x y)
  | _, .fn a fa, .fn b fb => a == b && fa == fb
  | _, .builtin a, .builtin b => a == b
  | _, _, _ => false

def vInspect (m : VM) : Nat → VVal → String
  | _, .nil => "nil"
  | _, .bool b => if b then "true" else "false"
  | _, .int i => toString i
  | _, .str s => "\"" ++ s ++ "\""
  | 0, .list _ => "[...]"
  | f + 1, .list r => "[" ++ ", ".intercalate ((m.heap.getD r []).map (vInspect m f)) ++ "]"
  | _, _ => "object"

def vDisplay (m : VM) (v : VVal) : String :=
  match v with
  | .str s => s
  | v => vInspect m 8 v

/-- `object.BinaryOp` (opcode operand 1..13) -/
def vBinary (m : VM) (k : Nat) (a b : VVal) : Except VRes (VVal × VM) :=
  if k == 6 then .ok ((if a.truthy m then b else a), m)
  else if k == 7 then .ok ((if a.truthy m then a else b), m)
  else
    match a, b with
    | .int x, .int y =>
      if k == 1 then .ok (.int (wrap64 (x + y)), m)
      else if k == 2 then .ok (.int (wrap64 (x - y)), m)
      else if k == 3 then .ok (.int (wrap64 (x * y)), m)
      else if k == 4 then (if y == 0 then .error (.err "panic") else .ok (.int (wrap64 (Int.tdiv x y)), m))
      else if k == 5 then (if y == 0 then .error (.err "panic") else .ok (.int (wrap64 (Int.tmod x y)), m))
      else .error (.unsupported "int operator")
    | .str x, .str y => if k == 1 then .ok (.str (x ++ y), m) else .error (.err "type")
    | .list x, .list y =>
      if k == 1 then
        .ok (.list m.heap.size, { m with heap := m.heap.push (m.heap.getD x [] ++ m.heap.getD y []) })
      else .error (.unsupported "list operator")
    | _, _ => .error (.err "type")

/-- `object.Compare` (operand 1..6) -/
def vCompare (m : VM) (k : Nat) (a b : VVal) : Except VRes VVal :=
  if k == 3 then .ok (.bool (vEq m 8 a b))
  else if k == 4 then .ok (.bool (!vEq m 8 a b))
  else
    match a, b with
    | .int x, .int y =>
      .ok (.bool (if k == 1 then x < y else if k == 2 then x ≤ y else if k == 5 then x > y else x ≥ y))
    | .str x, .str y =>
      .ok (.bool (if k == 1 then x < y else if k == 2 then x ≤ y else if k == 5 then x > y else x ≥ y))
    | _, _ => .error (.err "type")

def setPc (m : VM) (pc : Nat) : VM :=
  match m.frames with
  | f :: rest => { m with frames := { f with pc := pc } :: rest }
  | [] => m

/-- enter a function: `callFunction` (arity, defaults, self slot) -/
def enter (m : VM) (codeId : String) (free : List Nat) (args : List VVal) : Except VRes VM :=
  match findCode m.codes codeId with
  | none => .error (.err "eval")
  | some c =>
    let np := c.params.length
    if args.length > np then .error (.err "args")
    else
      -- defaults for the missing trailing parameters
      let missing := c.defaults.drop args.length
      if missing.any Option.isNone then .error (.err "args")
      else
        let dvals := missing.map fun d => match d with
          | some (.int i) => VVal.int i
          | some (.bool b) => VVal.bool b
          | some (.str s) => VVal.str s
          | _ => VVal.nil
        let selfSlot : List VVal := if c.name != "" then [.fn codeId free] else []
        let locals := args ++ dvals ++ selfSlot
        -- reserve a generous fixed number of local slots for this activation
        let base := m.store.size
        let nslots := locals.length + 64
        let store := (locals ++ List.replicate (nslots - locals.length) VVal.nil).foldl (fun s v => s.push v) m.store
        if m.frames.length ≥ 1024 then .error (.err "panic")
        else
          .ok { m with store := store,
                       frames := { codeId := codeId, pc := 0, base := base, free := free, spBase := m.stack.length } :: m.frames }

/-- call any callable with arguments already popped; pushes the result or enters a frame -/
def callValue (m : VM) (fv : VVal) (args : List VVal) : Except VRes VM :=
  match fv with
  | .fn id free => enter m id free args
  | .builtin "len" =>
    match args with
    | [.str s] => .ok { m with stack := .int s.length :: m.stack }
    | [.list r] => .ok { m with stack := .int (m.heap.getD r []).length :: m.stack }
    | [_] => .error (.err "type")
    | _ => .error (.err "args")
  | .builtin "print" =>
    .ok { m with stack := .nil :: m.stack, out := " ".intercalate (args.map (vDisplay m)) :: m.out }
  | .bound r "append" =>
    match args with
    | [v] => .ok { m with stack := .list r :: m.stack, heap := m.heap.setIfInBounds r (m.heap.getD r [] ++ [v]) }
    | _ => .error (.err "args")
  | .builtin n => .error (.unsupported ("builtin " ++ n))
  | .bound _ n => .error (.unsupported ("method " ++ n))
  | _ => .error (.err "type")

def popN (n : Nat) (st : List VVal) : Option (List VVal × List VVal) :=
  if n ≤ st.length then some ((st.take n).reverse, st.drop n) else none

/-- one instruction of `eval` -/
def step (m : VM) : Except VRes VM :=
  match m.frames with
  | [] => .error (.err "eval")
  | fr :: outer =>
    match findCode m.codes fr.codeId with
    | none => .error (.err "eval")
    | some code =>
      if fr.pc ≥ code.len then
        -- end of code: only the main code ends this way; its result is the top of the stack
        .error (.done (m.stack.headD .nil))
      else
      match insAt code fr.pc with
      | none => .error (.err "eval")
      | some i =>
        let next := fr.pc + i.size
        let m1 := setPc m next
        let isMain := outer.isEmpty
        match i.op, m.stack with
        | .nop, _ => .ok m1
        | .nil_, s => .ok { m1 with stack := .nil :: s }
        | .true_, s => .ok { m1 with stack := .bool true :: s }
        | .false_, s => .ok { m1 with stack := .bool false :: s }
        | .loadConst, s =>
          match code.consts[i.a]? with
          | some (.int k) => .ok { m1 with stack := .int k :: s }
          | some (.str k) => .ok { m1 with stack := .str k :: s }
          | some (.fn id) => .ok { m1 with stack := .fn id [] :: s }
          | none => .error (.err "panic")
        | .loadGlobal, s => .ok { m1 with stack := m.globals.getD i.a .nil :: s }
        | .storeGlobal, v :: s =>
          let g := if i.a < m.globals.size then m.globals else m.globals ++ Array.replicate (i.a + 1 - m.globals.size) VVal.nil
          .ok { m1 with stack := s, globals := g.setIfInBounds i.a v }
        | .loadFast, s => .ok { m1 with stack := m.store.getD (fr.base + i.a) .nil :: s }
        | .storeFast, v :: s => .ok { m1 with stack := s, store := m.store.setIfInBounds (fr.base + i.a) v }
        | .loadFree, s =>
          match fr.free[i.a]? with
          | some addr => .ok { m1 with stack := m.store.getD addr .nil :: s }
          | none => .error (.err "panic")
        | .storeFree, v :: s =>
          match fr.free[i.a]? with
          | some addr => .ok { m1 with stack := s, store := m.store.setIfInBounds addr v }
          | none => .error (.err "panic")
        | .makeCell, s =>
          -- positional: the frame `framesBack` below the active one
          match m.frames[i.b]? with
          | some target => .ok { m1 with stack := .cell (target.base + i.a) :: s }
          | none => .error (.err "eval")
        | .loadClosure, s =>
          match popN i.b s, code.consts[i.a]? with
          | some (cells, rest), some (.fn id) =>
            let addrs := cells.filterMap fun c => match c with | .cell a => some a | _ => none
            if addrs.length != cells.length then .error (.err "eval")
            else .ok { m1 with stack := .fn id addrs :: rest }
          | _, _ => .error (.err "panic")
        | .binaryOp, b :: a :: s =>
          match vBinary m1 i.a a b with
          | .ok (v, m2) => .ok { m2 with stack := v :: s }
          | .error e => .error e
        | .compareOp, b :: a :: s =>
          match vCompare m i.a a b with
          | .ok v => .ok { m1 with stack := v :: s }
          | .error e => .error e
        | .unaryNegative, v :: s =>
          match v with
          | .int k => .ok { m1 with stack := .int (wrap64 (-k)) :: s }
          | _ => .error (.err "type")
        | .unaryNot, v :: s => .ok { m1 with stack := .bool (!v.truthy m) :: s }
        | .popTop, _ :: s => .ok { m1 with stack := s }
        | .copy, s =>
          match s[i.a]? with
          | some v => .ok { m1 with stack := v :: s }
          | none => .error (.err "panic")
        | .swap, top :: s =>
          -- swap TOS with the element `a` below it
          if i.a == 0 then .ok m1
          else
            match s[i.a - 1]? with
            | some other => .ok { m1 with stack := other :: s.set (i.a - 1) top }
            | none => .error (.err "panic")
        | .jumpForward, _ => .ok (setPc m (fr.pc + i.a))
        | .jumpBackward, _ => .ok (setPc m (fr.pc - i.a))
        | .popJumpForwardIfFalse, v :: s =>
          .ok { (if v.truthy m then m1 else setPc m (fr.pc + i.a)) with stack := s }
        | .popJumpForwardIfTrue, v :: s =>
          .ok { (if v.truthy m then setPc m (fr.pc + i.a) else m1) with stack := s }
        | .buildList, s =>
          match popN i.a s with
          | some (items, rest) => .ok { m1 with stack := .list m.heap.size :: rest, heap := m.heap.push items }
          | none => .error (.err "panic")
        | .buildString, s =>
          match popN i.a s with
          | some (items, rest) => .ok { m1 with stack := .str (String.join (items.map (vDisplay m))) :: rest }
          | none => .error (.err "panic")
        | .binarySubscr, idx :: obj :: s =>
          match obj, idx with
          | .list r, .int k =>
            let l := m.heap.getD r []
            match resolveIndex k l.length with
            | some j => .ok { m1 with stack := l.getD j.toNat .nil :: s }
            | none => .error (.err "index")
          | .list _, _ => .error (.err "type")
          | _, _ => .error (.unsupported "index on a non-list")
        | .storeSubscr, idx :: obj :: rhs :: s =>
          match obj, idx with
          | .list r, .int k =>
            let l := m.heap.getD r []
            match resolveIndex k l.length with
            | some j => .ok { m1 with stack := s, heap := m.heap.setIfInBounds r (l.set j.toNat rhs) }
            | none => .error (.err "index")
          | .list _, _ => .error (.err "type")
          | _, _ => .error (.unsupported "item assignment on a non-list")
        | .containsOp, x :: c :: s =>
          match c with
          | .list r =>
            let found := (m.heap.getD r []).any (fun y => vEq m 8 y x)
            .ok { m1 with stack := .bool (if i.a == 1 then !found else found) :: s }
          | _ => .error (.unsupported "in on a non-list")
        | .length, c :: s =>
          match c with
          | .list r => .ok { m1 with stack := .int (m.heap.getD r []).length :: s }
          | .str x => .ok { m1 with stack := .int x.length :: s }
          | _ => .error (.err "type")
        | .slice, start :: stop :: c :: s =>
          match c with
          | .list r =>
            let toB : VVal → Option (Option Int)
              | .int k => some (some k)
              | .nil => some none
              | _ => none
            match toB start, toB stop with
            | some lo, some hi =>
              let l := m.heap.getD r []
              match resolveSlice lo hi l.length with
              | some (a, b) => .ok { m1 with stack := .list m.heap.size :: s, heap := m.heap.push ((l.drop a.toNat).take (b - a).toNat) }
              | none => .error (.err "index")
            | _, _ => .error (.err "type")
          | _ => .error (.unsupported "slice of a non-list")
        | .unpack, c :: s =>
          match c with
          | .list r =>
            let l := m.heap.getD r []
            if l.length != i.a then .error (.err "error")
            else .ok { m1 with stack := l.reverse ++ s }
          | _ => .error (.err "type")
        | .loadAttr, obj :: s =>
          match obj, code.names[i.a]? with
          | .list r, some name => .ok { m1 with stack := .bound r name :: s }
          | _, _ => .error (.unsupported "attribute")
        | .getIter, c :: s =>
          match c with
          | .list r => .ok { m1 with stack := .iter m.iters.size :: s, iters := m.iters.push (.overList r (-1)) }
          | .int n => .ok { m1 with stack := .iter m.iters.size :: s, iters := m.iters.push (.overInt n (-1)) }
          | _ => .error (.unsupported "iteration over this type")
        | .forIter, it :: s =>
          match it with
          | .iter id =>
            match m.iters[id]? with
            | some (.overList r pos) =>
              let l := m.heap.getD r []
              let np := pos + 1
              if np < l.length then
                let key := VVal.int np
                let value := l.getD np.toNat .nil
                let pushed := if i.b == 1 then [key] else if i.b == 2 then [key, value] else if i.b == 3 then [value] else []
                .ok { m1 with stack := pushed ++ (.iter id :: s), iters := m.iters.setIfInBounds id (.overList r np) }
              else .ok { (setPc m (fr.pc + i.a)) with stack := s }
            | some (.overInt n pos) =>
              let a := if n < 0 then -n else n
              if pos ≥ a - 1 then .ok { (setPc m (fr.pc + i.a)) with stack := s }
              else
                let np := pos + 1
                let key := VVal.int np
                let value := VVal.int (if n < 0 then -np else np)
                let pushed := if i.b == 1 then [key] else if i.b == 2 then [key, value] else if i.b == 3 then [value] else []
                .ok { m1 with stack := pushed ++ (.iter id :: s), iters := m.iters.setIfInBounds id (.overInt n np) }
            | none => .error (.err "panic")
          | _ => .error (.err "panic")       -- the type assertion `.(object.Iterator)`
        | .call, s =>
          match popN i.a s with
          | some (args, fv :: rest) => callValue { m1 with stack := rest } fv args
          | _ => .error (.err "panic")
        | .returnValue, v :: _ =>
          if isMain then .error (.err "eval")
          else
            -- resumeFrame: restore the caller's stack height and push the result
            let callerStack := m.stack.drop (m.stack.length - fr.spBase)
            .ok { m with frames := outer, stack := v :: callerStack }
        | _, _ => .error (.err "panic")     -- stack underflow: index out of range in the real VM

def runVM : Nat → VM → VRes × VM
  | 0, m => (.running, m)
  | f + 1, m =>
    match step m with
    | .ok m' => runVM f m'
    | .error r => (r, m)

/-- run a compiled program: main code in frame 0, host globals preloaded -/
def runCodes (fuel : Nat) (globals : List String) (codes : List CodeB) : VRes × VM :=
  let g : Array VVal := (globals.map fun n => if n == "len" || n == "print" then VVal.builtin n else VVal.builtin n).toArray
  let m : VM := { codes := codes, globals := g, frames := [{ codeId := "__main__", pc := 0, base := 0, free := [], spBase := 0 }] }
  runVM fuel m

end Risor.C01
