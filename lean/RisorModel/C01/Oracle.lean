import RisorModel.Util
import RisorModel.C01.Decode
import RisorModel.C01.Compile
/-! Line-protocol front end of the C01 model.
  `eval <sexp>` → `ok <value> <stdout-hex>` | `err <class> <stdout-hex>` | `oof` | `unsupported <what>` -/
namespace Risor.C01

def handle : List String → String
  | ["eval", sx] =>
    match decodeProg sx with
    | none => "error\tcannot decode the program"
    | some p => showOutcome (runProg 200000 p)
  | ["compile", sx, globals] =>
    match decodeProg sx with
    | none => "error\tcannot decode the program"
    | some p =>
      match compileProg ((globals.splitOn ",").filter (· ≠ "")) p with
      | .error e => "fail\t" ++ e
      | .ok codes =>
        let showConst : Const → String
          | .int i => "i" ++ toString i
          | .str s => "s" ++ Util.toHexField (Util.strBytes s)
          | .fn id => "f" ++ id
        let one (c : CodeB) : String :=
          "id=" ++ c.id ++ ";ins=" ++ codeText c ++ ";consts=" ++ ",".intercalate (c.consts.toList.map showConst)
            ++ ";names=" ++ ",".intercalate c.names.toList
        let sorted := (codes.map one).toArray.qsort (fun a b => a < b) |>.toList
        "ok\t" ++ "|".intercalate sorted
  | _ => "error\tunknown-request"

end Risor.C01
