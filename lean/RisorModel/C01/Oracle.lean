import RisorModel.Util
/-! Line-protocol front end of the C01 model (stub until the model exists). -/
namespace Risor.C01

def handle : List String → String
  | _ => "error\tnot-implemented"

end Risor.C01
