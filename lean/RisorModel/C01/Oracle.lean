import RisorModel.Util
import RisorModel.C01.Decode
/-! Line-protocol front end of the C01 model.
  `eval <sexp>` → `ok <value> <stdout-hex>` | `err <class> <stdout-hex>` | `oof` | `unsupported <what>` -/
namespace Risor.C01

def handle : List String → String
  | ["eval", sx] =>
    match decodeProg sx with
    | none => "error\tcannot decode the program"
    | some p => showOutcome (runProg 200000 p)
  | _ => "error\tunknown-request"

end Risor.C01
