import RisorModel.Util
import RisorModel.C01.Decode
import RisorModel.C01.Compile
import RisorModel.C01.VM
import RisorModel.C01.PrattOracle
import RisorModel.C01.FragOracle
import RisorModel.C01.FunOracle
import RisorModel.C01.CloOracle
import RisorModel.C01.SeqOracle
import RisorModel.C01.StrOracle
import RisorModel.C01.EdgeOracle
/-! Line-protocol front end of the C01 model.
  `eval <sexp>` → `ok <value> <stdout-hex>` | `err <class> <stdout-hex>` | `oof` | `unsupported <what>` -/
namespace Risor.C01

partial def showVVal (m : VM) (v : VVal) : String :=
  match v with
  | .nil => "(nil)"
  | .bool b => if b then "(bool 1)" else "(bool 0)"
  | .int i => "(int " ++ toString i ++ ")"
  | .str s => "(str " ++ Util.toHexField (Util.strBytes s) ++ ")"
  | .list r => "(list" ++ String.join ((m.heap.getD r []).map (fun x => " " ++ showVVal m x)) ++ ")"
  | .fn _ _ => "(fn)"
  | .builtin n => "(builtin " ++ n ++ ")"
  | .err c _ => "(error " ++ c ++ ")"
  | .set r => "(set" ++ String.join ((m.heap.getD r []).map (fun x => " " ++ showVVal m x)) ++ ")"
  | .map r => "(map" ++ String.join ((m.heap.getD r []).map (fun x => " " ++ showVVal m x)) ++ ")"
  | _ => "(other)"

def showVM (r : VRes × VM) : String :=
  let out := Util.toHexField (Util.strBytes (String.join (r.2.out.reverse.map (· ++ "\n"))))
  match r.1 with
  | .done v => "ok\t" ++ showVVal r.2 v ++ "\t" ++ out
  | .err c => "err\t" ++ c ++ "\t" ++ out
  | .running => "oof\t-\t" ++ out
  | .unsupported w => "unsupported\t" ++ w ++ "\t" ++ out

def handle : List String → String
  | ["eval", sx] =>
    match decodeProg sx with
    | none => "error\tcannot decode the program"
    | some p => showOutcome (runProg 200000 p)
  | ["vmrun", sx, globals] =>
    match decodeProg sx with
    | none => "error\tcannot decode the program"
    | some p =>
      let gs := (globals.splitOn ",").filter (· ≠ "")
      match compileProg gs p with
      | .error _ => "err\tcompile\t-"
      | .ok codes => showVM (runCodes 2000000 gs codes)
  | ["vmtrace", sx, globals] =>
    -- the model's outcome followed by its dispatch trace: number of dispatched instructions and
    -- the first 4000 observations `code:pc:height`
    match decodeProg sx with
    | none => "error\tcannot decode the program"
    | some p =>
      let gs := (globals.splitOn ",").filter (· ≠ "")
      match compileProg gs p with
      | .error _ => "err\tcompile\t-\t0\t-"
      | .ok codes =>
        let r := runCodesTrace 2000000 gs codes
        let shown := (r.2.toList.take 4000).map fun (id, pc, h) => id ++ ":" ++ toString pc ++ ":" ++ toString h
        -- and the last 64 observations (runs longer than 4000 instructions are compared at both ends)
        let tail := (r.2.toList.drop (r.2.size - 64)).map fun (id, pc, h) => id ++ ":" ++ toString pc ++ ":" ++ toString h
        showVM r.1 ++ "\t" ++ toString r.2.size ++ "\t" ++ (if shown.isEmpty then "-" else ",".intercalate shown)
          ++ "\t" ++ (if tail.isEmpty then "-" else ",".intercalate tail)
          ++ "\t" ++ (match r.1.1 with
                      | .err "panic" =>
                        let g : Array VVal := (gs.map fun n => VVal.builtin n).toArray
                        let m0 : VM := { codes := codes, globals := g, frames := [{ codeId := "__main__", pc := 0, base := 0, free := [], spBase := 0 }] }
                        (match panicDispatchIndex 2000000 m0 0 with
                         | some k => toString k
                         | none => "-")
                      | _ => "-")
  | ["compile", sx, globals] =>
    match decodeProg sx with
    | none => "error\tcannot decode the program"
    | some p =>
      match compileProg ((globals.splitOn ",").filter (· ≠ "")) p with
      | .error e => "fail\t" ++ e
      | .ok codes =>
        let showConst : Const → String
          | .int i => "i" ++ toString i
          | .str s => "s" ++ Util.toHexField (Util.strBytes s)
          | .fn id => "f" ++ id
        let one (c : CodeB) : String :=
          "id=" ++ c.id ++ ";ins=" ++ codeText c ++ ";consts=" ++ ",".intercalate (c.consts.toList.map showConst)
            ++ ";names=" ++ ",".intercalate c.names.toList
        let sorted := (codes.map one).toArray.qsort (fun a b => a < b) |>.toList
        "ok\t" ++ "|".intercalate sorted
  | "pratt" :: rest => handlePratt rest
  | "frag" :: rest => handleFrag rest
  | "fun" :: rest => handleFun rest
  | "clo" :: rest => handleClo rest
  | "seq" :: rest => handleSeq rest
  | "str" :: rest => handleStr rest
  | "edge" :: rest => Edge.handleEdge rest
  | _ => "error\tunknown-request"

end Risor.C01
