import RisorModel.C01.Frag
/-
C01 — the third PROVED FRAGMENT of compiler correctness: CLOSURES WITH DEPTH-1 CAPTURES (fragment
"F5": function literals nested in functions that read and write the locals and parameters of the
enclosing function).

The same three executable definitions as `Fun.lean`, over a machine with CALL FRAMES and a HEAP OF
CELLS:

  * `ev` / `evalClo`   the restriction of the reference semantics `Sem.lean` to the fragment:
                       everything of `Fun.lean` plus function literals as EXPRESSIONS anywhere in
                       a function body (returned, stored in locals / globals, passed as arguments,
                       called immediately).  Every variable of a function activation is a CELL
                       named by (the activation's serial number, the variable's name); a closure
                       value records the cells of the enclosing activation's variables its body
                       refers to (`capt`: one cell per REFERENCE, in the order the real compiler
                       resolves them), so the cells outlive the activation that made them, and two
                       closures made by one activation share its cells;
  * `comp` / `compClo` the functional compiler: `LoadFast`/`StoreFast` for the function's own names,
                       `LoadFree`/`StoreFree` for the names of the ENCLOSING function's table,
                       `LoadGlobal`/`StoreGlobal` otherwise; a literal with captures compiles to
                       `MakeCell x 0` per resolution, in resolution order, then
                       `LoadClosure fn n`; one without captures to `LoadConst fn`;
  * `mstep` / `runClo` the machine: frames, operand stack, and the heap slices that hold the locals
                       of activations; cells point into those slices.

Names, not indices: variables and captured cells are referred to BY NAME (local / free / constant
indices are assigned by `CloOracle.lean`'s assembly pass and compared with the real compiler's).
This machine puts an activation's locals slice on the heap when the activation starts; the real VM
keeps them in the frame and moves them there at the activation's first `MakeCell`
(`frame.CaptureLocals`) — `CloVM.lean` has that machine, `CloVMLemmas.lean` the proof that it runs in
lockstep with this one under an explicit relation between the two stores.
Core Lean only.
-/
namespace Risor.C01
deriving instance DecidableEq for N
end Risor.C01

namespace Risor.C01.Clo
open Risor.C01
open Risor.C01.Frag (isNilL opOK postName isDefault countDefault dfltBody assignK nodup declOf)

/-! ### values, stores, outcomes -/

/-- the identity of a function: its literal (the `func` node) and the names of the enclosing
    function's symbol table (what the literal may capture) — everything its code depends on -/
abbrev FnId := N × List String

/-- a cell: the variable `x` of the activation with serial number `a` -/
abbrev Cell := Nat × String

/-- a function value without captures is the function's identity (the real VM pushes the SAME
    `*object.Function` constant every time, and `Function.Equals` is pointer identity); a closure
    is a fresh object (`object.NewClosure`: serial number `id`) over the cells it captured; a cell
    on the operand stack exists only between `MakeCell` and `LoadClosure` -/
inductive V where
  | nil
  | bool (b : Bool)
  | int (i : Int)
  | str (s : String)
  | fn (k : FnId)
  | clo (id : Nat) (k : FnId) (cells : List Cell)
  | cell (a : Nat) (x : String)
  deriving Repr, DecidableEq, Inhabited

def V.truthy : V → Bool
  | .nil => false
  | .bool b => b
  | .int i => i != 0
  | .str s => s != ""
  | .fn _ => true
  | .clo _ _ _ => true
  | .cell _ _ => true

/-- what `Call` finds in a callable: the function and the cells of its free variables -/
def V.callee : V → Option (FnId × List Cell)
  | .fn k => some (k, [])
  | .clo _ k cs => some (k, cs)
  | _ => none

/-- variables by name; the most recent binding wins; an unbound name reads `nil` -/
abbrev Store := List (String × V)

def Store.get : Store → String → V
  | [], _ => .nil
  | (y, v) :: r, x => if x == y then v else Store.get r x

def Store.set (s : Store) (x : String) (v : V) : Store := (x, v) :: s

/-- the cells: the variables of all activations, by (activation, name); the most recent write
    wins; a cell never written reads `nil` -/
abbrev Cells := List (Cell × V)

def Cells.get : Cells → Nat → String → V
  | [], _, _ => .nil
  | ((b, y), v) :: r, a, x => if a == b && x == y then v else Cells.get r a x

def Cells.set (h : Cells) (a : Nat) (x : String) (v : V) : Cells := ((a, x), v) :: h

/-- the initial locals `L` of the fresh activation `a` -/
def Cells.bind (h : Cells) (a : Nat) (L : Store) : Cells := L.map (fun p => ((a, p.1), p.2)) ++ h

/-- how a code object resolves names: `ls` = the names of its own symbol table (empty for the
    main code), `fr` = the names of the ENCLOSING function's table (empty for the main code and for
    functions written at the top level): own names are local, the enclosing function's are free
    variables, every other name is global (`SymbolTable.Resolve`) -/
structure Sc where
  ls : List String
  fr : List String
  deriving Repr, DecidableEq, Inhabited

/-- the running activation: its serial number and the cells of the running closure -/
structure Act where
  id : Nat
  fv : List Cell
  deriving Repr, DecidableEq, Inhabited

/-- the cell the running closure holds for the free variable `x` (`LoadFree`/`StoreFree`; there
    always is one when the closure was made by the code compiled for its literal: the default —
    a cell of the main code's activation, which has no variables — is never reached then) -/
def Act.cellOf (a : Act) (x : String) : Cell :=
  match a.fv.find? (·.2 == x) with
  | some c => c
  | none => (0, x)

/-- what all activations share: the cells, the globals, the next serial number (activations and
    closures are numbered from one counter) -/
structure Sh where
  cells : Cells
  glob : Store
  next : Nat
  deriving Repr, DecidableEq, Inhabited

structure Env where
  act : Act
  sh : Sh
  deriving Repr, DecidableEq, Inhabited

def Env.get (ls : Sc) (σ : Env) (x : String) : V :=
  if ls.ls.contains x then σ.sh.cells.get σ.act.id x
  else if ls.fr.contains x then σ.sh.cells.get (σ.act.cellOf x).1 (σ.act.cellOf x).2
  else σ.sh.glob.get x

def Env.set (ls : Sc) (σ : Env) (x : String) (v : V) : Env :=
  if ls.ls.contains x then { σ with sh := { σ.sh with cells := σ.sh.cells.set σ.act.id x v } }
  else if ls.fr.contains x then
    { σ with sh := { σ.sh with cells := σ.sh.cells.set (σ.act.cellOf x).1 (σ.act.cellOf x).2 v } }
  else { σ with sh := { σ.sh with glob := σ.sh.glob.set x v } }

/-- abrupt completion: a raised error (its class), or a `return` on its way to the call -/
inductive Exc where
  | cls (c : String)
  | ret (v : V)
  deriving Repr, DecidableEq, Inhabited

inductive Out where
  | val (v : V)           -- an expression / expression statement / statement list produced a value
  | unit                  -- a non-expression statement completed
  | brk | cont            -- a `break` / `continue` on its way to the enclosing loop
  | err (x : Exc)         -- an error (class), or a `return v` leaving the running function
  | oof                   -- out of fuel
  deriving Repr, DecidableEq, Inhabited

/-! ### operators (as `Frag.lean`; a function operand is a type error except for `==`, `!=`,
    `&&`, `||`, `!`) -/

def binopF (op : BinOp) (a b : V) : Except String V :=
  match op with
  | .eq => .ok (.bool (a == b))
  | .ne => .ok (.bool (!(a == b)))
  | .and => .ok (if a.truthy then b else a)
  | .or => .ok (if a.truthy then a else b)
  | _ =>
    match a, b with
    | .int x, .int y =>
      match op with
      | .add => .ok (.int (wrap64 (x + y)))
      | .sub => .ok (.int (wrap64 (x - y)))
      | .mul => .ok (.int (wrap64 (x * y)))
      | .div => if y == 0 then .error "panic" else .ok (.int (wrap64 (Int.tdiv x y)))
      | .mod => if y == 0 then .error "panic" else .ok (.int (wrap64 (Int.tmod x y)))
      | .lt => .ok (.bool (x < y))
      | .le => .ok (.bool (x ≤ y))
      | .gt => .ok (.bool (x > y))
      | .ge => .ok (.bool (x ≥ y))
      | _ => .error "unsupported"
    | .str x, .str y =>
      match op with
      | .add => .ok (.str (x ++ y))
      | .lt => .ok (.bool (x < y))
      | .le => .ok (.bool (x ≤ y))
      | .gt => .ok (.bool (x > y))
      | .ge => .ok (.bool (x ≥ y))
      | _ => .error "type"
    | .bool x, .bool y =>
      match op with
      | .lt => .ok (.bool (!x && y))
      | .le => .ok (.bool (!x || y))
      | .gt => .ok (.bool (x && !y))
      | .ge => .ok (.bool (x || !y))
      | _ => .error "type"
    | .nil, .nil =>
      match op with
      | .lt | .gt => .ok (.bool false)
      | .le | .ge => .ok (.bool true)
      | _ => .error "type"
    | _, _ => .error "type"

def applyF (op : AssignOp) (cur v : V) : Except String V :=
  match op with
  | .set => .ok v
  | .add => binopF .add cur v
  | .sub => binopF .sub cur v
  | .mul => binopF .mul cur v
  | .div => binopF .div cur v

def vBinaryF (k : Nat) (a b : V) : Except String V :=
  if k == 6 then .ok (if a.truthy then b else a)
  else if k == 7 then .ok (if a.truthy then a else b)
  else
    match a, b with
    | .int x, .int y =>
      if k == 1 then .ok (.int (wrap64 (x + y)))
      else if k == 2 then .ok (.int (wrap64 (x - y)))
      else if k == 3 then .ok (.int (wrap64 (x * y)))
      else if k == 4 then (if y == 0 then .error "panic" else .ok (.int (wrap64 (Int.tdiv x y))))
      else if k == 5 then (if y == 0 then .error "panic" else .ok (.int (wrap64 (Int.tmod x y))))
      else .error "unsupported"
    | .str x, .str y => if k == 1 then .ok (.str (x ++ y)) else .error "type"
    | _, _ => .error "type"

def vCompareF (k : Nat) (a b : V) : Except String V :=
  if k == 3 then .ok (.bool (a == b))
  else if k == 4 then .ok (.bool (!(a == b)))
  else
    match a, b with
    | .int x, .int y =>
      .ok (.bool (if k == 1 then x < y else if k == 2 then x ≤ y else if k == 5 then x > y else x ≥ y))
    | .str x, .str y =>
      .ok (.bool (if k == 1 then x < y else if k == 2 then x ≤ y else if k == 5 then x > y else x ≥ y))
    | .bool x, .bool y =>
      .ok (.bool (if k == 1 then !x && y else if k == 2 then !x || y else if k == 5 then x && !y else x || !y))
    | .nil, .nil => .ok (.bool (if k == 1 then false else if k == 2 then true else if k == 5 then false else true))
    | _, _ => .error "type"

/-! ### shallow syntactic classes (head constructor only) -/

def isFuncLit : N → Bool
  | .func _ _ _ => true
  | _ => false

def funcName : N → String
  | .func name _ _ => name
  | _ => ""

/-- a NAMED function literal `func f(…) { … }` (a declaration statement) -/
def isNamed : N → Bool
  | .func name _ _ => name != ""
  | _ => false

def isNone : N → Bool
  | .none_ => true
  | _ => false

/-- `leavesValue` of compiler.go as far as `compileStmts` has to pop: expression statements.
    (A named function declaration leaves its value too; its `PopTop` is part of the
    declaration's code here, which gives the same instruction sequence in every position.) -/
def leaves : N → Bool
  | .expr e => !isNamed e
  | _ => false

/-- statements that push no value -/
def isUnitNode : N → Bool
  | .var _ _ | .assign _ _ _ | .postfix _ _ | .forcond _ _ | .forever _ | .for3 _ _ _ _
  | .break_ | .continue_ | .return_ _ => true
  | .expr e => isNamed e
  | _ => false

def isE : N → Bool
  | .nilLit | .int _ | .bool _ | .str _ | .id _ | .infix _ _ _ | .neg _ | .not _ | .tern _ _ _ | .if_ _ _ _
  | .switch _ _ | .call _ _ | .func _ _ _ => true
  | _ => false

def isBlock : N → Bool
  | .block _ => true
  | _ => false

def isElse : N → Bool
  | .block _ | .none_ | .if_ _ _ _ => true
  | _ => false

def isL : N → Bool
  | .cons _ _ | .nilL => true
  | _ => false

def isS (n : N) : Bool := isUnitNode n || leaves n

/-- a `break`/`continue` inside `n` can leave `n` (loops catch their own; the body of a function
    literal is another code object) -/
def escapes : N → Bool
  | .break_ | .continue_ => true
  | .infix _ l r => escapes l || escapes r
  | .neg e | .not e | .expr e | .block e | .prog e | .var _ e | .assign _ _ e | .return_ e => escapes e
  | .tern c a b | .if_ c a b => escapes c || escapes a || escapes b
  | .cons h t => escapes h || escapes t
  | .call f a => escapes f || escapes a
  | _ => false

def isInit : N → Bool
  | .var _ _ | .assign _ _ _ | .postfix _ _ => true
  | _ => false

def isPost : N → Bool
  | .assign _ _ _ | .postfix _ _ => true
  | .expr e => !isNamed e
  | _ => false

def argCount : N → Nat
  | .cons _ t => argCount t + 1
  | _ => 0

/-! ### the fragment (shape) -/

mutual
/-- F1–F4 as in `Fun.lean` (expressions, assignments, if/else, the three loop forms,
    break/continue where no operand is pending, switch, calls, `return`), in the main code AND in
    function bodies, plus
    * anonymous function literals `func(params) { … }` as EXPRESSIONS, anywhere an expression may
      stand (right-hand sides, `return`, arguments, callees, operands);
    * named declarations `func f(params) { … }` as statements
    (a function's body is checked by `wfBody`, not here: it does not run where the literal is
    evaluated). -/
def wf : N → Bool
  | .nilLit | .none_ | .int _ | .bool _ | .str _ | .id _ | .nilL | .postfix _ _ | .break_ | .continue_ => true
  | .func name _ _ => name == ""
  | .infix op l r => opOK op && isE l && isE r && !escapes l && !escapes r && wf l && wf r
  | .neg e | .not e => isE e && !escapes e && wf e
  | .tern c a b => isE c && isE a && isE b && !escapes c && !escapes a && !escapes b && wf c && wf a && wf b
  | .if_ c t e => isE c && isBlock t && isElse e && !escapes c && wf c && wf t && wf e
  | .block s => isL s && wf s
  | .prog s => isL s && !escapes s && wf s
  | .cons h t => isS h && isL t && wf h && wf t
  | .var _ e => isE e && !escapes e && wf e
  | .assign _ _ e => isE e && !escapes e && wf e
  | .expr e => if isNamed e then true else isE e && wf e
  | .forcond c b => isE c && isBlock b && !escapes c && wf c && wf b
  | .forever b => isBlock b && wf b
  | .for3 i c p b =>
    isInit i && isE c && isPost p && isBlock b && !escapes i && !escapes c && !escapes p && wf i && wf c && wf p && wf b
  | .switch subj cases => isE subj && !escapes subj && wf subj && wfCases cases && decide (countDefault cases ≤ 1)
  | .call f args => isE f && !escapes f && wf f && wfVals args
  | .return_ e => (isE e || isNone e) && !escapes e && wf e
  | _ => false
/-- case values / call arguments: expressions no break/continue escapes -/
def wfVals : N → Bool
  | .cons v vs => isE v && !escapes v && wf v && wfVals vs
  | .nilL => true
  | _ => false
def wfCase : N → Bool
  | .case_ vals body => wfVals vals && isBlock body && !escapes body && wf body
  | .default_ body => isBlock body && !escapes body && wf body
  | _ => false
def wfCases : N → Bool
  | .cons h t => wfCase h && wfCases t
  | .nilL => true
  | _ => false
end

/-- a function body (the statement list of its block): no break/continue leaves it -/
def wfBody (stmts : N) : Bool := isL stmts && !escapes stmts && wf stmts

/-! ### declared names (compile order) -/

mutual
/-- every name declared by `:=` in a code object, in compile order; function bodies are other
    code objects (not entered) -/
def decls : N → List String
  | .infix _ l r => decls l ++ decls r
  | .neg e | .not e | .expr e | .block e | .prog e | .assign _ _ e | .forever e | .return_ e => decls e
  | .tern c a b | .if_ c a b => decls c ++ decls a ++ decls b
  | .var x e => decls e ++ [x]
  | .cons h t => decls h ++ decls t
  | .forcond c b => decls c ++ decls b
  | .for3 i c p b => decls i ++ decls c ++ decls b ++ decls p
  | .switch subj cases => decls subj ++ declsCmp cases ++ declsBodies cases ++ declsDflt cases
  | .call f args => decls f ++ declsVals args
  | _ => []
def declsVals : N → List String
  | .cons v vs => decls v ++ declsVals vs
  | _ => []
def declsCmpCase : N → List String
  | .case_ vals _ => declsVals vals
  | _ => []
def declsCmp : N → List String
  | .cons h t => declsCmpCase h ++ declsCmp t
  | _ => []
def declsBody : N → List String
  | .case_ _ body => decls body
  | _ => []
def declsBodies : N → List String
  | .cons h t => declsBody h ++ declsBodies t
  | _ => []
def declsDfltBody : N → List String
  | .default_ body => decls body
  | _ => []
def declsDflt : N → List String
  | .cons h t => if isDefault h then declsDfltBody h else declsDflt t
  | _ => []
end

/-! ### free-variable resolutions (compile order) -/

def isReturn : N → Bool
  | .return_ _ => true
  | _ => false

/-- `normalizeFunctionBlock`: the statements of a function body up to and including the first
    top-level `return` (what follows is not compiled) -/
def cutRet : N → N
  | .cons h t => if isReturn h then .cons h .nilL else .cons h (cutRet t)
  | n => n

mutual
/-- the names on which the compiler calls `Resolve` while it compiles a code object, in that
    order, restricted to those for which `q` holds (one entry per reference: an identifier, the
    target of an assignment — resolved BEFORE its right-hand side is compiled —, `x++`, which the
    parser reads as the statement `x` followed by the postfix node, hence two entries); function
    literals are other code objects (not entered: a resolution is recorded in the innermost
    function only) -/
def uses (q : String → Bool) : N → List String
  | .id x => if q x then [x] else []
  | .infix _ l r => uses q l ++ uses q r
  | .neg e | .not e | .expr e | .block e | .prog e | .var _ e | .forever e | .return_ e => uses q e
  | .assign x _ e => (if q x then [x] else []) ++ uses q e
  | .postfix x _ => if q x then [x] else []
  | .tern c a b | .if_ c a b => uses q c ++ uses q a ++ uses q b
  | .cons h t =>
    (match postName h with
     | some x => if q x then [x] else []
     | none => []) ++ uses q h ++ uses q t
  | .forcond c b => uses q c ++ uses q b
  | .for3 i c p b => uses q i ++ uses q c ++ uses q b ++ uses q p
  | .switch subj cases => uses q subj ++ usesCmp q cases ++ usesBodies q cases ++ usesDflt q cases
  | .call f args => uses q f ++ usesVals q args
  | _ => []
def usesVals (q : String → Bool) : N → List String
  | .cons v vs => uses q v ++ usesVals q vs
  | _ => []
def usesCmpCase (q : String → Bool) : N → List String
  | .case_ vals _ => usesVals q vals
  | _ => []
def usesCmp (q : String → Bool) : N → List String
  | .cons h t => usesCmpCase q h ++ usesCmp q t
  | _ => []
def usesBody (q : String → Bool) : N → List String
  | .case_ _ body => uses q body
  | _ => []
def usesBodies (q : String → Bool) : N → List String
  | .cons h t => usesBody q h ++ usesBodies q t
  | _ => []
def usesDfltBody (q : String → Bool) : N → List String
  | .default_ body => uses q body
  | _ => []
def usesDflt (q : String → Bool) : N → List String
  | .cons h t => if isDefault h then usesDfltBody q h else usesDflt q t
  | _ => []
end

/-! ### functions of a program -/

/-- a parameter with its default value (int, string, bool literals; `compileFunc`).  A default
    `nil` is outside the fragment: the compiler accepts it but `object.NewFunction` counts only
    non-nil defaults, so the VM treats the parameter as required (`func f(a=nil) { a }; f()` is an
    "args" error). -/
def paramOf : N → Option (String × Option V)
  | .param x .none_ => some (x, none)
  | .param x (.int i) => some (x, some (.int i))
  | .param x (.bool b) => some (x, some (.bool b))
  | .param x (.str s) => some (x, some (.str s))
  | _ => none

def paramsOf (ps : N) : List (String × Option V) := ps.toList.filterMap paramOf

def stmtsOf : N → N
  | .block s => s
  | _ => .nilL

/-- the names of a function's own symbol table, in slot order: parameters, the self slot of a
    named function, then the `:=` declarations of the body in compile order -/
def ownNames (name : String) (ps body : N) : List String :=
  (paramsOf ps).map (·.1) ++ (if name != "" then [name] else []) ++ decls body

/-- the CAPTURES of a function literal evaluated where the enclosing function's own names are
    `pls`: every resolution, in the literal's body, of a name that is not the literal's own and is
    one of `pls` — in resolution order, one entry per reference (`SymbolTable.Resolve` appends a
    free resolution on every reference made from a block table, and a function body is one) -/
def capt (pls : List String) : N → List String
  | .func name ps body =>
    uses (fun x => !(ownNames name ps (stmtsOf body)).contains x && pls.contains x) (cutRet (stmtsOf body))
  | _ => []

structure FDecl where
  key : FnId                            -- identity: the literal, and the enclosing function's names
  name : String                         -- the name of a named function ("" otherwise)
  named : Bool                          -- `func f(…)`: the function's symbol table has a self slot
  params : List (String × Option V)
  body : N                              -- the statement list of the body block
  deriving Repr, Inhabited

/-- the function a literal evaluated under the enclosing names `pls` denotes -/
def declOfLit (pls : List String) : N → Option FDecl
  | .func name ps b => some ⟨(.func name ps b, pls), name, name != "", paramsOf ps, stmtsOf b⟩
  | _ => none

/-- the names of the function's own symbol table, in slot order -/
def FDecl.ls (d : FDecl) : List String :=
  d.params.map (·.1) ++ (if d.named then [d.name] else []) ++ decls d.body

/-- how the function's code resolves names -/
def FDecl.sc (d : FDecl) : Sc := ⟨d.ls, d.key.2⟩

mutual
/-- every function literal of a code object whose own names are `pls`, and of the literals
    inside them, in compile order (`compileFunc` numbers them in this order; the statements after
    the first top-level `return` of a function body are not compiled) -/
def collect (pls : List String) : N → List FDecl
  | .func name ps (.block s) =>
    ⟨(.func name ps (.block s), pls), name, name != "", paramsOf ps, s⟩ :: collectCut (ownNames name ps s) s
  | .func name ps b => [⟨(.func name ps b, pls), name, name != "", paramsOf ps, stmtsOf b⟩]
  | .infix _ l r => collect pls l ++ collect pls r
  | .neg e | .not e | .expr e | .block e | .prog e | .var _ e | .assign _ _ e | .forever e | .return_ e
  | .default_ e => collect pls e
  | .tern c a b | .if_ c a b => collect pls c ++ collect pls a ++ collect pls b
  | .cons h t | .forcond h t | .call h t | .case_ h t => collect pls h ++ collect pls t
  | .for3 i c p b => collect pls i ++ collect pls c ++ collect pls b ++ collect pls p
  | .switch subj cases => collect pls subj ++ collect pls cases
  | _ => []
def collectCut (pls : List String) : N → List FDecl
  | .cons h t => if isReturn h then collect pls h else collect pls h ++ collectCut pls t
  | _ => []
end

/-- the functions of a program -/
def funsOf (p : N) : List FDecl := collect [] p

def findFun (Φ : List FDecl) (k : FnId) : Option FDecl := Φ.find? (·.key == k)

/-- `callFunction`: given arguments, then the defaults of the missing trailing parameters; `none` =
    the "args" error of `checkCallArgs` (too many, or a parameter without default is missing) -/
def bindArgs : List (String × Option V) → List V → Option Store
  | [], [] => some []
  | [], _ :: _ => none
  | (x, _) :: ps, a :: as => (bindArgs ps as).map ((x, a) :: ·)
  | (x, some d) :: ps, [] => (bindArgs ps []).map ((x, d) :: ·)
  | (_, none) :: _, [] => none

/-- the locals of a fresh activation: parameters, then the called function value itself in the
    self slot of a named function -/
def enterLoc (self : V) (name : String) (named : Bool) (params : List (String × Option V)) (args : List V) :
    Option Store :=
  (bindArgs params args).map fun L => if named then L ++ [(name, self)] else L

/-- a fresh activation of a function whose free-variable cells are `cs`, with initial locals `L`:
    it takes the next serial number -/
def Sh.enter (G : Sh) (cs : List Cell) (L : Store) : Env :=
  { act := ⟨G.next, cs⟩, sh := { cells := G.cells.bind G.next L, glob := G.glob, next := G.next + 1 } }

/-- evaluating a function literal in a code object with own names `ls.ls`: the function itself
    when its body refers to no variable of the enclosing function, else a fresh closure over the
    cells — of the RUNNING activation — of those variables -/
def mkClo (ls : Sc) (lit : N) (σ : Env) : V × Env :=
  if (capt ls.ls lit).isEmpty then (.fn (lit, ls.ls), σ)
  else (.clo σ.sh.next (lit, ls.ls) ((capt ls.ls lit).map fun x => (σ.act.id, x)),
        { σ with sh := { σ.sh with next := σ.sh.next + 1 } })

/-! ### reference semantics restricted to the fragment -/

def seqV (r : Out × Env) (k : V → Env → Out × Env) : Out × Env :=
  match r with
  | (.val v, σ) => k v σ
  | other => other

def liftE (x : Except String V) (σ : Env) : Out × Env :=
  match x with
  | .ok v => (.val v, σ)
  | .error c => (.err (.cls c), σ)

def loopF (cond body post : Env → Out × Env) : Nat → Env → Out × Env
  | 0, σ => (.oof, σ)
  | k + 1, σ =>
    seqV (cond σ) fun v σ1 =>
      if v.truthy then
        match body σ1 with
        | (.brk, σ2) => (.unit, σ2)
        | (.val _, σ2) =>
          (match post σ2 with
          | (.unit, σ3) => loopF cond body post k σ3
          | (.val _, σ3) => loopF cond body post k σ3
          | other => other)
        | (.cont, σ2) =>
          (match post σ2 with
          | (.unit, σ3) => loopF cond body post k σ3
          | (.val _, σ3) => loopF cond body post k σ3
          | other => other)
        | other => other
      else (.unit, σ1)

def matchValsF (rec : N → Env → Out × Env) (sv : V) : N → Env → Except Out Bool × Env
  | .cons v vs, σ =>
    match rec v σ with
    | (.val x, σ1) => if sv == x then (.ok true, σ1) else matchValsF rec sv vs σ1
    | (o, σ1) => (.error o, σ1)
  | _, σ => (.ok false, σ)

def runDflt (rec : N → Env → Out × Env) (dflt : Option N) (σ : Env) : Out × Env :=
  match dflt with
  | some b => rec b σ
  | none => (.val .nil, σ)

def evCasesF (rec : N → Env → Out × Env) (sv : V) (dflt : Option N) : N → Env → Out × Env
  | .cons h rest, σ =>
    match h with
    | .case_ vals body =>
      match matchValsF rec sv vals σ with
      | (.ok true, σ1) => rec body σ1
      | (.ok false, σ1) => evCasesF rec sv dflt rest σ1
      | (.error o, σ1) => (o, σ1)
    | _ => evCasesF rec sv dflt rest σ
  | _, σ => runDflt rec dflt σ

/-- call arguments, left to right; the first one that does not yield a value is the outcome -/
def evArgsF (rec : N → Env → Out × Env) : N → Env → Except Out (List V) × Env
  | .cons a as, σ =>
    match rec a σ with
    | (.val v, σ1) =>
      (match evArgsF rec as σ1 with
       | (.ok vs, σ2) => (.ok (v :: vs), σ2)
       | other => other)
    | (o, σ1) => (.error o, σ1)
  | _, σ => (.ok [], σ)

/-- one node, sub-nodes through `rec`, function application through `app` (open recursion:
    `ev` ties both knots on fuel).  `ls` = the local names of the running function. -/
def evNode (ls : Sc) (fuel : Nat) (rec : N → Env → Out × Env)
    (app : V → List V → Sh → Out × Sh) (n : N) (σ : Env) : Out × Env :=
  match n with
  | .nilLit => (.val .nil, σ)
  | .none_ => (.val .nil, σ)
  | .int i => (.val (.int i), σ)
  | .bool b => (.val (.bool b), σ)
  | .str s => (.val (.str s), σ)
  | .id x => (.val (σ.get ls x), σ)
  | .infix op l r =>
    seqV (rec l σ) fun a σ1 =>
      if op = .and then
        (if a.truthy then seqV (rec r σ1) (fun b σ2 => (.val b, σ2)) else (.val a, σ1))
      else if op = .or then
        (if a.truthy then (.val a, σ1) else seqV (rec r σ1) (fun b σ2 => (.val b, σ2)))
      else seqV (rec r σ1) fun b σ2 => liftE (binopF op a b) σ2
  | .neg e =>
    seqV (rec e σ) fun v σ1 =>
      match v with
      | .int i => (.val (.int (wrap64 (-i))), σ1)
      | _ => (.err (.cls "type"), σ1)
  | .not e => seqV (rec e σ) fun v σ1 => (.val (.bool (!v.truthy)), σ1)
  | .tern c a b => seqV (rec c σ) fun v σ1 => if v.truthy then rec a σ1 else rec b σ1
  | .if_ c t e => seqV (rec c σ) fun v σ1 => if v.truthy then rec t σ1 else rec e σ1
  | .block s => rec s σ
  | .prog s => rec s σ
  | .expr e =>
    -- `func f(…) { … }`: the function is stored under its name (in the running code's scope)
    if isNamed e then (.unit, (mkClo ls e σ).2.set ls (funcName e) (mkClo ls e σ).1) else rec e σ
  | .nilL => (.val .nil, σ)
  | .cons h t =>
    if isNilL t then
      match rec h σ with
      | (.unit, σ1) => (.val .nil, σ1)
      | other => other
    else
      match rec h σ with
      | (.val _, σ1) => rec t σ1
      | (.unit, σ1) => rec t σ1
      | other => other
  | .var x e =>
    seqV (rec e σ) fun v σ1 => (.unit, σ1.set ls x v)
  | .assign x op e =>
    seqV (rec e σ) fun v σ1 =>
      match applyF op (σ.get ls x) v with
      | .ok r => (.unit, σ1.set ls x r)
      | .error c => (.err (.cls c), σ1)
  | .postfix x inc =>
    match binopF .add (σ.get ls x) (.int (if inc then 1 else -1)) with
    | .ok r => (.unit, σ.set ls x r)
    | .error c => (.err (.cls c), σ)
  | .forcond c b => loopF (rec c) (rec b) (fun σ => (.unit, σ)) fuel σ
  | .forever b => loopF (fun σ => (.val (.bool true), σ)) (rec b) (fun σ => (.unit, σ)) fuel σ
  | .for3 i c p b =>
    match rec i σ with
    | (.unit, σ1) => loopF (rec c) (rec b) (rec p) fuel σ1
    | other => other
  | .break_ => (.brk, σ)
  | .continue_ => (.cont, σ)
  | .switch subj cases => seqV (rec subj σ) fun sv σ1 => evCasesF rec sv (dfltBody cases) cases σ1
  | .call fe args =>
    -- callee, then the arguments left to right, then the application: the callee sees the
    -- cells and globals as they are after the arguments, and the caller goes on in ITS activation
    -- with the cells and globals the callee left
    seqV (rec fe σ) fun fv σ1 =>
      match evArgsF rec args σ1 with
      | (.ok vs, σ2) =>
        (match app fv vs σ2.sh with
         | (r, G) => (r, { act := σ2.act, sh := G }))
      | (.error o, σ2) => (o, σ2)
  | .func name ps b =>
    -- a function literal: the function, or a fresh closure over cells of the running activation
    (.val (mkClo ls (.func name ps b) σ).1, (mkClo ls (.func name ps b) σ).2)
  | .return_ e =>
    -- never completes normally (an operand that is no value is what the compiler rejects)
    match rec e σ with
    | (.val v, σ1) => (.err (.ret v), σ1)
    | (.err x, σ1) => (.err x, σ1)
    | (.oof, σ1) => (.oof, σ1)
    | (_, σ1) => (.err (.cls "compile"), σ1)
  | _ => (.err (.cls "unsupported"), σ)

/-- the statements of a function body in order (`stmt` evaluates one statement): the value of
    the last statement when it is an expression statement, nil otherwise; a `return` (or an
    error) in any statement ends the body -/
def evBody (stmt : N → Env → Out × Env) : N → Env → Out × Env
  | .cons h t, σ =>
    match stmt h σ with
    | (.val v, σ1) => if isNilL t then (.val v, σ1) else evBody stmt t σ1
    | (.unit, σ1) => if isNilL t then (.val .nil, σ1) else evBody stmt t σ1
    | other => other
  | _, σ => (.val .nil, σ)

/-- apply a function value to argument values, given the shared state (cells, globals, counter);
    `evb sc` evaluates the statements of a function whose code resolves names by `sc`.  A value
    that is not a function: class "type" (`callObject`); a wrong argument count: class "args"
    (`checkCallArgs`).  The body runs in a FRESH activation whose free variables are the cells the
    closure captured. -/
def applyFn (Φ : List FDecl) (evb : Sc → N → Env → Out × Env) (fv : V) (vs : List V) (G : Sh) :
    Out × Sh :=
  match fv.callee with
  | some (k, cs) =>
    match findFun Φ k with
    | none => (.err (.cls "eval"), G)
    | some d =>
      match enterLoc fv d.name d.named d.params vs with
      | none => (.err (.cls "args"), G)
      | some L =>
        match evBody (evb d.sc) d.body (G.enter cs L) with
        | (.val v, σ) => (.val v, σ.sh)
        | (.err (.ret v), σ) => (.val v, σ.sh)
        | (.err (.cls c), σ) => (.err (.cls c), σ.sh)
        | (.oof, σ) => (.oof, σ.sh)
        | (_, σ) => (.err (.cls "compile"), σ.sh)
  | none => (.err (.cls "type"), G)

/-- the reference semantics: every node costs one unit of fuel, and so does every call (the
    body's statements run with the fuel of the call node's sub-nodes) -/
def ev (Φ : List FDecl) : Nat → Sc → N → Env → Out × Env
  | 0, _, _, σ => (.oof, σ)
  | f + 1, ls, n, σ => evNode ls f (ev Φ f ls) (applyFn Φ (ev Φ f)) n σ

/-- the main code: no own names, no enclosing function -/
def Sc.main : Sc := ⟨[], []⟩

/-- the initial state: the main code is activation 0; no cells, no globals -/
def Env.init : Env := { act := ⟨0, []⟩, sh := { cells := [], glob := [], next := 1 } }

/-- a whole program from the empty state; the final GLOBALS.  (A `return` at the top level —
    which the real compiler rejects, see `inClo` — ends the program with that value.) -/
def evalClo (fuel : Nat) (p : N) : Out × Store :=
  match ev (funsOf p) fuel Sc.main p Env.init with
  | (.err (.ret v), σ) => (.val v, σ.sh.glob)
  | (r, σ) => (r, σ.sh.glob)

/-! ### target: slots, instructions, the functional compiler -/

inductive FIns where
  | nop | nil_ | true_ | false_ | popTop | unaryNeg | unaryNot
  | constInt (i : Int) | constStr (s : String)        -- LoadConst k, the constant inline
  | constFn (k : FnId)                                -- LoadConst k, k = the function constant
  | loadG (x : String) | storeG (x : String)          -- LoadGlobal / StoreGlobal, by name
  | loadF (x : String) | storeF (x : String)          -- LoadFast / StoreFast, by name
  | loadFree (x : String) | storeFree (x : String)    -- LoadFree / StoreFree, by name
  | makeCell (x : String)                             -- MakeCell idx(x) 0: a cell for the local `x`
  | loadClosure (k : FnId) (n : Nat)                  -- LoadClosure const(k) n
  | binary (k : Nat) | compare (k : Nat) | copy (k : Nat) | swap (k : Nat)
  | jf (d : Nat) | jb (d : Nat) | pjf (d : Nat) | pjt (d : Nat)
  | call (n : Nat) | ret                              -- Call n / ReturnValue
  deriving Repr, DecidableEq, Inhabited

abbrev Code := List (Option FIns)

def one (i : FIns) : Code := [some i]
def two (i : FIns) : Code := [some i, none]
def three (i : FIns) : Code := [some i, none, none]

def opIns : BinOp → FIns
  | .add => .binary 1 | .sub => .binary 2 | .mul => .binary 3 | .div => .binary 4 | .mod => .binary 5
  | .and => .binary 6 | .or => .binary 7
  | .pow => .binary 9 | .lshift => .binary 10 | .rshift => .binary 11 | .bitand => .binary 12
  | .lt => .compare 1 | .le => .compare 2 | .eq => .compare 3 | .ne => .compare 4
  | .gt => .compare 5 | .ge => .compare 6

/-- `compileIdent` / `compileAssign`: the resolution's scope picks the opcode -/
def loadV (ls : Sc) (x : String) : FIns :=
  if ls.ls.contains x then .loadF x else if ls.fr.contains x then .loadFree x else .loadG x
def storeV (ls : Sc) (x : String) : FIns :=
  if ls.ls.contains x then .storeF x else if ls.fr.contains x then .storeFree x else .storeG x

/-- `compileFunc`, the part that pushes the function: `LoadConst fn` when the literal captures
    nothing, else one `MakeCell x 0` per free resolution, in order, then `LoadClosure fn n` -/
def mkCode (ls : Sc) (lit : N) : Code :=
  if (capt ls.ls lit).isEmpty then two (.constFn (lit, ls.ls))
  else (capt ls.ls lit).flatMap (fun x => three (.makeCell x)) ++ three (.loadClosure (lit, ls.ls) (capt ls.ls lit).length)

def mkLen (ls : Sc) (lit : N) : Nat :=
  if (capt ls.ls lit).isEmpty then 2 else 3 * (capt ls.ls lit).length + 3

def pre (ls : Sc) (h : N) : Code :=
  match postName h with
  | some x => two (loadV ls x) ++ one .popTop
  | none => []

def preLen (h : N) : Nat :=
  match postName h with
  | some _ => 3
  | none => 0

mutual
def size (ls : Sc) : N → Nat
  | .nilLit | .none_ | .nilL | .bool _ => 1
  | .int _ | .str _ | .id _ | .break_ | .continue_ => 2
  | .infix op l r => if op = .and ∨ op = .or then size ls l + size ls r + 7 else size ls l + size ls r + 2
  | .neg e | .not e => size ls e + 1
  | .tern c a b | .if_ c a b => size ls c + size ls a + size ls b + 4
  | .block s | .prog s => size ls s
  | .func name ps b => mkLen ls (.func name ps b)
  | .expr e => if isNamed e then mkLen ls e + 5 else size ls e
  | .cons h t =>
    preLen h + size ls h +
      (if isNilL t then (if leaves h then 0 else 1) else (if leaves h then 1 else 0) + size ls t)
  | .var _ e => size ls e + 2
  | .assign _ op e => if op = .set then size ls e + 2 else size ls e + 6
  | .postfix _ _ => 8
  | .forcond c b => size ls c + size ls b + 6
  | .forever b => size ls b + 4
  | .for3 i c p b => size ls i + size ls c + size ls b + (size ls p + (if leaves p then 1 else 0)) + 5
  | .switch subj cases => size ls subj + cmpLen ls cases + 2 + bodiesLen ls cases + defLen ls cases + 3
  | .call f args => size ls f + argsLen ls args + 2
  | .return_ e => size ls e + 1
  | _ => 0
def valsLen (ls : Sc) : N → Nat
  | .cons v vs => size ls v + 6 + valsLen ls vs
  | _ => 0
def caseCmpLen (ls : Sc) : N → Nat
  | .case_ vals _ => valsLen ls vals
  | _ => 0
def cmpLen (ls : Sc) : N → Nat
  | .cons h t => caseCmpLen ls h + cmpLen ls t
  | _ => 0
def caseBodyLen (ls : Sc) : N → Nat
  | .case_ _ body => size ls body + 2
  | _ => 0
def bodiesLen (ls : Sc) : N → Nat
  | .cons h t => caseBodyLen ls h + bodiesLen ls t
  | _ => 0
def dfltBodyLen (ls : Sc) : N → Nat
  | .default_ body => size ls body
  | _ => 0
def defLen (ls : Sc) : N → Nat
  | .cons h t => if isDefault h then dfltBodyLen ls h else defLen ls t
  | _ => 1
/-- the code of call arguments: one after the other -/
def argsLen (ls : Sc) : N → Nat
  | .cons a as => size ls a + argsLen ls as
  | _ => 0
end

mutual
/-- `comp ls kb kc n`: the code of `n` inside a code object whose own names are `ls`, when the
    enclosing loop's `break` target lies `kb` slots and its `continue` target `kc` slots after
    the END of `n`'s code (see `Frag.comp`) -/
def comp (ls : Sc) (kb kc : Nat) : N → Code
  | .nilLit => one .nil_
  | .none_ => one .nil_
  | .int i => two (.constInt i)
  | .bool b => one (if b then .true_ else .false_)
  | .str s => two (.constStr s)
  | .id x => two (loadV ls x)
  | .infix op l r =>
    if op = .and then
      comp ls 0 0 l ++ two (.copy 0) ++ two (.pjf (size ls r + 5)) ++ comp ls 0 0 r ++ two (.binary 6) ++ one .nop
    else if op = .or then
      comp ls 0 0 l ++ two (.copy 0) ++ two (.pjt (size ls r + 5)) ++ comp ls 0 0 r ++ two (.binary 7) ++ one .nop
    else comp ls 0 0 l ++ comp ls 0 0 r ++ two (opIns op)
  | .neg e => comp ls 0 0 e ++ one .unaryNeg
  | .not e => comp ls 0 0 e ++ one .unaryNot
  | .tern c a b =>
    comp ls 0 0 c ++ two (.pjf (size ls a + 4)) ++ comp ls (kb + (size ls b + 2)) (kc + (size ls b + 2)) a
      ++ two (.jf (size ls b + 2)) ++ comp ls kb kc b
  | .if_ c t e =>
    comp ls 0 0 c ++ two (.pjf (size ls t + 4)) ++ comp ls (kb + (size ls e + 2)) (kc + (size ls e + 2)) t
      ++ two (.jf (size ls e + 2)) ++ comp ls kb kc e
  | .block s => comp ls kb kc s
  | .prog s => comp ls kb kc s
  | .expr e =>
    -- `compileFunc` for a named function: the function, `Copy 0`, store under the name; the copy
    -- is what `leavesValue` makes the statement list pop
    if isNamed e then
      mkCode ls e ++ two (.copy 0) ++ two (storeV ls (funcName e)) ++ one .popTop
    else comp ls kb kc e
  | .func name ps b => mkCode ls (.func name ps b)
  | .nilL => one .nil_
  | .cons h t =>
    pre ls h ++
      (if isNilL t then
        comp ls (kb + (if leaves h then 0 else 1)) (kc + (if leaves h then 0 else 1)) h
          ++ (if leaves h then [] else one .nil_)
       else
        comp ls (kb + ((if leaves h then 1 else 0) + size ls t)) (kc + ((if leaves h then 1 else 0) + size ls t)) h
          ++ ((if leaves h then one .popTop else []) ++ comp ls kb kc t))
  | .var x e =>
    comp ls 0 0 e ++ two (storeV ls x)
  | .assign x op e =>
    if op = .set then comp ls 0 0 e ++ two (storeV ls x)
    else two (loadV ls x) ++ comp ls 0 0 e ++ two (.binary (assignK op)) ++ two (storeV ls x)
  | .postfix x inc =>
    two (loadV ls x) ++ two (.constInt (if inc then 1 else -1)) ++ two (.binary 1) ++ two (storeV ls x)
  | .break_ => two (.jf (kb + 2))
  | .continue_ => two (.jf (kc + 2))
  | .forcond c b =>
    comp ls 0 0 c ++ two (.pjf (size ls b + 6)) ++ comp ls 3 1 b ++ one .popTop
      ++ two (.jb (size ls c + size ls b + 3)) ++ one .nop
  | .forever b => comp ls 3 1 b ++ one .popTop ++ two (.jb (size ls b + 1)) ++ one .nop
  | .for3 i c p b =>
    comp ls 0 0 i ++ comp ls 0 0 c
      ++ two (.pjf (size ls b + (size ls p + (if leaves p then 1 else 0)) + 5))
      ++ comp ls ((size ls p + (if leaves p then 1 else 0)) + 3) 1 b ++ one .popTop
      ++ comp ls 0 0 p ++ (if leaves p then one .popTop else [])
      ++ two (.jb (size ls c + size ls b + (size ls p + (if leaves p then 1 else 0)) + 3))
  | .switch subj cases =>
    comp ls 0 0 subj ++ compCmp ls 0 cases ++ two (.jf (bodiesLen ls cases + 2)) ++ compBodies ls (defLen ls cases) cases
      ++ compDflt ls cases ++ two (.swap 1) ++ one .popTop
  | .call f args =>
    -- `compileCall`: the callee, the arguments in order, `Call argc`
    comp ls 0 0 f ++ compArgs ls args ++ two (.call (argCount args))
  | .return_ e =>
    -- `compileReturn`: the value (`Nil` for a bare return), `ReturnValue`
    comp ls 0 0 e ++ one .ret
  | _ => []
def compVals (ls : Sc) (k : Nat) : N → Code
  | .cons v vs =>
    two (.copy 0) ++ comp ls 0 0 v ++ two (.compare 3) ++ two (.pjt (valsLen ls vs + k + 2)) ++ compVals ls k vs
  | _ => []
def compCmpCase (ls : Sc) (k : Nat) : N → Code
  | .case_ vals _ => compVals ls k vals
  | _ => []
def compCmp (ls : Sc) (before : Nat) : N → Code
  | .cons h t => compCmpCase ls (cmpLen ls t + 2 + before) h ++ compCmp ls (before + caseBodyLen ls h) t
  | _ => []
def compBody (ls : Sc) (a : Nat) : N → Code
  | .case_ _ body => comp ls 0 0 body ++ two (.jf (a + 2))
  | _ => []
def compBodies (ls : Sc) (d : Nat) : N → Code
  | .cons h t => compBody ls (bodiesLen ls t + d) h ++ compBodies ls d t
  | _ => []
def compDfltBody (ls : Sc) : N → Code
  | .default_ body => comp ls 0 0 body
  | _ => []
def compDflt (ls : Sc) : N → Code
  | .cons h t => if isDefault h then compDfltBody ls h else compDflt ls t
  | _ => one .nil_
def compArgs (ls : Sc) : N → Code
  | .cons a as => comp ls 0 0 a ++ compArgs ls as
  | _ => []
end

/-- `compileFunctionBlock` over `normalizeFunctionBlock`: the statements up to and including the
    first top-level `return`; without one, the last expression statement is returned, and `nil`
    when the last statement is no expression (or the body is empty) -/
def compFnStmts (ls : Sc) : N → Code
  | .cons h t =>
    if isReturn h then comp ls 0 0 h
    else if isNilL t then
      pre ls h ++ comp ls 0 0 h ++ (if leaves h then one .ret else one .nil_ ++ one .ret)
    else
      pre ls h ++ comp ls 0 0 h ++ (if leaves h then one .popTop else []) ++ compFnStmts ls t
  | _ => one .nil_ ++ one .ret

/-- a compiled function -/
structure FunCode where
  key : FnId
  name : String
  named : Bool
  params : List (String × Option V)
  code : Code
  deriving Repr, Inhabited

structure Prog where
  main : Code
  funs : List FunCode
  deriving Repr, Inhabited

def compDecl (d : FDecl) : FunCode :=
  { key := d.key, name := d.name, named := d.named, params := d.params, code := compFnStmts d.sc d.body }

/-- every code object of a program: the main code and one per function literal -/
def compClo (p : N) : Prog := { main := comp Sc.main 0 0 p, funs := (funsOf p).map compDecl }

def Prog.find (P : Prog) (k : FnId) : Option FunCode := P.funs.find? (·.key == k)

/-- the code object with the given id (`none` = the main code) -/
def Prog.codeOf (P : Prog) : Option FnId → Code
  | none => P.main
  | some g =>
    match P.find g with
    | some fc => fc.code
    | none => []

/-! ### the VM restricted to these opcodes (shape of `VM.step`) -/

/-- the running activation: position, operand stack (top first), the activation and the shared
    state (cells — the heap slices of all activations' locals —, globals, counter) -/
structure Cfg where
  pc : Nat
  stk : List V
  σ : Env
  deriving Repr

/-- a suspended caller: its code object, the return address, its operand stack below the callee
    and the arguments, its activation (`frame.returnAddr`, `returnSp`, `fn` with its free
    variables, and which heap slice holds its locals) -/
structure Frame where
  fn : Option FnId
  pc : Nat
  stk : List V
  act : Act
  deriving Repr

/-- the whole machine: the running activation, its code object, the suspended callers
    (innermost first) -/
structure M where
  cfg : Cfg
  fn : Option FnId
  frames : List Frame
  deriving Repr

inductive Halt where
  | done (v : V)          -- end of the main code: the result is the top of the stack
  | err (cls : String)
  | nonlocal              -- `Call` / `ReturnValue`: not an instruction of one activation (see `mstep`)
  deriving Repr, DecidableEq

/-- `LoadClosure`: the `n` topmost values must be cells; they are the closure's free variables,
    the deepest first -/
def popCells : Nat → List V → List Cell → Option (List Cell × List V)
  | 0, s, acc => some (acc, s)
  | n + 1, .cell a x :: s, acc => popCells n s ((a, x) :: acc)
  | _ + 1, _, _ => none

def execIns (i : FIns) (c : Cfg) : Except Halt Cfg :=
  match i, c.stk with
  | .nop, _ => .ok { c with pc := c.pc + 1 }
  | .nil_, s => .ok { c with pc := c.pc + 1, stk := .nil :: s }
  | .true_, s => .ok { c with pc := c.pc + 1, stk := .bool true :: s }
  | .false_, s => .ok { c with pc := c.pc + 1, stk := .bool false :: s }
  | .constInt k, s => .ok { c with pc := c.pc + 2, stk := .int k :: s }
  | .constStr k, s => .ok { c with pc := c.pc + 2, stk := .str k :: s }
  | .constFn g, s => .ok { c with pc := c.pc + 2, stk := .fn g :: s }
  | .loadG x, s => .ok { c with pc := c.pc + 2, stk := c.σ.sh.glob.get x :: s }
  | .storeG x, v :: s =>
    .ok { pc := c.pc + 2, stk := s, σ := { c.σ with sh := { c.σ.sh with glob := c.σ.sh.glob.set x v } } }
  -- `LoadFast` / `StoreFast`: the slot of `x` in the running activation's locals slice
  | .loadF x, s => .ok { c with pc := c.pc + 2, stk := c.σ.sh.cells.get c.σ.act.id x :: s }
  | .storeF x, v :: s =>
    .ok { pc := c.pc + 2, stk := s, σ := { c.σ with sh := { c.σ.sh with cells := c.σ.sh.cells.set c.σ.act.id x v } } }
  -- `LoadFree` / `StoreFree`: through the cell the running closure holds for `x`
  | .loadFree x, s =>
    .ok { c with pc := c.pc + 2, stk := c.σ.sh.cells.get (c.σ.act.cellOf x).1 (c.σ.act.cellOf x).2 :: s }
  | .storeFree x, v :: s =>
    .ok { pc := c.pc + 2, stk := s,
          σ := { c.σ with sh := { c.σ.sh with cells := c.σ.sh.cells.set (c.σ.act.cellOf x).1 (c.σ.act.cellOf x).2 v } } }
  -- `MakeCell idx 0`: a cell pointing at the slot of `x` in the running activation's slice
  | .makeCell x, s => .ok { c with pc := c.pc + 3, stk := .cell c.σ.act.id x :: s }
  -- `LoadClosure fn n`: a fresh closure object over the `n` cells on top of the stack
  | .loadClosure k n, s =>
    match popCells n s [] with
    | some (cs, rest) =>
      .ok { pc := c.pc + 3, stk := .clo c.σ.sh.next k cs :: rest,
            σ := { c.σ with sh := { c.σ.sh with next := c.σ.sh.next + 1 } } }
    | none => .error (.err "eval")
  | .binary k, b :: a :: s =>
    match vBinaryF k a b with
    | .ok v => .ok { c with pc := c.pc + 2, stk := v :: s }
    | .error e => .error (.err e)
  | .compare k, b :: a :: s =>
    match vCompareF k a b with
    | .ok v => .ok { c with pc := c.pc + 2, stk := v :: s }
    | .error e => .error (.err e)
  | .unaryNeg, v :: s =>
    match v with
    | .int k => .ok { c with pc := c.pc + 1, stk := .int (wrap64 (-k)) :: s }
    | _ => .error (.err "type")
  | .unaryNot, v :: s => .ok { c with pc := c.pc + 1, stk := .bool (!v.truthy) :: s }
  | .popTop, _ :: s => .ok { c with pc := c.pc + 1, stk := s }
  | .copy k, s =>
    match s[k]? with
    | some v => .ok { c with pc := c.pc + 2, stk := v :: s }
    | none => .error (.err "panic")
  | .swap k, top :: s =>
    if k == 0 then .ok { c with pc := c.pc + 2 }
    else
      match s[k - 1]? with
      | some other => .ok { c with pc := c.pc + 2, stk := other :: s.set (k - 1) top }
      | none => .error (.err "panic")
  | .jf d, _ => .ok { c with pc := c.pc + d }
  | .jb d, _ => .ok { c with pc := c.pc - d }
  | .pjf d, v :: s => .ok { c with pc := if v.truthy then c.pc + 2 else c.pc + d, stk := s }
  | .pjt d, v :: s => .ok { c with pc := if v.truthy then c.pc + d else c.pc + 2, stk := s }
  | .call _, _ => .error .nonlocal
  | .ret, _ => .error .nonlocal
  | _, _ => .error (.err "panic")        -- stack underflow

/-- one instruction of the running activation, seen from inside it -/
def step (code : Code) (c : Cfg) : Except Halt Cfg :=
  if c.pc ≥ code.length then .error (.done (c.stk.headD .nil))
  else
    match code[c.pc]? with
    | some (some i) => execIns i c
    | _ => .error (.err "eval")

/-- `Call n` (`callObject` / `callFunction`): the arguments and the callee leave the caller's
    stack, the caller is suspended, the callee starts at 0 with an empty stack, a fresh locals
    slice holding the arguments, and the free variables of the called closure -/
def doCall (P : Prog) (n : Nat) (m : M) : Except Halt M :=
  match m.cfg.stk.drop n with
  | fv :: rest =>
    match fv.callee with
    | some (g, cs) =>
      match P.find g with
      | none => .error (.err "eval")
      | some fc =>
        match enterLoc fv fc.name fc.named fc.params ((m.cfg.stk.take n).reverse) with
        | none => .error (.err "args")
        | some L =>
          .ok { cfg := { pc := 0, stk := [], σ := m.cfg.σ.sh.enter cs L }, fn := some g,
                frames := { fn := m.fn, pc := m.cfg.pc + 2, stk := rest, act := m.cfg.σ.act } :: m.frames }
    | none => .error (.err "type")
  | [] => .error (.err "panic")

/-- `ReturnValue` (`resumeFrame`): the caller resumes after its `Call` with the result pushed;
    whatever else the callee left on its stack is dropped; the callee's locals slice stays on the
    heap for the cells that point into it.  With no caller (the main code, where the real
    compiler rejects `return`) the machine halts with the value. -/
def doRet (m : M) : Except Halt M :=
  match m.cfg.stk, m.frames with
  | v :: _, fr :: fs =>
    .ok { cfg := { pc := fr.pc, stk := v :: fr.stk, σ := { act := fr.act, sh := m.cfg.σ.sh } }, fn := fr.fn, frames := fs }
  | v :: _, [] => .error (.done v)
  | [], _ => .error (.err "panic")

/-- one step of the machine -/
def mstep (P : Prog) (m : M) : Except Halt M :=
  match (P.codeOf m.fn)[m.cfg.pc]? with
  | some (some (.call n)) => doCall P n m
  | some (some .ret) => doRet m
  | _ =>
    match step (P.codeOf m.fn) m.cfg with
    | .ok c => .ok { m with cfg := c }
    | .error (.done v) => if m.frames.isEmpty then .error (.done v) else .error (.err "eval")
    | .error h => .error h

inductive RunRes where
  | running
  | done (v : V)
  | err (cls : String)
  deriving Repr, DecidableEq

/-- run with a step budget; the result and the final shared state -/
def mrun (P : Prog) : Nat → M → RunRes × Sh
  | 0, m => (.running, m.cfg.σ.sh)
  | k + 1, m =>
    match mstep P m with
    | .ok m' => mrun P k m'
    | .error (.done v) => (.done v, m.cfg.σ.sh)
    | .error (.err e) => (.err e, m.cfg.σ.sh)
    | .error .nonlocal => (.err "eval", m.cfg.σ.sh)

def M.init : M := { cfg := { pc := 0, stk := [], σ := Env.init }, fn := none, frames := [] }

/-- run a compiled program: main code from pc 0, empty stack, empty state, no callers; the result
    and the final GLOBALS -/
def runClo (fuel : Nat) (P : Prog) : RunRes × Store := ((mrun P fuel M.init).1, (mrun P fuel M.init).2.glob)

/-! ### scoping: the decidable conditions under which the flat, name-indexed stores are an exact
    model of the compiler's symbol tables and of `Sem.lean`'s environments (needed by the LINKS to
    `Sem.lean` / `Compile.lean`, not by the theorems: `ev` and the machine resolve names in the
    same way) -/

/-- where a node stands -/
structure Ctx where
  sc : Sc                 -- own names of the code object / names of the enclosing function
  top : Bool              -- the main code (declarations make globals)
  lenv : List String      -- own names in scope here
  cenv : List String      -- those of them a literal standing here may capture (declared outside loop bodies)
  penv : List String      -- names of the enclosing function this code object may refer to
  genv : List String      -- global names visible here
  consts : List String    -- named functions (not assignable)
  depth : Nat             -- how many more levels of function literals may nest here
  inLoop : Bool

def Ctx.sees (c : Ctx) (x : String) : Bool :=
  c.lenv.contains x ||
    (!c.sc.ls.contains x && (c.penv.contains x || (!c.sc.fr.contains x && c.genv.contains x)))

def Ctx.declare (c : Ctx) (xs : List String) : Ctx :=
  if c.top then { c with genv := xs ++ c.genv }
  else { c with lenv := xs ++ c.lenv, cenv := if c.inLoop then c.cenv else xs ++ c.cenv }

/-- a `return` occurs in the node (function bodies are not entered) -/
def hasReturn : N → Bool
  | .return_ _ => true
  | .infix _ l r => hasReturn l || hasReturn r
  | .neg e | .not e | .expr e | .block e | .prog e | .var _ e | .assign _ _ e | .forever e | .default_ e => hasReturn e
  | .tern c a b | .if_ c a b => hasReturn c || hasReturn a || hasReturn b
  | .cons h t | .forcond h t | .switch h t | .call h t | .case_ h t => hasReturn h || hasReturn t
  | .for3 i c p b => hasReturn i || hasReturn c || hasReturn p || hasReturn b
  | _ => false

/-- parameters: decodable (literal defaults), defaults only on trailing parameters -/
def paramsOK (ps : N) : Bool :=
  ps.toList.all (fun q => (paramOf q).isSome) &&
    (let ds := (paramsOf ps).map (·.2.isSome)
     (ds.dropWhile (· == false)).all (· == true))

/-- the name a top-level statement makes visible to the statements after it besides `declOf`: a
    named function -/
def fnameOf : N → List String
  | .expr (.func name _ _) => if name != "" then [name] else []
  | _ => []

mutual
/-- uses are in scope, and every function literal is one the model is exact for: it stands where
    nesting is still allowed (`depth`), its own names are declared once, its parameters are
    decodable, its body's uses are in scope — own names, names of THIS code object that are in
    scope at the literal and were not declared inside a loop body (`cenv`; `Sem.lean` makes such a
    variable fresh in every iteration, the real VM keeps one slot: a recorded finding), globals —;
    a named literal stands only as a statement of the main code -/
def scopeOK (c : Ctx) : N → Bool
  | .id x => c.sees x
  | .infix _ l r => scopeOK c l && scopeOK c r
  | .neg e | .not e | .block e | .prog e | .return_ e | .var _ e => scopeOK c e
  | .expr e => (!isNamed e || c.top) && scopeOK c e
  | .func name ps b =>
    decide (c.depth > 0) && paramsOK ps && isBlock b && nodup (ownNames name ps (stmtsOf b)) &&
      scopeOK { sc := ⟨ownNames name ps (stmtsOf b), c.sc.ls⟩, top := false,
                lenv := (paramsOf ps).map (·.1) ++ (if name != "" then [name] else []),
                cenv := (paramsOf ps).map (·.1) ++ (if name != "" then [name] else []),
                penv := c.cenv, genv := c.genv, consts := c.consts, depth := c.depth - 1, inLoop := false } b
  | .tern a b d | .if_ a b d => scopeOK c a && scopeOK c b && scopeOK c d
  | .assign x _ e => c.sees x && !c.consts.contains x && scopeOK c e
  | .postfix x _ => c.sees x && !c.consts.contains x
  | .cons h t => scopeOK c h && scopeOK (c.declare (declOf h ++ fnameOf h)) t
  | .forcond a b => scopeOK c a && scopeOK { c with inLoop := true } b
  | .forever b => scopeOK { c with inLoop := true } b
  | .for3 i a p b =>
    scopeOK c i && scopeOK (c.declare (declOf i)) a && scopeOK { c.declare (declOf i) with inLoop := true } p &&
      scopeOK { c.declare (declOf i) with inLoop := true } b
  | .switch subj cases => scopeOK c subj && scopeCases c cases
  | .call f args => scopeOK c f && scopeVals c args
  | _ => true
def scopeVals (c : Ctx) : N → Bool
  | .cons v vs => scopeOK c v && scopeVals c vs
  | _ => true
def scopeCase (c : Ctx) : N → Bool
  | .case_ vals body => scopeVals c vals && scopeOK c body
  | .default_ body => scopeOK c body
  | _ => true
def scopeCases (c : Ctx) : N → Bool
  | .cons h t => scopeCase c h && scopeCases c t
  | _ => true
end

/-- named functions of the program, in order (`collectFunctionDeclarations`) -/
def namedFuns : N → List String
  | .prog s => s.toList.flatMap fnameOf
  | _ => []

/-- the identifiers a node uses (function literals are entered: the names their bodies use) -/
def idsOf : N → List String
  | .id x => [x]
  | .infix _ l r => idsOf l ++ idsOf r
  | .neg e | .not e | .expr e | .block e | .prog e | .var _ e | .forever e | .return_ e
  | .default_ e => idsOf e
  | .assign x _ e => x :: idsOf e
  | .postfix x _ => [x]
  | .tern c a b | .if_ c a b => idsOf c ++ idsOf a ++ idsOf b
  | .cons h t | .forcond h t | .switch h t | .call h t | .case_ h t => idsOf h ++ idsOf t
  | .for3 i c p b => idsOf i ++ idsOf c ++ idsOf p ++ idsOf b
  | .func _ _ b => idsOf b
  | _ => []

/-- the top-level named functions with their bodies -/
def namedBodies : N → List (String × N)
  | .prog s => s.toList.filterMap fun h =>
      match h with
      | .expr (.func name _ b) => if name != "" then some (name, b) else none
      | _ => none
  | _ => []

/-- the named functions that may run when a node runs: those it names (also inside the literals
    it contains), those their bodies name, … -/
def reach (Φ : List (String × N)) : Nat → List String → List String
  | 0, S => S
  | k + 1, S =>
    reach Φ k (S ++ (Φ.filter (fun d => S.contains d.1)).flatMap (fun d => (idsOf d.2).filter (fun x => !S.contains x)))

/-- no named function can be reached before its declaration has run: `D` = the named functions
    declared so far.  (The global of a pre-declared function holds a Go nil until then; using it
    is a recovered Go panic in the real VM, not the `nil` value — outside the model.) -/
def initOK (Φ : List (String × N)) (named : List String) : List String → List N → Bool
  | _, [] => true
  | D, h :: t =>
    -- a named declaration does not run its body; any other statement may run every function
    -- literal it contains (conservative: the literal's value may be called at once)
    (if !(fnameOf h).isEmpty then true
     else (reach Φ Φ.length (idsOf h)).all (fun x => !named.contains x || D.contains x)) &&
    initOK Φ named (fnameOf h ++ D) t

/-- every function body of the program is a well-formed function body -/
def bodiesWF (p : N) : Bool := (funsOf p).all (fun d => wfBody d.body)

/-- the SHAPE of the fragment — all the theorems need: a program whose nodes are `wf` and whose
    function bodies (of literals at any depth) are well-formed function bodies -/
def inCloShape (p : N) : Bool :=
  match p with
  | .prog _ => wf p && bodiesWF p
  | _ => false

/-- the main code's context: named functions are visible everywhere; literals may nest two
    levels (a function written in the main code, and the literals in its body, which capture ITS
    variables: depth-1 captures) -/
def Ctx.main (genv consts : List String) : Ctx :=
  { sc := Sc.main, top := true, lenv := [], cenv := [], penv := [], genv := genv, consts := consts, depth := 2,
    inLoop := false }

/-- **the fragment**: a program of the shape `wf` with well-formed function bodies; function
    literals nest at most two levels (functions of the main code, and literals in their bodies —
    whose free variables are therefore variables of the DIRECTLY enclosing function or globals);
    every code object declares each of its names once (parameters, self slot and `:=`
    declarations of a function; `:=` declarations and function names of the main code); every use
    is in scope — named functions are visible everywhere (`collectFunctionDeclarations`), other
    globals after their declaration, variables of the enclosing function when they are in scope at
    the literal and were not declared inside a loop body —; no named function can be reached before
    its declaration statement has run (`initOK`); named functions are declared only by statements of
    the main code and are not assigned to; no `return` in the main code -/
def inClo (p : N) : Bool :=
  match p with
  | .prog s =>
    wf p && bodiesWF p && nodup (namedFuns p ++ decls p) && !hasReturn s &&
      scopeOK (Ctx.main (namedFuns p) (namedFuns p)) s &&
      initOK (namedBodies p) (namedFuns p) [] s.toList
  | _ => false

/-- the same with purely lexical visibility (a named function is visible from its declaration
    on): the programs on which `Sem.lean`, which binds a function's name at its declaration, can be
    compared (link B) -/
def inCloLex (p : N) : Bool :=
  match p with
  | .prog s => inClo p && scopeOK (Ctx.main [] (namedFuns p)) s
  | _ => false

end Risor.C01.Clo
