import RisorModel.Util
import RisorModel.C01.Decode
import RisorModel.C01.Compile
import RisorModel.C01.VM
import RisorModel.C01.FragOracle
import RisorModel.C01.Str
/-!
Line-protocol front end of the proved fragment F7 (requests `C01 seq …`); not part of any
theorem.  It evaluates BOTH sides of every link of the layered argument on one program:

  `str run <sexp> <globals>` →
      `out`                                   the program is outside the fragment, or
      `in` TAB f1 … f11 with (values are DEEP: every reference followed)
        f1  `evalStr`  outcome                `ok:<value>` | `err:<class>` | `oof`
        f2  `runStr (compStr p)` outcome      (theorem: equal to f1)
        f3  `evalStr` final state, every declared name        `x=<value>,…` | `-`
        f4  `runStr` final state, every declared name         (theorem: equal to f3)
        f5  `compStr p` ASSEMBLED in the format of the harness's `CodeExport`   (link A, real compiler)
        f6  `same` | `differs:<text>`   f5 against `Compile.compileProg`        (link A, Lean model)
        f7  `Sem.runProg` outcome                                               (link B; = f1)
        f8  `VM.runCodes (compileProg p)` outcome                               (link C; = f2)
        f9  `evalStr` state restricted to top-level names
        f10 `Sem` final environment (top-level names)                           (link B; = f9)
        f11 `VM.lean` final globals of every declared name                      (link C; = f4)
      f7 / f8 (and then f10 / f11) are `unsupported:<what>` where `Sem.lean` / `VM.lean` do not model
      an operation the fragment does (indexing a non-container)
  `str prefix <sexp> <globals>` → the largest k such that the first k top-level statements
      form a program inside the fragment (0 = none)
-/
namespace Risor.C01
open Risor.C04 (Op Ins)
open Risor.C01.Str
open Risor.Util

/-- entries sorted by key (`Map.SortedKeys`), as `Sem.lean` keeps them -/
def insKey (kv : String × SVal) : List (String × SVal) → List (String × SVal)
  | [] => [kv]
  | x :: r => if kv.1 < x.1 then kv :: x :: r else x :: insKey kv r

def sortKeys (m : MapObj) : List (String × SVal) := m.foldr insKey []

def strShowVal (h : Heap) : Nat → SVal → String
  | _, .nil => "(nil)"
  | _, .bool b => if b then "(bool 1)" else "(bool 0)"
  | _, .int i => "(int " ++ toString i ++ ")"
  | _, .str s => "(str " ++ toHexField (strBytes s) ++ ")"
  | 0, .ref _ => "(deep)"
  | f + 1, .ref a =>
    "(map" ++ String.join ((sortKeys (h.getD a [])).map (fun kv => " (str " ++ toHexField (strBytes kv.1) ++ ") " ++ strShowVal h f kv.2)) ++ ")"
  | _, .iterI _ _ => "(iter)"

def strShowOut (r : Out × Str.St) : String :=
  match r.1 with
  | .val v => "ok:" ++ strShowVal r.2.h 20 v
  | .unit => "ok:(nil)"
  | .brk | .cont => "err:compile"
  | .err c => "err:" ++ c
  | .oof => "oof"

def strShowRun (r : RunRes × Str.St) : String :=
  match r.1 with
  | .done v => "ok:" ++ strShowVal r.2.h 20 v
  | .err c => "err:" ++ c
  | .running => "oof"

def strShowVVal (m : VM) : Nat → VVal → String
  | _, .nil => "(nil)"
  | _, .bool b => if b then "(bool 1)" else "(bool 0)"
  | _, .int i => "(int " ++ toString i ++ ")"
  | _, .str s => "(str " ++ toHexField (strBytes s) ++ ")"
  | 0, .map _ => "(deep)"
  | f + 1, .map r => "(map" ++ String.join ((m.heap.getD r []).map (fun x => " " ++ strShowVVal m f x)) ++ ")"
  | _, _ => "(other)"

/-- `assemble` (as `fragAssemble`): constant pool in emission order, global indices = host
    globals first, then one fresh index per declaration in compile order -/
def strAssemble (globals : List String) (p : N) (code : Str.Code) : String :=
  let names := globals ++ Str.decls p
  let idx (x : String) : String := toString (names.findIdx (· == x))
  let showConst : Const → String
    | .int i => "i" ++ toString i
    | .str s => "s" ++ toHexField (strBytes s)
    | .fn id => "f" ++ id
  let (ins, consts) := code.foldl (fun (acc : List String × List Const) slot =>
    match slot with
    | none => acc
    | some i =>
      let (out, cs) := acc
      match i with
      | .nop => (out ++ ["NOP"], cs)
      | .nil_ => (out ++ ["NIL"], cs)
      | .true_ => (out ++ ["TRUE"], cs)
      | .false_ => (out ++ ["FALSE"], cs)
      | .popTop => (out ++ ["POP_TOP"], cs)
      | .unaryNeg => (out ++ ["UNARY_NEGATIVE"], cs)
      | .unaryNot => (out ++ ["UNARY_NOT"], cs)
      | .constInt k => (out ++ ["LOAD_CONST:" ++ toString cs.length], cs ++ [.int k])
      | .constStr s => (out ++ ["LOAD_CONST:" ++ toString cs.length], cs ++ [.str s])
      | .loadG x => (out ++ ["LOAD_GLOBAL:" ++ idx x], cs)
      | .storeG x => (out ++ ["STORE_GLOBAL:" ++ idx x], cs)
      | .binary k => (out ++ ["BINARY_OP:" ++ toString k], cs)
      | .compare k => (out ++ ["COMPARE_OP:" ++ toString k], cs)
      | .copy k => (out ++ ["COPY:" ++ toString k], cs)
      | .swap k => (out ++ ["SWAP:" ++ toString k], cs)
      | .jf d => (out ++ ["JUMP_FORWARD:" ++ toString d], cs)
      | .jb d => (out ++ ["JUMP_BACKWARD:" ++ toString d], cs)
      | .pjf d => (out ++ ["POP_JUMP_FORWARD_IF_FALSE:" ++ toString d], cs)
      | .pjt d => (out ++ ["POP_JUMP_FORWARD_IF_TRUE:" ++ toString d], cs)
      | .buildMap n => (out ++ ["BUILD_MAP:" ++ toString n], cs)
      | .containsOp => (out ++ ["CONTAINS_OP:0"], cs)
      | .binarySubscr => (out ++ ["BINARY_SUBSCR"], cs)
      | .storeSubscr => (out ++ ["STORE_SUBSCR"], cs)
      | .getIter => (out ++ ["GET_ITER"], cs)
      | .forIter d m => (out ++ ["FOR_ITER:" ++ toString d ++ ":" ++ toString m], cs)) (([] : List String), ([] : List Const))
  "id=__main__;ins=" ++ " ".intercalate ins ++ ";consts=" ++ ",".intercalate (consts.map showConst) ++ ";names="

/-- the names a range loop / declaration introduces at the top level are not visible after the
    statement: only `x := e` statements of the program itself declare top-level names -/
def strTopNames (p : N) : List String :=
  match p with
  | .prog stmts => stmts.toList.flatMap Str.declOf
  | _ => []

/-- inside the fragment, and no declared name collides with a host global -/
def strIn (globals : List String) (p : N) : Bool :=
  inStr p && (Str.decls p).all (fun x => !globals.contains x)

def strSemOut (o : Outcome) : String :=
  if !o.st.out.isEmpty then "printed" else
  match o.sig with
  | .val v => "ok:" ++ showVal o.st v
  | .unit => "ok:(nil)"
  | .ret v => "ok:" ++ showVal o.st v
  | .err c => "err:" ++ c
  | .uerr _ => "err:error"
  | .brk | .cont => "err:compile"
  | .oof => "oof"
  | .unsupported w => "unsupported:" ++ w

def strVMOut (r : VRes × VM) : String :=
  match r.1 with
  | .done v => "ok:" ++ strShowVVal r.2 20 v
  | .err c => "err:" ++ c
  | .running => "oof"
  | .unsupported w => "unsupported:" ++ w

def handleStr : List String → String
  | ["run", sx, globals] =>
    match decodeProg sx with
    | none => "error\tcannot decode the program"
    | some p =>
      let gs := (globals.splitOn ",").filter (· ≠ "")
      if !strIn gs p then "out" else
      let names := Str.decls p
      let top := strTopNames p
      let code := compStr p
      let e := evalStr 4000 p
      let r := runStr 400000 code
      let asm := strAssemble gs p code
      let (linkA, vmOut, vmStore) :=
        match compileProg gs p with
        | .error err => ("differs:fail " ++ err, "compile-fail", "-")
        | .ok codes =>
          let showConst : Const → String
            | .int i => "i" ++ toString i
            | .str s => "s" ++ toHexField (strBytes s)
            | .fn id => "f" ++ id
          let one (c : CodeB) : String :=
            "id=" ++ c.id ++ ";ins=" ++ codeText c ++ ";consts=" ++ ",".intercalate (c.consts.toList.map showConst)
              ++ ";names=" ++ ",".intercalate c.names.toList
          let txt := "|".intercalate (codes.map one)
          let vr := runCodes 400000 gs codes
          let all := gs ++ names
          (if txt == asm then "same" else "differs:" ++ txt, strVMOut vr,
            fragShowStore names fun x => strShowVVal vr.2 20 (vr.2.globals.getD (all.findIdx (· == x)) .nil))
      let (semOut, semStore) :=
        match p with
        | .prog stmts =>
          match execStmts 20000 stmts [] {} with
          | (sg, env, st) =>
            (strSemOut (match sg with | .unit => ⟨.val .nil, st⟩ | sg => ⟨sg, st⟩),
              fragShowStore top fun x => match lookup env x with
                | some c => showVal st (st.cells.getD c .nil)
                | none => "(unbound)")
        | _ => ("unsupported:program", "-")
      "\t".intercalate ["in", strShowOut e, strShowRun r,
        fragShowStore names (fun x => strShowVal e.2.h 20 (e.2.get x)),
        fragShowStore names (fun x => strShowVal r.2.h 20 (r.2.get x)),
        asm, linkA, semOut, vmOut,
        fragShowStore top (fun x => if e.2.g.any (·.1 == x) then strShowVal e.2.h 20 (e.2.get x) else "(unbound)"), semStore, vmStore]
  | ["prefix", sx, globals] =>
    match decodeProg sx with
    | some (.prog stmts) =>
      let gs := (globals.splitOn ",").filter (· ≠ "")
      let l := stmts.toList
      let ks := (List.range (l.length + 1)).reverse
      match ks.find? (fun k => k > 0 && strIn gs (.prog (N.ofList (l.take k)))) with
      | some k => toString k
      | none => "0"
    | _ => "0"
  | _ => "error\tunknown-request"

end Risor.C01
