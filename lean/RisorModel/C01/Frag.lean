import RisorModel.C01.Sem
/-
C01 — the PROVED FRAGMENT of compiler correctness (DESIGN.md C01, `compile_correct`).

Three executable definitions restricted to a named fragment of the core grammar:

  * `ev` / `evalF`   the restriction of the reference semantics `Sem.lean` to the fragment,
                     over a flat store of global variables (`Store`, an association list);
  * `comp` / `compF` a FUNCTIONAL compiler for the fragment.  It produces the slot sequence
                     `compiler.go` (and its model `Compile.lean`) produces for the main code
                     object: same opcodes, same operand widths, same RELATIVE jump operands,
                     same `Nop`/`PopTop`/`Nil` placement.  Global variables are referred to BY
                     NAME and constants are INLINE in the instruction (`constInt 3`,
                     `loadG "x"`): indices into the constant pool and the global table are
                     not position independent, so they are assigned by a separate assembly
                     pass (`FragOracle.lean: assemble`, DESIGN's `compileSym`/`assemble`
                     split) which the correspondence check compares with the real bytecode;
  * `step` / `runF`  the restriction of `VM.lean`'s `step` to the opcodes `comp` emits.

Code is a list of SLOTS as in the real `[]op.Code`: an instruction with one operand occupies
two slots (`some ins`, `none`), so `pc` and every jump operand are in the real units.

The fragment (`wf`): F1 = expressions, assignments, if/else, the three `for` forms; F2 = `break`
and `continue` where no operand is pending; F3 = `switch` (see `wf` and FragProps.lean).

`FragProps.lean` proves: for every program of the fragment and every fuel, if `evalF` ends
(value or error) then `runF` on the compiled code ends with the same value / error class and
the same final store.  The links `evalF = Sem`, `compF = Compile.lean = compiler.go`,
`runF = VM.lean = vm.go` are checked by correspondence on every run (`harness/c01frag.go`).
Core Lean only.
-/
namespace Risor.C01.Frag
open Risor.C01

/-! ### values, stores, outcomes -/

inductive FVal where
  | nil
  | bool (b : Bool)
  | int (i : Int)
  | str (s : String)
  deriving Repr, DecidableEq, Inhabited

def FVal.truthy : FVal → Bool
  | .nil => false
  | .bool b => b
  | .int i => i != 0
  | .str s => s != ""

/-- global variables by name; the most recent binding wins; an unbound name reads `nil`
    (as `LoadGlobal` on a slot that was never stored does) -/
abbrev Store := List (String × FVal)

def Store.get : Store → String → FVal
  | [], _ => .nil
  | (y, v) :: r, x => if x == y then v else Store.get r x

def Store.set (σ : Store) (x : String) (v : FVal) : Store := (x, v) :: σ

inductive Out where
  | val (v : FVal)        -- an expression / expression statement / statement list produced a value
  | unit                  -- a non-expression statement completed
  | brk | cont            -- a `break` / `continue` on its way to the enclosing loop
  | err (cls : String)    -- error class ("type", "panic" = recovered Go panic, e.g. division by zero)
  | oof                   -- out of fuel
  deriving Repr, DecidableEq, Inhabited

/-! ### operators: the Spec side (shape of `Sem.binop`) and the VM side (shape of `VM.vBinary`,
    `VM.vCompare`, keyed by the numeric operand of `BinaryOp` / `CompareOp`) -/

def binopF (op : BinOp) (a b : FVal) : Except String FVal :=
  match op with
  | .eq => .ok (.bool (a == b))
  | .ne => .ok (.bool (!(a == b)))
  | .and => .ok (if a.truthy then b else a)
  | .or => .ok (if a.truthy then a else b)
  | _ =>
    match a, b with
    | .int x, .int y =>
      match op with
      | .add => .ok (.int (wrap64 (x + y)))
      | .sub => .ok (.int (wrap64 (x - y)))
      | .mul => .ok (.int (wrap64 (x * y)))
      | .div => if y == 0 then .error "panic" else .ok (.int (wrap64 (Int.tdiv x y)))
      | .mod => if y == 0 then .error "panic" else .ok (.int (wrap64 (Int.tmod x y)))
      | .lt => .ok (.bool (x < y))
      | .le => .ok (.bool (x ≤ y))
      | .gt => .ok (.bool (x > y))
      | .ge => .ok (.bool (x ≥ y))
      | _ => .error "unsupported"
    | .str x, .str y =>
      match op with
      | .add => .ok (.str (x ++ y))
      | .lt => .ok (.bool (x < y))
      | .le => .ok (.bool (x ≤ y))
      | .gt => .ok (.bool (x > y))
      | .ge => .ok (.bool (x ≥ y))
      | _ => .error "type"
    | .bool x, .bool y =>
      match op with
      | .lt => .ok (.bool (!x && y))
      | .le => .ok (.bool (!x || y))
      | .gt => .ok (.bool (x && !y))
      | .ge => .ok (.bool (x || !y))
      | _ => .error "type"
    | .nil, .nil =>
      match op with
      | .lt | .gt => .ok (.bool false)
      | .le | .ge => .ok (.bool true)
      | _ => .error "type"
    | _, _ => .error "type"

def applyF (op : AssignOp) (cur v : FVal) : Except String FVal :=
  match op with
  | .set => .ok v
  | .add => binopF .add cur v
  | .sub => binopF .sub cur v
  | .mul => binopF .mul cur v
  | .div => binopF .div cur v

def vBinaryF (k : Nat) (a b : FVal) : Except String FVal :=
  if k == 6 then .ok (if a.truthy then b else a)
  else if k == 7 then .ok (if a.truthy then a else b)
  else
    match a, b with
    | .int x, .int y =>
      if k == 1 then .ok (.int (wrap64 (x + y)))
      else if k == 2 then .ok (.int (wrap64 (x - y)))
      else if k == 3 then .ok (.int (wrap64 (x * y)))
      else if k == 4 then (if y == 0 then .error "panic" else .ok (.int (wrap64 (Int.tdiv x y))))
      else if k == 5 then (if y == 0 then .error "panic" else .ok (.int (wrap64 (Int.tmod x y))))
      else .error "unsupported"
    | .str x, .str y => if k == 1 then .ok (.str (x ++ y)) else .error "type"
    | _, _ => .error "type"

def vCompareF (k : Nat) (a b : FVal) : Except String FVal :=
  if k == 3 then .ok (.bool (a == b))
  else if k == 4 then .ok (.bool (!(a == b)))
  else
    match a, b with
    | .int x, .int y =>
      .ok (.bool (if k == 1 then x < y else if k == 2 then x ≤ y else if k == 5 then x > y else x ≥ y))
    | .str x, .str y =>
      .ok (.bool (if k == 1 then x < y else if k == 2 then x ≤ y else if k == 5 then x > y else x ≥ y))
    | .bool x, .bool y =>
      .ok (.bool (if k == 1 then !x && y else if k == 2 then !x || y else if k == 5 then x && !y else x || !y))
    | .nil, .nil => .ok (.bool (if k == 1 then false else if k == 2 then true else if k == 5 then false else true))
    | _, _ => .error "type"

/-! ### shallow syntactic classes (head constructor only) -/

def isNilL : N → Bool
  | .nilL => true
  | _ => false

/-- `leavesValue` of compiler.go on fragment statements: expression statements -/
def leaves : N → Bool
  | .expr _ => true
  | _ => false

/-- statements that push no value: they complete with `unit` (or, for `break`/`continue`, leave
    towards the loop's target) with the operand stack as they found it -/
def isUnitNode : N → Bool
  | .var _ _ | .assign _ _ _ | .postfix _ _ | .forcond _ _ | .forever _ | .for3 _ _ _ _
  | .break_ | .continue_ => true
  | _ => false

def isE : N → Bool
  | .nilLit | .int _ | .bool _ | .str _ | .id _ | .infix _ _ _ | .neg _ | .not _ | .tern _ _ _ | .if_ _ _ _
  | .switch _ _ => true
  | _ => false

def isBlock : N → Bool
  | .block _ => true
  | _ => false

/-- else branch: a block, nothing, or another `if` (`else if`) -/
def isElse : N → Bool
  | .block _ | .none_ | .if_ _ _ _ => true
  | _ => false

def isL : N → Bool
  | .cons _ _ | .nilL => true
  | _ => false

def isS (n : N) : Bool := isUnitNode n || leaves n

/-- a `break`/`continue` inside `n` can leave `n` (loops catch their own) -/
def escapes : N → Bool
  | .break_ | .continue_ => true
  | .infix _ l r => escapes l || escapes r
  | .neg e | .not e | .expr e | .block e | .prog e | .var _ e | .assign _ _ e => escapes e
  | .tern c a b | .if_ c a b => escapes c || escapes a || escapes b
  | .cons h t => escapes h || escapes t
  | _ => false

/-- `for INIT; …` : a declaration, assignment or `x++` -/
def isInit : N → Bool
  | .var _ _ | .assign _ _ _ | .postfix _ _ => true
  | _ => false

/-- `for …; …; POST` : an assignment, `x++` or an expression statement -/
def isPost : N → Bool
  | .assign _ _ _ | .postfix _ _ | .expr _ => true
  | _ => false

/-- infix operators of the fragment: everything `Sem.binop` models (`**`, `<<`, `>>`, `&` are
    `unsupported` there) -/
def opOK : BinOp → Bool
  | .pow | .lshift | .rshift | .bitand => false
  | _ => true

/-- the name of a statement-level `x++` / `x--` -/
def postName : N → Option String
  | .postfix x _ => some x
  | _ => none

/-! ### the fragment (shape) -/

def isDefault : N → Bool
  | .default_ _ => true
  | _ => false

def countDefault : N → Nat
  | .cons h t => (if isDefault h then 1 else 0) + countDefault t
  | _ => 0

mutual
/-- F1: literals, global identifiers, infix operators (errors included), `&&`, `||`, unary `-`
    and `!`, ternary, if / else-if / else expressions with block bodies, `x := e`, `x op= e`,
    `x++`/`x--`, expression statements, statement lists, `for c { }`, `for { }`,
    `for init; c; post { }`; no functions, no containers.
    F2: `break` and `continue` as statements of a loop body, of the blocks of an `if` that is
    itself in such a position (to any depth), i.e. NOT under pending operands: no
    break/continue may escape an operand of an operator, a condition, the right-hand side of
    an assignment, a loop's init/condition/post, or the program (`escapes … = false` there;
    the excluded programs are exactly those of C04's finding `ctl-under-operands`).
    F3: `switch` expressions (subject, cases with one or more values, optional default, block
    bodies) in risor's two-section lowering (all comparisons, then all bodies, default last,
    `Swap 1; PopTop` dropping the subject); no break/continue may leave a switch. -/
def wf : N → Bool
  | .nilLit | .none_ | .int _ | .bool _ | .str _ | .id _ | .nilL | .postfix _ _ | .break_ | .continue_ => true
  | .infix op l r => opOK op && isE l && isE r && !escapes l && !escapes r && wf l && wf r
  | .neg e | .not e => isE e && !escapes e && wf e
  | .tern c a b => isE c && isE a && isE b && !escapes c && !escapes a && !escapes b && wf c && wf a && wf b
  | .if_ c t e => isE c && isBlock t && isElse e && !escapes c && wf c && wf t && wf e
  | .block s => isL s && wf s
  | .prog s => isL s && !escapes s && wf s
  | .cons h t => isS h && isL t && wf h && wf t
  | .var _ e => isE e && !escapes e && wf e
  | .assign _ _ e => isE e && !escapes e && wf e
  | .expr e => isE e && wf e
  | .forcond c b => isE c && isBlock b && !escapes c && wf c && wf b
  | .forever b => isBlock b && wf b
  | .for3 i c p b =>
    isInit i && isE c && isPost p && isBlock b && !escapes i && !escapes c && !escapes p && wf i && wf c && wf p && wf b
  | .switch subj cases => isE subj && !escapes subj && wf subj && wfCases cases && decide (countDefault cases ≤ 1)
  | _ => false
/-- case values: expressions no break/continue escapes -/
def wfVals : N → Bool
  | .cons v vs => isE v && !escapes v && wf v && wfVals vs
  | .nilL => true
  | _ => false
/-- `case v1, v2: block` / `default: block`; no break/continue leaves the switch (it would have
    to pop the subject: `pendingSwitchValues`, outside this fragment) -/
def wfCase : N → Bool
  | .case_ vals body => wfVals vals && isBlock body && !escapes body && wf body
  | .default_ body => isBlock body && !escapes body && wf body
  | _ => false
def wfCases : N → Bool
  | .cons h t => wfCase h && wfCases t
  | .nilL => true
  | _ => false
end

/-! ### scoping: every variable is declared exactly once (`x := e`), before its uses, in an
    enclosing scope.  Under this condition a flat store of globals is an exact model of
    `Sem.lean`'s lexical environments and of the compiler's block symbol tables (which claim
    a fresh global index per declaration).  The THEOREM does not need it (both `ev` and the
    VM read `nil` from an unbound name); the LINKS to `Sem.lean`/`Compile.lean` do: there an
    undeclared or redeclared name is a compile error. -/

def declOf : N → List String
  | .var x _ => [x]
  | _ => []

mutual
/-- uses are in scope; `env` = the names visible here -/
def scopeOK : List String → N → Bool
  | env, .id x => env.contains x
  | env, .infix _ l r => scopeOK env l && scopeOK env r
  | env, .neg e | env, .not e | env, .expr e | env, .block e | env, .prog e | env, .var _ e => scopeOK env e
  | env, .tern c a b | env, .if_ c a b => scopeOK env c && scopeOK env a && scopeOK env b
  | env, .assign x _ e => env.contains x && scopeOK env e
  | env, .postfix x _ => env.contains x
  | env, .cons h t => scopeOK env h && scopeOK (declOf h ++ env) t
  | env, .forcond c b => scopeOK env c && scopeOK env b
  | env, .forever b => scopeOK env b
  | env, .for3 i c p b =>
    scopeOK env i && scopeOK (declOf i ++ env) c && scopeOK (declOf i ++ env) p && scopeOK (declOf i ++ env) b
  | env, .switch subj cases => scopeOK env subj && scopeCases env cases
  | _, _ => true
def scopeVals : List String → N → Bool
  | env, .cons v vs => scopeOK env v && scopeVals env vs
  | _, _ => true
def scopeCase : List String → N → Bool
  | env, .case_ vals body => scopeVals env vals && scopeOK env body
  | env, .default_ body => scopeOK env body
  | _, _ => true
def scopeCases : List String → N → Bool
  | env, .cons h t => scopeCase env h && scopeCases env t
  | _, _ => true
end

mutual
/-- every declared name, in compile order -/
def decls : N → List String
  | .infix _ l r => decls l ++ decls r
  | .neg e | .not e | .expr e | .block e | .prog e | .assign _ _ e | .forever e => decls e
  | .tern c a b | .if_ c a b => decls c ++ decls a ++ decls b
  | .var x e => decls e ++ [x]
  | .cons h t => decls h ++ decls t
  | .forcond c b => decls c ++ decls b
  | .for3 i c p b => decls i ++ decls c ++ decls b ++ decls p
  | .switch subj cases => decls subj ++ declsCmp cases ++ declsBodies cases ++ declsDflt cases
  | _ => []
def declsVals : N → List String
  | .cons v vs => decls v ++ declsVals vs
  | _ => []
def declsCmpCase : N → List String
  | .case_ vals _ => declsVals vals
  | _ => []
def declsCmp : N → List String
  | .cons h t => declsCmpCase h ++ declsCmp t
  | _ => []
def declsBody : N → List String
  | .case_ _ body => decls body
  | _ => []
def declsBodies : N → List String
  | .cons h t => declsBody h ++ declsBodies t
  | _ => []
def declsDfltBody : N → List String
  | .default_ body => decls body
  | _ => []
def declsDflt : N → List String
  | .cons h t => if isDefault h then declsDfltBody h else declsDflt t
  | _ => []
end

def nodup : List String → Bool
  | [] => true
  | x :: r => !r.contains x && nodup r

/-- the decidable `WellScoped` predicate: fresh names only, uses after declarations -/
def wellScoped (p : N) : Bool := scopeOK [] p && nodup (decls p)

/-- the fragment: a program (`prog`) of the shape `wf`, well scoped -/
def inFrag (p : N) : Bool :=
  match p with
  | .prog _ => wf p && wellScoped p
  | _ => false

/-! ### reference semantics restricted to the fragment -/

/-- continue with the value of a sub-evaluation; anything else (error, out of fuel) is the
    result (as every `| other => other` arm of `Sem.evalE`) -/
def seqV (r : Out × Store) (k : FVal → Store → Out × Store) : Out × Store :=
  match r with
  | (.val v, σ) => k v σ
  | other => other

def liftE (x : Except String FVal) (σ : Store) : Out × Store :=
  match x with
  | .ok v => (.val v, σ)
  | .error c => (.err c, σ)

/-- `Sem.loop3`: condition, body block, post statement; `k` bounds the iterations.
    `break` in the body ends the loop, `continue` goes on with the post statement. -/
def loopF (cond body post : Store → Out × Store) : Nat → Store → Out × Store
  | 0, σ => (.oof, σ)
  | k + 1, σ =>
    seqV (cond σ) fun v σ1 =>
      if v.truthy then
        match body σ1 with
        | (.brk, σ2) => (.unit, σ2)
        | (.val _, σ2) =>
          (match post σ2 with
          | (.unit, σ3) => loopF cond body post k σ3
          | (.val _, σ3) => loopF cond body post k σ3
          | other => other)
        | (.cont, σ2) =>
          (match post σ2 with
          | (.unit, σ3) => loopF cond body post k σ3
          | (.val _, σ3) => loopF cond body post k σ3
          | other => other)
        | other => other
      else (.unit, σ1)

/-- `Sem.matchVals`: the case values in order, the first one equal to the subject wins -/
def matchValsF (rec : N → Store → Out × Store) (sv : FVal) : N → Store → Except Out Bool × Store
  | .cons v vs, σ =>
    match rec v σ with
    | (.val x, σ1) => if sv == x then (.ok true, σ1) else matchValsF rec sv vs σ1
    | (o, σ1) => (.error o, σ1)
  | _, σ => (.ok false, σ)

/-- the body of the (first) default case -/
def dfltBody : N → Option N
  | .cons h t =>
    match h with
    | .default_ b => some b
    | _ => dfltBody t
  | _ => none

/-- no case matched: the default's body, or nil -/
def runDflt (rec : N → Store → Out × Store) (dflt : Option N) (σ : Store) : Out × Store :=
  match dflt with
  | some b => rec b σ
  | none => (.val .nil, σ)

/-- `Sem.evalCases`: cases in order; no match: the default's body, or nil -/
def evCasesF (rec : N → Store → Out × Store) (sv : FVal) (dflt : Option N) : N → Store → Out × Store
  | .cons h rest, σ =>
    match h with
    | .case_ vals body =>
      match matchValsF rec sv vals σ with
      | (.ok true, σ1) => rec body σ1
      | (.ok false, σ1) => evCasesF rec sv dflt rest σ1
      | (.error o, σ1) => (o, σ1)
    | _ => evCasesF rec sv dflt rest σ
  | _, σ => runDflt rec dflt σ

/-- one node, sub-nodes through `rec` (open recursion: `ev` ties the knot on fuel) -/
def evNode (fuel : Nat) (rec : N → Store → Out × Store) (n : N) (σ : Store) : Out × Store :=
  match n with
  | .nilLit => (.val .nil, σ)
  | .none_ => (.val .nil, σ)
  | .int i => (.val (.int i), σ)
  | .bool b => (.val (.bool b), σ)
  | .str s => (.val (.str s), σ)
  | .id x => (.val (σ.get x), σ)
  | .infix op l r =>
    seqV (rec l σ) fun a σ1 =>
      if op = .and then
        (if a.truthy then seqV (rec r σ1) (fun b σ2 => (.val b, σ2)) else (.val a, σ1))
      else if op = .or then
        (if a.truthy then (.val a, σ1) else seqV (rec r σ1) (fun b σ2 => (.val b, σ2)))
      else seqV (rec r σ1) fun b σ2 => liftE (binopF op a b) σ2
  | .neg e =>
    seqV (rec e σ) fun v σ1 =>
      match v with
      | .int i => (.val (.int (wrap64 (-i))), σ1)
      | _ => (.err "type", σ1)
  | .not e => seqV (rec e σ) fun v σ1 => (.val (.bool (!v.truthy)), σ1)
  | .tern c a b => seqV (rec c σ) fun v σ1 => if v.truthy then rec a σ1 else rec b σ1
  | .if_ c t e => seqV (rec c σ) fun v σ1 => if v.truthy then rec t σ1 else rec e σ1
  | .block s => rec s σ
  | .prog s => rec s σ
  | .expr e => rec e σ
  | .nilL => (.val .nil, σ)
  | .cons h t =>
    if isNilL t then
      -- last statement: its value, or nil when it is not an expression
      match rec h σ with
      | (.unit, σ1) => (.val .nil, σ1)
      | other => other
    else
      match rec h σ with
      | (.val _, σ1) => rec t σ1
      | (.unit, σ1) => rec t σ1
      | other => other
  | .var x e => seqV (rec e σ) fun v σ1 => (.unit, σ1.set x v)
  | .assign x op e =>
    -- the current value is read BEFORE the right-hand side runs (Sem.execS; the compiler
    -- emits the load first)
    seqV (rec e σ) fun v σ1 =>
      match applyF op (σ.get x) v with
      | .ok r => (.unit, σ1.set x r)
      | .error c => (.err c, σ1)
  | .postfix x inc =>
    match binopF .add (σ.get x) (.int (if inc then 1 else -1)) with
    | .ok r => (.unit, σ.set x r)
    | .error c => (.err c, σ)
  | .forcond c b => loopF (rec c) (rec b) (fun σ => (.unit, σ)) fuel σ
  | .forever b => loopF (fun σ => (.val (.bool true), σ)) (rec b) (fun σ => (.unit, σ)) fuel σ
  | .for3 i c p b =>
    match rec i σ with
    | (.unit, σ1) => loopF (rec c) (rec b) (rec p) fuel σ1
    | other => other
  | .break_ => (.brk, σ)
  | .continue_ => (.cont, σ)
  | .switch subj cases => seqV (rec subj σ) fun sv σ1 => evCasesF rec sv (dfltBody cases) cases σ1
  | _ => (.err "unsupported", σ)

def ev : Nat → N → Store → Out × Store
  | 0, _, σ => (.oof, σ)
  | f + 1, n, σ => evNode f (ev f) n σ

/-- a whole program from the empty store -/
def evalF (fuel : Nat) (p : N) : Out × Store := ev fuel p []

/-! ### target: slots, instructions, the functional compiler -/

inductive FIns where
  | nop | nil_ | true_ | false_ | popTop | unaryNeg | unaryNot
  | constInt (i : Int) | constStr (s : String)        -- LoadConst k, the constant inline
  | loadG (x : String) | storeG (x : String)          -- LoadGlobal / StoreGlobal, by name
  | binary (k : Nat) | compare (k : Nat) | copy (k : Nat) | swap (k : Nat)
  | jf (d : Nat) | jb (d : Nat) | pjf (d : Nat) | pjt (d : Nat)
  deriving Repr, DecidableEq, Inhabited

/-- `some i` = an opcode slot, `none` = an operand slot -/
abbrev Code := List (Option FIns)

/-- an instruction without operands -/
def one (i : FIns) : Code := [some i]
/-- an instruction with one operand -/
def two (i : FIns) : Code := [some i, none]

def opIns : BinOp → FIns
  | .add => .binary 1 | .sub => .binary 2 | .mul => .binary 3 | .div => .binary 4 | .mod => .binary 5
  | .and => .binary 6 | .or => .binary 7
  | .pow => .binary 9 | .lshift => .binary 10 | .rshift => .binary 11 | .bitand => .binary 12
  | .lt => .compare 1 | .le => .compare 2 | .eq => .compare 3 | .ne => .compare 4
  | .gt => .compare 5 | .ge => .compare 6

def assignK : AssignOp → Nat
  | .set => 0 | .add => 1 | .sub => 2 | .mul => 3 | .div => 4

/-- the parser reads a statement `x++` as the expression statement `x` followed by the postfix
    node (`Compile.expandStmts`): `LoadGlobal x; PopTop` precede it in a statement list -/
def pre (h : N) : Code :=
  match postName h with
  | some x => two (.loadG x) ++ one .popTop
  | none => []

def preLen (h : N) : Nat :=
  match postName h with
  | some _ => 3
  | none => 0

mutual
/-- number of slots of a node's code (independent of where it sits) -/
def size : N → Nat
  | .nilLit | .none_ | .nilL | .bool _ => 1
  | .int _ | .str _ | .id _ | .break_ | .continue_ => 2
  | .infix op l r => if op = .and ∨ op = .or then size l + size r + 7 else size l + size r + 2
  | .neg e | .not e => size e + 1
  | .tern c a b | .if_ c a b => size c + size a + size b + 4
  | .block s | .prog s | .expr s => size s
  | .cons h t =>
    preLen h + size h +
      (if isNilL t then (if leaves h then 0 else 1) else (if leaves h then 1 else 0) + size t)
  | .var _ e => size e + 2
  | .assign _ op e => if op = .set then size e + 2 else size e + 6
  | .postfix _ _ => 8
  | .forcond c b => size c + size b + 6
  | .forever b => size b + 4
  | .for3 i c p b => size i + size c + size b + (size p + (if leaves p then 1 else 0)) + 5
  | .switch subj cases => size subj + cmpLen cases + 2 + bodiesLen cases + defLen cases + 3
  | _ => 0
/-- comparison code of a case's values: `Copy 0; v; CompareOp ==; PopJumpForwardIfTrue` each -/
def valsLen : N → Nat
  | .cons v vs => size v + 6 + valsLen vs
  | _ => 0
def caseCmpLen : N → Nat
  | .case_ vals _ => valsLen vals
  | _ => 0
def cmpLen : N → Nat
  | .cons h t => caseCmpLen h + cmpLen t
  | _ => 0
/-- a case's body and the jump to the end of the switch -/
def caseBodyLen : N → Nat
  | .case_ _ body => size body + 2
  | _ => 0
def bodiesLen : N → Nat
  | .cons h t => caseBodyLen h + bodiesLen t
  | _ => 0
def dfltBodyLen : N → Nat
  | .default_ body => size body
  | _ => 0
/-- the default section: the default's body, or `Nil` -/
def defLen : N → Nat
  | .cons h t => if isDefault h then dfltBodyLen h else defLen t
  | _ => 1
end

mutual
/-- `comp kb kc n`: the code of `n` when the enclosing loop's `break` target lies `kb` slots
    and its `continue` target `kc` slots after the END of `n`'s code.  This is the closed form
    of the compiler's placeholder patching (`changeOperand(pos, target - pos)`): jumps are
    relative, so the operand of a `break` is a function of fragment lengths only.  Operands
    that no break/continue may escape in the fragment are compiled with `0 0`. -/
def comp (kb kc : Nat) : N → Code
  | .nilLit => one .nil_
  | .none_ => one .nil_
  | .int i => two (.constInt i)
  | .bool b => one (if b then .true_ else .false_)
  | .str s => two (.constStr s)
  | .id x => two (.loadG x)
  | .infix op l r =>
    if op = .and then
      comp 0 0 l ++ two (.copy 0) ++ two (.pjf (size r + 5)) ++ comp 0 0 r ++ two (.binary 6) ++ one .nop
    else if op = .or then
      comp 0 0 l ++ two (.copy 0) ++ two (.pjt (size r + 5)) ++ comp 0 0 r ++ two (.binary 7) ++ one .nop
    else comp 0 0 l ++ comp 0 0 r ++ two (opIns op)
  | .neg e => comp 0 0 e ++ one .unaryNeg
  | .not e => comp 0 0 e ++ one .unaryNot
  | .tern c a b =>
    comp 0 0 c ++ two (.pjf (size a + 4)) ++ comp (kb + (size b + 2)) (kc + (size b + 2)) a
      ++ two (.jf (size b + 2)) ++ comp kb kc b
  | .if_ c t e =>
    comp 0 0 c ++ two (.pjf (size t + 4)) ++ comp (kb + (size e + 2)) (kc + (size e + 2)) t
      ++ two (.jf (size e + 2)) ++ comp kb kc e
  | .block s => comp kb kc s
  | .prog s => comp kb kc s
  | .expr e => comp kb kc e
  | .nilL => one .nil_
  | .cons h t =>
    pre h ++
      (if isNilL t then
        comp (kb + (if leaves h then 0 else 1)) (kc + (if leaves h then 0 else 1)) h
          ++ (if leaves h then [] else one .nil_)
       else
        comp (kb + ((if leaves h then 1 else 0) + size t)) (kc + ((if leaves h then 1 else 0) + size t)) h
          ++ ((if leaves h then one .popTop else []) ++ comp kb kc t))
  | .var x e => comp 0 0 e ++ two (.storeG x)
  | .assign x op e =>
    if op = .set then comp 0 0 e ++ two (.storeG x)
    else two (.loadG x) ++ comp 0 0 e ++ two (.binary (assignK op)) ++ two (.storeG x)
  | .postfix x inc =>
    two (.loadG x) ++ two (.constInt (if inc then 1 else -1)) ++ two (.binary 1) ++ two (.storeG x)
  | .break_ => two (.jf (kb + 2))
  | .continue_ => two (.jf (kc + 2))
  | .forcond c b =>
    -- break lands on the Nop after the backward jump, continue on the backward jump itself
    comp 0 0 c ++ two (.pjf (size b + 6)) ++ comp 3 1 b ++ one .popTop
      ++ two (.jb (size c + size b + 3)) ++ one .nop
  | .forever b => comp 3 1 b ++ one .popTop ++ two (.jb (size b + 1)) ++ one .nop
  | .for3 i c p b =>
    -- break lands after the backward jump, continue on the post statement
    comp 0 0 i ++ comp 0 0 c
      ++ two (.pjf (size b + (size p + (if leaves p then 1 else 0)) + 5))
      ++ comp ((size p + (if leaves p then 1 else 0)) + 3) 1 b ++ one .popTop
      ++ comp 0 0 p ++ (if leaves p then one .popTop else [])
      ++ two (.jb (size c + size b + (size p + (if leaves p then 1 else 0)) + 3))
  | .switch subj cases =>
    -- subject; every case's comparisons; jump to the default; every case's body; default; drop the subject
    comp 0 0 subj ++ compCmp 0 cases ++ two (.jf (bodiesLen cases + 2)) ++ compBodies (defLen cases) cases
      ++ compDflt cases ++ two (.swap 1) ++ one .popTop
  | _ => []
/-- comparisons of one case; `k` = slots from the end of these comparisons to the case's body -/
def compVals (k : Nat) : N → Code
  | .cons v vs =>
    two (.copy 0) ++ comp 0 0 v ++ two (.compare 3) ++ two (.pjt (valsLen vs + k + 2)) ++ compVals k vs
  | _ => []
def compCmpCase (k : Nat) : N → Code
  | .case_ vals _ => compVals k vals
  | _ => []
/-- the comparison section; `before` = slots of the bodies of the earlier cases -/
def compCmp (before : Nat) : N → Code
  | .cons h t => compCmpCase (cmpLen t + 2 + before) h ++ compCmp (before + caseBodyLen h) t
  | _ => []
/-- one case body and its jump to the `Swap`, `a` slots after that jump -/
def compBody (a : Nat) : N → Code
  | .case_ _ body => comp 0 0 body ++ two (.jf (a + 2))
  | _ => []
/-- the body section; `d` = length of the default section -/
def compBodies (d : Nat) : N → Code
  | .cons h t => compBody (bodiesLen t + d) h ++ compBodies d t
  | _ => []
def compDfltBody : N → Code
  | .default_ body => comp 0 0 body
  | _ => []
def compDflt : N → Code
  | .cons h t => if isDefault h then compDfltBody h else compDflt t
  | _ => one .nil_
end

/-- the main code object of a program -/
def compF (p : N) : Code := comp 0 0 p

/-! ### the VM restricted to these opcodes (shape of `VM.step`) -/

structure Cfg where
  pc : Nat
  stk : List FVal         -- top first
  σ : Store
  deriving Repr

inductive Halt where
  | done (v : FVal)       -- end of the main code: the result is the top of the stack
  | err (cls : String)
  deriving Repr, DecidableEq

def execIns (i : FIns) (c : Cfg) : Except Halt Cfg :=
  match i, c.stk with
  | .nop, _ => .ok { c with pc := c.pc + 1 }
  | .nil_, s => .ok { c with pc := c.pc + 1, stk := .nil :: s }
  | .true_, s => .ok { c with pc := c.pc + 1, stk := .bool true :: s }
  | .false_, s => .ok { c with pc := c.pc + 1, stk := .bool false :: s }
  | .constInt k, s => .ok { c with pc := c.pc + 2, stk := .int k :: s }
  | .constStr k, s => .ok { c with pc := c.pc + 2, stk := .str k :: s }
  | .loadG x, s => .ok { c with pc := c.pc + 2, stk := c.σ.get x :: s }
  | .storeG x, v :: s => .ok { pc := c.pc + 2, stk := s, σ := c.σ.set x v }
  | .binary k, b :: a :: s =>
    match vBinaryF k a b with
    | .ok v => .ok { c with pc := c.pc + 2, stk := v :: s }
    | .error e => .error (.err e)
  | .compare k, b :: a :: s =>
    match vCompareF k a b with
    | .ok v => .ok { c with pc := c.pc + 2, stk := v :: s }
    | .error e => .error (.err e)
  | .unaryNeg, v :: s =>
    match v with
    | .int k => .ok { c with pc := c.pc + 1, stk := .int (wrap64 (-k)) :: s }
    | _ => .error (.err "type")
  | .unaryNot, v :: s => .ok { c with pc := c.pc + 1, stk := .bool (!v.truthy) :: s }
  | .popTop, _ :: s => .ok { c with pc := c.pc + 1, stk := s }
  | .copy k, s =>
    match s[k]? with
    | some v => .ok { c with pc := c.pc + 2, stk := v :: s }
    | none => .error (.err "panic")
  | .swap k, top :: s =>
    -- swap the top with the element `k` below it
    if k == 0 then .ok { c with pc := c.pc + 2 }
    else
      match s[k - 1]? with
      | some other => .ok { c with pc := c.pc + 2, stk := other :: s.set (k - 1) top }
      | none => .error (.err "panic")
  | .jf d, _ => .ok { c with pc := c.pc + d }
  | .jb d, _ => .ok { c with pc := c.pc - d }
  | .pjf d, v :: s => .ok { c with pc := if v.truthy then c.pc + 2 else c.pc + d, stk := s }
  | .pjt d, v :: s => .ok { c with pc := if v.truthy then c.pc + d else c.pc + 2, stk := s }
  | _, _ => .error (.err "panic")        -- stack underflow

def step (code : Code) (c : Cfg) : Except Halt Cfg :=
  if c.pc ≥ code.length then .error (.done (c.stk.headD .nil))
  else
    match code[c.pc]? with
    | some (some i) => execIns i c
    | _ => .error (.err "eval")

inductive RunRes where
  | running
  | done (v : FVal)
  | err (cls : String)
  deriving Repr, DecidableEq

def run (code : Code) : Nat → Cfg → RunRes × Store
  | 0, c => (.running, c.σ)
  | k + 1, c =>
    match step code c with
    | .ok c' => run code k c'
    | .error (.done v) => (.done v, c.σ)
    | .error (.err e) => (.err e, c.σ)

/-- run a compiled program from pc 0, empty stack, empty store -/
def runF (fuel : Nat) (code : Code) : RunRes × Store := run code fuel ⟨0, [], []⟩

/-- how a source outcome shows on the VM -/
def Out.toRun : Out → RunRes
  | .val v => .done v
  | .unit => .done .nil
  | .brk => .err "compile"
  | .cont => .err "compile"
  | .err c => .err c
  | .oof => .running

end Risor.C01.Frag
