import RisorModel.C01.Str
/-!
C01 fragment F7 — helper lemmas for `StrProps.lean`: `SeqLemmas.lean`'s development over the
state with a heap of MAP objects (`St`): multi-step execution (`Steps`), the position-independence
predicate `CodeAt`, one simulation lemma per construct (`sim_*`), the generic loop lemma, and the
new ones: the entries of a map literal (`items_sim`, `keysOK_even`), `sim_map`, `sim_index`,
`sim_setitem`, `sim_in`, `sim_notin`, the range loop over an int.  At the end: lookups after
writes (`mapGet_mapSet`), the object BuildMap makes (`mapGet_buildMapObj`: first entry of a key
wins) and item writes on the heap, used by StrProps.lean.  Core Lean only.
-/
namespace Risor.C01.Str
open Risor.C01
open Risor.C01.Frag (isNilL leaves isBlock isElse isL isInit isPost opOK postName isDefault countDefault
  dfltBody assignK nodup preLen)

/-! ### multi-step execution -/

inductive Steps (code : Code) : Cfg → Cfg → Prop where
  | refl (c : Cfg) : Steps code c c
  | cons {a b c : Cfg} : step code a = .ok b → Steps code b c → Steps code a c

theorem Steps.trans {code : Code} {a b c : Cfg} (h1 : Steps code a b) (h2 : Steps code b c) : Steps code a c := by
  induction h1 with
  | refl => exact h2
  | cons hs _ ih => exact .cons hs (ih h2)

theorem Steps.one {code : Code} {a b : Cfg} (h : step code a = .ok b) : Steps code a b := .cons h (.refl _)

theorem Steps.snoc {code : Code} {a b c : Cfg} (h1 : Steps code a b) (h : step code b = .ok c) : Steps code a c :=
  h1.trans (.one h)

theorem Steps.cast {code : Code} {a : Cfg} {p q : Nat} {s : List SVal} {σ : St}
    (h : Steps code a ⟨p, s, σ⟩) (e : p = q) : Steps code a ⟨q, s, σ⟩ := e ▸ h

theorem Steps.castL {code : Code} {b : Cfg} {p q : Nat} {s : List SVal} {σ : St}
    (h : Steps code ⟨p, s, σ⟩ b) (e : p = q) : Steps code ⟨q, s, σ⟩ b := e ▸ h

/-- the run reaches a configuration whose next step is the error `cls`, with store `σ'` -/
def Fails (code : Code) (c0 : Cfg) (cls : String) (σ' : St) : Prop :=
  ∃ c1, Steps code c0 c1 ∧ c1.σ = σ' ∧ step code c1 = .error (.err cls)

theorem Fails.pre {code : Code} {a b : Cfg} {cls : String} {σ' : St}
    (h : Steps code a b) (f : Fails code b cls σ') : Fails code a cls σ' := by
  obtain ⟨c1, h1, h2, h3⟩ := f
  exact ⟨c1, h.trans h1, h2, h3⟩

/-- the operand stack a `break` leaves at the loop's exit: the stack of the statement itself, or,
    when the enclosing loop is a range loop, that stack without the iterator on its top -/
def BrkStk : Bool → List SVal → List SVal → Prop
  | true, stk, out => ∃ top, stk = top :: out
  | false, stk, out => out = stk

/-- outcome `r` with final store `σ'` is realised from `c0`: a value lands at `pcE` on top of
    `stk`, unit lands at `pcE` with `stk` itself, `break` / `continue` land on the enclosing
    loop's targets (`kb` / `kc` slots after `pcE`) with `stk` itself, an error is raised by the
    VM with the same class; nothing is claimed for out-of-fuel -/
def Lands (code : Code) (c0 : Cfg) (pcE kb kc : Nat) (rng : Bool) (stk : List SVal) (r : Out) (σ' : St) : Prop :=
  match r with
  | .val v => Steps code c0 ⟨pcE, v :: stk, σ'⟩
  | .unit => Steps code c0 ⟨pcE, stk, σ'⟩
  | .brk => ∀ out, BrkStk rng stk out → Steps code c0 ⟨pcE + kb, out, σ'⟩
  | .cont => Steps code c0 ⟨pcE + kc, stk, σ'⟩
  | .err c => Fails code c0 c σ'
  | .oof => True

theorem Lands.pre {code : Code} {a b : Cfg} {pcE kb kc : Nat} {rng : Bool} {stk : List SVal} {r : Out} {σ' : St}
    (h : Steps code a b) (l : Lands code b pcE kb kc rng stk r σ') : Lands code a pcE kb kc rng stk r σ' := by
  cases r with
  | val v => exact h.trans l
  | unit => exact h.trans l
  | brk => exact fun out ho => h.trans (l out ho)
  | cont => exact h.trans l
  | err c => exact Fails.pre h l
  | oof => trivial

theorem Lands.cast {code : Code} {a : Cfg} {p q kb kc : Nat} {rng : Bool} {stk : List SVal} {r : Out} {σ' : St}
    (l : Lands code a p kb kc rng stk r σ') (e : p = q) : Lands code a q kb kc rng stk r σ' := e ▸ l

/-- which nodes end with a value, which with `unit`, and which can be left by a break/continue -/
def Shape (n : N) (r : Out) : Prop :=
  match r with
  | .val _ => isUnitNode n = false
  | .unit => isUnitNode n = true
  | .brk => escapes n = true
  | .cont => escapes n = true
  | _ => True

/-- the simulation statement for one node at one place -/
def Post (code : Code) (kb kc : Nat) (rng : Bool) (n : N) (pc : Nat) (stk : List SVal) (σ : St) (r : Out) (σ' : St) : Prop :=
  Shape n r ∧ Lands code ⟨pc, stk, σ⟩ (pc + size rng n) kb kc rng stk r σ'

/-! ### `CodeAt code pc frag`: the fragment sits at slot offset `pc` of the enclosing code -/

def CodeAt (code : Code) (pc : Nat) (frag : Code) : Prop :=
  ∀ i, i < frag.length → code[pc + i]? = frag[i]?

theorem CodeAt.append_left {code : Code} {pc : Nat} {a b : Code} (h : CodeAt code pc (a ++ b)) : CodeAt code pc a := by
  intro i hi
  have := h i (by simp; omega)
  rw [this, List.getElem?_append_left hi]

theorem CodeAt.append_right {code : Code} {pc : Nat} {a b : Code} (h : CodeAt code pc (a ++ b)) :
    CodeAt code (pc + a.length) b := by
  intro i hi
  have := h (a.length + i) (by simp; omega)
  rw [← Nat.add_assoc] at this
  rw [this, List.getElem?_append_right (by omega)]
  simp

theorem CodeAt.head {code : Code} {pc : Nat} {x : Option FIns} {rest : Code} (h : CodeAt code pc (x :: rest)) :
    code[pc]? = some x := by
  have := h 0 (by simp)
  simpa using this

theorem CodeAt.cast {code : Code} {p q : Nat} {frag : Code} (h : CodeAt code p frag) (e : p = q) :
    CodeAt code q frag := e ▸ h

theorem CodeAt.self (code : Code) : CodeAt code 0 code := by
  intro i _
  simp

theorem at_eq {code : Code} {p q : Nat} {x : Option FIns} (h : code[p]? = some x) (e : p = q) :
    code[q]? = some x := e ▸ h

@[simp] theorem one_length (i : FIns) : (one i).length = 1 := rfl
@[simp] theorem two_length (i : FIns) : (two i).length = 2 := rfl
@[simp] theorem three_length (i : FIns) : (three i).length = 3 := rfl

theorem CodeAt.one {code : Code} {pc : Nat} {i : FIns} (h : CodeAt code pc (one i)) : code[pc]? = some (some i) :=
  CodeAt.head h
theorem CodeAt.two {code : Code} {pc : Nat} {i : FIns} (h : CodeAt code pc (two i)) : code[pc]? = some (some i) :=
  CodeAt.head h

/-- executing the instruction found at `pc` -/
theorem step_of {code : Code} {pc : Nat} {i : FIns} (h : code[pc]? = some (some i)) (stk : List SVal) (σ : St) :
    step code ⟨pc, stk, σ⟩ = execIns i ⟨pc, stk, σ⟩ := by
  have hlt : pc < code.length := by
    rcases Nat.lt_or_ge pc code.length with h1 | h1
    · exact h1
    · rw [List.getElem?_eq_none h1] at h; cases h
  have : ¬ (pc ≥ code.length) := by omega
  simp only [step, this, if_false, h]

/-! ### shallow class facts -/

theorem isE_not_unit {n : N} (h : isE n = true) : isUnitNode n = false := by
  cases n <;> simp_all [isE, isUnitNode]
theorem isBlock_not_unit {n : N} (h : isBlock n = true) : isUnitNode n = false := by
  cases n <;> simp_all [isBlock, isUnitNode]
theorem isElse_not_unit {n : N} (h : isElse n = true) : isUnitNode n = false := by
  cases n <;> simp_all [isElse, isUnitNode]
theorem isL_not_unit {n : N} (h : isL n = true) : isUnitNode n = false := by
  cases n <;> simp_all [isL, isUnitNode]
theorem isInit_unit {n : N} (h : isInit n = true) : isUnitNode n = true := by
  cases n <;> simp_all [isInit, isUnitNode]

/-! ### operators: the VM's numeric dispatch agrees with the source-level operator -/

theorem execIns_opIns (op : BinOp) (hok : opOK op = true) (hand : op ≠ .and) (hor : op ≠ .or)
    (a b : SVal) (s : List SVal) (pc : Nat) (σ : St) :
    execIns (opIns op) ⟨pc, b :: a :: s, σ⟩ =
      (match binopF σ op a b with
       | .ok v => .ok ⟨pc + 2, v :: s, σ⟩
       | .error e => .error (.err e)) := by
  cases op <;> simp_all [opOK] <;> cases a <;> cases b <;>
    simp [opIns, execIns, binopF, vBinaryF, vCompareF] <;> (try split) <;> simp_all

theorem vBinaryF_assign (σ : St) (op : AssignOp) (h : op ≠ .set) (cur v : SVal) :
    vBinaryF σ (assignK op) cur v = applyF σ op cur v := by
  cases op <;> simp_all <;> cases cur <;> cases v <;> simp [assignK, applyF, binopF, vBinaryF]

theorem vBinaryF_add (σ : St) (a b : SVal) : vBinaryF σ 1 a b = binopF σ .add a b := by
  cases a <;> cases b <;> simp [binopF, vBinaryF]

/-! ### sequencing helper of the reference semantics -/

theorem seqV_elim {x : Out × St} {k : SVal → St → Out × St} {r : Out} {σ' : St}
    (h : seqV x k = (r, σ')) :
    (∃ v σ1, x = (.val v, σ1) ∧ k v σ1 = (r, σ')) ∨ ((∀ v, r ≠ .val v) ∧ x = (r, σ')) := by
  obtain ⟨r1, σ1⟩ := x
  cases r1 with
  | val v => exact .inl ⟨v, σ1, rfl, h⟩
  | unit => simp only [seqV] at h; cases h; exact .inr ⟨(by intro v hv; cases hv), rfl⟩
  | brk => simp only [seqV] at h; cases h; exact .inr ⟨(by intro v hv; cases hv), rfl⟩
  | cont => simp only [seqV] at h; cases h; exact .inr ⟨(by intro v hv; cases hv), rfl⟩
  | err c => simp only [seqV] at h; cases h; exact .inr ⟨(by intro v hv; cases hv), rfl⟩
  | oof => simp only [seqV] at h; cases h; exact .inr ⟨(by intro v hv; cases hv), rfl⟩

/-- the induction hypothesis: sub-nodes evaluated through `rec` are simulated wherever their
    code sits -/
def IH (code : Code) (rec : N → St → Out × St) : Prop :=
  ∀ n, wf n = true → ∀ kb kc rng pc stk σ r σ', CodeAt code pc (comp kb kc rng n) → rec n σ = (r, σ') →
    Post code kb kc rng n pc stk σ r σ'

/-- a sub-evaluation (of an operand: no break/continue escapes it) that did not produce a value
    (error, out of fuel) is the result of the whole node -/
theorem Post.propagate {code : Code} {sub n : N} {pc1 pc0 kb1 kc1 kb kc : Nat} {rng1 rng : Bool} {stk1 stk0 : List SVal}
    {σ1 σ0 σ' : St} {r : Out}
    (hpre : Steps code ⟨pc0, stk0, σ0⟩ ⟨pc1, stk1, σ1⟩)
    (h : Post code kb1 kc1 rng1 sub pc1 stk1 σ1 r σ') (hnv : ∀ v, r ≠ .val v) (hu : isUnitNode sub = false)
    (hx : escapes sub = false) :
    Post code kb kc rng n pc0 stk0 σ0 r σ' := by
  cases r with
  | val v => exact absurd rfl (hnv v)
  | unit => have := h.1; simp only [Shape] at this; rw [hu] at this; cases this
  | brk => have := h.1; simp only [Shape] at this; rw [hx] at this; cases this
  | cont => have := h.1; simp only [Shape] at this; rw [hx] at this; cases this
  | err c => exact ⟨trivial, Fails.pre hpre h.2⟩
  | oof => exact ⟨trivial, trivial⟩

theorem Post.val_steps {code : Code} {n : N} {pc kb kc : Nat} {rng : Bool} {stk : List SVal} {σ σ' : St} {v : SVal}
    (h : Post code kb kc rng n pc stk σ (.val v) σ') : Steps code ⟨pc, stk, σ⟩ ⟨pc + size rng n, v :: stk, σ'⟩ := h.2

theorem Post.unit_steps {code : Code} {n : N} {pc kb kc : Nat} {rng : Bool} {stk : List SVal} {σ σ' : St}
    (h : Post code kb kc rng n pc stk σ .unit σ') : Steps code ⟨pc, stk, σ⟩ ⟨pc + size rng n, stk, σ'⟩ := h.2

/-! ### the length of a node's code does not depend on where the loop targets are -/

theorem pre_length (h : N) : (pre h).length = preLen h := by
  unfold pre preLen
  cases postName h <;> rfl

/-- the eight list-shaped components of `comp_lengths` are trivial on a node that is neither a
    list nor a case -/
macro "len_rest" : tactic =>
  `(tactic| (refine ⟨?_, by intro rng k; simp [compVals, valsLen], by intro rng k; simp [compCmpCase, caseCmpLen],
      by intro rng b; simp [compCmp, cmpLen], by intro rng a; simp [compBody, caseBodyLen],
      by intro rng d; simp [compBodies, bodiesLen], by intro rng; simp [compDfltBody, dfltBodyLen],
      by intro rng; simp [compDflt, defLen], by intro rng; simp [compItems, itemsLen]⟩))

@[simp] theorem stores_length (xs : List String) : (stores xs).length = 2 * xs.length := by
  induction xs with
  | nil => rfl
  | cons x xs ih => simp [stores, ih]; omega

/-- lengths of every piece of generated code (the mutual functions of `comp`), by structural
    induction on the node -/
theorem comp_lengths (n : N) :
    (∀ rng kb kc, (comp kb kc rng n).length = size rng n) ∧ (∀ rng k, (compVals rng k n).length = valsLen rng n) ∧
    (∀ rng k, (compCmpCase rng k n).length = caseCmpLen rng n) ∧ (∀ rng b, (compCmp rng b n).length = cmpLen rng n) ∧
    (∀ rng a, (compBody rng a n).length = caseBodyLen rng n) ∧ (∀ rng d, (compBodies rng d n).length = bodiesLen rng n) ∧
    (∀ rng, (compDfltBody rng n).length = dfltBodyLen rng n) ∧ (∀ rng, (compDflt rng n).length = defLen rng n) ∧
    (∀ rng, (compItems rng n).length = itemsLen rng n) := by
  induction n with
  | cons h t ihh iht =>
    obtain ⟨h1, _, h3, _, h5, _, h7, _, _⟩ := ihh
    obtain ⟨t1, t2, _, t4, _, t6, _, t8, t9⟩ := iht
    refine ⟨?_, ?_, ?_, ?_, ?_, ?_, ?_, ?_, ?_⟩
    · intro rng kb kc
      simp only [comp, size, List.length_append, pre_length]
      split <;> split <;> simp [h1, t1] <;> omega
    · intro rng k; simp [compVals, valsLen, h1, t2]; omega
    · intro rng k; simp [compCmpCase, caseCmpLen]
    · intro rng b; simp [compCmp, cmpLen, h3, t4]
    · intro rng a; simp [compBody, caseBodyLen]
    · intro rng d; simp [compBodies, bodiesLen, h5, t6]
    · intro rng; simp [compDfltBody, dfltBodyLen]
    · intro rng; simp only [compDflt, defLen]; split <;> simp [h7, t8]
    · intro rng; simp [compItems, itemsLen, h1, t9]
  | case_ vals body ihv ihb =>
    refine ⟨?_, ?_, ?_, ?_, ?_, ?_, ?_, ?_, ?_⟩
    · intro rng kb kc; simp [comp, size]
    · intro rng k; simp [compVals, valsLen]
    · intro rng k; simp [compCmpCase, caseCmpLen, ihv.2.1]
    · intro rng b; simp [compCmp, cmpLen]
    · intro rng a; simp [compBody, caseBodyLen, ihb.1]
    · intro rng d; simp [compBodies, bodiesLen]
    · intro rng; simp [compDfltBody, dfltBodyLen]
    · intro rng; simp [compDflt, defLen]
    · intro rng; simp [compItems, itemsLen]
  | default_ body ihb =>
    refine ⟨?_, ?_, ?_, ?_, ?_, ?_, ?_, ?_, ?_⟩
    · intro rng kb kc; simp [comp, size]
    · intro rng k; simp [compVals, valsLen]
    · intro rng k; simp [compCmpCase, caseCmpLen]
    · intro rng b; simp [compCmp, cmpLen]
    · intro rng a; simp [compBody, caseBodyLen]
    · intro rng d; simp [compBodies, bodiesLen]
    · intro rng; simp [compDfltBody, dfltBodyLen, ihb.1]
    · intro rng; simp [compDflt, defLen]
    · intro rng; simp [compItems, itemsLen]
  | «infix» op l r ihl ihr =>
    len_rest
    intro rng kb kc
    by_cases h1 : op = .and
    · simp [comp, size, h1, ihl.1, ihr.1]; omega
    · by_cases h2 : op = .or
      · simp [comp, size, h2, ihl.1, ihr.1]; omega
      · simp [comp, size, h1, h2, ihl.1, ihr.1]; omega
  | assign x op e ih =>
    len_rest
    intro rng kb kc
    by_cases h1 : op = .set
    · simp [comp, size, h1, ih.1]
    · simp [comp, size, h1, ih.1]; omega
  | for3 i c p b ihi ihc ihp ihb =>
    len_rest
    intro rng kb kc
    simp only [comp, size, List.length_append, ihi.1, ihc.1, ihp.1, ihb.1, two_length, one_length]
    split <;> simp <;> omega
  | switch subj cases ihs ihc =>
    len_rest
    intro rng kb kc
    simp [comp, size, ihs.1, ihc.2.2.2.1, ihc.2.2.2.2.2.1, ihc.2.2.2.2.2.2.2.1]; omega
  | setitem op o i v iho ihi ihv =>
    len_rest
    intro rng kb kc
    by_cases h1 : op = .set
    · simp [comp, size, h1, iho.1, ihi.1, ihv.1]; omega
    · simp [comp, size, h1, iho.1, ihi.1, ihv.1]; omega
  | break_ => len_rest; intro rng kb kc; cases rng <;> simp [comp, size]
  | map items ih => len_rest; intro rng kb kc; simp [comp, size, ih.2.2.2.2.2.2.2.2]
  | in_ x c ihx ihc => len_rest; intro rng kb kc; simp [comp, size, ihx.1, ihc.1]; omega
  | notin x c ihx ihc => len_rest; intro rng kb kc; simp [comp, size, ihx.1, ihc.1]; omega
  | index e i ihe ihi => len_rest; intro rng kb kc; simp [comp, size, ihe.1, ihi.1]; omega
  | forrange k v c b ihc ihb => len_rest; intro rng kb kc; simp [comp, size, ihc.1, ihb.1]; omega
  | forin v c b ihc ihb => len_rest; intro rng kb kc; simp [comp, size, ihc.1, ihb.1]; omega
  | tern c a b ihc iha ihb => len_rest; intro rng kb kc; simp [comp, size, ihc.1, iha.1, ihb.1]; omega
  | if_ c a b ihc iha ihb => len_rest; intro rng kb kc; simp [comp, size, ihc.1, iha.1, ihb.1]; omega
  | forcond c b ihc ihb => len_rest; intro rng kb kc; simp [comp, size, ihc.1, ihb.1]; omega
  | forever b ihb => len_rest; intro rng kb kc; simp [comp, size, ihb.1]
  | neg e ih => len_rest; intro rng kb kc; simp [comp, size, ih.1]
  | not e ih => len_rest; intro rng kb kc; simp [comp, size, ih.1]
  | var x e ih => len_rest; intro rng kb kc; simp [comp, size, ih.1]
  | block s ih => len_rest; intro rng kb kc; simp [comp, size, ih.1]
  | prog s ih => len_rest; intro rng kb kc; simp [comp, size, ih.1]
  | expr s ih => len_rest; intro rng kb kc; simp [comp, size, ih.1]
  | _ => len_rest; intro rng kb kc; simp [comp, size]

theorem comp_length (n : N) (kb kc : Nat) (rng : Bool) : (comp kb kc rng n).length = size rng n := (comp_lengths n).1 rng kb kc
theorem compVals_length (n : N) (k : Nat) (rng : Bool) : (compVals rng k n).length = valsLen rng n := (comp_lengths n).2.1 rng k
theorem compCmp_length (n : N) (b : Nat) (rng : Bool) : (compCmp rng b n).length = cmpLen rng n := (comp_lengths n).2.2.2.1 rng b
theorem compBody_length (n : N) (a : Nat) (rng : Bool) : (compBody rng a n).length = caseBodyLen rng n := (comp_lengths n).2.2.2.2.1 rng a
theorem compBodies_length (n : N) (d : Nat) (rng : Bool) : (compBodies rng d n).length = bodiesLen rng n := (comp_lengths n).2.2.2.2.2.1 rng d
theorem compDflt_length (n : N) (rng : Bool) : (compDflt rng n).length = defLen rng n := (comp_lengths n).2.2.2.2.2.2.2.1 rng
theorem compItems_length (n : N) (rng : Bool) : (compItems rng n).length = itemsLen rng n := (comp_lengths n).2.2.2.2.2.2.2.2 rng

/-! ### one simulation lemma per construct (sub-nodes through the induction hypothesis) -/

variable {code : Code} {rec : N → St → Out × St} {fuel : Nat} {kb kc : Nat} {rng : Bool}

theorem Post.fail {n : N} {pc0 pc1 : Nat} {stk0 stk1 : List SVal} {σ0 σ1 : St} {c : String}
    (hpre : Steps code ⟨pc0, stk0, σ0⟩ ⟨pc1, stk1, σ1⟩) (h : step code ⟨pc1, stk1, σ1⟩ = .error (.err c)) :
    Post code kb kc rng n pc0 stk0 σ0 (.err c) σ1 := ⟨trivial, _, hpre, rfl, h⟩

theorem Post.congr {n m : N} {pc : Nat} {stk : List SVal} {σ σ' : St} {r : Out}
    (hc : size rng n = size rng m) (hu : isUnitNode n = isUnitNode m) (hx : escapes n = escapes m)
    (h : Post code kb kc rng m pc stk σ r σ') :
    Post code kb kc rng n pc stk σ r σ' := by
  unfold Post Shape at *
  rw [hc, hu, hx]; exact h

theorem sim_and (ih : IH code rec) (l r : N)
    (hwf : wf (.infix .and l r) = true) (pc : Nat) (stk : List SVal) (σ : St) (res : Out) (σ' : St)
    (hat : CodeAt code pc (comp kb kc rng (.infix .and l r))) (he : evNode fuel rec (.infix .and l r) σ = (res, σ')) :
    Post code kb kc rng (.infix .and l r) pc stk σ res σ' := by
  simp only [wf, Bool.and_eq_true, Bool.not_eq_true'] at hwf
  obtain ⟨⟨⟨⟨⟨⟨_, hel⟩, her⟩, hxl⟩, hxr⟩, hwl⟩, hwr⟩ := hwf
  simp only [comp, ↓reduceIte] at hat
  simp only [evNode, ↓reduceIte] at he
  have hlen : size rng (.infix .and l r) = size rng l + size rng r + 7 := by simp [size]
  have hatl := hat.append_left.append_left.append_left.append_left.append_left
  have hcopy := CodeAt.two hat.append_left.append_left.append_left.append_left.append_right
  have hpjf := CodeAt.two hat.append_left.append_left.append_left.append_right
  have hatr := hat.append_left.append_left.append_right
  have hbin := CodeAt.two hat.append_left.append_right
  have hnop := CodeAt.one hat.append_right
  simp only [List.length_append, two_length, comp_length] at hcopy hpjf hatr hbin hnop
  rcases seqV_elim he with ⟨a, σ1, hl, he⟩ | ⟨hnv, hx⟩
  · have Pl := (ih l hwl 0 0 _ pc stk σ _ _ hatl hl).val_steps
    have s1 : step code ⟨pc + size rng l, a :: stk, σ1⟩ = .ok ⟨pc + size rng l + 2, a :: a :: stk, σ1⟩ := by
      rw [step_of hcopy]; rfl
    have hpjf := at_eq hpjf (q := pc + size rng l + 2) (by omega)
    by_cases ht : a.truthy σ1 = true
    · simp only [ht, ↓reduceIte] at he
      have s2 : step code ⟨pc + size rng l + 2, a :: a :: stk, σ1⟩ = .ok ⟨pc + size rng l + 4, a :: stk, σ1⟩ := by
        rw [step_of hpjf]; simp [execIns, ht]
      have pre := (Pl.snoc s1).snoc s2
      have hatr := hatr.cast (q := pc + size rng l + 4) (by omega)
      rcases seqV_elim he with ⟨b, σ2, hr, he⟩ | ⟨hnv, hx⟩
      · cases he
        have Pr := (ih r hwr 0 0 _ _ (a :: stk) σ1 _ _ hatr hr).val_steps
        have hbin := at_eq hbin (q := pc + size rng l + 4 + size rng r) (by omega)
        have hnop := at_eq hnop (q := pc + size rng l + 4 + size rng r + 2) (by omega)
        have s3 : step code ⟨pc + size rng l + 4 + size rng r, b :: a :: stk, σ'⟩
            = .ok ⟨pc + size rng l + 4 + size rng r + 2, (if a.truthy σ' = true then b else a) :: stk, σ'⟩ := by
          rw [step_of hbin]; simp [execIns, vBinaryF]
        have s4 : step code ⟨pc + size rng l + 4 + size rng r + 2, (if a.truthy σ' = true then b else a) :: stk, σ'⟩
            = .ok ⟨pc + size rng l + 4 + size rng r + 2 + 1, (if a.truthy σ' = true then b else a) :: stk, σ'⟩ := by
          rw [step_of hnop]; rfl
        refine ⟨rfl, ?_⟩
        show Steps code _ ⟨_, (if a.truthy σ' = true then b else a) :: stk, _⟩
        rw [hlen]
        exact (((pre.trans Pr).snoc s3).snoc s4).cast (by omega)
      · exact Post.propagate pre (ih r hwr 0 0 _ _ (a :: stk) σ1 _ _ hatr hx) hnv (isE_not_unit her) hxr
    · simp only [ht] at he
      have ht' : a.truthy σ1 = false := by simpa using ht
      simp only [Bool.false_eq_true, ↓reduceIte] at he
      cases he
      have s2 : step code ⟨pc + size rng l + 2, a :: a :: stk, σ'⟩
          = .ok ⟨pc + size rng l + 2 + (size rng r + 5), a :: stk, σ'⟩ := by
        rw [step_of hpjf]; simp [execIns, ht']
      refine ⟨rfl, ?_⟩
      show Steps code _ ⟨_, a :: stk, _⟩
      rw [hlen]
      exact ((Pl.snoc s1).snoc s2).cast (by omega)
  · exact Post.propagate (.refl _) (ih l hwl 0 0 _ pc stk σ _ _ hatl hx) hnv (isE_not_unit hel) hxl

theorem sim_infix (ih : IH code rec) (op : BinOp) (l r : N) (hop : op ≠ .and) (hor : op ≠ .or)
    (hwf : wf (.infix op l r) = true) (pc : Nat) (stk : List SVal) (σ : St) (res : Out) (σ' : St)
    (hat : CodeAt code pc (comp kb kc rng (.infix op l r))) (he : evNode fuel rec (.infix op l r) σ = (res, σ')) :
    Post code kb kc rng (.infix op l r) pc stk σ res σ' := by
  simp only [wf, Bool.and_eq_true, Bool.not_eq_true'] at hwf
  obtain ⟨⟨⟨⟨⟨⟨hok, hel⟩, her⟩, hxl⟩, hxr⟩, hwl⟩, hwr⟩ := hwf
  simp only [comp, if_neg hop, if_neg hor] at hat
  simp only [evNode, if_neg hop, if_neg hor] at he
  have hlen : size rng (.infix op l r) = size rng l + size rng r + 2 := by
    simp [size, hop, hor]
  have hatl := hat.append_left.append_left
  have hatr := hat.append_left.append_right
  have hins := CodeAt.two hat.append_right
  simp only [List.length_append, comp_length] at hins hatr
  have hins := at_eq hins (q := pc + size rng l + size rng r) (by omega)
  rcases seqV_elim he with ⟨a, σ1, hl, he⟩ | ⟨hnv, hx⟩
  · have Pl := (ih l hwl 0 0 _ pc stk σ _ _ hatl hl).val_steps
    rcases seqV_elim he with ⟨b, σ2, hr, he⟩ | ⟨hnv, hx⟩
    · have Pr := (ih r hwr 0 0 _ _ (a :: stk) σ1 _ _ hatr hr).val_steps
      have hstep := step_of hins (b :: a :: stk) σ2
      rw [execIns_opIns op hok hop hor] at hstep
      cases hb : binopF σ2 op a b with
      | ok v =>
        simp only [hb, liftE] at he hstep; cases he
        refine ⟨rfl, ?_⟩
        show Steps code _ ⟨_, v :: stk, _⟩
        rw [hlen]
        exact (Pl.trans (Pr.snoc hstep)).cast (by omega)
      | error c =>
        simp only [hb, liftE] at he hstep; cases he
        exact ⟨trivial, _, Pl.trans Pr, rfl, hstep⟩
    · exact Post.propagate Pl (ih r hwr 0 0 _ _ (a :: stk) σ1 _ _ hatr hx) hnv (isE_not_unit her) hxr
  · exact Post.propagate (.refl _) (ih l hwl 0 0 _ pc stk σ _ _ hatl hx) hnv (isE_not_unit hel) hxl

theorem sim_or (ih : IH code rec) (l r : N)
    (hwf : wf (.infix .or l r) = true) (pc : Nat) (stk : List SVal) (σ : St) (res : Out) (σ' : St)
    (hat : CodeAt code pc (comp kb kc rng (.infix .or l r))) (he : evNode fuel rec (.infix .or l r) σ = (res, σ')) :
    Post code kb kc rng (.infix .or l r) pc stk σ res σ' := by
  simp only [wf, Bool.and_eq_true, Bool.not_eq_true'] at hwf
  obtain ⟨⟨⟨⟨⟨⟨_, hel⟩, her⟩, hxl⟩, hxr⟩, hwl⟩, hwr⟩ := hwf
  simp only [comp, reduceCtorEq, ↓reduceIte] at hat
  simp only [evNode, reduceCtorEq, ↓reduceIte] at he
  have hlen : size rng (.infix .or l r) = size rng l + size rng r + 7 := by simp [size]
  have hatl := hat.append_left.append_left.append_left.append_left.append_left
  have hcopy := CodeAt.two hat.append_left.append_left.append_left.append_left.append_right
  have hpjt := CodeAt.two hat.append_left.append_left.append_left.append_right
  have hatr := hat.append_left.append_left.append_right
  have hbin := CodeAt.two hat.append_left.append_right
  have hnop := CodeAt.one hat.append_right
  simp only [List.length_append, two_length, comp_length] at hcopy hpjt hatr hbin hnop
  rcases seqV_elim he with ⟨a, σ1, hl, he⟩ | ⟨hnv, hx⟩
  · have Pl := (ih l hwl 0 0 _ pc stk σ _ _ hatl hl).val_steps
    have s1 : step code ⟨pc + size rng l, a :: stk, σ1⟩ = .ok ⟨pc + size rng l + 2, a :: a :: stk, σ1⟩ := by
      rw [step_of hcopy]; rfl
    have hpjt := at_eq hpjt (q := pc + size rng l + 2) (by omega)
    by_cases ht : a.truthy σ1 = true
    · simp only [ht, ↓reduceIte] at he
      cases he
      have s2 : step code ⟨pc + size rng l + 2, a :: a :: stk, σ'⟩
          = .ok ⟨pc + size rng l + 2 + (size rng r + 5), a :: stk, σ'⟩ := by
        rw [step_of hpjt]; simp [execIns, ht]
      refine ⟨rfl, ?_⟩
      show Steps code _ ⟨_, a :: stk, _⟩
      rw [hlen]
      exact ((Pl.snoc s1).snoc s2).cast (by omega)
    · have ht' : a.truthy σ1 = false := by simpa using ht
      simp only [ht', Bool.false_eq_true, ↓reduceIte] at he
      have s2 : step code ⟨pc + size rng l + 2, a :: a :: stk, σ1⟩ = .ok ⟨pc + size rng l + 4, a :: stk, σ1⟩ := by
        rw [step_of hpjt]; simp [execIns, ht']
      have pre := (Pl.snoc s1).snoc s2
      have hatr := hatr.cast (q := pc + size rng l + 4) (by omega)
      rcases seqV_elim he with ⟨b, σ2, hr, he⟩ | ⟨hnv, hx⟩
      · cases he
        have Pr := (ih r hwr 0 0 _ _ (a :: stk) σ1 _ _ hatr hr).val_steps
        have hbin := at_eq hbin (q := pc + size rng l + 4 + size rng r) (by omega)
        have hnop := at_eq hnop (q := pc + size rng l + 4 + size rng r + 2) (by omega)
        have s3 : step code ⟨pc + size rng l + 4 + size rng r, b :: a :: stk, σ'⟩
            = .ok ⟨pc + size rng l + 4 + size rng r + 2, (if a.truthy σ' = true then a else b) :: stk, σ'⟩ := by
          rw [step_of hbin]; simp [execIns, vBinaryF]
        have s4 : step code ⟨pc + size rng l + 4 + size rng r + 2, (if a.truthy σ' = true then a else b) :: stk, σ'⟩
            = .ok ⟨pc + size rng l + 4 + size rng r + 2 + 1, (if a.truthy σ' = true then a else b) :: stk, σ'⟩ := by
          rw [step_of hnop]; rfl
        refine ⟨rfl, ?_⟩
        show Steps code _ ⟨_, (if a.truthy σ' = true then a else b) :: stk, _⟩
        rw [hlen]
        exact (((pre.trans Pr).snoc s3).snoc s4).cast (by omega)
      · exact Post.propagate pre (ih r hwr 0 0 _ _ (a :: stk) σ1 _ _ hatr hx) hnv (isE_not_unit her) hxr
  · exact Post.propagate (.refl _) (ih l hwl 0 0 _ pc stk σ _ _ hatl hx) hnv (isE_not_unit hel) hxl

theorem sim_neg (ih : IH code rec) (e : N)
    (hwf : wf (.neg e) = true) (pc : Nat) (stk : List SVal) (σ : St) (res : Out) (σ' : St)
    (hat : CodeAt code pc (comp kb kc rng (.neg e))) (he : evNode fuel rec (.neg e) σ = (res, σ')) :
    Post code kb kc rng (.neg e) pc stk σ res σ' := by
  simp only [wf, Bool.and_eq_true, Bool.not_eq_true'] at hwf
  obtain ⟨⟨hee, hxe⟩, hwe⟩ := hwf
  simp only [comp] at hat
  simp only [evNode] at he
  have hlen : size rng (.neg e) = size rng e + 1 := by simp [size]
  have hins := CodeAt.one hat.append_right
  simp only [comp_length] at hins
  rcases seqV_elim he with ⟨v, σ1, h1, he⟩ | ⟨hnv, hx⟩
  · have P1 := (ih e hwe 0 0 _ pc stk σ _ _ hat.append_left h1).val_steps
    cases v with
    | int i =>
      simp only at he; cases he
      refine ⟨rfl, ?_⟩
      show Steps code _ ⟨_, .int (wrap64 (-i)) :: stk, _⟩
      rw [hlen]
      have s1 : step code ⟨pc + size rng e, .int i :: stk, σ'⟩ = .ok ⟨pc + size rng e + 1, .int (wrap64 (-i)) :: stk, σ'⟩ := by
        rw [step_of hins]; rfl
      exact (P1.snoc s1).cast (by omega)
    | nil => simp only at he; cases he; exact Post.fail P1 (by rw [step_of hins]; rfl)
    | bool b => simp only at he; cases he; exact Post.fail P1 (by rw [step_of hins]; rfl)
    | str s => simp only at he; cases he; exact Post.fail P1 (by rw [step_of hins]; rfl)
    | ref a => simp only at he; cases he; exact Post.fail P1 (by rw [step_of hins]; rfl)
    | iterI a p => simp only at he; cases he; exact Post.fail P1 (by rw [step_of hins]; rfl)
  · exact Post.propagate (.refl _) (ih e hwe 0 0 _ pc stk σ _ _ hat.append_left hx) hnv (isE_not_unit hee) hxe

theorem sim_not (ih : IH code rec) (e : N)
    (hwf : wf (.not e) = true) (pc : Nat) (stk : List SVal) (σ : St) (res : Out) (σ' : St)
    (hat : CodeAt code pc (comp kb kc rng (.not e))) (he : evNode fuel rec (.not e) σ = (res, σ')) :
    Post code kb kc rng (.not e) pc stk σ res σ' := by
  simp only [wf, Bool.and_eq_true, Bool.not_eq_true'] at hwf
  obtain ⟨⟨hee, hxe⟩, hwe⟩ := hwf
  simp only [comp] at hat
  simp only [evNode] at he
  have hlen : size rng (.not e) = size rng e + 1 := by simp [size]
  have hins := CodeAt.one hat.append_right
  simp only [comp_length] at hins
  rcases seqV_elim he with ⟨v, σ1, h1, he⟩ | ⟨hnv, hx⟩
  · have P1 := (ih e hwe 0 0 _ pc stk σ _ _ hat.append_left h1).val_steps
    cases he
    refine ⟨rfl, ?_⟩
    show Steps code _ ⟨_, .bool (!v.truthy σ') :: stk, _⟩
    rw [hlen]
    have s1 : step code ⟨pc + size rng e, v :: stk, σ'⟩ = .ok ⟨pc + size rng e + 1, .bool (!v.truthy σ') :: stk, σ'⟩ := by
      rw [step_of hins]; rfl
    exact (P1.snoc s1).cast (by omega)
  · exact Post.propagate (.refl _) (ih e hwe 0 0 _ pc stk σ _ _ hat.append_left hx) hnv (isE_not_unit hee) hxe

/-- ternary and if/else share their shape: the condition is an operand, the two branches
    inherit the loop targets (shifted by what follows them) -/
theorem sim_cond (ih : IH code rec) (n c a b : N)
    (hcomp : comp kb kc rng n = comp 0 0 rng c ++ two (.pjf (size rng a + 4)) ++ comp (kb + (size rng b + 2)) (kc + (size rng b + 2)) rng a
      ++ two (.jf (size rng b + 2)) ++ comp kb kc rng b)
    (hsize : size rng n = size rng c + size rng a + size rng b + 4)
    (hun : isUnitNode n = false) (hesc : escapes n = (escapes c || escapes a || escapes b))
    (hwc : wf c = true) (hwa : wf a = true) (hwb : wf b = true)
    (huc : isUnitNode c = false) (hua : isUnitNode a = false) (hub : isUnitNode b = false)
    (hxc : escapes c = false)
    (pc : Nat) (stk : List SVal) (σ : St) (res : Out) (σ' : St)
    (hat : CodeAt code pc (comp kb kc rng n))
    (he : (seqV (rec c σ) fun v σ1 => if v.truthy σ1 = true then rec a σ1 else rec b σ1) = (res, σ')) :
    Post code kb kc rng n pc stk σ res σ' := by
  have hlen := hsize
  rw [hcomp] at hat
  have hatc := hat.append_left.append_left.append_left.append_left
  have hpjf := CodeAt.two hat.append_left.append_left.append_left.append_right
  have hata := hat.append_left.append_left.append_right
  have hjf := CodeAt.two hat.append_left.append_right
  have hatb := hat.append_right
  simp only [List.length_append, two_length, comp_length] at hpjf hata hjf hatb
  rcases seqV_elim he with ⟨v, σ1, h1, he⟩ | ⟨hnv, hx⟩
  · have Pc := (ih c hwc 0 0 _ pc stk σ _ _ hatc h1).val_steps
    by_cases ht : v.truthy σ1 = true
    · simp only [ht, ↓reduceIte] at he
      have s1 : step code ⟨pc + size rng c, v :: stk, σ1⟩ = .ok ⟨pc + size rng c + 2, stk, σ1⟩ := by
        rw [step_of hpjf]; simp [execIns, ht]
      have pre := Pc.snoc s1
      have Pa := ih a hwa _ _ _ _ stk σ1 _ _ hata he
      have hjf := at_eq hjf (q := pc + size rng c + 2 + size rng a) (by omega)
      cases res with
      | val w =>
        refine ⟨by simp [Shape, hun], ?_⟩
        show Steps code _ ⟨_, w :: stk, _⟩
        have s2 : step code ⟨pc + size rng c + 2 + size rng a, w :: stk, σ'⟩
            = .ok ⟨pc + size rng c + 2 + size rng a + (size rng b + 2), w :: stk, σ'⟩ := by
          rw [step_of hjf]; rfl
        rw [hlen]
        exact ((pre.trans Pa.val_steps).snoc s2).cast (by omega)
      | unit => have := Pa.1; simp only [Shape] at this; rw [hua] at this; cases this
      | brk =>
        have hxa : escapes a = true := Pa.1
        refine ⟨by simp [Shape, hesc, hxa], ?_⟩
        intro out ho
        rw [hlen]
        exact (pre.trans (Pa.2 out ho)).cast (by omega)
      | cont =>
        have hxa : escapes a = true := Pa.1
        refine ⟨by simp [Shape, hesc, hxa], ?_⟩
        show Steps code _ ⟨_, stk, _⟩
        rw [hlen]
        exact (pre.trans Pa.2).cast (by omega)
      | err e => exact ⟨trivial, Fails.pre pre Pa.2⟩
      | oof => exact ⟨trivial, trivial⟩
    · have ht' : v.truthy σ1 = false := by simpa using ht
      simp only [ht', Bool.false_eq_true, ↓reduceIte] at he
      have s1 : step code ⟨pc + size rng c, v :: stk, σ1⟩
          = .ok ⟨pc + size rng c + (size rng a + 4), stk, σ1⟩ := by
        rw [step_of hpjf]; simp [execIns, ht']
      have pre := Pc.snoc s1
      have Pb := ih b hwb kb kc _ _ stk σ1 _ _ (hatb.cast (q := pc + size rng c + (size rng a + 4)) (by omega)) he
      cases res with
      | val w =>
        refine ⟨by simp [Shape, hun], ?_⟩
        show Steps code _ ⟨_, w :: stk, _⟩
        rw [hlen]
        exact (pre.trans Pb.val_steps).cast (by omega)
      | unit => have := Pb.1; simp only [Shape] at this; rw [hub] at this; cases this
      | brk =>
        have hxb : escapes b = true := Pb.1
        refine ⟨by simp [Shape, hesc, hxb], ?_⟩
        intro out ho
        rw [hlen]
        exact (pre.trans (Pb.2 out ho)).cast (by omega)
      | cont =>
        have hxb : escapes b = true := Pb.1
        refine ⟨by simp [Shape, hesc, hxb], ?_⟩
        show Steps code _ ⟨_, stk, _⟩
        rw [hlen]
        exact (pre.trans Pb.2).cast (by omega)
      | err e => exact ⟨trivial, Fails.pre pre Pb.2⟩
      | oof => exact ⟨trivial, trivial⟩
  · exact Post.propagate (.refl _) (ih c hwc 0 0 _ pc stk σ _ _ hatc hx) hnv huc hxc

/-- a leaf: one instruction pushes the value, the store is untouched -/
theorem sim_leaf (n : N) (i : FIns) (v : SVal) (w : Nat) (pc : Nat) (stk : List SVal) (σ : St) (r : Out) (σ' : St)
    (hun : isUnitNode n = false)
    (hins : code[pc]? = some (some i)) (hlen : size rng n = w)
    (hex : execIns i ⟨pc, stk, σ⟩ = .ok ⟨pc + w, v :: stk, σ⟩)
    (he : (Out.val v, σ) = (r, σ')) : Post code kb kc rng n pc stk σ r σ' := by
  cases he
  refine ⟨hun, ?_⟩
  show Steps code _ ⟨_, v :: stk, _⟩
  rw [hlen]
  exact .one (by rw [step_of hins]; exact hex)

theorem pre_steps (h : N) (pc : Nat) (stk : List SVal) (σ : St) (hat : CodeAt code pc (pre h)) :
    Steps code ⟨pc, stk, σ⟩ ⟨pc + preLen h, stk, σ⟩ := by
  cases hp : postName h with
  | none => simp only [preLen, hp]; exact .refl _
  | some x =>
    simp only [pre, hp] at hat
    simp only [preLen, hp]
    have h1 := CodeAt.two hat.append_left
    have h2 := CodeAt.one hat.append_right
    simp only [two_length] at h2
    have s1 : step code ⟨pc, stk, σ⟩ = .ok ⟨pc + 2, σ.get x :: stk, σ⟩ := by rw [step_of h1]; rfl
    have s2 : step code ⟨pc + 2, σ.get x :: stk, σ⟩ = .ok ⟨pc + 2 + 1, stk, σ⟩ := by rw [step_of h2]; rfl
    exact (Steps.one s1).snoc s2

theorem unit_not_leaves {n : N} (h : isUnitNode n = true) : leaves n = false := by
  cases n <;> simp_all [isUnitNode, leaves]

theorem sim_cons (ih : IH code rec) (h t : N)
    (hwf : wf (.cons h t) = true) (pc : Nat) (stk : List SVal) (σ : St) (res : Out) (σ' : St)
    (hat : CodeAt code pc (comp kb kc rng (.cons h t))) (he : evNode fuel rec (.cons h t) σ = (res, σ')) :
    Post code kb kc rng (.cons h t) pc stk σ res σ' := by
  simp only [wf, Bool.and_eq_true] at hwf
  obtain ⟨⟨⟨hsh, hlt⟩, hwh⟩, hwt⟩ := hwf
  simp only [isS, Bool.or_eq_true] at hsh
  simp only [comp] at hat
  simp only [evNode] at he
  have hpre := pre_steps h pc stk σ hat.append_left
  have hrest := hat.append_right
  simp only [pre_length] at hrest
  have hesc : escapes (.cons h t) = (escapes h || escapes t) := by simp [escapes]
  -- the head statement
  rcases hh : rec h σ with ⟨r1, σ1⟩
  rw [hh] at he
  -- a value forces an expression statement, unit / break / continue a non-expression
  have hleaves : ∀ {kb' kc' pc'}, Post code kb' kc' rng h pc' stk σ r1 σ1 →
      (∀ v, r1 = .val v → leaves h = true) ∧ (r1 = .unit → leaves h = false) := by
    intro kb' kc' pc' P
    refine ⟨?_, ?_⟩
    · intro v hv; subst hv
      rcases hsh with hu | hl
      · have := P.1; simp only [Shape] at this; rw [hu] at this; cases this
      · exact hl
    · intro hv; subst hv
      exact unit_not_leaves P.1
  by_cases hnil : isNilL t = true
  · -- last statement
    simp only [hnil, ↓reduceIte] at he hrest
    cases hl : leaves h with
    | true =>
      simp only [hl, ↓reduceIte, List.append_nil, Nat.add_zero] at hrest
      have hsz : size rng (.cons h t) = preLen h + size rng h := by simp [size, hnil, hl]
      have Ph := ih h hwh _ _ _ _ stk σ _ _ hrest hh
      cases r1 with
      | val v =>
        simp only at he; cases he
        refine ⟨rfl, ?_⟩
        show Steps code _ ⟨_, v :: stk, _⟩
        rw [hsz]
        exact (hpre.trans Ph.val_steps).cast (by omega)
      | unit => have := (hleaves Ph).2 rfl; rw [hl] at this; cases this
      | brk =>
        simp only at he; cases he
        have hxh : escapes h = true := Ph.1
        refine ⟨by simp [Shape, hesc, hxh], ?_⟩
        intro out ho
        rw [hsz]
        exact (hpre.trans (Ph.2 out ho)).cast (by omega)
      | cont =>
        simp only at he; cases he
        have hxh : escapes h = true := Ph.1
        refine ⟨by simp [Shape, hesc, hxh], ?_⟩
        show Steps code _ ⟨_, stk, _⟩
        rw [hsz]
        exact (hpre.trans Ph.2).cast (by omega)
      | err c => simp only at he; cases he; exact ⟨trivial, Fails.pre hpre Ph.2⟩
      | oof => simp only at he; cases he; exact ⟨trivial, trivial⟩
    | false =>
      simp only [hl, Bool.false_eq_true, ↓reduceIte] at hrest
      have hsz : size rng (.cons h t) = preLen h + size rng h + 1 := by simp [size, hnil, hl]
      have Ph := ih h hwh _ _ _ _ stk σ _ _ hrest.append_left hh
      have hins := CodeAt.one hrest.append_right
      simp only [comp_length] at hins
      cases r1 with
      | val v => have := (hleaves Ph).1 v rfl; rw [hl] at this; cases this
      | unit =>
        simp only at he; cases he
        have s1 : step code ⟨pc + preLen h + size rng h, stk, σ'⟩ = .ok ⟨pc + preLen h + size rng h + 1, .nil :: stk, σ'⟩ := by
          rw [step_of hins]; rfl
        refine ⟨rfl, ?_⟩
        show Steps code _ ⟨_, .nil :: stk, _⟩
        rw [hsz]
        exact ((hpre.trans Ph.unit_steps).snoc s1).cast (by omega)
      | brk =>
        simp only at he; cases he
        have hxh : escapes h = true := Ph.1
        refine ⟨by simp [Shape, hesc, hxh], ?_⟩
        intro out ho
        rw [hsz]
        exact (hpre.trans (Ph.2 out ho)).cast (by omega)
      | cont =>
        simp only at he; cases he
        have hxh : escapes h = true := Ph.1
        refine ⟨by simp [Shape, hesc, hxh], ?_⟩
        show Steps code _ ⟨_, stk, _⟩
        rw [hsz]
        exact (hpre.trans Ph.2).cast (by omega)
      | err c => simp only at he; cases he; exact ⟨trivial, Fails.pre hpre Ph.2⟩
      | oof => simp only at he; cases he; exact ⟨trivial, trivial⟩
  · have hnil' : isNilL t = false := by simpa using hnil
    simp only [hnil', Bool.false_eq_true, ↓reduceIte] at he hrest
    have hut := isL_not_unit hlt
    -- the rest of the list runs from the state after the head
    have rest : ∀ pcT, Steps code ⟨pc, stk, σ⟩ ⟨pcT, stk, σ1⟩ → CodeAt code pcT (comp kb kc rng t) →
        pcT + size rng t = pc + size rng (.cons h t) → rec t σ1 = (res, σ') →
        Post code kb kc rng (.cons h t) pc stk σ res σ' := by
      intro pcT hs hatT hend heT
      have Pt := ih t hwt kb kc _ pcT stk σ1 _ _ hatT heT
      refine ⟨?_, ?_⟩
      · have := Pt.1
        cases res <;> simp_all [Shape, isUnitNode]
      · exact (Lands.pre hs Pt.2).cast hend
    cases hl : leaves h with
    | true =>
      simp only [hl, ↓reduceIte] at hrest
      have hsz : size rng (.cons h t) = preLen h + size rng h + 1 + size rng t := by simp [size, hnil', hl]; omega
      have Ph := ih h hwh _ _ _ _ stk σ _ _ hrest.append_left hh
      have hpop := CodeAt.one hrest.append_right.append_left
      have hatT := hrest.append_right.append_right
      simp only [comp_length, one_length] at hpop hatT
      cases r1 with
      | val v =>
        simp only at he
        have s1 : step code ⟨pc + preLen h + size rng h, v :: stk, σ1⟩ = .ok ⟨pc + preLen h + size rng h + 1, stk, σ1⟩ := by
          rw [step_of hpop]; rfl
        exact rest _ ((hpre.trans Ph.val_steps).snoc s1) hatT (by rw [hsz]; omega) he
      | unit => have := (hleaves Ph).2 rfl; rw [hl] at this; cases this
      | brk =>
        simp only at he; cases he
        have hxh : escapes h = true := Ph.1
        refine ⟨by simp [Shape, hesc, hxh], ?_⟩
        intro out ho
        rw [hsz]
        exact (hpre.trans (Ph.2 out ho)).cast (by omega)
      | cont =>
        simp only at he; cases he
        have hxh : escapes h = true := Ph.1
        refine ⟨by simp [Shape, hesc, hxh], ?_⟩
        show Steps code _ ⟨_, stk, _⟩
        rw [hsz]
        exact (hpre.trans Ph.2).cast (by omega)
      | err c => simp only at he; cases he; exact ⟨trivial, Fails.pre hpre Ph.2⟩
      | oof => simp only at he; cases he; exact ⟨trivial, trivial⟩
    | false =>
      simp only [hl, Bool.false_eq_true, ↓reduceIte, List.nil_append, Nat.zero_add] at hrest
      have hsz : size rng (.cons h t) = preLen h + size rng h + size rng t := by simp [size, hnil', hl]
      have Ph := ih h hwh _ _ _ _ stk σ _ _ hrest.append_left hh
      have hatT := hrest.append_right
      simp only [comp_length] at hatT
      cases r1 with
      | val v => have := (hleaves Ph).1 v rfl; rw [hl] at this; cases this
      | unit =>
        simp only at he
        exact rest _ (hpre.trans Ph.unit_steps) hatT (by rw [hsz]; omega) he
      | brk =>
        simp only at he; cases he
        have hxh : escapes h = true := Ph.1
        refine ⟨by simp [Shape, hesc, hxh], ?_⟩
        intro out ho
        rw [hsz]
        exact (hpre.trans (Ph.2 out ho)).cast (by omega)
      | cont =>
        simp only at he; cases he
        have hxh : escapes h = true := Ph.1
        refine ⟨by simp [Shape, hesc, hxh], ?_⟩
        show Steps code _ ⟨_, stk, _⟩
        rw [hsz]
        exact (hpre.trans Ph.2).cast (by omega)
      | err c => simp only at he; cases he; exact ⟨trivial, Fails.pre hpre Ph.2⟩
      | oof => simp only at he; cases he; exact ⟨trivial, trivial⟩

theorem sim_ctl (isBrk : Bool) (pc : Nat) (stk : List SVal) (σ : St) (res : Out) (σ' : St)
    (hat : CodeAt code pc (comp kb kc rng (if isBrk then .break_ else .continue_)))
    (he : ((if isBrk then Out.brk else Out.cont), σ) = (res, σ')) :
    Post code kb kc rng (if isBrk then .break_ else .continue_) pc stk σ res σ' := by
  cases isBrk with
  | true =>
    simp only [↓reduceIte] at hat he ⊢
    cases he
    refine ⟨rfl, ?_⟩
    intro out ho
    cases rng with
    | false =>
      simp only [comp, Bool.false_eq_true, ↓reduceIte, List.nil_append] at hat
      have hins := CodeAt.two hat
      have ho' : out = stk := ho
      subst ho'
      have s1 : step code ⟨pc, out, σ⟩ = .ok ⟨pc + (kb + 2), out, σ⟩ := by rw [step_of hins]; rfl
      exact (Steps.one s1).cast (by simp [size]; omega)
    | true =>
      simp only [comp, ↓reduceIte] at hat
      obtain ⟨top, rfl⟩ := ho
      have hpop := CodeAt.one hat.append_left
      have hins := CodeAt.two hat.append_right
      simp only [one_length] at hins
      have s0 : step code ⟨pc, top :: out, σ⟩ = .ok ⟨pc + 1, out, σ⟩ := by rw [step_of hpop]; rfl
      have s1 : step code ⟨pc + 1, out, σ⟩ = .ok ⟨pc + 1 + (kb + 2), out, σ⟩ := by rw [step_of hins]; rfl
      exact ((Steps.one s0).snoc s1).cast (by simp [size]; omega)
  | false =>
    simp only [Bool.false_eq_true, ↓reduceIte] at hat he ⊢
    cases he
    have hins := CodeAt.two hat
    refine ⟨rfl, ?_⟩
    show Steps code _ ⟨pc + size rng .continue_ + kc, stk, σ⟩
    have s1 : step code ⟨pc, stk, σ⟩ = .ok ⟨pc + (kc + 2), stk, σ⟩ := by rw [step_of hins]; rfl
    exact (Steps.one s1).cast (by simp [size]; omega)

theorem sim_var (ih : IH code rec) (x : String) (e : N)
    (hwf : wf (.var x e) = true) (pc : Nat) (stk : List SVal) (σ : St) (res : Out) (σ' : St)
    (hat : CodeAt code pc (comp kb kc rng (.var x e))) (he : evNode fuel rec (.var x e) σ = (res, σ')) :
    Post code kb kc rng (.var x e) pc stk σ res σ' := by
  simp only [wf, Bool.and_eq_true, Bool.not_eq_true'] at hwf
  obtain ⟨⟨hee, hxe⟩, hwe⟩ := hwf
  simp only [comp] at hat
  simp only [evNode] at he
  have hlen : size rng (.var x e) = size rng e + 2 := by simp [size]
  have hins := CodeAt.two hat.append_right
  simp only [comp_length] at hins
  rcases seqV_elim he with ⟨v, σ1, h1, he⟩ | ⟨hnv, hx⟩
  · have P1 := (ih e hwe 0 0 _ pc stk σ _ _ hat.append_left h1).val_steps
    cases he
    refine ⟨rfl, ?_⟩
    show Steps code _ ⟨_, stk, _⟩
    rw [hlen]
    have s1 : step code ⟨pc + size rng e, v :: stk, σ1⟩ = .ok ⟨pc + size rng e + 2, stk, σ1.set x v⟩ := by
      rw [step_of hins]; rfl
    exact (P1.snoc s1).cast (by omega)
  · exact Post.propagate (.refl _) (ih e hwe 0 0 _ pc stk σ _ _ hat.append_left hx) hnv (isE_not_unit hee) hxe

theorem sim_assign (ih : IH code rec) (x : String) (op : AssignOp) (e : N)
    (hwf : wf (.assign x op e) = true) (pc : Nat) (stk : List SVal) (σ : St) (res : Out) (σ' : St)
    (hat : CodeAt code pc (comp kb kc rng (.assign x op e))) (he : evNode fuel rec (.assign x op e) σ = (res, σ')) :
    Post code kb kc rng (.assign x op e) pc stk σ res σ' := by
  simp only [wf, Bool.and_eq_true, Bool.not_eq_true'] at hwf
  obtain ⟨⟨hee, hxe⟩, hwe⟩ := hwf
  simp only [evNode] at he
  by_cases hop : op = .set
  · subst hop
    simp only [comp, ↓reduceIte] at hat
    have hlen : size rng (.assign x .set e) = size rng e + 2 := by simp [size]
    have hins := CodeAt.two hat.append_right
    simp only [comp_length] at hins
    rcases seqV_elim he with ⟨v, σ1, h1, he⟩ | ⟨hnv, hx⟩
    · have P1 := (ih e hwe 0 0 _ pc stk σ _ _ hat.append_left h1).val_steps
      simp only [applyF] at he; cases he
      refine ⟨rfl, ?_⟩
      show Steps code _ ⟨_, stk, _⟩
      rw [hlen]
      have s1 : step code ⟨pc + size rng e, v :: stk, σ1⟩ = .ok ⟨pc + size rng e + 2, stk, σ1.set x v⟩ := by
        rw [step_of hins]; rfl
      exact (P1.snoc s1).cast (by omega)
    · exact Post.propagate (.refl _) (ih e hwe 0 0 _ pc stk σ _ _ hat.append_left hx) hnv (isE_not_unit hee) hxe
  · simp only [comp, if_neg hop] at hat
    have hlen : size rng (.assign x op e) = size rng e + 6 := by simp [size, hop]
    have hload := CodeAt.two hat.append_left.append_left.append_left
    have hate := hat.append_left.append_left.append_right
    have hbin := CodeAt.two hat.append_left.append_right
    have hsto := CodeAt.two hat.append_right
    simp only [List.length_append, two_length, comp_length] at hate hbin hsto
    have s0 : step code ⟨pc, stk, σ⟩ = .ok ⟨pc + 2, σ.get x :: stk, σ⟩ := by rw [step_of hload]; rfl
    rcases seqV_elim he with ⟨v, σ1, h1, he⟩ | ⟨hnv, hx⟩
    · have P1 := (ih e hwe 0 0 _ _ (σ.get x :: stk) σ _ _ hate h1).val_steps
      have hbin := at_eq hbin (q := pc + 2 + size rng e) (by omega)
      have hsto := at_eq hsto (q := pc + 2 + size rng e + 2) (by omega)
      cases ha : applyF σ1 op (σ.get x) v with
      | ok w =>
        simp only [ha] at he; cases he
        have s1 : step code ⟨pc + 2 + size rng e, v :: σ.get x :: stk, σ1⟩
            = .ok ⟨pc + 2 + size rng e + 2, w :: stk, σ1⟩ := by
          rw [step_of hbin]; simp [execIns, vBinaryF_assign σ1 op hop, ha]
        have s2 : step code ⟨pc + 2 + size rng e + 2, w :: stk, σ1⟩
            = .ok ⟨pc + 2 + size rng e + 2 + 2, stk, σ1.set x w⟩ := by
          rw [step_of hsto]; rfl
        refine ⟨rfl, ?_⟩
        show Steps code _ ⟨_, stk, _⟩
        rw [hlen]
        exact ((((Steps.one s0).trans P1).snoc s1).snoc s2).cast (by omega)
      | error c =>
        simp only [ha] at he; cases he
        exact Post.fail ((Steps.one s0).trans P1) (by rw [step_of hbin]; simp [execIns, vBinaryF_assign _ op hop, ha])
    · exact Post.propagate (.one s0) (ih e hwe 0 0 _ _ (σ.get x :: stk) σ _ _ hate hx) hnv (isE_not_unit hee) hxe

theorem sim_postfix (x : String) (inc : Bool)
    (pc : Nat) (stk : List SVal) (σ : St) (res : Out) (σ' : St)
    (hat : CodeAt code pc (comp kb kc rng (.postfix x inc))) (he : evNode fuel rec (.postfix x inc) σ = (res, σ')) :
    Post code kb kc rng (.postfix x inc) pc stk σ res σ' := by
  simp only [comp] at hat
  simp only [evNode] at he
  have hload := CodeAt.two hat.append_left.append_left.append_left
  have hcon := CodeAt.two hat.append_left.append_left.append_right
  have hbin := CodeAt.two hat.append_left.append_right
  have hsto := CodeAt.two hat.append_right
  simp only [List.length_append, two_length] at hcon hbin hsto
  have s0 : step code ⟨pc, stk, σ⟩ = .ok ⟨pc + 2, σ.get x :: stk, σ⟩ := by rw [step_of hload]; rfl
  have s1 : step code ⟨pc + 2, σ.get x :: stk, σ⟩ = .ok ⟨pc + 2 + 2, .int (if inc then 1 else -1) :: σ.get x :: stk, σ⟩ := by
    rw [step_of hcon]; rfl
  have pre := (Steps.one s0).snoc s1
  cases ha : binopF σ .add (σ.get x) (.int (if inc then 1 else -1)) with
  | ok w =>
    simp only [ha] at he; cases he
    have s2 : step code ⟨pc + 2 + 2, .int (if inc then 1 else -1) :: σ.get x :: stk, σ⟩ = .ok ⟨pc + 2 + 2 + 2, w :: stk, σ⟩ := by
      rw [step_of hbin]; simp [execIns, vBinaryF_add, ha]
    have s3 : step code ⟨pc + 2 + 2 + 2, w :: stk, σ⟩ = .ok ⟨pc + 2 + 2 + 2 + 2, stk, σ.set x w⟩ := by
      rw [step_of hsto]; rfl
    refine ⟨rfl, ?_⟩
    show Steps code _ ⟨_, stk, _⟩
    exact ((pre.snoc s2).snoc s3).cast (by simp [size])
  | error c =>
    simp only [ha] at he; cases he
    exact Post.fail pre (by rw [step_of hbin]; simp [execIns, vBinaryF_add, ha])

/-! ### loops -/

/-- the post-statement phase, and the result of a whole loop: value and unit both land at
    `tgt` with the loop's stack; no break/continue gets out -/
def PhaseTo (code : Code) (c0 : Cfg) (tgt : Nat) (stk : List SVal) (r : Out) (σ' : St) : Prop :=
  match r with
  | .val _ => Steps code c0 ⟨tgt, stk, σ'⟩
  | .unit => Steps code c0 ⟨tgt, stk, σ'⟩
  | .brk => False
  | .cont => False
  | .err c => Fails code c0 c σ'
  | .oof => True

/-- the body phase: the block's value is popped and control is at the post statement; a
    `continue` lands there too, a `break` at the loop's exit -/
def BodyTo (code : Code) (c0 : Cfg) (pcP pcX : Nat) (stk : List SVal) (r : Out) (σ' : St) : Prop :=
  match r with
  | .val _ => Steps code c0 ⟨pcP, stk, σ'⟩
  | .cont => Steps code c0 ⟨pcP, stk, σ'⟩
  | .brk => Steps code c0 ⟨pcX, stk, σ'⟩
  | .unit => False
  | .err c => Fails code c0 c σ'
  | .oof => True

/-- the condition phase: a truthy value lands at the body, a falsy one at the exit -/
def CondTo (code : Code) (c0 : Cfg) (pcB pcX : Nat) (stk : List SVal) (r : Out) (σ' : St) : Prop :=
  match r with
  | .val v => Steps code c0 ⟨if v.truthy σ' = true then pcB else pcX, stk, σ'⟩
  | .unit => False
  | .brk => False
  | .cont => False
  | .err c => Fails code c0 c σ'
  | .oof => True

/-- the generic loop: condition at `pc0` (exit to `pcX`), body at `pcB`, post statement at
    `pcP` ending with the backward jump to `pc0`; by induction on the iteration bound -/
theorem loop_sim {cond body post : St → Out × St} {pc0 pcB pcP pcX : Nat} {stk : List SVal}
    (HC : ∀ σ r σ1, cond σ = (r, σ1) → CondTo code ⟨pc0, stk, σ⟩ pcB pcX stk r σ1)
    (HB : ∀ σ r σ1, body σ = (r, σ1) → BodyTo code ⟨pcB, stk, σ⟩ pcP pcX stk r σ1)
    (HP : ∀ σ r σ1, post σ = (r, σ1) → PhaseTo code ⟨pcP, stk, σ⟩ pc0 stk r σ1) :
    ∀ k σ r σ', loopF cond body post k σ = (r, σ') →
      (∀ v, r ≠ .val v) ∧ PhaseTo code ⟨pc0, stk, σ⟩ pcX stk r σ' := by
  intro k
  induction k with
  | zero =>
    intro σ r σ' h
    simp only [loopF] at h; cases h
    exact ⟨(by intro v hv; cases hv), trivial⟩
  | succ k ihk =>
    intro σ r σ' h
    simp only [loopF] at h
    -- the post statement and the next round, from the state after the body
    have after : ∀ σ2, Steps code ⟨pc0, stk, σ⟩ ⟨pcP, stk, σ2⟩ →
        (match post σ2 with
          | (.unit, σ3) => loopF cond body post k σ3
          | (.val _, σ3) => loopF cond body post k σ3
          | other => other) = (r, σ') →
        (∀ v, r ≠ .val v) ∧ PhaseTo code ⟨pc0, stk, σ⟩ pcX stk r σ' := by
      intro σ2 pre0 h
      rcases hp : post σ2 with ⟨rp, σ3⟩
      have P := HP σ2 _ _ hp
      rw [hp] at h
      have next : Steps code ⟨pcP, stk, σ2⟩ ⟨pc0, stk, σ3⟩ → loopF cond body post k σ3 = (r, σ') →
          (∀ v, r ≠ .val v) ∧ PhaseTo code ⟨pc0, stk, σ⟩ pcX stk r σ' := by
        intro P h
        have R := ihk σ3 r σ' h
        have pre : Steps code ⟨pc0, stk, σ⟩ ⟨pc0, stk, σ3⟩ := pre0.trans P
        refine ⟨R.1, ?_⟩
        cases r with
        | val u => exact absurd rfl (R.1 u)
        | unit => exact pre.trans R.2
        | brk => exact R.2
        | cont => exact R.2
        | err c => exact Fails.pre pre R.2
        | oof => trivial
      cases rp with
      | val u => exact next P h
      | unit => exact next P h
      | brk => exact P.elim
      | cont => exact P.elim
      | err c =>
        simp only at h; cases h
        exact ⟨(by intro v hv; cases hv), Fails.pre pre0 P⟩
      | oof =>
        simp only at h; cases h
        exact ⟨(by intro v hv; cases hv), trivial⟩
    rcases seqV_elim h with ⟨v, σ1, hc, h⟩ | ⟨hnv, hx⟩
    · have C := HC σ _ _ hc
      simp only [CondTo] at C
      by_cases ht : v.truthy σ1 = true
      · simp only [ht, ↓reduceIte] at h C
        rcases hb : body σ1 with ⟨rb, σ2⟩
        have B := HB σ1 _ _ hb
        rw [hb] at h
        cases rb with
        | val w => exact after σ2 (C.trans B) h
        | cont => exact after σ2 (C.trans B) h
        | brk =>
          simp only at h; cases h
          exact ⟨(by intro v hv; cases hv), C.trans B⟩
        | unit => exact B.elim
        | err c =>
          simp only at h; cases h
          exact ⟨(by intro v hv; cases hv), Fails.pre C B⟩
        | oof =>
          simp only at h; cases h
          exact ⟨(by intro v hv; cases hv), trivial⟩
      · have ht' : v.truthy σ1 = false := by simpa using ht
        simp only [ht', Bool.false_eq_true, ↓reduceIte] at h C
        cases h
        exact ⟨(by intro v hv; cases hv), C⟩
    · have C := HC σ _ _ hx
      refine ⟨hnv, ?_⟩
      cases r with
      | val u => exact absurd rfl (hnv u)
      | unit => exact C.elim
      | brk => exact C.elim
      | cont => exact C.elim
      | err c => exact C
      | oof => trivial

/-- from the loop's phases to the statement's `Post` -/
theorem Post.of_loop {n : N} {pc : Nat} {stk : List SVal} {σ σ' : St} {r : Out}
    (hun : isUnitNode n = true)
    (h : (∀ v, r ≠ .val v) ∧ PhaseTo code ⟨pc, stk, σ⟩ (pc + size rng n) stk r σ') :
    Post code kb kc rng n pc stk σ r σ' := by
  cases r with
  | val v => exact absurd rfl (h.1 v)
  | unit => exact ⟨hun, h.2⟩
  | brk => exact h.2.elim
  | cont => exact h.2.elim
  | err c => exact ⟨trivial, h.2⟩
  | oof => exact ⟨trivial, trivial⟩

/-- the body phase of every loop: the block's value is popped; `continue` lands right after
    that `PopTop`, `break` `kbB` slots after the block, from where `hbrk` leads to the exit -/
theorem body_phase (ih : IH code rec) (b : N) (hwb : wf b = true) (hbb : isBlock b = true)
    (kbB pcB pcX : Nat) (stk : List SVal) (hatb : CodeAt code pcB (comp kbB 1 false b))
    (hpop : code[pcB + size false b]? = some (some .popTop))
    (hbrk : ∀ σ, Steps code ⟨pcB + size false b + kbB, stk, σ⟩ ⟨pcX, stk, σ⟩) :
    ∀ σ r σ1, rec b σ = (r, σ1) → BodyTo code ⟨pcB, stk, σ⟩ (pcB + size false b + 1) pcX stk r σ1 := by
  intro σ r σ1 h
  have P := ih b hwb kbB 1 _ pcB stk σ _ _ hatb h
  cases r with
  | val v =>
    have s1 : step code ⟨pcB + size false b, v :: stk, σ1⟩ = .ok ⟨pcB + size false b + 1, stk, σ1⟩ := by
      rw [step_of hpop]; rfl
    exact P.val_steps.snoc s1
  | unit => have := P.1; simp only [Shape] at this; rw [isBlock_not_unit hbb] at this; cases this
  | brk => exact Steps.trans (P.2 stk rfl) (hbrk σ1)
  | cont => exact P.2
  | err c => exact P.2
  | oof => trivial

/-- the condition phase of `for c { }` and `for i; c; p { }` -/
theorem cond_phase (ih : IH code rec) (c : N) (hwc : wf c = true) (hec : isE c = true) (hxc : escapes c = false)
    (pc0 d : Nat) (stk : List SVal) (hatc : CodeAt code pc0 (comp 0 0 false c))
    (hpjf : code[pc0 + size false c]? = some (some (.pjf d))) :
    ∀ σ r σ1, rec c σ = (r, σ1) →
      CondTo code ⟨pc0, stk, σ⟩ (pc0 + size false c + 2) (pc0 + size false c + d) stk r σ1 := by
  intro σ r σ1 h
  have P := ih c hwc 0 0 _ pc0 stk σ _ _ hatc h
  cases r with
  | val v =>
    show Steps code _ _
    have s1 : step code ⟨pc0 + size false c, v :: stk, σ1⟩
        = .ok ⟨if v.truthy σ1 = true then pc0 + size false c + 2 else pc0 + size false c + d, stk, σ1⟩ := by
      rw [step_of hpjf]; rfl
    exact P.val_steps.snoc s1
  | unit => have := P.1; simp only [Shape] at this; rw [isE_not_unit hec] at this; cases this
  | brk => have := P.1; simp only [Shape] at this; rw [hxc] at this; cases this
  | cont => have := P.1; simp only [Shape] at this; rw [hxc] at this; cases this
  | err e => exact P.2
  | oof => trivial

theorem sim_forcond (ih : IH code rec) (c b : N)
    (hwf : wf (.forcond c b) = true) (pc : Nat) (stk : List SVal) (σ : St) (res : Out) (σ' : St)
    (hat : CodeAt code pc (comp kb kc rng (.forcond c b))) (he : evNode fuel rec (.forcond c b) σ = (res, σ')) :
    Post code kb kc rng (.forcond c b) pc stk σ res σ' := by
  simp only [wf, Bool.and_eq_true, Bool.not_eq_true'] at hwf
  obtain ⟨⟨⟨⟨hec, hbb⟩, hxc⟩, hwc⟩, hwb⟩ := hwf
  simp only [comp] at hat
  simp only [evNode] at he
  have hlen : size rng (.forcond c b) = size false c + size false b + 6 := by simp [size]
  have hatc := hat.append_left.append_left.append_left.append_left.append_left
  have hpjf := CodeAt.two hat.append_left.append_left.append_left.append_left.append_right
  have hatb := hat.append_left.append_left.append_left.append_right
  have hpop := CodeAt.one hat.append_left.append_left.append_right
  have hjb := CodeAt.two hat.append_left.append_right
  have hnop := CodeAt.one hat.append_right
  simp only [List.length_append, two_length, one_length, comp_length] at hpjf hatb hpop hjb hnop
  have hatb := hatb.cast (q := pc + size false c + 2) (by omega)
  have hpop := at_eq hpop (q := pc + size false c + 2 + size false b) (by omega)
  have hjb := at_eq hjb (q := pc + size false c + 2 + size false b + 1) (by omega)
  have hnop := at_eq hnop (q := pc + size false c + 2 + size false b + 3) (by omega)
  have HC := cond_phase ih c hwc hec hxc pc (size false b + 6) stk hatc hpjf
  have HB := body_phase ih b hwb hbb 3 (pc + size false c + 2) (pc + size false c + (size false b + 6)) stk hatb hpop
    (by
      intro σ
      have s1 : step code ⟨pc + size false c + 2 + size false b + 3, stk, σ⟩ = .ok ⟨pc + size false c + 2 + size false b + 3 + 1, stk, σ⟩ := by
        rw [step_of hnop]; rfl
      exact (Steps.one s1).cast (by omega))
  have HP : ∀ σ r σ1, (fun σ => ((Out.unit, σ) : Out × St)) σ = (r, σ1) →
      PhaseTo code ⟨pc + size false c + 2 + size false b + 1, stk, σ⟩ pc stk r σ1 := by
    intro σ r σ1 h
    cases h
    show Steps code _ _
    have s1 : step code ⟨pc + size false c + 2 + size false b + 1, stk, σ⟩
        = .ok ⟨pc + size false c + 2 + size false b + 1 - (size false c + size false b + 3), stk, σ⟩ := by
      rw [step_of hjb]; rfl
    exact (Steps.one s1).cast (by omega)
  have R := loop_sim HC HB HP fuel σ res σ' he
  apply Post.of_loop rfl
  rw [hlen]
  refine ⟨R.1, ?_⟩
  have e : pc + size false c + (size false b + 6) = pc + (size false c + size false b + 6) := by omega
  rw [← e]; exact R.2

theorem sim_forever (ih : IH code rec) (b : N)
    (hwf : wf (.forever b) = true) (pc : Nat) (stk : List SVal) (σ : St) (res : Out) (σ' : St)
    (hat : CodeAt code pc (comp kb kc rng (.forever b))) (he : evNode fuel rec (.forever b) σ = (res, σ')) :
    Post code kb kc rng (.forever b) pc stk σ res σ' := by
  simp only [wf, Bool.and_eq_true] at hwf
  obtain ⟨hbb, hwb⟩ := hwf
  simp only [comp] at hat
  simp only [evNode] at he
  have hlen : size rng (.forever b) = size false b + 4 := by simp [size]
  have hatb := hat.append_left.append_left.append_left
  have hpop := CodeAt.one hat.append_left.append_left.append_right
  have hjb := CodeAt.two hat.append_left.append_right
  have hnop := CodeAt.one hat.append_right
  simp only [List.length_append, one_length, two_length, comp_length] at hpop hjb hnop
  have HC : ∀ σ r σ1, (fun σ => ((Out.val (.bool true), σ) : Out × St)) σ = (r, σ1) →
      CondTo code ⟨pc, stk, σ⟩ pc (pc + size rng (.forever b)) stk r σ1 := by
    intro σ r σ1 h
    cases h
    exact .refl _
  have HB := body_phase ih b hwb hbb 3 pc (pc + size rng (.forever b)) stk hatb hpop
    (by
      intro σ
      have s1 : step code ⟨pc + size false b + 3, stk, σ⟩ = .ok ⟨pc + size false b + 3 + 1, stk, σ⟩ := by
        rw [step_of (at_eq hnop (by omega))]; rfl
      exact (Steps.one s1).cast (by rw [hlen]; omega))
  have HP : ∀ σ r σ1, (fun σ => ((Out.unit, σ) : Out × St)) σ = (r, σ1) →
      PhaseTo code ⟨pc + size false b + 1, stk, σ⟩ pc stk r σ1 := by
    intro σ r σ1 h
    cases h
    show Steps code _ _
    have s1 : step code ⟨pc + size false b + 1, stk, σ⟩
        = .ok ⟨pc + size false b + 1 - (size false b + 1), stk, σ⟩ := by
      rw [step_of (at_eq hjb (by omega))]; rfl
    exact (Steps.one s1).cast (by omega)
  exact Post.of_loop rfl (loop_sim HC HB HP fuel σ res σ' he)

theorem isPost_cases {n : N} (h : isPost n = true) : isUnitNode n = true ∨ leaves n = true := by
  cases n <;> simp_all [isPost, isUnitNode, leaves]

theorem sim_for3 (ih : IH code rec) (i c p b : N)
    (hwf : wf (.for3 i c p b) = true) (pc : Nat) (stk : List SVal) (σ : St) (res : Out) (σ' : St)
    (hat : CodeAt code pc (comp kb kc rng (.for3 i c p b))) (he : evNode fuel rec (.for3 i c p b) σ = (res, σ')) :
    Post code kb kc rng (.for3 i c p b) pc stk σ res σ' := by
  simp only [wf, Bool.and_eq_true, Bool.not_eq_true'] at hwf
  obtain ⟨⟨⟨⟨⟨⟨⟨⟨⟨⟨hii, hec⟩, hpp⟩, hbb⟩, hxi⟩, hxc⟩, hxp⟩, hwi⟩, hwc⟩, hwp⟩, hwb⟩ := hwf
  simp only [comp] at hat
  simp only [evNode] at he
  have hlen : size rng (.for3 i c p b) = size false i + size false c + size false b
      + (size false p + (if leaves p = true then 1 else 0)) + 5 := by
    simp [size]
  have hati := hat.append_left.append_left.append_left.append_left.append_left.append_left.append_left
  have hatc := hat.append_left.append_left.append_left.append_left.append_left.append_left.append_right
  have hpjf := CodeAt.two hat.append_left.append_left.append_left.append_left.append_left.append_right
  have hatb := hat.append_left.append_left.append_left.append_left.append_right
  have hpop := CodeAt.one hat.append_left.append_left.append_left.append_right
  have hatp := hat.append_left.append_left.append_right
  have hpp2 := hat.append_left.append_right
  have hjb := CodeAt.two hat.append_right
  simp only [List.length_append, two_length, one_length, comp_length] at hatc hpjf hatb hpop hatp hpp2 hjb
  -- positions
  have hpjf := at_eq hpjf (q := pc + size false i + size false c) (by omega)
  have hatb := hatb.cast (q := pc + size false i + size false c + 2) (by omega)
  have hpop := at_eq hpop (q := pc + size false i + size false c + 2 + size false b) (by omega)
  have hatp := hatp.cast (q := pc + size false i + size false c + 2 + size false b + 1) (by omega)
  have hpp2 := hpp2.cast (q := pc + size false i + size false c + 2 + size false b + 1 + size false p) (by omega)
  -- the init statement
  rcases hi : rec i σ with ⟨r1, σ1⟩
  have Pi := ih i hwi 0 0 _ pc stk σ _ _ hati hi
  rw [hi] at he
  cases r1 with
  | val v => have := Pi.1; simp only [Shape] at this; rw [isInit_unit hii] at this; cases this
  | brk => have := Pi.1; simp only [Shape] at this; rw [hxi] at this; cases this
  | cont => have := Pi.1; simp only [Shape] at this; rw [hxi] at this; cases this
  | err e => simp only at he; cases he; exact ⟨trivial, Pi.2⟩
  | oof => simp only at he; cases he; exact ⟨trivial, trivial⟩
  | unit =>
    simp only at he
    have HC := cond_phase ih c hwc hec hxc (pc + size false i)
      (size false b + (size false p + (if leaves p = true then 1 else 0)) + 5) stk hatc hpjf
    have HB := body_phase ih b hwb hbb ((size false p + (if leaves p = true then 1 else 0)) + 3)
      (pc + size false i + size false c + 2)
      (pc + size false i + size false c + (size false b + (size false p + (if leaves p = true then 1 else 0)) + 5)) stk hatb hpop
      (by intro σ; exact (Steps.refl _).cast (by omega))
    have HP : ∀ σ r σ1, rec p σ = (r, σ1) →
        PhaseTo code ⟨pc + size false i + size false c + 2 + size false b + 1, stk, σ⟩ (pc + size false i) stk r σ1 := by
      intro σ r σ1 h
      have P := ih p hwp 0 0 _ _ stk σ _ _ hatp h
      cases r with
      | val v =>
        have hl : leaves p = true := by
          rcases isPost_cases hpp with hu | hl
          · have := P.1; simp only [Shape] at this; rw [hu] at this; cases this
          · exact hl
        simp only [hl, ↓reduceIte] at hpp2 hjb
        have hpop2 := CodeAt.one hpp2
        have s1 : step code ⟨pc + size false i + size false c + 2 + size false b + 1 + size false p, v :: stk, σ1⟩
            = .ok ⟨pc + size false i + size false c + 2 + size false b + 1 + size false p + 1, stk, σ1⟩ := by
          rw [step_of hpop2]; rfl
        have s2 : step code ⟨pc + size false i + size false c + 2 + size false b + 1 + size false p + 1, stk, σ1⟩
            = .ok ⟨pc + size false i + size false c + 2 + size false b + 1 + size false p + 1
                - (size false c + size false b + (size false p + 1) + 3), stk, σ1⟩ := by
          rw [step_of (at_eq hjb (by simp only [one_length]; omega))]; rfl
        show Steps code _ _
        exact ((P.val_steps.snoc s1).snoc s2).cast (by omega)
      | unit =>
        have hu : isUnitNode p = true := P.1
        have hl := unit_not_leaves hu
        simp only [hl, Bool.false_eq_true, ↓reduceIte] at hjb
        have s2 : step code ⟨pc + size false i + size false c + 2 + size false b + 1 + size false p, stk, σ1⟩
            = .ok ⟨pc + size false i + size false c + 2 + size false b + 1 + size false p
                - (size false c + size false b + (size false p + 0) + 3), stk, σ1⟩ := by
          rw [step_of (at_eq hjb (by simp only [List.length_nil]; omega))]; rfl
        show Steps code _ _
        exact (P.unit_steps.snoc s2).cast (by omega)
      | brk => have := P.1; simp only [Shape] at this; rw [hxp] at this; cases this
      | cont => have := P.1; simp only [Shape] at this; rw [hxp] at this; cases this
      | err e => exact P.2
      | oof => trivial
    have R := loop_sim HC HB HP fuel σ1 res σ' he
    have pre : Steps code ⟨pc, stk, σ⟩ ⟨pc + size false i, stk, σ1⟩ := Pi.unit_steps
    apply Post.of_loop rfl
    rw [hlen]
    refine ⟨R.1, ?_⟩
    have e : pc + size false i + size false c
        + (size false b + (size false p + (if leaves p = true then 1 else 0)) + 5)
        = pc + (size false i + size false c + size false b
          + (size false p + (if leaves p = true then 1 else 0)) + 5) := by omega
    rw [← e]
    have R2 := R.2
    cases res with
    | val u => exact absurd rfl (R.1 u)
    | unit => exact pre.trans R2
    | brk => exact R2
    | cont => exact R2
    | err c => exact Fails.pre pre R2
    | oof => trivial

/-! ### switch -/

/-- inside a switch (the subject `sv` stays on the stack): a sub-evaluation that fails -/
def ErrTo (code : Code) (c0 : Cfg) (o : Out) (σ' : St) : Prop :=
  match o with
  | .err c => Fails code c0 c σ'
  | .oof => True
  | _ => False

/-- inside a switch: the selected body's value lands on the `Swap` at `W`, above the subject -/
def SwTo (code : Code) (c0 : Cfg) (W : Nat) (sv : SVal) (stk : List SVal) (r : Out) (σ' : St) : Prop :=
  match r with
  | .val v => Steps code c0 ⟨W, v :: sv :: stk, σ'⟩
  | .err c => Fails code c0 c σ'
  | .oof => True
  | _ => False

theorem SwTo.pre {c0 c1 : Cfg} {W : Nat} {sv : SVal} {stk : List SVal} {r : Out} {σ' : St}
    (h : Steps code c0 c1) (l : SwTo code c1 W sv stk r σ') : SwTo code c0 W sv stk r σ' := by
  cases r with
  | val v => exact h.trans l
  | err c => exact Fails.pre h l
  | oof => trivial
  | unit => exact l
  | brk => exact l
  | cont => exact l

/-- a block (or any operand no break/continue escapes) run inside a switch -/
theorem sw_body (ih : IH code rec) (b : N) (hwb : wf b = true) (hub : isUnitNode b = false) (hxb : escapes b = false)
    (pcB : Nat) (sv : SVal) (stk : List SVal) (hatb : CodeAt code pcB (comp 0 0 rng b)) (σ : St) (r : Out) (σ' : St)
    (h : rec b σ = (r, σ')) :
    SwTo code ⟨pcB, sv :: stk, σ⟩ (pcB + size rng b) sv stk r σ' := by
  have P := ih b hwb 0 0 _ pcB (sv :: stk) σ _ _ hatb h
  cases r with
  | val v => exact P.val_steps
  | unit => have := P.1; simp only [Shape] at this; rw [hub] at this; cases this
  | brk => have := P.1; simp only [Shape] at this; rw [hxb] at this; cases this
  | cont => have := P.1; simp only [Shape] at this; rw [hxb] at this; cases this
  | err c => exact P.2
  | oof => trivial

/-- the comparisons of one case: on a match control is `k` slots after them (at the case's
    body), otherwise right after them; the subject stays on the stack -/
theorem vals_sim (ih : IH code rec) (sv : SVal) (stk : List SVal) :
    ∀ (vs : N), wfVals vs = true → ∀ (k P : Nat) (σ : St) (res : Except Out Bool) (σ' : St),
      CodeAt code P (compVals rng k vs) → matchValsF rec sv vs σ = (res, σ') →
      (match res with
       | .ok true => Steps code ⟨P, sv :: stk, σ⟩ ⟨P + valsLen rng vs + k, sv :: stk, σ'⟩
       | .ok false => Steps code ⟨P, sv :: stk, σ⟩ ⟨P + valsLen rng vs, sv :: stk, σ'⟩
       | .error o => ErrTo code ⟨P, sv :: stk, σ⟩ o σ') := by
  intro vs
  induction vs with
  | nilL =>
    intro _ k P σ res σ' _ he
    simp only [matchValsF] at he; cases he
    simp only [valsLen]; exact .refl _
  | cons v vs _ ihvs =>
    intro hw k P σ res σ' hat he
    simp only [wfVals, Bool.and_eq_true, Bool.not_eq_true'] at hw
    obtain ⟨⟨⟨hev, hxv⟩, hwv⟩, hwvs⟩ := hw
    simp only [compVals] at hat
    simp only [matchValsF] at he
    have hcopy := CodeAt.two hat.append_left.append_left.append_left.append_left
    have hatv := hat.append_left.append_left.append_left.append_right
    have hcmp := CodeAt.two hat.append_left.append_left.append_right
    have hpjt := CodeAt.two hat.append_left.append_right
    have hatvs := hat.append_right
    simp only [List.length_append, two_length, comp_length] at hatv hcmp hpjt hatvs
    have hlen : valsLen rng (.cons v vs) = size rng v + 6 + valsLen rng vs := by simp [valsLen]
    have s1 : step code ⟨P, sv :: stk, σ⟩ = .ok ⟨P + 2, sv :: sv :: stk, σ⟩ := by rw [step_of hcopy]; rfl
    rcases hv : rec v σ with ⟨o, σ1⟩
    rw [hv] at he
    have Pv := ih v hwv 0 0 _ (P + 2) (sv :: sv :: stk) σ _ _ hatv hv
    cases o with
    | val x =>
      simp only at he
      have hcmp := at_eq hcmp (q := P + 2 + size rng v) (by omega)
      have s2 : step code ⟨P + 2 + size rng v, x :: sv :: sv :: stk, σ1⟩
          = .ok ⟨P + 2 + size rng v + 2, .bool (eqV σ1.h 8 sv x) :: sv :: stk, σ1⟩ := by
        rw [step_of hcmp]; simp [execIns, vCompareF]
      have hpjt := at_eq hpjt (q := P + 2 + size rng v + 2) (by omega)
      have pre := ((Steps.one s1).trans Pv.val_steps).snoc s2
      by_cases heq : (eqV σ1.h 8 sv x) = true
      · simp only [heq, ↓reduceIte] at he; cases he
        have s3 : step code ⟨P + 2 + size rng v + 2, .bool (eqV σ'.h 8 sv x) :: sv :: stk, σ'⟩
            = .ok ⟨P + 2 + size rng v + 2 + (valsLen rng vs + k + 2), sv :: stk, σ'⟩ := by
          rw [step_of hpjt]; simp [execIns, SVal.truthy, heq]
        show Steps code _ _
        rw [hlen]
        exact (pre.snoc s3).cast (by omega)
      · have heq' : (eqV σ1.h 8 sv x) = false := by simpa using heq
        simp only [heq', Bool.false_eq_true, ↓reduceIte] at he
        have s3 : step code ⟨P + 2 + size rng v + 2, .bool (eqV σ1.h 8 sv x) :: sv :: stk, σ1⟩
            = .ok ⟨P + 2 + size rng v + 2 + 2, sv :: stk, σ1⟩ := by
          rw [step_of hpjt]; simp [execIns, SVal.truthy, heq']
        have R := ihvs hwvs k (P + 2 + size rng v + 2 + 2) σ1 res σ' (hatvs.cast (by omega)) he
        have pre2 := pre.snoc s3
        cases res with
        | ok b =>
          cases b with
          | true => exact (pre2.trans R).cast (by rw [hlen]; omega)
          | false => exact (pre2.trans R).cast (by rw [hlen]; omega)
        | error o =>
          cases o with
          | err c => exact Fails.pre pre2 R
          | oof => trivial
          | val _ => exact R
          | unit => exact R
          | brk => exact R
          | cont => exact R
    | unit => have := Pv.1; simp only [Shape] at this; rw [isE_not_unit hev] at this; cases this
    | brk => have := Pv.1; simp only [Shape] at this; rw [hxv] at this; cases this
    | cont => have := Pv.1; simp only [Shape] at this; rw [hxv] at this; cases this
    | err c => simp only at he; cases he; exact Fails.pre (.one s1) Pv.2
    | oof => simp only at he; cases he; trivial
  | _ => intro hw; simp [wfVals] at hw

/-- facts about the default clause of a well-formed case list -/
theorem dflt_facts : ∀ (cs : N), wfCases cs = true →
    (match dfltBody cs with
     | some b => compDflt rng cs = comp 0 0 rng b ∧ defLen rng cs = size rng b ∧ wf b = true ∧ isBlock b = true ∧ escapes b = false
     | none => compDflt rng cs = one .nil_ ∧ defLen rng cs = 1) := by
  intro cs
  induction cs with
  | nilL => intro _; simp [dfltBody, compDflt, defLen]
  | cons h t _ iht =>
    intro hw
    simp only [wfCases, Bool.and_eq_true] at hw
    obtain ⟨hwh, hwt⟩ := hw
    cases h with
    | case_ vals body =>
      have := iht hwt
      simp only [dfltBody, compDflt, defLen, isDefault, Bool.false_eq_true, ↓reduceIte]
      exact this
    | default_ b =>
      simp only [wfCase, Bool.and_eq_true, Bool.not_eq_true'] at hwh
      simp [dfltBody, compDflt, defLen, isDefault, compDfltBody, dfltBodyLen, hwh.1.1, hwh.1.2, hwh.2]
    | _ => simp [wfCase] at hwh
  | _ => intro hw; simp [wfCases] at hw

/-- the two sections of a switch, for a suffix `cs` of the case list whose comparisons sit at
    `P` and whose bodies sit `before` slots into the body section `Bs`: whatever
    `evCasesF` selects (a case body, the default, nil), its value lands on the `Swap` at `W` -/
theorem cases_sim (ih : IH code rec) (sv : SVal) (stk : List SVal) (dflt : Option N) (E Bs D W d : Nat)
    (hBs : Bs = E + 2) (hW : W = D + d)
    (hjd : ∀ σ, Steps code ⟨E, sv :: stk, σ⟩ ⟨D, sv :: stk, σ⟩)
    (hdef : ∀ σ res σ', runDflt rec dflt σ = (res, σ') → SwTo code ⟨D, sv :: stk, σ⟩ W sv stk res σ') :
    ∀ (cs : N), wfCases cs = true → ∀ (before P : Nat) (σ : St) (res : Out) (σ' : St),
      CodeAt code P (compCmp rng before cs) → P + cmpLen rng cs = E →
      CodeAt code (Bs + before) (compBodies rng d cs) → Bs + before + bodiesLen rng cs = D →
      evCasesF rec sv dflt cs σ = (res, σ') →
      SwTo code ⟨P, sv :: stk, σ⟩ W sv stk res σ' := by
  intro cs
  induction cs with
  | nilL =>
    intro _ before P σ res σ' _ hP _ _ he
    simp only [cmpLen, Nat.add_zero] at hP
    subst hP
    simp only [evCasesF] at he
    exact SwTo.pre (hjd σ) (hdef σ res σ' he)
  | cons h t _ iht =>
    intro hw before P σ res σ' hatc hP hatb hB he
    simp only [wfCases, Bool.and_eq_true] at hw
    obtain ⟨hwh, hwt⟩ := hw
    cases h with
    | case_ vals body =>
      simp only [wfCase, Bool.and_eq_true, Bool.not_eq_true'] at hwh
      obtain ⟨⟨⟨hwv, hbb⟩, hxb⟩, hwb⟩ := hwh
      simp only [compCmp, compCmpCase, caseBodyLen] at hatc
      simp only [compBodies, compBody] at hatb
      simp only [cmpLen, caseCmpLen] at hP
      simp only [bodiesLen, caseBodyLen] at hB
      simp only [evCasesF] at he
      have hatv := hatc.append_left
      have hatc' := hatc.append_right
      have hatbody := hatb.append_left.append_left
      have hjf := CodeAt.two hatb.append_left.append_right
      have hatb' := hatb.append_right
      simp only [List.length_append, two_length, comp_length, compVals_length] at hatc' hjf hatb'
      rcases hm : matchValsF rec sv vals σ with ⟨m, σ1⟩
      rw [hm] at he
      have V := vals_sim ih sv stk vals hwv (cmpLen rng t + 2 + before) P σ m σ1 hatv hm
      cases m with
      | ok b =>
        cases b with
        | true =>
          simp only at he V
          have V' : Steps code ⟨P, sv :: stk, σ⟩ ⟨Bs + before, sv :: stk, σ1⟩ := V.cast (by omega)
          have B := sw_body ih body hwb (isBlock_not_unit hbb) hxb (Bs + before) sv stk hatbody σ1 res σ' he
          cases res with
          | val v =>
            have s1 : step code ⟨Bs + before + size rng body, v :: sv :: stk, σ'⟩
                = .ok ⟨Bs + before + size rng body + (bodiesLen rng t + d + 2), v :: sv :: stk, σ'⟩ := by
              rw [step_of hjf]; rfl
            exact ((V'.trans B).snoc s1).cast (by omega)
          | err c => exact Fails.pre V' B
          | oof => trivial
          | unit => exact B
          | brk => exact B
          | cont => exact B
        | false =>
          simp only at he V
          exact SwTo.pre V (iht hwt (before + (size rng body + 2)) (P + valsLen rng vals) σ1 res σ' hatc' (by omega)
            (hatb'.cast (by omega)) (by omega) he)
      | error o =>
        simp only at he V; cases he
        cases res with
        | err c => exact V
        | oof => trivial
        | val _ => exact V.elim
        | unit => exact V.elim
        | brk => exact V.elim
        | cont => exact V.elim
    | default_ b =>
      simp only [compCmp, compCmpCase, caseBodyLen, List.nil_append, Nat.add_zero] at hatc
      simp only [compBodies, compBody, List.nil_append] at hatb
      simp only [cmpLen, caseCmpLen, Nat.zero_add] at hP
      simp only [bodiesLen, caseBodyLen, Nat.zero_add] at hB
      simp only [evCasesF] at he
      exact iht hwt before P σ res σ' hatc hP hatb hB he
    | _ => simp [wfCase] at hwh
  | _ => intro hw; simp [wfCases] at hw

theorem sim_switch (ih : IH code rec) (subj cases : N)
    (hwf : wf (.switch subj cases) = true) (pc : Nat) (stk : List SVal) (σ : St) (res : Out) (σ' : St)
    (hat : CodeAt code pc (comp kb kc rng (.switch subj cases))) (he : evNode fuel rec (.switch subj cases) σ = (res, σ')) :
    Post code kb kc rng (.switch subj cases) pc stk σ res σ' := by
  simp only [wf, Bool.and_eq_true, Bool.not_eq_true'] at hwf
  obtain ⟨⟨⟨⟨hes, hxs⟩, hws⟩, hwc⟩, _⟩ := hwf
  simp only [comp] at hat
  simp only [evNode] at he
  have hlen : size rng (.switch subj cases) = size rng subj + cmpLen rng cases + 2 + bodiesLen rng cases + defLen rng cases + 3 := by
    simp [size]
  have hats := hat.append_left.append_left.append_left.append_left.append_left.append_left
  have hatc := hat.append_left.append_left.append_left.append_left.append_left.append_right
  have hjd := CodeAt.two hat.append_left.append_left.append_left.append_left.append_right
  have hatb := hat.append_left.append_left.append_left.append_right
  have hatd := hat.append_left.append_left.append_right
  have hswap := CodeAt.two hat.append_left.append_right
  have hpop := CodeAt.one hat.append_right
  simp only [List.length_append, two_length, comp_length, compCmp_length, compBodies_length, compDflt_length]
    at hatc hjd hatb hatd hswap hpop
  rcases seqV_elim he with ⟨sv, σ1, hs, he⟩ | ⟨hnv, hx⟩
  · have Ps := (ih subj hws 0 0 _ pc stk σ _ _ hats hs).val_steps
    -- positions
    have hjd' : ∀ σ, Steps code ⟨pc + size rng subj + cmpLen rng cases, sv :: stk, σ⟩
        ⟨pc + size rng subj + cmpLen rng cases + 2 + bodiesLen rng cases, sv :: stk, σ⟩ := by
      intro σ
      have s1 : step code ⟨pc + size rng subj + cmpLen rng cases, sv :: stk, σ⟩
          = .ok ⟨pc + size rng subj + cmpLen rng cases + (bodiesLen rng cases + 2), sv :: stk, σ⟩ := by
        rw [step_of (at_eq hjd (by omega))]; rfl
      exact (Steps.one s1).cast (by omega)
    have F := dflt_facts (rng := rng) cases hwc
    have hdef : ∀ σ res σ', runDflt rec (dfltBody cases) σ = (res, σ') →
        SwTo code ⟨pc + size rng subj + cmpLen rng cases + 2 + bodiesLen rng cases, sv :: stk, σ⟩
          (pc + size rng subj + cmpLen rng cases + 2 + bodiesLen rng cases + defLen rng cases) sv stk res σ' := by
      intro σ res σ' h
      cases hd : dfltBody cases with
      | some b =>
        rw [hd] at F h
        simp only [runDflt] at F h
        obtain ⟨hc, hl, hwb, hbb, hxb⟩ := F
        rw [hc] at hatd
        rw [hl]
        exact sw_body ih b hwb (isBlock_not_unit hbb) hxb _ sv stk (hatd.cast (by omega)) σ res σ' h
      | none =>
        rw [hd] at F h
        simp only [runDflt] at F h
        obtain ⟨hc, hl⟩ := F
        rw [hc] at hatd
        cases h
        have hnil := CodeAt.one hatd
        rw [hl]
        have s1 : step code ⟨pc + size rng subj + cmpLen rng cases + 2 + bodiesLen rng cases, sv :: stk, σ⟩
            = .ok ⟨pc + size rng subj + cmpLen rng cases + 2 + bodiesLen rng cases + 1, .nil :: sv :: stk, σ⟩ := by
          rw [step_of (at_eq hnil (by omega))]; rfl
        exact Steps.one s1
    have R := cases_sim ih sv stk (dfltBody cases) (pc + size rng subj + cmpLen rng cases)
      (pc + size rng subj + cmpLen rng cases + 2) (pc + size rng subj + cmpLen rng cases + 2 + bodiesLen rng cases)
      (pc + size rng subj + cmpLen rng cases + 2 + bodiesLen rng cases + defLen rng cases) (defLen rng cases) rfl rfl hjd' hdef
      cases hwc 0 (pc + size rng subj) σ1 res σ' hatc rfl (hatb.cast (by omega)) (by omega) he
    cases res with
    | val v =>
      have s1 : step code ⟨pc + size rng subj + cmpLen rng cases + 2 + bodiesLen rng cases + defLen rng cases, v :: sv :: stk, σ'⟩
          = .ok ⟨pc + size rng subj + cmpLen rng cases + 2 + bodiesLen rng cases + defLen rng cases + 2, sv :: v :: stk, σ'⟩ := by
        rw [step_of (at_eq hswap (by omega))]; rfl
      have s2 : step code ⟨pc + size rng subj + cmpLen rng cases + 2 + bodiesLen rng cases + defLen rng cases + 2, sv :: v :: stk, σ'⟩
          = .ok ⟨pc + size rng subj + cmpLen rng cases + 2 + bodiesLen rng cases + defLen rng cases + 2 + 1, v :: stk, σ'⟩ := by
        rw [step_of (at_eq hpop (by omega))]; rfl
      refine ⟨rfl, ?_⟩
      show Steps code _ ⟨_, v :: stk, _⟩
      rw [hlen]
      exact (((Ps.trans R).snoc s1).snoc s2).cast (by omega)
    | err c => exact ⟨trivial, Fails.pre Ps R⟩
    | oof => exact ⟨trivial, trivial⟩
    | unit => exact R.elim
    | brk => exact R.elim
    | cont => exact R.elim
  · exact Post.propagate (.refl _) (ih subj hws 0 0 _ pc stk σ _ _ hats hx) hnv (isE_not_unit hes) hxs

/-! ### F7: list literals, index, item assignment, range loops -/

theorem take_rev_append (vs stk : List SVal) :
    ((vs.reverse ++ stk).take vs.length).reverse = vs ∧ (vs.reverse ++ stk).drop vs.length = stk := by
  have h : vs.length = vs.reverse.length := by simp
  constructor
  · rw [h, List.take_left']
    · simp
    · rfl
  · rw [h, List.drop_left']
    rfl

/-- the values of the items are pushed in order (the last one on top); an item that fails is the
    failure of the whole literal -/
theorem items_sim (ih : IH code rec) :
    ∀ (items : N), wfVals items = true → ∀ (P : Nat) (stk : List SVal) (σ : St) (res : Except Out (List SVal)) (σ' : St),
      CodeAt code P (compItems rng items) → evItems rec items σ = (res, σ') →
      (match res with
       | .ok vs => Steps code ⟨P, stk, σ⟩ ⟨P + itemsLen rng items, vs.reverse ++ stk, σ'⟩ ∧ vs.length = countItems items
       | .error o => ErrTo code ⟨P, stk, σ⟩ o σ') := by
  intro items
  induction items with
  | nilL =>
    intro _ P stk σ res σ' _ he
    simp only [evItems] at he; cases he
    simp only [itemsLen, countItems]
    exact ⟨.refl _, rfl⟩
  | cons e es _ ihes =>
    intro hw P stk σ res σ' hat he
    simp only [wfVals, Bool.and_eq_true, Bool.not_eq_true'] at hw
    obtain ⟨⟨⟨hee, hxe⟩, hwe⟩, hwes⟩ := hw
    simp only [compItems] at hat
    simp only [evItems] at he
    have hate := hat.append_left
    have hates := hat.append_right
    simp only [comp_length] at hates
    rcases hv : rec e σ with ⟨o, σ1⟩
    rw [hv] at he
    have Pv := ih e hwe 0 0 _ P stk σ _ _ hate hv
    cases o with
    | val v =>
      simp only at he
      rcases hr : evItems rec es σ1 with ⟨rr, σ2⟩
      rw [hr] at he
      have R := ihes hwes (P + size rng e) (v :: stk) σ1 rr σ2 hates hr
      cases rr with
      | ok vs =>
        simp only at he R; cases he
        obtain ⟨S, hl⟩ := R
        refine ⟨?_, by simp [countItems, hl]⟩
        have e1 : (v :: vs).reverse ++ stk = vs.reverse ++ v :: stk := by simp
        rw [e1]
        exact (Pv.val_steps.trans S).cast (by simp [itemsLen]; omega)
      | error o =>
        simp only at he R; cases he
        cases o with
        | err c => exact Fails.pre Pv.val_steps R
        | oof => trivial
        | val _ => exact R
        | unit => exact R
        | brk => exact R
        | cont => exact R
    | unit => have := Pv.1; simp only [Shape] at this; rw [isE_not_unit hee] at this; cases this
    | brk => have := Pv.1; simp only [Shape] at this; rw [hxe] at this; cases this
    | cont => have := Pv.1; simp only [Shape] at this; rw [hxe] at this; cases this
    | err c => simp only at he; cases he; exact Pv.2
    | oof => simp only at he; cases he; trivial
  | _ => intro hw; simp [wfVals] at hw

theorem keysOK_even : ∀ (n : N), keysOK n = true → 2 * (countItems n / 2) = countItems n := by
  intro n
  fun_induction keysOK n with
  | case1 k v rest ih =>
    intro h
    have := ih h
    simp only [countItems]
    omega
  | case2 => intro _; simp [countItems]
  | case3 => intro h; cases h

theorem sim_map (ih : IH code rec) (items : N)
    (hwf : wf (.map items) = true) (pc : Nat) (stk : List SVal) (σ : St) (res : Out) (σ' : St)
    (hat : CodeAt code pc (comp kb kc rng (.map items))) (he : evNode fuel rec (.map items) σ = (res, σ')) :
    Post code kb kc rng (.map items) pc stk σ res σ' := by
  simp only [wf, Bool.and_eq_true] at hwf
  obtain ⟨hwf, hkeys⟩ := hwf
  simp only [comp] at hat
  simp only [evNode] at he
  have hlen : size rng (.map items) = itemsLen rng items + 2 := by simp [size]
  have hb := CodeAt.two hat.append_right
  simp only [compItems_length] at hb
  rcases hi : evItems rec items σ with ⟨ri, σ1⟩
  rw [hi] at he
  have I := items_sim ih items hwf pc stk σ ri σ1 hat.append_left hi
  cases ri with
  | ok vs =>
    simp only at he I
    obtain ⟨S, hl⟩ := I
    have T := take_rev_append vs stk
    have hev : 2 * (vs.length / 2) = vs.length := by rw [hl]; exact keysOK_even items hkeys
    have hle : vs.length ≤ (vs.reverse ++ stk).length := by simp
    cases hp : pairsOf vs with
    | some ps =>
      simp only [hp] at he; cases he
      have s1 : step code ⟨pc + itemsLen rng items, vs.reverse ++ stk, σ1⟩
          = .ok ⟨pc + itemsLen rng items + 2, .ref (σ1.alloc (buildMapObj ps)).1 :: stk, (σ1.alloc (buildMapObj ps)).2⟩ := by
        rw [step_of hb]
        simp only [execIns, hev, ← hl, hle, ↓reduceIte, T.1, T.2, hp]
      refine ⟨rfl, ?_⟩
      show Steps code _ ⟨_, .ref (σ1.alloc (buildMapObj ps)).1 :: stk, _⟩
      rw [hlen]
      exact (S.snoc s1).cast (by omega)
    | none =>
      simp only [hp] at he; cases he
      exact Post.fail S (by rw [step_of hb]; simp only [execIns, hev, ← hl, hle, ↓reduceIte, T.1, hp])
  | error o =>
    simp only at he I; cases he
    cases res with
    | err c => exact ⟨trivial, I⟩
    | oof => exact ⟨trivial, trivial⟩
    | val _ => exact I.elim
    | unit => exact I.elim
    | brk => exact I.elim
    | cont => exact I.elim

theorem sim_index (ih : IH code rec) (e i : N)
    (hwf : wf (.index e i) = true) (pc : Nat) (stk : List SVal) (σ : St) (res : Out) (σ' : St)
    (hat : CodeAt code pc (comp kb kc rng (.index e i))) (he : evNode fuel rec (.index e i) σ = (res, σ')) :
    Post code kb kc rng (.index e i) pc stk σ res σ' := by
  simp only [wf, Bool.and_eq_true, Bool.not_eq_true'] at hwf
  obtain ⟨⟨⟨⟨⟨hee, hei⟩, hxe⟩, hxi⟩, hwe⟩, hwi⟩ := hwf
  simp only [comp] at hat
  simp only [evNode] at he
  have hlen : size rng (.index e i) = size rng e + size rng i + 1 := by simp [size]
  have hate := hat.append_left.append_left
  have hati := hat.append_left.append_right
  have hins := CodeAt.one hat.append_right
  simp only [List.length_append, comp_length] at hins hati
  have hins := at_eq hins (q := pc + size rng e + size rng i) (by omega)
  rcases seqV_elim he with ⟨ov, σ1, h1, he⟩ | ⟨hnv, hx⟩
  · have Pe := (ih e hwe 0 0 _ pc stk σ _ _ hate h1).val_steps
    rcases seqV_elim he with ⟨iv, σ2, h2, he⟩ | ⟨hnv, hx⟩
    · have Pi := (ih i hwi 0 0 _ _ (ov :: stk) σ1 _ _ hati h2).val_steps
      have hstep := step_of hins (iv :: ov :: stk) σ2
      cases hg : getItemS σ2 ov iv with
      | ok v =>
        simp only [hg, liftE] at he; cases he
        have s1 : step code ⟨pc + size rng e + size rng i, iv :: ov :: stk, σ'⟩
            = .ok ⟨pc + size rng e + size rng i + 1, v :: stk, σ'⟩ := by
          rw [hstep]; simp [execIns, hg]
        refine ⟨rfl, ?_⟩
        show Steps code _ ⟨_, v :: stk, _⟩
        rw [hlen]
        exact ((Pe.trans Pi).snoc s1).cast (by omega)
      | error c =>
        simp only [hg, liftE] at he; cases he
        exact Post.fail (Pe.trans Pi) (by rw [hstep]; simp [execIns, hg])
    · exact Post.propagate Pe (ih i hwi 0 0 _ _ (ov :: stk) σ1 _ _ hati hx) hnv (isE_not_unit hei) hxi
  · exact Post.propagate (.refl _) (ih e hwe 0 0 _ pc stk σ _ _ hate hx) hnv (isE_not_unit hee) hxe

/-- membership: item, container, `Swap 1`, `ContainsOp` -/
theorem sim_in (ih : IH code rec) (x c : N)
    (hwf : wf (.in_ x c) = true) (pc : Nat) (stk : List SVal) (σ : St) (res : Out) (σ' : St)
    (hat : CodeAt code pc (comp kb kc rng (.in_ x c))) (he : evNode fuel rec (.in_ x c) σ = (res, σ')) :
    Post code kb kc rng (.in_ x c) pc stk σ res σ' := by
  simp only [wf, Bool.and_eq_true, Bool.not_eq_true'] at hwf
  obtain ⟨⟨⟨⟨⟨hex, hec⟩, hxx⟩, hxc⟩, hwx⟩, hwc⟩ := hwf
  simp only [comp] at hat
  simp only [evNode] at he
  have hlen : size rng (.in_ x c) = size rng x + size rng c + 4 := by simp [size]
  have hatx := hat.append_left.append_left.append_left
  have hatc := hat.append_left.append_left.append_right
  have hsw := CodeAt.two hat.append_left.append_right
  have hco := CodeAt.two hat.append_right
  simp only [List.length_append, comp_length, two_length] at hatc hsw hco
  have hsw := at_eq hsw (q := pc + size rng x + size rng c) (by omega)
  have hco := at_eq hco (q := pc + size rng x + size rng c + 2) (by omega)
  rcases seqV_elim he with ⟨xv, σ1, h1, he⟩ | ⟨hnv, hx⟩
  · have Px := (ih x hwx 0 0 _ pc stk σ _ _ hatx h1).val_steps
    rcases seqV_elim he with ⟨cv, σ2, h2, he⟩ | ⟨hnv, hx⟩
    · have Pc := (ih c hwc 0 0 _ _ (xv :: stk) σ1 _ _ hatc h2).val_steps
      have s0 : step code ⟨pc + size rng x + size rng c, cv :: xv :: stk, σ2⟩
          = .ok ⟨pc + size rng x + size rng c + 2, xv :: cv :: stk, σ2⟩ := by
        rw [step_of hsw]; rfl
      have hstep := step_of hco (xv :: cv :: stk) σ2
      cases hg : containsS σ2 cv xv with
      | ok v =>
        simp only [hg, liftE] at he; cases he
        have s1 : step code ⟨pc + size rng x + size rng c + 2, xv :: cv :: stk, σ'⟩
            = .ok ⟨pc + size rng x + size rng c + 2 + 2, v :: stk, σ'⟩ := by
          rw [hstep]; simp [execIns, hg]
        refine ⟨rfl, ?_⟩
        show Steps code _ ⟨_, v :: stk, _⟩
        rw [hlen]
        exact (((Px.trans Pc).snoc s0).snoc s1).cast (by omega)
      | error e =>
        simp only [hg, liftE] at he; cases he
        exact Post.fail ((Px.trans Pc).snoc s0) (by rw [hstep]; simp [execIns, hg])
    · exact Post.propagate Px (ih c hwc 0 0 _ _ (xv :: stk) σ1 _ _ hatc hx) hnv (isE_not_unit hec) hxc
  · exact Post.propagate (.refl _) (ih x hwx 0 0 _ pc stk σ _ _ hatx hx) hnv (isE_not_unit hex) hxx

/-- `not in`: as `in`, then `UnaryNot` -/
theorem sim_notin (ih : IH code rec) (x c : N)
    (hwf : wf (.notin x c) = true) (pc : Nat) (stk : List SVal) (σ : St) (res : Out) (σ' : St)
    (hat : CodeAt code pc (comp kb kc rng (.notin x c))) (he : evNode fuel rec (.notin x c) σ = (res, σ')) :
    Post code kb kc rng (.notin x c) pc stk σ res σ' := by
  simp only [wf, Bool.and_eq_true, Bool.not_eq_true'] at hwf
  obtain ⟨⟨⟨⟨⟨hex, hec⟩, hxx⟩, hxc⟩, hwx⟩, hwc⟩ := hwf
  simp only [comp] at hat
  simp only [evNode] at he
  have hlen : size rng (.notin x c) = size rng x + size rng c + 5 := by simp [size]
  have hatx := hat.append_left.append_left.append_left.append_left
  have hatc := hat.append_left.append_left.append_left.append_right
  have hsw := CodeAt.two hat.append_left.append_left.append_right
  have hco := CodeAt.two hat.append_left.append_right
  have hnt := CodeAt.one hat.append_right
  simp only [List.length_append, comp_length, two_length] at hatc hsw hco hnt
  have hnt := at_eq hnt (q := pc + size rng x + size rng c + 4) (by omega)
  have hsw := at_eq hsw (q := pc + size rng x + size rng c) (by omega)
  have hco := at_eq hco (q := pc + size rng x + size rng c + 2) (by omega)
  rcases seqV_elim he with ⟨xv, σ1, h1, he⟩ | ⟨hnv, hx⟩
  · have Px := (ih x hwx 0 0 _ pc stk σ _ _ hatx h1).val_steps
    rcases seqV_elim he with ⟨cv, σ2, h2, he⟩ | ⟨hnv, hx⟩
    · have Pc := (ih c hwc 0 0 _ _ (xv :: stk) σ1 _ _ hatc h2).val_steps
      have s0 : step code ⟨pc + size rng x + size rng c, cv :: xv :: stk, σ2⟩
          = .ok ⟨pc + size rng x + size rng c + 2, xv :: cv :: stk, σ2⟩ := by
        rw [step_of hsw]; rfl
      have hstep := step_of hco (xv :: cv :: stk) σ2
      cases hg : containsS σ2 cv xv with
      | ok v =>
        simp only [hg] at he; cases he
        have s1 : step code ⟨pc + size rng x + size rng c + 2, xv :: cv :: stk, σ'⟩
            = .ok ⟨pc + size rng x + size rng c + 2 + 2, v :: stk, σ'⟩ := by
          rw [hstep]; simp [execIns, hg]
        have s2 : step code ⟨pc + size rng x + size rng c + 2 + 2, v :: stk, σ'⟩
            = .ok ⟨pc + size rng x + size rng c + 2 + 2 + 1, .bool (!v.truthy σ') :: stk, σ'⟩ := by
          rw [step_of (at_eq hnt (by omega))]; rfl
        refine ⟨rfl, ?_⟩
        show Steps code _ ⟨_, .bool (!v.truthy σ') :: stk, _⟩
        rw [hlen]
        exact ((((Px.trans Pc).snoc s0).snoc s1).snoc s2).cast (by omega)
      | error e =>
        simp only [hg] at he; cases he
        exact Post.fail ((Px.trans Pc).snoc s0) (by rw [hstep]; simp [execIns, hg])
    · exact Post.propagate Px (ih c hwc 0 0 _ _ (xv :: stk) σ1 _ _ hatc hx) hnv (isE_not_unit hec) hxc
  · exact Post.propagate (.refl _) (ih x hwx 0 0 _ pc stk σ _ _ hatx hx) hnv (isE_not_unit hex) hxx

/-- plain item assignment: right-hand side, container, index, `StoreSubscr` -/
theorem sim_setitem_set (ih : IH code rec) (o i v : N)
    (hwf : wf (.setitem .set o i v) = true) (pc : Nat) (stk : List SVal) (σ : St) (res : Out) (σ' : St)
    (hat : CodeAt code pc (comp kb kc rng (.setitem .set o i v))) (he : evNode fuel rec (.setitem .set o i v) σ = (res, σ')) :
    Post code kb kc rng (.setitem .set o i v) pc stk σ res σ' := by
  simp only [wf, Bool.and_eq_true, Bool.not_eq_true'] at hwf
  obtain ⟨⟨⟨⟨⟨⟨⟨⟨heo, hei⟩, hev⟩, hxo⟩, hxi⟩, hxv⟩, hwo⟩, hwi⟩, hwv⟩ := hwf
  simp only [comp, ↓reduceIte] at hat
  simp only [evNode, ↓reduceIte] at he
  have hlen : size rng (.setitem .set o i v) = size rng v + size rng o + size rng i + 1 := by simp [size]
  have hatv := hat.append_left.append_left.append_left
  have hato := hat.append_left.append_left.append_right
  have hati := hat.append_left.append_right
  have hins := CodeAt.one hat.append_right
  simp only [List.length_append, comp_length] at hins hati hato
  have hins := at_eq hins (q := pc + size rng v + size rng o + size rng i) (by omega)
  have hati := hati.cast (q := pc + size rng v + size rng o) (by omega)
  rcases seqV_elim he with ⟨rhs, σ1, h1, he⟩ | ⟨hnv, hx⟩
  · have Pv := (ih v hwv 0 0 _ pc stk σ _ _ hatv h1).val_steps
    rcases seqV_elim he with ⟨ov, σ2, h2, he⟩ | ⟨hnv, hx⟩
    · have Po := Pv.trans (ih o hwo 0 0 _ _ (rhs :: stk) σ1 _ _ hato h2).val_steps
      rcases seqV_elim he with ⟨iv, σ3, h3, he⟩ | ⟨hnv, hx⟩
      · have Pi := Po.trans (ih i hwi 0 0 _ _ (ov :: rhs :: stk) σ2 _ _ hati h3).val_steps
        have hstep := step_of hins (iv :: ov :: rhs :: stk) σ3
        cases hg : setItemS σ3 ov iv rhs with
        | ok σ4 =>
          simp only [hg] at he; cases he
          have s1 : step code ⟨pc + size rng v + size rng o + size rng i, iv :: ov :: rhs :: stk, σ3⟩
              = .ok ⟨pc + size rng v + size rng o + size rng i + 1, stk, σ'⟩ := by
            rw [hstep]; simp [execIns, hg]
          refine ⟨rfl, ?_⟩
          show Steps code _ ⟨_, stk, _⟩
          rw [hlen]
          exact (Pi.snoc s1).cast (by omega)
        | error c =>
          simp only [hg] at he; cases he
          exact Post.fail Pi (by rw [hstep]; simp [execIns, hg])
      · exact Post.propagate Po (ih i hwi 0 0 _ _ (ov :: rhs :: stk) σ2 _ _ hati hx) hnv (isE_not_unit hei) hxi
    · exact Post.propagate Pv (ih o hwo 0 0 _ _ (rhs :: stk) σ1 _ _ hato hx) hnv (isE_not_unit heo) hxo
  · exact Post.propagate (.refl _) (ih v hwv 0 0 _ pc stk σ _ _ hatv hx) hnv (isE_not_unit hev) hxv

/-- compound item assignment: container, index, `BinarySubscr`, right-hand side, `BinaryOp`, then
    container and index AGAIN, `StoreSubscr` -/
theorem sim_setitem_op (ih : IH code rec) (op : AssignOp) (hop : op ≠ .set) (o i v : N)
    (hwf : wf (.setitem op o i v) = true) (pc : Nat) (stk : List SVal) (σ : St) (res : Out) (σ' : St)
    (hat : CodeAt code pc (comp kb kc rng (.setitem op o i v))) (he : evNode fuel rec (.setitem op o i v) σ = (res, σ')) :
    Post code kb kc rng (.setitem op o i v) pc stk σ res σ' := by
  simp only [wf, Bool.and_eq_true, Bool.not_eq_true'] at hwf
  obtain ⟨⟨⟨⟨⟨⟨⟨⟨heo, hei⟩, hev⟩, hxo⟩, hxi⟩, hxv⟩, hwo⟩, hwi⟩, hwv⟩ := hwf
  simp only [comp, if_neg hop] at hat
  simp only [evNode, if_neg hop] at he
  have hlen : size rng (.setitem op o i v)
      = size rng o + size rng i + 1 + size rng v + 2 + size rng o + size rng i + 1 := by simp [size, hop]
  have hato := hat.append_left.append_left.append_left.append_left.append_left.append_left.append_left
  have hati := hat.append_left.append_left.append_left.append_left.append_left.append_left.append_right
  have hsub := CodeAt.one hat.append_left.append_left.append_left.append_left.append_left.append_right
  have hatv := hat.append_left.append_left.append_left.append_left.append_right
  have hbin := CodeAt.two hat.append_left.append_left.append_left.append_right
  have hato2 := hat.append_left.append_left.append_right
  have hati2 := hat.append_left.append_right
  have hsto := CodeAt.one hat.append_right
  simp only [List.length_append, comp_length, one_length, two_length] at hati hsub hatv hbin hato2 hati2 hsto
  have hsub := at_eq hsub (q := pc + size rng o + size rng i) (by omega)
  have hatv := hatv.cast (q := pc + size rng o + size rng i + 1) (by omega)
  have hbin := at_eq hbin (q := pc + size rng o + size rng i + 1 + size rng v) (by omega)
  have hato2 := hato2.cast (q := pc + size rng o + size rng i + 1 + size rng v + 2) (by omega)
  have hati2 := hati2.cast (q := pc + size rng o + size rng i + 1 + size rng v + 2 + size rng o) (by omega)
  have hsto := at_eq hsto (q := pc + size rng o + size rng i + 1 + size rng v + 2 + size rng o + size rng i) (by omega)
  rcases seqV_elim he with ⟨ov, σ1, h1, he⟩ | ⟨hnv, hx⟩
  · have Po := (ih o hwo 0 0 _ pc stk σ _ _ hato h1).val_steps
    rcases seqV_elim he with ⟨iv, σ2, h2, he⟩ | ⟨hnv, hx⟩
    · have Pi := Po.trans (ih i hwi 0 0 _ _ (ov :: stk) σ1 _ _ hati h2).val_steps
      have hstep := step_of hsub (iv :: ov :: stk) σ2
      cases hg : getItemS σ2 ov iv with
      | error c =>
        simp only [hg] at he; cases he
        exact Post.fail Pi (by rw [hstep]; simp [execIns, hg])
      | ok cur =>
        simp only [hg] at he
        have s1 : step code ⟨pc + size rng o + size rng i, iv :: ov :: stk, σ2⟩
            = .ok ⟨pc + size rng o + size rng i + 1, cur :: stk, σ2⟩ := by
          rw [hstep]; simp [execIns, hg]
        have Pc := Pi.snoc s1
        rcases seqV_elim he with ⟨rhs, σ3, h3, he⟩ | ⟨hnv, hx⟩
        · have Pv := Pc.trans (ih v hwv 0 0 _ _ (cur :: stk) σ2 _ _ hatv h3).val_steps
          have hstepb := step_of hbin (rhs :: cur :: stk) σ3
          cases ha : applyF σ3 op cur rhs with
          | error c =>
            simp only [ha] at he; cases he
            exact Post.fail Pv (by rw [hstepb]; simp [execIns, vBinaryF_assign _ op hop, ha])
          | ok nv =>
            simp only [ha] at he
            have s2 : step code ⟨pc + size rng o + size rng i + 1 + size rng v, rhs :: cur :: stk, σ3⟩
                = .ok ⟨pc + size rng o + size rng i + 1 + size rng v + 2, nv :: stk, σ3⟩ := by
              rw [hstepb]; simp [execIns, vBinaryF_assign _ op hop, ha]
            have Pb := Pv.snoc s2
            rcases seqV_elim he with ⟨ov2, σ4, h4, he⟩ | ⟨hnv, hx⟩
            · have Po2 := Pb.trans (ih o hwo 0 0 _ _ (nv :: stk) σ3 _ _ hato2 h4).val_steps
              rcases seqV_elim he with ⟨iv2, σ5, h5, he⟩ | ⟨hnv, hx⟩
              · have Pi2 := Po2.trans (ih i hwi 0 0 _ _ (ov2 :: nv :: stk) σ4 _ _ hati2 h5).val_steps
                have hsteps := step_of hsto (iv2 :: ov2 :: nv :: stk) σ5
                cases hs : setItemS σ5 ov2 iv2 nv with
                | ok σ6 =>
                  simp only [hs] at he; cases he
                  have s3 : step code ⟨pc + size rng o + size rng i + 1 + size rng v + 2 + size rng o + size rng i,
                        iv2 :: ov2 :: nv :: stk, σ5⟩
                      = .ok ⟨pc + size rng o + size rng i + 1 + size rng v + 2 + size rng o + size rng i + 1, stk, σ'⟩ := by
                    rw [hsteps]; simp [execIns, hs]
                  refine ⟨rfl, ?_⟩
                  show Steps code _ ⟨_, stk, _⟩
                  rw [hlen]
                  exact (Pi2.snoc s3).cast (by omega)
                | error c =>
                  simp only [hs] at he; cases he
                  exact Post.fail Pi2 (by rw [hsteps]; simp [execIns, hs])
              · exact Post.propagate Po2 (ih i hwi 0 0 _ _ (ov2 :: nv :: stk) σ4 _ _ hati2 hx) hnv (isE_not_unit hei) hxi
            · exact Post.propagate Pb (ih o hwo 0 0 _ _ (nv :: stk) σ3 _ _ hato2 hx) hnv (isE_not_unit heo) hxo
        · exact Post.propagate Pc (ih v hwv 0 0 _ _ (cur :: stk) σ2 _ _ hatv hx) hnv (isE_not_unit hev) hxv
    · exact Post.propagate Po (ih i hwi 0 0 _ _ (ov :: stk) σ1 _ _ hati hx) hnv (isE_not_unit hei) hxi
  · exact Post.propagate (.refl _) (ih o hwo 0 0 _ pc stk σ _ _ hato hx) hnv (isE_not_unit heo) hxo

theorem sim_setitem (ih : IH code rec) (op : AssignOp) (o i v : N)
    (hwf : wf (.setitem op o i v) = true) (pc : Nat) (stk : List SVal) (σ : St) (res : Out) (σ' : St)
    (hat : CodeAt code pc (comp kb kc rng (.setitem op o i v))) (he : evNode fuel rec (.setitem op o i v) σ = (res, σ')) :
    Post code kb kc rng (.setitem op o i v) pc stk σ res σ' := by
  by_cases hop : op = .set
  · subst hop; exact sim_setitem_set ih o i v hwf pc stk σ res σ' hat he
  · exact sim_setitem_op ih op hop o i v hwf pc stk σ res σ' hat he

/-! #### range loops -/

theorem getIterS_isIter {c it : SVal} (h : getIterS c = .ok it) : isIter it = true := by
  cases c <;> simp [getIterS] at h <;> subst h <;> rfl

theorem iterNext_isIter {σ : St} {it it' key value : SVal} (h : iterNext σ it = some (it', key, value)) :
    isIter it' = true := by
  cases it with
  | iterI n pos =>
    simp only [iterNext] at h
    by_cases hc : (pos : Int) < (if n < 0 then -n else n)
    · simp only [hc, ↓reduceIte] at h; cases h; rfl
    · simp only [hc, ↓reduceIte] at h; cases h
  | _ => simp [iterNext] at h

/-- the `StoreGlobal`s after `ForIter`: every pushed value is popped into its name -/
theorem stores_steps : ∀ (names : List String) (vals : List SVal) (P : Nat) (rest : List SVal) (σ : St),
    vals.length = names.length → CodeAt code P (stores names) →
    Steps code ⟨P, vals ++ rest, σ⟩ ⟨P + 2 * names.length, rest, bindAll names vals σ⟩ := by
  intro names
  induction names with
  | nil =>
    intro vals P rest σ hl _
    cases vals with
    | nil => exact .refl _
    | cons v vs => simp at hl
  | cons x xs ihx =>
    intro vals P rest σ hl hat
    cases vals with
    | nil => simp at hl
    | cons v vs =>
      simp only [stores] at hat
      have hsto := CodeAt.two hat.append_left
      have hrest := hat.append_right
      simp only [two_length] at hrest
      have s1 : step code ⟨P, v :: (vs ++ rest), σ⟩ = .ok ⟨P + 2, vs ++ rest, σ.set x v⟩ := by
        rw [step_of hsto]; rfl
      have R := ihx vs (P + 2) rest (σ.set x v) (by simpa using hl) hrest
      simp only [bindAll]
      exact ((Steps.one s1).trans R).cast (by simp; omega)

/-- the body phase of a range loop: the iterator `it` stays below the body's value, which is
    popped; `continue` lands on the backward jump too; `break` has popped the iterator and is at
    the exit -/
def RBodyTo (code : Code) (c0 : Cfg) (pcJ pcX : Nat) (it : SVal) (stk : List SVal) (r : Out) (σ' : St) : Prop :=
  match r with
  | .val _ => Steps code c0 ⟨pcJ, it :: stk, σ'⟩
  | .cont => Steps code c0 ⟨pcJ, it :: stk, σ'⟩
  | .brk => Steps code c0 ⟨pcX, stk, σ'⟩
  | .unit => False
  | .err c => Fails code c0 c σ'
  | .oof => True

/-- the generic range loop: `ForIter d m` at `pcI` (exit `pcX = pcI + d`, the iterator dropped), the
    stores of the names, the body at `pcB`, the backward jump at `pcJ`; by induction on the bound -/
theorem range_sim {names : List String} {m : Nat} {body : St → Out × St} {pcI pcB pcJ pcX d : Nat} {stk : List SVal}
    (hfi : code[pcI]? = some (some (.forIter d m))) (hX : pcX = pcI + d)
    (hlenv : ∀ key value vals, pushKV m key value = some vals → vals.length = names.length)
    (hst : ∀ vals it σ, vals.length = names.length →
      Steps code ⟨pcI + 3, vals ++ it :: stk, σ⟩ ⟨pcB, it :: stk, bindAll names vals σ⟩)
    (HB : ∀ it σ r σ1, body σ = (r, σ1) → RBodyTo code ⟨pcB, it :: stk, σ⟩ pcJ pcX it stk r σ1)
    (hjb : ∀ it σ, Steps code ⟨pcJ, it :: stk, σ⟩ ⟨pcI, it :: stk, σ⟩) :
    ∀ k it σ r σ', isIter it = true → rangeF names m body k it σ = (r, σ') →
      (∀ v, r ≠ .val v) ∧ PhaseTo code ⟨pcI, it :: stk, σ⟩ pcX stk r σ' := by
  intro k
  induction k with
  | zero =>
    intro it σ r σ' _ h
    simp only [rangeF] at h; cases h
    exact ⟨(by intro v hv; cases hv), trivial⟩
  | succ k ihk =>
    intro it σ r σ' hit h
    simp only [rangeF] at h
    have hstep := step_of hfi (it :: stk) σ
    cases hn : iterNext σ it with
    | none =>
      simp only [hn] at h; cases h
      have s1 : step code ⟨pcI, it :: stk, σ⟩ = .ok ⟨pcI + d, stk, σ⟩ := by
        rw [hstep]; simp [execIns, hit, hn]
      exact ⟨(by intro v hv; cases hv), (Steps.one s1).cast hX.symm⟩
    | some e =>
      obtain ⟨it', key, value⟩ := e
      simp only [hn] at h
      cases hp : pushKV m key value with
      | none =>
        simp only [hp] at h; cases h
        refine ⟨(by intro v hv; cases hv), ⟨_, .refl _, rfl, ?_⟩⟩
        rw [hstep]; simp [execIns, hit, hn, hp]
      | some vals =>
        simp only [hp] at h
        have s1 : step code ⟨pcI, it :: stk, σ⟩ = .ok ⟨pcI + 3, vals ++ it' :: stk, σ⟩ := by
          rw [hstep]; simp [execIns, hit, hn, hp]
        have pre := (Steps.one s1).trans (hst vals it' σ (hlenv _ _ _ hp))
        rcases hb : body (bindAll names vals σ) with ⟨rb, σ2⟩
        rw [hb] at h
        have B := HB it' _ _ _ hb
        have next : Steps code ⟨pcI, it :: stk, σ⟩ ⟨pcJ, it' :: stk, σ2⟩ →
            rangeF names m body k it' σ2 = (r, σ') →
            (∀ v, r ≠ .val v) ∧ PhaseTo code ⟨pcI, it :: stk, σ⟩ pcX stk r σ' := by
          intro S h
          have R := ihk it' σ2 r σ' (iterNext_isIter hn) h
          have pre2 := S.trans (hjb it' σ2)
          refine ⟨R.1, ?_⟩
          cases r with
          | val u => exact absurd rfl (R.1 u)
          | unit => exact pre2.trans R.2
          | brk => exact R.2
          | cont => exact R.2
          | err c => exact Fails.pre pre2 R.2
          | oof => trivial
        cases rb with
        | val w => exact next (pre.trans B) h
        | cont => exact next (pre.trans B) h
        | brk =>
          simp only at h; cases h
          exact ⟨(by intro v hv; cases hv), pre.trans B⟩
        | unit => exact B.elim
        | err c =>
          simp only at h; cases h
          exact ⟨(by intro v hv; cases hv), Fails.pre pre B⟩
        | oof =>
          simp only at h; cases h
          exact ⟨(by intro v hv; cases hv), trivial⟩

/-- `for … := range c { b }` and `for v in c { b }` share their shape -/
theorem sim_rangeloop (ih : IH code rec) (n c b : N) (names : List String) (m : Nat)
    (hcomp : comp kb kc rng n = comp 0 0 rng c ++ one .getIter
      ++ three (.forIter (3 + 2 * names.length + size true b + 3) m)
      ++ stores names ++ comp 3 1 true b ++ one .popTop
      ++ two (.jb (3 + 2 * names.length + size true b + 1)))
    (hsize : size rng n = size rng c + 1 + 3 + 2 * names.length + size true b + 3)
    (hun : isUnitNode n = true)
    (hlenv : ∀ key value vals, pushKV m key value = some vals → vals.length = names.length)
    (hec : isE c = true) (hbb : isBlock b = true) (hxc : escapes c = false) (hwc : wf c = true) (hwb : wf b = true)
    (pc : Nat) (stk : List SVal) (σ : St) (res : Out) (σ' : St)
    (hat : CodeAt code pc (comp kb kc rng n))
    (he : (seqV (rec c σ) fun cv σ1 => rangeOver names m (rec b) fuel cv σ1) = (res, σ')) :
    Post code kb kc rng n pc stk σ res σ' := by
  rw [hcomp] at hat
  have hatc := hat.append_left.append_left.append_left.append_left.append_left.append_left
  have hgi := CodeAt.one hat.append_left.append_left.append_left.append_left.append_left.append_right
  have hfi := CodeAt.head hat.append_left.append_left.append_left.append_left.append_right
  have hsts := hat.append_left.append_left.append_left.append_right
  have hatb := hat.append_left.append_left.append_right
  have hpop := CodeAt.one hat.append_left.append_right
  have hjb := CodeAt.two hat.append_right
  simp only [List.length_append, comp_length, one_length, three_length, stores_length]
    at hgi hfi hsts hatb hpop hjb
  have hfi := at_eq hfi (q := pc + size rng c + 1) (by omega)
  have hsts := hsts.cast (q := pc + size rng c + 1 + 3) (by omega)
  have hatb := hatb.cast (q := pc + size rng c + 1 + 3 + 2 * names.length) (by omega)
  have hpop := at_eq hpop (q := pc + size rng c + 1 + 3 + 2 * names.length + size true b) (by omega)
  have hjb := at_eq hjb (q := pc + size rng c + 1 + 3 + 2 * names.length + size true b + 1) (by omega)
  rcases seqV_elim he with ⟨cv, σ1, h1, he⟩ | ⟨hnv, hx⟩
  · have Pc := (ih c hwc 0 0 _ pc stk σ _ _ hatc h1).val_steps
    have hstep := step_of hgi (cv :: stk) σ1
    simp only [rangeOver] at he
    cases hg : getIterS cv with
    | error e =>
      simp only [hg] at he; cases he
      exact Post.fail Pc (by rw [hstep]; simp [execIns, hg])
    | ok it =>
      simp only [hg] at he
      have s1 : step code ⟨pc + size rng c, cv :: stk, σ1⟩ = .ok ⟨pc + size rng c + 1, it :: stk, σ1⟩ := by
        rw [hstep]; simp [execIns, hg]
      have pre := Pc.snoc s1
      have hst : ∀ vals it σ, vals.length = names.length →
          Steps code ⟨pc + size rng c + 1 + 3, vals ++ it :: stk, σ⟩
            ⟨pc + size rng c + 1 + 3 + 2 * names.length, it :: stk, bindAll names vals σ⟩ :=
        fun vals it σ hl => stores_steps names vals _ (it :: stk) σ hl hsts
      have HB : ∀ it σ r σ1, rec b σ = (r, σ1) →
          RBodyTo code ⟨pc + size rng c + 1 + 3 + 2 * names.length, it :: stk, σ⟩
            (pc + size rng c + 1 + 3 + 2 * names.length + size true b + 1)
            (pc + size rng c + 1 + (3 + 2 * names.length + size true b + 3)) it stk r σ1 := by
        intro it σ r σ1 h
        have P := ih b hwb 3 1 true _ (it :: stk) σ _ _ hatb h
        cases r with
        | val v =>
          have s1 : step code ⟨pc + size rng c + 1 + 3 + 2 * names.length + size true b, v :: it :: stk, σ1⟩
              = .ok ⟨pc + size rng c + 1 + 3 + 2 * names.length + size true b + 1, it :: stk, σ1⟩ := by
            rw [step_of hpop]; rfl
          exact P.val_steps.snoc s1
        | unit => have := P.1; simp only [Shape] at this; rw [isBlock_not_unit hbb] at this; cases this
        | brk => exact (P.2 stk ⟨it, rfl⟩).cast (by omega)
        | cont => exact P.2
        | err c => exact P.2
        | oof => trivial
      have hjb' : ∀ it σ, Steps code ⟨pc + size rng c + 1 + 3 + 2 * names.length + size true b + 1, it :: stk, σ⟩
          ⟨pc + size rng c + 1, it :: stk, σ⟩ := by
        intro it σ
        have s1 : step code ⟨pc + size rng c + 1 + 3 + 2 * names.length + size true b + 1, it :: stk, σ⟩
            = .ok ⟨pc + size rng c + 1 + 3 + 2 * names.length + size true b + 1
                - (3 + 2 * names.length + size true b + 1), it :: stk, σ⟩ := by
          rw [step_of hjb]; rfl
        exact (Steps.one s1).cast (by omega)
      have R := range_sim hfi rfl hlenv hst HB hjb' fuel it σ1 res σ' (getIterS_isIter hg) he
      apply Post.of_loop hun
      rw [hsize]
      refine ⟨R.1, ?_⟩
      have e : pc + size rng c + 1 + (3 + 2 * names.length + size true b + 3)
          = pc + (size rng c + 1 + 3 + 2 * names.length + size true b + 3) := by omega
      rw [← e]
      have R2 := R.2
      cases res with
      | val u => exact absurd rfl (R.1 u)
      | unit => exact pre.trans R2
      | brk => exact R2
      | cont => exact R2
      | err c => exact Fails.pre pre R2
      | oof => trivial
  · exact Post.propagate (.refl _) (ih c hwc 0 0 _ pc stk σ _ _ hatc hx) hnv (isE_not_unit hec) hxc

theorem rngNames_pushKV (k v : String) (key value : SVal) (vals : List SVal)
    (h : pushKV (rngNames k v).length key value = some vals) : vals.length = (rngNames k v).length := by
  unfold rngNames at *
  by_cases hk : (k == "") = true <;> by_cases hv : (v == "") = true <;>
    simp [hk, hv, pushKV] at h ⊢ <;> subst h <;> rfl

theorem sim_forrange (ih : IH code rec) (k v : String) (c b : N)
    (hwf : wf (.forrange k v c b) = true) (pc : Nat) (stk : List SVal) (σ : St) (res : Out) (σ' : St)
    (hat : CodeAt code pc (comp kb kc rng (.forrange k v c b))) (he : evNode fuel rec (.forrange k v c b) σ = (res, σ')) :
    Post code kb kc rng (.forrange k v c b) pc stk σ res σ' := by
  simp only [wf, Bool.and_eq_true, Bool.not_eq_true'] at hwf
  obtain ⟨⟨⟨⟨hec, hbb⟩, hxc⟩, hwc⟩, hwb⟩ := hwf
  exact sim_rangeloop ih _ c b (rngNames k v) (rngNames k v).length (by simp only [comp]) (by simp [size]) rfl
    (rngNames_pushKV k v) hec hbb hxc hwc hwb pc stk σ res σ' hat (by simpa only [evNode] using he)

theorem sim_forin (ih : IH code rec) (v : String) (c b : N)
    (hwf : wf (.forin v c b) = true) (pc : Nat) (stk : List SVal) (σ : St) (res : Out) (σ' : St)
    (hat : CodeAt code pc (comp kb kc rng (.forin v c b))) (he : evNode fuel rec (.forin v c b) σ = (res, σ')) :
    Post code kb kc rng (.forin v c b) pc stk σ res σ' := by
  simp only [wf, Bool.and_eq_true, Bool.not_eq_true'] at hwf
  obtain ⟨⟨⟨⟨hec, hbb⟩, hxc⟩, hwc⟩, hwb⟩ := hwf
  exact sim_rangeloop ih _ c b [v] 3 (by simp only [comp]; rfl) (by simp [size]) rfl
    (by intro key value vals h; simp [pushKV] at h; subst h; rfl) hec hbb hxc hwc hwb pc stk σ res σ' hat
    (by simpa only [evNode] using he)

/-- every node form of the fragment: if the sub-nodes are simulated, so is the node -/
theorem evNode_sim (ih : IH code rec) (fuel : Nat) : IH code (evNode fuel rec) := by
  intro n hwf kb kc rng pc stk σ r σ' hat he
  cases n with
  | nilLit => exact sim_leaf _ .nil_ .nil 1 pc stk σ r σ' rfl (CodeAt.one hat) rfl rfl (by simpa [evNode] using he)
  | none_ => exact sim_leaf _ .nil_ .nil 1 pc stk σ r σ' rfl (CodeAt.one hat) rfl rfl (by simpa [evNode] using he)
  | nilL => exact sim_leaf _ .nil_ .nil 1 pc stk σ r σ' rfl (CodeAt.one hat) rfl rfl (by simpa [evNode] using he)
  | int i => exact sim_leaf _ (.constInt i) (.int i) 2 pc stk σ r σ' rfl (CodeAt.two hat) rfl rfl (by simpa [evNode] using he)
  | str s => exact sim_leaf _ (.constStr s) (.str s) 2 pc stk σ r σ' rfl (CodeAt.two hat) rfl rfl (by simpa [evNode] using he)
  | id x => exact sim_leaf _ (.loadG x) (σ.get x) 2 pc stk σ r σ' rfl (CodeAt.two hat) rfl rfl (by simpa [evNode] using he)
  | bool b =>
    exact sim_leaf _ (if b then .true_ else .false_) (.bool b) 1 pc stk σ r σ' rfl (CodeAt.one hat) rfl
      (by cases b <;> rfl) (by simpa [evNode] using he)
  | «infix» op l r =>
    by_cases hand : op = .and
    · subst hand; exact sim_and ih l r hwf pc stk σ _ σ' hat he
    · by_cases hor : op = .or
      · subst hor; exact sim_or ih l r hwf pc stk σ _ σ' hat he
      · exact sim_infix ih op l r hand hor hwf pc stk σ _ σ' hat he
  | neg e => exact sim_neg ih e hwf pc stk σ r σ' hat he
  | not e => exact sim_not ih e hwf pc stk σ r σ' hat he
  | tern c a b =>
    simp only [wf, Bool.and_eq_true, Bool.not_eq_true'] at hwf
    obtain ⟨⟨⟨⟨⟨⟨⟨⟨hec, hea⟩, heb⟩, hxc⟩, _⟩, _⟩, hwc⟩, hwa⟩, hwb⟩ := hwf
    exact sim_cond ih _ c a b (by simp only [comp]) (by simp [size]) rfl (by simp [escapes]) hwc hwa hwb
      (isE_not_unit hec) (isE_not_unit hea) (isE_not_unit heb) hxc pc stk σ r σ' hat (by simpa only [evNode] using he)
  | if_ c t e =>
    simp only [wf, Bool.and_eq_true, Bool.not_eq_true'] at hwf
    obtain ⟨⟨⟨⟨⟨⟨hec, hbt⟩, hee⟩, hxc⟩, hwc⟩, hwt⟩, hwe⟩ := hwf
    exact sim_cond ih _ c t e (by simp only [comp]) (by simp [size]) rfl (by simp [escapes]) hwc hwt hwe
      (isE_not_unit hec) (isBlock_not_unit hbt) (isElse_not_unit hee) hxc pc stk σ r σ' hat
      (by simpa only [evNode] using he)
  | block s =>
    simp only [wf, Bool.and_eq_true] at hwf
    simp only [comp] at hat
    simp only [evNode] at he
    exact Post.congr (by simp [size]) (by rw [isL_not_unit hwf.1]; rfl) (by simp [escapes])
      (ih s hwf.2 kb kc rng pc stk σ r σ' hat he)
  | prog s =>
    simp only [wf, Bool.and_eq_true] at hwf
    simp only [comp] at hat
    simp only [evNode] at he
    exact Post.congr (by simp [size]) (by rw [isL_not_unit hwf.1.1]; rfl) (by simp [escapes])
      (ih s hwf.2 kb kc rng pc stk σ r σ' hat he)
  | expr e =>
    simp only [wf, Bool.and_eq_true] at hwf
    simp only [comp] at hat
    simp only [evNode] at he
    exact Post.congr (by simp [size]) (by rw [isE_not_unit hwf.1]; rfl) (by simp [escapes])
      (ih e hwf.2 kb kc rng pc stk σ r σ' hat he)
  | cons h t => exact sim_cons ih h t hwf pc stk σ r σ' hat he
  | var x e => exact sim_var ih x e hwf pc stk σ r σ' hat he
  | assign x op e => exact sim_assign ih x op e hwf pc stk σ r σ' hat he
  | «postfix» x inc => exact sim_postfix x inc pc stk σ r σ' hat he
  | break_ => exact sim_ctl true pc stk σ r σ' hat (by simpa [evNode] using he)
  | continue_ => exact sim_ctl false pc stk σ r σ' hat (by simpa [evNode] using he)
  | forcond c b => exact sim_forcond ih c b hwf pc stk σ r σ' hat he
  | forever b => exact sim_forever ih b hwf pc stk σ r σ' hat he
  | for3 i c p b => exact sim_for3 ih i c p b hwf pc stk σ r σ' hat he
  | switch subj cases => exact sim_switch ih subj cases hwf pc stk σ r σ' hat he
  | map items => exact sim_map ih items hwf pc stk σ r σ' hat he
  | in_ x c => exact sim_in ih x c hwf pc stk σ r σ' hat he
  | notin x c => exact sim_notin ih x c hwf pc stk σ r σ' hat he
  | index e i => exact sim_index ih e i hwf pc stk σ r σ' hat he
  | setitem op o i v => exact sim_setitem ih op o i v hwf pc stk σ r σ' hat he
  | forrange k v c b => exact sim_forrange ih k v c b hwf pc stk σ r σ' hat he
  | forin v c b => exact sim_forin ih v c b hwf pc stk σ r σ' hat he
  | _ => simp [wf] at hwf

/-- the simulation, for every fuel: induction on fuel only (each node evaluates its sub-nodes
    with one unit of fuel less; loops iterate inside `loop_sim`) -/
theorem ev_sim (code : Code) : ∀ f, IH code (ev f)
  | 0 => by
    intro n _ kb kc rng pc stk σ r σ' _ he
    simp only [ev] at he; cases he
    exact ⟨trivial, trivial⟩
  | f + 1 => by
    intro n hwf kb kc rng pc stk σ r σ' hat he
    exact evNode_sim (ev_sim code f) f n hwf kb kc rng pc stk σ r σ' hat he

/-! ### from `Steps` to the fuel-indexed `run` -/

theorem run_of_steps {code : Code} {a b : Cfg} (h : Steps code a b) :
    ∃ n, ∀ k, run code (n + k) a = run code k b := by
  induction h with
  | refl c => exact ⟨0, fun k => by rw [Nat.zero_add]⟩
  | cons hs _ ih =>
    obtain ⟨n, hn⟩ := ih
    refine ⟨n + 1, fun k => ?_⟩
    have : n + 1 + k = (n + k) + 1 := by omega
    rw [this, run, hs]
    exact hn k

/-- once the VM has halted, more fuel does not change the outcome -/
theorem run_mono {code : Code} : ∀ (k : Nat) (c : Cfg) (res : RunRes) (σ : St),
    run code k c = (res, σ) → res ≠ .running → run code (k + 1) c = (res, σ)
  | 0, c, res, σ, h, hr => by simp only [run] at h; cases h; exact absurd rfl hr
  | k + 1, c, res, σ, h, hr => by
    rw [run] at h ⊢
    cases hs : step code c with
    | ok c' => rw [hs] at h; simp only at h ⊢; exact run_mono k c' res σ h hr
    | error e => rw [hs] at h; cases e <;> exact h

/-! ### map objects: lookups after writes (helpers of StrProps.lean) -/

theorem mapGet_mapSet (m : MapObj) (k : String) (v : SVal) (k' : String) :
    mapGet (mapSet m k v) k' = if k' = k then some v else mapGet m k' := by
  induction m with
  | nil =>
    by_cases h : k' = k
    · simp [mapSet, mapGet, h]
    · simp [mapSet, mapGet, h]
  | cons e r ih =>
    obtain ⟨k0, v0⟩ := e
    by_cases h0 : k = k0
    · subst h0
      by_cases h : k' = k
      · simp [mapSet, mapGet, h]
      · simp [mapSet, mapGet, h]
    · by_cases h : k' = k
      · subst h
        simp [mapSet, mapGet, h0, ih]
      · by_cases h1 : k' = k0
        · subst h1
          simp [mapSet, mapGet, h0, h]
        · simp [mapSet, mapGet, h0, h1, h, ih]

/-- the object `BuildMap` makes maps every key to the value of the FIRST pair with that key -/
theorem mapGet_buildMapObj (ps : List (String × SVal)) (k : String) :
    mapGet (buildMapObj ps) k = ps.lookup k := by
  induction ps with
  | nil => rfl
  | cons e r ih =>
    obtain ⟨k0, v0⟩ := e
    show mapGet (mapSet (buildMapObj r) k0 v0) k = _
    rw [mapGet_mapSet, List.lookup_cons]
    by_cases h : k = k0
    · simp [h]
    · have hb : (k == k0) = false := by simpa using h
      simp [h, hb, ih]

theorem items_write_same (σ : St) (a : Nat) (l : MapObj) (ha : a < σ.h.length) : (σ.write a l).items a = l := by
  simp [St.write, St.items, List.getD, ha]

theorem items_write_other (σ : St) (a b : Nat) (l : MapObj) (hab : b ≠ a) : (σ.write a l).items b = σ.items b := by
  simp only [St.write, St.items, List.getD]
  rw [List.getElem?_set_ne (by omega)]

end Risor.C01.Str
