import RisorModel.C01.FragLemmas
/-!
C01 — COMPILER CORRECTNESS for the fragment `inFrag` (Frag.lean), proved for ALL programs of
the fragment and ALL fuel (no bound on size, depth or iteration count).

Fragment F1 (`wf`): literals (int, bool, nil, string), global identifiers, the infix operators
`+ - * / % < <= > >= == !=` on every value including their error outcomes (type error,
division by zero = "panic"), short-circuit `&&` and `||` in risor's lowering
(`a; Copy 0; PopJumpForwardIf…; b; BinaryOp And/Or; Nop`), unary `-` and `!`, the ternary,
`if` / `else if` / `else` expressions with block bodies (an absent else pushes nil),
`x := e`, `x = e`, `x += e` (`-= *= /=`), `x++` / `x--` (with the `LoadGlobal x; PopTop` pair
the parser's reading of a postfix statement produces), expression statements, statement lists
(`PopTop` after a non-last expression statement, `Nil` after a last non-expression
statement, `Nil` for the empty list), `for c { }`, `for { }` and `for init; c; post { }`.
Fragment F2 adds `break` and `continue` (jump operands = the closed form of the compiler's
placeholder patching) wherever no operand is pending on the stack: as statements of a loop
body and of the blocks of `if`s nested to any depth in statement position; the guard
`escapes … = false` on operands, conditions, right-hand sides and the loop header excludes
exactly the programs of C04's finding `ctl-under-operands` (a `break` under pending operands).
Fragment F3 adds `switch` expressions in risor's two-section lowering (subject; for every case
value `Copy 0; v; CompareOp ==; PopJumpForwardIfTrue → body`; `JumpForward → default`; every
body followed by `JumpForward → end`; the default's body or `Nil`; `Swap 1; PopTop` dropping
the subject), cases with several values, a default clause anywhere in the list or absent; no
break/continue may leave a switch (that needs the `pendingSwitchValues` pops).
Not in the fragment: functions, calls, containers, string templates, range loops.

What is PROVED here relates the three definitions of Frag.lean (`evalF`, `compF`, `runF`).
What ties them to the Go code is checked by correspondence on every run (harness/c01frag.go):
`compF` = real bytecode = `Compile.lean`; `evalF` = `Sem.lean` = real result;
`runF ∘ compF` = `VM.lean` = real result.

Technique: forward simulation over `CodeAt code pc fragment` (every risor jump is relative,
so a compiled fragment runs the same at any offset of any enclosing code); induction on fuel
(`ev_sim`), each node form by its own lemma (`sim_*`), loops by induction on the iteration
bound (`loop_sim`).
-/
namespace Risor.C01.Frag
open Risor.C01

/-- **Simulation, at full strength.**  For every well-formed node `n` of the fragment (an
    expression, a statement, a block, a statement list, a program), every enclosing code in
    which the code of `n` sits at offset `pc` — compiled for an enclosing loop whose `break`
    target lies `kb` and whose `continue` target lies `kc` slots after the end of `n` —, every
    operand stack `stk`, every store `σ` and every fuel: if the reference semantics gives `r`
    with final store `σ'` then
    * `r = val v`  — `n` is not a unit statement and the VM runs from `(pc, stk, σ)` to
      `(pc + size n, v :: stk, σ')`;
    * `r = unit`   — `n` is a unit statement (`:=`, assignment, `++`, a loop) and the VM runs
      to `(pc + size n, stk, σ')`;
    * `r = brk` / `cont` — a break/continue can escape `n`, and the VM runs to the loop's
      break / continue target with the stack `stk` it started with;
    * `r = err c`  — the VM reaches a configuration with store `σ'` whose next step raises
      the error class `c`;
    * `r = oof` (the reference semantics ran out of fuel) — nothing is claimed. -/
theorem frag_simulation (code : Code) (f : Nat) (n : N) (hwf : wf n = true) (kb kc : Nat)
    (pc : Nat) (stk : List FVal) (σ : Store) (r : Out) (σ' : Store)
    (hat : CodeAt code pc (comp kb kc n)) (he : ev f n σ = (r, σ')) :
    (match r with
     | .val v => isUnitNode n = false ∧ Steps code ⟨pc, stk, σ⟩ ⟨pc + size n, v :: stk, σ'⟩
     | .unit => isUnitNode n = true ∧ Steps code ⟨pc, stk, σ⟩ ⟨pc + size n, stk, σ'⟩
     | .brk => escapes n = true ∧ Steps code ⟨pc, stk, σ⟩ ⟨pc + size n + kb, stk, σ'⟩
     | .cont => escapes n = true ∧ Steps code ⟨pc, stk, σ⟩ ⟨pc + size n + kc, stk, σ'⟩
     | .err c => ∃ c1, Steps code ⟨pc, stk, σ⟩ c1 ∧ c1.σ = σ' ∧ step code c1 = .error (.err c)
     | .oof => True) := by
  have P := ev_sim code f n hwf kb kc pc stk σ r σ' hat he
  cases r with
  | val v => exact ⟨P.1, P.2⟩
  | unit => exact ⟨P.1, P.2⟩
  | brk => exact ⟨P.1, P.2⟩
  | cont => exact ⟨P.1, P.2⟩
  | err c => exact P.2
  | oof => trivial

/-- the length of a node's code is `size`, wherever the loop targets are -/
theorem frag_code_length (n : N) (kb kc : Nat) : (comp kb kc n).length = size n := comp_length n kb kc

/-- **Compiler correctness for the fragment** (the property C01 on `inFrag`): for every
    program `p` of the fragment and every fuel, if the reference semantics ends (anything but
    out-of-fuel) then it ends with a value or an error — never with a stray break/continue —
    and there is a fuel for which the VM, run on the compiled code from the empty stack and
    store, halts with the SAME value (resp. the SAME error class) and the SAME final store. -/
theorem frag_compile_correct (p : N) (hp : inFrag p = true) (fuel : Nat) (r : Out) (σ' : Store)
    (he : evalF fuel p = (r, σ')) (hr : r ≠ .oof) :
    (∃ v, r = .val v ∧ ∃ fuel', runF fuel' (compF p) = (.done v, σ')) ∨
    (∃ c, r = .err c ∧ ∃ fuel', runF fuel' (compF p) = (.err c, σ')) := by
  have hwf : wf p = true ∧ isUnitNode p = false ∧ escapes p = false := by
    cases p <;> simp_all [inFrag, isUnitNode, wf, escapes]
  have P := ev_sim (compF p) fuel p hwf.1 0 0 0 [] [] r σ' (CodeAt.self _) he
  cases r with
  | oof => exact absurd rfl hr
  | unit => have := P.1; simp only [Shape] at this; rw [hwf.2.1] at this; cases this
  | brk => have := P.1; simp only [Shape] at this; rw [hwf.2.2] at this; cases this
  | cont => have := P.1; simp only [Shape] at this; rw [hwf.2.2] at this; cases this
  | val v =>
    obtain ⟨n, hn⟩ := run_of_steps P.val_steps
    refine .inl ⟨v, rfl, n + 1, ?_⟩
    show run (compF p) (n + 1) ⟨0, [], []⟩ = _
    rw [hn 1]
    simp [run, step, compF, comp_length]
  | err c =>
    obtain ⟨c1, hs, hσ, hst⟩ := P.2
    obtain ⟨n, hn⟩ := run_of_steps hs
    refine .inr ⟨c, rfl, n + 1, ?_⟩
    show run (compF p) (n + 1) ⟨0, [], []⟩ = _
    rw [hn 1]
    simp [run, hst, hσ]

/-- the same statement through `Out.toRun` (value ↦ done, error ↦ the same error) -/
theorem frag_compile_correct_toRun (p : N) (hp : inFrag p = true) (fuel : Nat) (r : Out) (σ' : Store)
    (he : evalF fuel p = (r, σ')) (hr : r ≠ .oof) :
    ∃ fuel', runF fuel' (compF p) = (r.toRun, σ') := by
  rcases frag_compile_correct p hp fuel r σ' he hr with ⟨v, rfl, k, hk⟩ | ⟨c, rfl, k, hk⟩
  · exact ⟨k, hk⟩
  · exact ⟨k, hk⟩

/-- the outcome found by `frag_compile_correct` is THE outcome of the VM: every larger fuel
    gives the same halted result (the VM is deterministic and stays halted) -/
theorem frag_run_stable (code : Code) (k j : Nat) (res : RunRes) (σ : Store)
    (h : runF k code = (res, σ)) (hr : res ≠ .running) : runF (k + j) code = (res, σ) := by
  induction j with
  | zero => exact h
  | succ j ih => exact run_mono (k + j) _ res σ ih hr

/-- **An expression pushes exactly one value.**  Any node of the fragment that is not a unit
    statement (an expression, an expression statement, a block, a statement list), compiled
    anywhere, started on any operand stack `stk`: when the reference semantics gives the
    value `v`, the VM ends exactly at the end of the node's code with `v` pushed on an
    otherwise untouched `stk`. -/
theorem frag_expr_pushes_one (code : Code) (f : Nat) (n : N) (hwf : wf n = true) (kb kc : Nat)
    (pc : Nat) (stk : List FVal) (σ σ' : Store) (v : FVal)
    (hat : CodeAt code pc (comp kb kc n)) (he : ev f n σ = (.val v, σ')) :
    Steps code ⟨pc, stk, σ⟩ ⟨pc + (comp kb kc n).length, v :: stk, σ'⟩ := by
  rw [comp_length]
  exact (ev_sim code f n hwf kb kc pc stk σ _ σ' hat he).val_steps

/-- what `compileStmts` emits for a statement that is not the last of its list: the
    statement's code, and `PopTop` when it leaves a value (an expression statement) -/
def stmtCode (kb kc : Nat) (h : N) : Code :=
  pre h ++ comp (kb + (if leaves h then 1 else 0)) (kc + (if leaves h then 1 else 0)) h
    ++ (if leaves h then one .popTop else [])

/-- **Statements are stack-neutral** (C04's property, for the fragment).  Every statement of
    the fragment (`:=`, assignments, `++`, expression statements, `break`, `continue`, the
    three loop forms — with arbitrarily nested bodies), compiled anywhere as `compileStmts`
    compiles a statement, started on any operand stack `stk`: however it ends — completing
    (with `unit` or with a value), or leaving through a `break` / `continue` towards the
    enclosing loop's target — the operand stack is exactly `stk` again. -/
theorem frag_stmt_neutral (code : Code) (f : Nat) (h : N) (hwf : wf h = true) (hs : isS h = true)
    (kb kc : Nat) (pc : Nat) (stk : List FVal) (σ σ' : Store) (r : Out)
    (hat : CodeAt code pc (stmtCode kb kc h)) (he : ev f h σ = (r, σ')) :
    (match r with
     | .val _ => Steps code ⟨pc, stk, σ⟩ ⟨pc + (stmtCode kb kc h).length, stk, σ'⟩
     | .unit => Steps code ⟨pc, stk, σ⟩ ⟨pc + (stmtCode kb kc h).length, stk, σ'⟩
     | .brk => Steps code ⟨pc, stk, σ⟩ ⟨pc + (stmtCode kb kc h).length + kb, stk, σ'⟩
     | .cont => Steps code ⟨pc, stk, σ⟩ ⟨pc + (stmtCode kb kc h).length + kc, stk, σ'⟩
     | _ => True) := by
  unfold stmtCode at hat ⊢
  have hpre := pre_steps h pc stk σ hat.append_left.append_left
  have hath := hat.append_left.append_right
  have htail := hat.append_right
  simp only [List.length_append, pre_length, comp_length] at hath htail ⊢
  simp only [isS, Bool.or_eq_true] at hs
  cases hl : leaves h with
  | false =>
    simp only [hl, Bool.false_eq_true, ↓reduceIte, Nat.add_zero, List.length_nil] at hath ⊢
    have P := ev_sim code f h hwf kb kc _ stk σ r σ' hath he
    cases r with
    | val v =>
      rcases hs with hu | hl'
      · have := P.1; simp only [Shape] at this; rw [hu] at this; cases this
      · rw [hl] at hl'; cases hl'
    | unit => exact (hpre.trans P.unit_steps).cast (by omega)
    | brk => exact (hpre.trans P.2).cast (by omega)
    | cont => exact (hpre.trans P.2).cast (by omega)
    | err c => trivial
    | oof => trivial
  | true =>
    simp only [hl, ↓reduceIte, one_length] at hath htail ⊢
    have P := ev_sim code f h hwf (kb + 1) (kc + 1) _ stk σ r σ' hath he
    have hpop := CodeAt.one htail
    cases r with
    | val v =>
      have s1 : step code ⟨pc + (preLen h + size h), v :: stk, σ'⟩
          = .ok ⟨pc + (preLen h + size h) + 1, stk, σ'⟩ := by
        rw [step_of hpop]; rfl
      exact ((hpre.trans (P.val_steps.cast (by omega))).snoc s1).cast (by omega)
    | unit => have := unit_not_leaves (P.1 : isUnitNode h = true); rw [hl] at this; cases this
    | brk => exact (hpre.trans P.2).cast (by omega)
    | cont => exact (hpre.trans P.2).cast (by omega)
    | err c => trivial
    | oof => trivial

/-! ### non-vacuity -/

/-- `s := 0; i := 0; for i < 5 { s += i; i++ }; s` -/
def exLoop : N :=
  .prog (.cons (.var "s" (.int 0)) (.cons (.var "i" (.int 0))
    (.cons (.forcond (.infix .lt (.id "i") (.int 5))
      (.block (.cons (.assign "s" .add (.id "i")) (.cons (.postfix "i" true) .nilL))))
    (.cons (.expr (.id "s")) .nilL))))

/-- `t := 0; for k := 0; k < 3; k++ { t = t + 10 / (2 - k) }` divides by zero in the third round -/
def exPanic : N :=
  .prog (.cons (.var "t" (.int 0))
    (.cons (.for3 (.var "k" (.int 0)) (.infix .lt (.id "k") (.int 3)) (.postfix "k" true)
      (.block (.cons (.assign "t" .set (.infix .add (.id "t") (.infix .div (.int 10) (.infix .sub (.int 2) (.id "k"))))) .nilL)))
    .nilL))

/-- `n := 0; i := 0; for { i++; if i > 6 { break }; if i % 2 == 0 { continue }; n += i }; n`
    (1 + 3 + 5 = 9) -/
def exCtl : N :=
  .prog (.cons (.var "n" (.int 0)) (.cons (.var "i" (.int 0))
    (.cons (.forever (.block
      (.cons (.postfix "i" true)
      (.cons (.expr (.if_ (.infix .gt (.id "i") (.int 6)) (.block (.cons .break_ .nilL)) .none_))
      (.cons (.expr (.if_ (.infix .eq (.infix .mod (.id "i") (.int 2)) (.int 0)) (.block (.cons .continue_ .nilL)) .none_))
      (.cons (.assign "n" .add (.id "i")) .nilL))))))
    (.cons (.expr (.id "n")) .nilL))))

/-- a break under a pending operand (`x = 1 + if … { break }`) is outside the fragment -/
def exUnder : N :=
  .prog (.cons (.var "x" (.int 0))
    (.cons (.forever (.block (.cons (.assign "x" .set (.infix .add (.int 1)
      (.if_ (.bool true) (.block (.cons .break_ .nilL)) .none_))) .nilL))) .nilL))

/-- `k := 0; for i := 0; i < 4; i++ { k = k * 10 + switch i { case 0, 2: 1  default: 7  case 3: 5 } }; k`
    (1, 7, 1, 5 → 1715) -/
def exSwitch : N :=
  .prog (.cons (.var "k" (.int 0))
    (.cons (.for3 (.var "i" (.int 0)) (.infix .lt (.id "i") (.int 4)) (.postfix "i" true)
      (.block (.cons (.assign "k" .set (.infix .add (.infix .mul (.id "k") (.int 10))
        (.switch (.id "i")
          (.cons (.case_ (.cons (.int 0) (.cons (.int 2) .nilL)) (.block (.cons (.expr (.int 1)) .nilL)))
          (.cons (.default_ (.block (.cons (.expr (.int 7)) .nilL)))
          (.cons (.case_ (.cons (.int 3) .nilL) (.block (.cons (.expr (.int 5)) .nilL))) .nilL)))))) .nilL)))
    (.cons (.expr (.id "k")) .nilL)))

example : inFrag exLoop = true := by decide
example : inFrag exSwitch = true := by decide
example : (evalF 30 exSwitch).1 = .val (.int 1715) := by decide
example : (runF 600 (compF exSwitch)).1 = .done (.int 1715) := by decide
example : (runF 600 (compF exSwitch)).2 = (evalF 30 exSwitch).2 := by decide
example : inFrag exCtl = true := by decide
example : inFrag exUnder = false := by decide
example : (evalF 30 exCtl).1 = .val (.int 9) := by decide
example : (runF 400 (compF exCtl)).1 = .done (.int 9) := by decide
example : (runF 400 (compF exCtl)).2 = (evalF 30 exCtl).2 := by decide
example : inFrag exPanic = true := by decide
-- the looping program evaluates to 10 and its compiled code runs to 10 with the same store
example : (evalF 20 exLoop).1 = .val (.int 10) := by decide
example : (runF 200 (compF exLoop)).1 = .done (.int 10) := by decide
example : (runF 200 (compF exLoop)).2 = (evalF 20 exLoop).2 := by decide
example : ((evalF 20 exLoop).2.get "s", (evalF 20 exLoop).2.get "i") = (.int 10, .int 5) := by decide
-- the error outcome: same class, same store (t = 15 after two rounds)
example : (evalF 20 exPanic).1 = .err "panic" := by decide
example : (runF 200 (compF exPanic)).1 = .err "panic" := by decide
example : (runF 200 (compF exPanic)).2 = (evalF 20 exPanic).2 := by decide
example : (evalF 20 exPanic).2.get "t" = .int 15 := by decide
-- the hypotheses of `frag_compile_correct` are satisfiable and its conclusion is the concrete run
example : ∃ fuel', runF fuel' (compF exLoop) = (.done (.int 10), (evalF 20 exLoop).2) := by
  exact frag_compile_correct_toRun exLoop (by decide) 20 (.val (.int 10)) (evalF 20 exLoop).2 (by decide) (by decide)

end Risor.C01.Frag
