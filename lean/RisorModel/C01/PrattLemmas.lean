import RisorModel.C01.Pratt
/-!
Helper lemmas for the Pratt round trip (PrattProps.lean).  Structure, following the feasibility
sketch: `Cont t p toks e rest` says that `parseNode`, given enough fuel, consumes `toks` up to
`rest`, has `e` as the left operand at that point and continues with the infix loop at level
`p`; the main invariant `Inv e` states `Cont` for the rendering of `e` in every context.
-/
namespace Risor.C01.Pratt

/-! ### table facts -/

theorem prec_opKind_ge (op : BinOp) : 3 ≤ prec (opKind op) := by cases op <;> decide
theorem prec_opKind_le (op : BinOp) : prec (opKind op) ≤ 12 := by cases op <;> decide
theorem infixFn_opKind (op : BinOp) : infixFn (opKind op) = some .parseInfixExpr := by
  cases op <;> rfl
theorem binOpOfKind_opKind (op : BinOp) : binOpOfKind (opKind op) = some op := by
  cases op <;> rfl
theorem tk_kind (k : Kind) : (tk k).kind = k := rfl

/-- every token with an infix function has a table entry above LOWEST -/
theorem prec_ge_two_of_infix (k : Kind) : (infixFn k).isSome = true → 2 ≤ prec k := by
  cases k <;> decide

theorem litNat_toString (n : Nat) : litNat (toString n) = n := by
  simp [litNat]

/-- token kinds that can begin a rendered expression -/
def startKind : Kind → Bool
  | .INT | .TRUE | .FALSE | .NIL | .STRING | .IDENT | .LPAREN | .LBRACKET | .MINUS | .BANG => true
  | _ => false

/-! ### the infix loop stops on a continuation that does not bind tighter than `p` -/

theorem loop_stop (f : Nat) (t : Bool) (p : Nat) (e : Expr) (rest : List Token)
    (h : firstOp rest ≤ p) : loop (f+1) t p e rest = some (e, rest) := by
  cases rest with
  | nil => simp [loop]
  | cons tok ts =>
    unfold loop
    by_cases hp : p < prec tok.kind
    · cases hi : infixFn tok.kind with
      | none => simp [hp]
      | some fn =>
        simp [firstOp, hi] at h
        omega
    · simp [hp]

/-! ### continuation predicates -/

/-- with enough fuel, `parseNode` on `toks` reaches the infix loop at level `p` with left
    operand `e` and remaining input `rest` -/
def Cont (t : Bool) (p : Nat) (toks : List Token) (e : Expr) (rest : List Token) : Prop :=
  ∃ n m, ∀ f, m ≤ f → parseNode (f + n) t p toks = loop f t p e rest

/-- with enough fuel, `parseNode` on `toks` returns exactly `e` and leaves `rest` -/
def Done (t : Bool) (p : Nat) (toks : List Token) (e : Expr) (rest : List Token) : Prop :=
  ∃ N, ∀ F, N ≤ F → parseNode F t p toks = some (e, rest)

theorem Cont.done {t p toks e rest} (h : Cont t p toks e rest) (hs : firstOp rest ≤ p) :
    Done t p toks e rest := by
  obtain ⟨n, m, h⟩ := h
  refine ⟨m + n + 1, fun F hF => ?_⟩
  obtain ⟨g, rfl⟩ : ∃ g, F = (g + 1) + n := ⟨F - n - 1, by omega⟩
  rw [h (g + 1) (by omega)]
  exact loop_stop g t p e rest hs

/-- a left operand followed by one step of the infix loop -/
theorem Cont.step {t p toks l R e' rest'} (hl : Cont t p toks l R)
    (hstep : ∃ N, ∀ f, N ≤ f → loop (f + 1) t p l R = loop f t p e' rest') :
    Cont t p toks e' rest' := by
  obtain ⟨n, m, h⟩ := hl
  obtain ⟨N, hs⟩ := hstep
  refine ⟨n + 1, m + N, fun f hf => ?_⟩
  rw [show f + (n + 1) = (f + 1) + n by omega, h (f + 1) (by omega), hs f (by omega)]

/-- an expression that starts with a prefix function -/
theorem Cont.ofPrefix {t p toks e rest}
    (h : ∃ N, ∀ f, N ≤ f → prefixP f t toks = some (e, rest)) : Cont t p toks e rest := by
  obtain ⟨N, h⟩ := h
  refine ⟨1, N, fun f hf => ?_⟩
  show parseNode (f + 1) t p toks = _
  rw [parseNode, h f hf]

/-! ### the first token of a rendering -/

/-- `toks` begins with a token that can start an expression -/
def Starts (toks : List Token) : Prop := ∃ tok ts, toks = tok :: ts ∧ startKind tok.kind = true

theorem Starts.append {a : List Token} (h : Starts a) (b : List Token) : Starts (a ++ b) := by
  obtain ⟨tok, ts, rfl, hk⟩ := h
  exact ⟨tok, ts ++ b, rfl, hk⟩

theorem Starts.wrap {ok : Bool} {fl : Nat} {g : Nat → List Token} (h : ∀ fl', Starts (g fl')) :
    Starts (wrap ok fl g) := by
  unfold Pratt.wrap
  split
  · exact h fl
  · exact ⟨tk .LPAREN, g Level.LOWEST.num ++ [tk .RPAREN], rfl, rfl⟩

theorem starts_render : ∀ (e : Expr) (q fl : Nat), Starts (render q fl e)
  | .int n, _, _ => ⟨_, [], by rw [render], rfl⟩
  | .bool b, _, _ => by cases b <;> exact ⟨_, [], by rw [render], rfl⟩
  | .nil, _, _ => ⟨_, [], by rw [render], rfl⟩
  | .str s, _, _ => ⟨_, [], by rw [render], rfl⟩
  | .ident x, _, _ => ⟨_, [], by rw [render], rfl⟩
  | .infix op l r, q, fl => by
    rw [render]; exact Starts.wrap fun fl' => by
      simp only [List.append_assoc]; exact (starts_render l _ _).append _
  | .neg e, q, fl => by
    rw [render]; exact Starts.wrap fun fl' => ⟨tk .MINUS, _, rfl, rfl⟩
  | .not e, q, fl => by
    rw [render]; exact Starts.wrap fun fl' => ⟨tk .BANG, _, rfl, rfl⟩
  | .tern c a b, q, fl => by
    rw [render]; exact Starts.wrap fun fl' => by
      simp only [List.append_assoc]; exact (starts_render c _ _).append _
  | .isIn x c, q, fl => by
    rw [render]; exact Starts.wrap fun fl' => by
      simp only [List.append_assoc]; exact (starts_render x _ _).append _
  | .notIn x c, q, fl => by
    rw [render]; exact Starts.wrap fun fl' => by
      simp only [List.append_assoc]; exact (starts_render x _ _).append _
  | .call f args, q, fl => by
    rw [render]; simp only [List.append_assoc]; exact (starts_render f _ _).append _
  | .mcall o name args, q, fl => by
    rw [render]; simp only [List.append_assoc]; exact (starts_render o _ _).append _
  | .index e i, q, fl => by
    rw [render]; simp only [List.append_assoc]; exact (starts_render e _ _).append _
  | .slice e lo hi, q, fl => by
    rw [render]; simp only [List.append_assoc]; exact (starts_render e _ _).append _
  | .list items, q, fl => by
    rw [render]; exact ⟨tk .LBRACKET, renderArgs items ++ [tk .RBRACKET], rfl, rfl⟩

theorem headIs_of_starts {k : Kind} {toks : List Token} (h : Starts toks) (hk : startKind k = false) :
    headIs k toks = false := by
  obtain ⟨tok, ts, rfl, hs⟩ := h
  simp only [headIs, decide_eq_false_iff_not]
  intro heq
  rw [heq, hk] at hs
  cases hs

theorem skipNl_of_starts {toks : List Token} (h : Starts toks) : skipNl toks = toks := by
  obtain ⟨tok, ts, rfl, hs⟩ := h
  have : tok.kind ≠ .NEWLINE := by
    intro heq; rw [heq] at hs; cases hs
  simp [skipNl, this]

theorem headIs_render (k : Kind) (hk : startKind k = false) (q fl : Nat) (e : Expr) (more : List Token) :
    headIs k (render q fl e ++ more) = false :=
  headIs_of_starts ((starts_render e q fl).append more) hk

theorem skipNl_render (q fl : Nat) (e : Expr) (more : List Token) :
    skipNl (render q fl e ++ more) = render q fl e ++ more :=
  skipNl_of_starts ((starts_render e q fl).append more)

/-! ### single steps of the parser on the tokens the printer emits -/

theorem firstOp_cons_noInfix {tok : Token} (rest : List Token) (h : infixFn tok.kind = none) :
    firstOp (tok :: rest) = 1 := by
  simp [firstOp, h, Level.num]

theorem firstOp_cons_infix {tok : Token} (rest : List Token) {fn} (h : infixFn tok.kind = some fn) :
    firstOp (tok :: rest) = prec tok.kind := by
  simp [firstOp, h]

theorem prefixP_paren {g : Nat} {t : Bool} {inner rest : List Token} {e : Expr}
    (h : parseNode g t 1 inner = some (e, tk .RPAREN :: rest)) :
    prefixP (g + 1) t (tk .LPAREN :: inner) = some (e, rest) := by
  have h1 : prefixFn (tk .LPAREN).kind = some .parseGroupedExpr := rfl
  have h2 : isPostfix (tk .LPAREN).kind = false := rfl
  simp only [prefixP, h1, h2, Level.num, h]
  simp [headIs, tk]

theorem prefixP_neg {g : Nat} {t : Bool} {inner rest : List Token} {e : Expr}
    (h : parseNode g t 13 inner = some (e, rest)) :
    prefixP (g + 1) t (tk .MINUS :: inner) = some (.neg e, rest) := by
  have h1 : prefixFn (tk .MINUS).kind = some .parsePrefixExpr := rfl
  have h2 : isPostfix (tk .MINUS).kind = false := rfl
  simp only [prefixP, h1, h2, Level.num, h]
  simp [tk]

theorem prefixP_not {g : Nat} {t : Bool} {inner rest : List Token} {e : Expr}
    (h : parseNode g t 13 inner = some (e, rest)) :
    prefixP (g + 1) t (tk .BANG :: inner) = some (.not e, rest) := by
  have h1 : prefixFn (tk .BANG).kind = some .parsePrefixExpr := rfl
  have h2 : isPostfix (tk .BANG).kind = false := rfl
  simp only [prefixP, h1, h2, Level.num, h]
  simp [tk]

theorem prefixP_list {g : Nat} {t : Bool} {inner rest : List Token} {items : Args}
    (h : exprList g t .RBRACKET inner = some (items, rest)) :
    prefixP (g + 1) t (tk .LBRACKET :: inner) = some (.list items, rest) := by
  have h1 : prefixFn (tk .LBRACKET).kind = some .parseList := rfl
  have h2 : isPostfix (tk .LBRACKET).kind = false := rfl
  simp only [prefixP, h1, h2, h]
  simp

theorem prefixP_int (g : Nat) (t : Bool) (n : Nat) (rest : List Token) :
    prefixP (g + 1) t (⟨.INT, toString n⟩ :: rest) = some (.int n, rest) := by
  have h1 : prefixFn Kind.INT = some .parseInt := rfl
  have h2 : isPostfix Kind.INT = false := rfl
  simp only [prefixP, h1, h2, litNat_toString]
  simp

theorem prefixP_bool (g : Nat) (t : Bool) (b : Bool) (rest : List Token) :
    prefixP (g + 1) t (tk (if b then .TRUE else .FALSE) :: rest) = some (.bool b, rest) := by
  cases b
  · have h1 : prefixFn Kind.FALSE = some .parseBoolean := rfl
    have h2 : isPostfix Kind.FALSE = false := rfl
    simp [prefixP, h1, h2, tk]
  · have h1 : prefixFn Kind.TRUE = some .parseBoolean := rfl
    have h2 : isPostfix Kind.TRUE = false := rfl
    simp [prefixP, h1, h2, tk]

theorem prefixP_nil (g : Nat) (t : Bool) (rest : List Token) :
    prefixP (g + 1) t (tk .NIL :: rest) = some (.nil, rest) := by
  have h1 : prefixFn (tk .NIL).kind = some .parseNil := rfl
  have h2 : isPostfix (tk .NIL).kind = false := rfl
  simp [prefixP, h1, h2]

theorem prefixP_str (g : Nat) (t : Bool) (s : String) (rest : List Token) :
    prefixP (g + 1) t (⟨.STRING, s⟩ :: rest) = some (.str s, rest) := by
  have h1 : prefixFn Kind.STRING = some .parseString := rfl
  have h2 : isPostfix Kind.STRING = false := rfl
  simp [prefixP, h1, h2]

theorem prefixP_ident (g : Nat) (t : Bool) (x : String) (rest : List Token) :
    prefixP (g + 1) t (⟨.IDENT, x⟩ :: rest) = some (.ident x, rest) := by
  have h1 : prefixFn Kind.IDENT = some .parseIdent := rfl
  have h2 : isPostfix Kind.IDENT = false := rfl
  simp [prefixP, h1, h2]

theorem loop_infix {f : Nat} {t : Bool} {p : Nat} {l r : Expr} {op : BinOp} {R rest' : List Token}
    (hp : p < prec (opKind op))
    (h : parseNode f t (prec (opKind op)) (skipNl R) = some (r, rest')) :
    loop (f + 2) t p l (tk (opKind op) :: R) = loop (f + 1) t p (.infix op l r) rest' := by
  have hk : (tk (opKind op)).kind = opKind op := rfl
  simp only [loop, hk, hp, if_true, infixFn_opKind, infixP, binOpOfKind_opKind, h]

theorem loop_tern {f : Nat} {p : Nat} {c a b : Expr} {R1 R2 rest' : List Token}
    (hp : p < 6)
    (ha : parseNode f true 1 R1 = some (a, tk .COLON :: R2))
    (hb : parseNode f true 1 R2 = some (b, rest')) :
    loop (f + 2) false p c (tk .QUESTION :: R1) = loop (f + 1) false p (.tern c a b) rest' := by
  have hk : prec (tk .QUESTION).kind = 6 := rfl
  have hi : infixFn (tk .QUESTION).kind = some .parseTernary := rfl
  have hc : headIs .COLON (tk .COLON :: R2) = true := by simp [headIs, tk]
  simp only [loop, hk, hp, if_true, hi, infixP, Level.num, ha, hc, List.tail_cons, hb]
  simp

theorem loop_in {f : Nat} {t : Bool} {p : Nat} {l r : Expr} {R rest' : List Token}
    (hp : p < 13) (h : parseNode f t 13 R = some (r, rest')) :
    loop (f + 2) t p l (tk .IN :: R) = loop (f + 1) t p (.isIn l r) rest' := by
  have hk : prec (tk .IN).kind = 13 := rfl
  have hi : infixFn (tk .IN).kind = some .parseIn := rfl
  simp only [loop, hk, hp, if_true, hi, infixP, Level.num, h]

theorem loop_notin {f : Nat} {t : Bool} {p : Nat} {l r : Expr} {R rest' : List Token}
    (hp : p < 13) (h : parseNode f t 13 R = some (r, rest')) :
    loop (f + 2) t p l (tk .NOT :: tk .IN :: R) = loop (f + 1) t p (.notIn l r) rest' := by
  have hk : prec (tk .NOT).kind = 13 := rfl
  have hi : infixFn (tk .NOT).kind = some .parseNotIn := rfl
  have hc : headIs .IN (tk .IN :: R) = true := by simp [headIs, tk]
  simp only [loop, hk, hp, if_true, hi, infixP, Level.num, hc, List.tail_cons, h]

theorem loop_call {f : Nat} {t : Bool} {p : Nat} {l : Expr} {args : Args} {R rest' : List Token}
    (hp : p ≤ 13) (h : exprList f t .RPAREN R = some (args, rest')) :
    loop (f + 2) t p l (tk .LPAREN :: R) = loop (f + 1) t p (.call l args) rest' := by
  have hk : prec (tk .LPAREN).kind = 14 := rfl
  have hi : infixFn (tk .LPAREN).kind = some .parseCall := rfl
  have hp' : p < 14 := by omega
  simp only [loop, hk, hp', if_true, hi, infixP, h]

theorem loop_mcall {f : Nat} {t : Bool} {p : Nat} {l : Expr} {name : String} {args : Args}
    {R rest' : List Token}
    (hp : p ≤ 13) (h : exprList f t .RPAREN R = some (args, rest')) :
    loop (f + 2) t p l (tk .PERIOD :: ⟨.IDENT, name⟩ :: tk .LPAREN :: R)
      = loop (f + 1) t p (.mcall l name args) rest' := by
  have hk : prec (tk .PERIOD).kind = 15 := rfl
  have hi : infixFn (tk .PERIOD).kind = some .parseGetAttr := rfl
  have hp' : p < 15 := by omega
  have hc : headIs .LPAREN (tk .LPAREN :: R) = true := by simp [headIs, tk]
  simp only [loop, hk, hp', if_true, hi, infixP, skipNl]
  simp [hc, h]

theorem loop_index {f : Nat} {t : Bool} {p : Nat} {l i : Expr} {R rest' : List Token}
    (hp : p ≤ 13) (hc : headIs .COLON R = false)
    (h : parseNode f t 1 R = some (i, tk .RBRACKET :: rest')) :
    loop (f + 2) t p l (tk .LBRACKET :: R) = loop (f + 1) t p (.index l i) rest' := by
  have hk : prec (tk .LBRACKET).kind = 15 := rfl
  have hi : infixFn (tk .LBRACKET).kind = some .parseIndex := rfl
  have hp' : p < 15 := by omega
  have hb : headIs .RBRACKET (tk .RBRACKET :: rest') = true := by simp [headIs, tk]
  simp only [loop, hk, hp', if_true, hi, infixP, hc, Level.num, h, hb, List.tail_cons]
  simp

theorem sliceTail_none (g : Nat) (t : Bool) (l : Expr) (lo : Opt) (rest' : List Token) :
    sliceTail (g + 1) t l lo (tk .RBRACKET :: rest') = some (.slice l lo .none, rest') := by
  simp [sliceTail, headIs, tk]

theorem sliceTail_some {g : Nat} {t : Bool} {l hi : Expr} {lo : Opt} {R rest' : List Token}
    (hc : headIs .RBRACKET R = false)
    (h : parseNode g t 1 R = some (hi, tk .RBRACKET :: rest')) :
    sliceTail (g + 1) t l lo R = some (.slice l lo (.some hi), rest') := by
  have hb : headIs .RBRACKET (tk .RBRACKET :: rest') = true := by simp [headIs, tk]
  simp only [sliceTail, hc, Level.num, h, hb, List.tail_cons]
  simp

theorem loop_slice_nolo {f : Nat} {t : Bool} {p : Nat} {l e' : Expr} {R rest' : List Token}
    (hp : p ≤ 13) (hs : sliceTail f t l .none R = some (e', rest')) :
    loop (f + 2) t p l (tk .LBRACKET :: tk .COLON :: R) = loop (f + 1) t p e' rest' := by
  have hk : prec (tk .LBRACKET).kind = 15 := rfl
  have hi : infixFn (tk .LBRACKET).kind = some .parseIndex := rfl
  have hp' : p < 15 := by omega
  have hc : headIs .COLON (tk .COLON :: R) = true := by simp [headIs, tk]
  simp only [loop, hk, hp', if_true, hi, infixP, hc, List.tail_cons, hs]

theorem loop_slice_lo {f : Nat} {t : Bool} {p : Nat} {l lo e' : Expr} {R R2 rest' : List Token}
    (hp : p ≤ 13) (hc : headIs .COLON R = false)
    (h : parseNode f t 1 R = some (lo, tk .COLON :: R2))
    (hs : sliceTail f t l (.some lo) R2 = some (e', rest')) :
    loop (f + 2) t p l (tk .LBRACKET :: R) = loop (f + 1) t p e' rest' := by
  have hk : prec (tk .LBRACKET).kind = 15 := rfl
  have hi : infixFn (tk .LBRACKET).kind = some .parseIndex := rfl
  have hp' : p < 15 := by omega
  have hb : headIs .RBRACKET (tk .COLON :: R2) = false := by simp [headIs, tk]
  have hb2 : headIs .COLON (tk .COLON :: R2) = true := by simp [headIs, tk]
  simp only [loop, hk, hp', if_true, hi, infixP, hc, Level.num, h, hb, hb2, List.tail_cons, hs]
  simp

theorem exprList_nil (g : Nat) (t : Bool) (en : Kind) (rest : List Token) :
    exprList (g + 1) t en (tk en :: rest) = some (.nil, rest) := by
  simp [exprList, headIs, tk]

theorem exprList_cons {g : Nat} {t : Bool} {en : Kind} {e : Expr} {es : Args} {R R' rest : List Token}
    (hh : headIs en R = false) (hn : skipNl R = R)
    (h : parseNode g t 1 R = some (e, R')) (ht : listTail g t en R' = some (es, rest)) :
    exprList (g + 1) t en R = some (.cons e es, rest) := by
  simp only [exprList, hh, hn, Level.num, h, ht]
  simp

theorem listTail_nil (g : Nat) (t : Bool) (en : Kind) (rest : List Token)
    (h1 : en ≠ .COMMA) (h2 : en ≠ .NEWLINE) :
    listTail (g + 1) t en (tk en :: rest) = some (.nil, rest) := by
  simp [listTail, headIs, tk, skipNl, h1, h2]

theorem listTail_cons {g : Nat} {t : Bool} {en : Kind} {e : Expr} {es : Args} {R R' rest : List Token}
    (hh : headIs en R = false) (hn : skipNl R = R)
    (h : parseNode g t 1 R = some (e, R')) (ht : listTail g t en R' = some (es, rest)) :
    listTail (g + 1) t en (tk .COMMA :: R) = some (.cons e es, rest) := by
  have hc : headIs .COMMA (tk .COMMA :: R) = true := by simp [headIs, tk]
  simp only [listTail, hc, List.tail_cons, hn, hh, Level.num, h, ht]
  simp

/-! ### the ternary restriction, per constructor -/

theorem okT_infix {t : Bool} {op : BinOp} {l r : Expr} (h : okT t (.infix op l r) = true) :
    okT t l = true ∧ okT t r = true := by
  cases t <;> simpa [okT, noTern, unnested] using h
theorem okT_neg {t : Bool} {e : Expr} (h : okT t (.neg e) = true) : okT t e = true := by
  cases t <;> simpa [okT, noTern, unnested] using h
theorem okT_not {t : Bool} {e : Expr} (h : okT t (.not e) = true) : okT t e = true := by
  cases t <;> simpa [okT, noTern, unnested] using h
theorem okT_tern {t : Bool} {c a b : Expr} (h : okT t (.tern c a b) = true) :
    t = false ∧ okT false c = true ∧ okT true a = true ∧ okT true b = true := by
  cases t
  · simpa [okT, unnested, and_assoc] using h
  · simp [okT, noTern] at h
theorem okT_isIn {t : Bool} {x c : Expr} (h : okT t (.isIn x c) = true) :
    okT t x = true ∧ okT t c = true := by
  cases t <;> simpa [okT, noTern, unnested] using h
theorem okT_notIn {t : Bool} {x c : Expr} (h : okT t (.notIn x c) = true) :
    okT t x = true ∧ okT t c = true := by
  cases t <;> simpa [okT, noTern, unnested] using h
theorem okT_call {t : Bool} {f : Expr} {args : Args} (h : okT t (.call f args) = true) :
    okT t f = true ∧ okTArgs t args = true := by
  cases t <;> simpa [okT, okTArgs, noTern, unnested] using h
theorem okT_mcall {t : Bool} {o : Expr} {name : String} {args : Args}
    (h : okT t (.mcall o name args) = true) : okT t o = true ∧ okTArgs t args = true := by
  cases t <;> simpa [okT, okTArgs, noTern, unnested] using h
theorem okT_index {t : Bool} {e i : Expr} (h : okT t (.index e i) = true) :
    okT t e = true ∧ okT t i = true := by
  cases t <;> simpa [okT, noTern, unnested] using h
theorem okT_slice {t : Bool} {e : Expr} {lo hi : Opt} (h : okT t (.slice e lo hi) = true) :
    okT t e = true ∧ okTOpt t lo = true ∧ okTOpt t hi = true := by
  cases t <;> simpa [okT, okTOpt, noTern, unnested, and_assoc] using h
theorem okT_list {t : Bool} {items : Args} (h : okT t (.list items) = true) :
    okTArgs t items = true := by
  cases t <;> simpa [okT, okTArgs, noTern, unnested] using h
theorem okTArgs_cons {t : Bool} {e : Expr} {es : Args} (h : okTArgs t (.cons e es) = true) :
    okT t e = true ∧ okTArgs t es = true := by
  cases t <;> simpa [okT, okTArgs, noTernArgs, unnestedArgs] using h
theorem okTOpt_some {t : Bool} {e : Expr} (h : okTOpt t (.some e) = true) : okT t e = true := by
  cases t <;> simpa [okT, okTOpt, noTernOpt, unnestedOpt] using h

/-! ### the invariants -/

/-- Main invariant (the sketch's `parse_render_loop`): parsing, at any level `p ≤ q` (and
    `p ≤ PREFIX`, the highest level any parse function passes), the text printed for a position
    of level `q` followed by a token of precedence at most `fl` yields `e` as the left operand
    and continues the infix loop at level `p` with whatever follows. -/
def Inv (e : Expr) : Prop :=
  ∀ (t : Bool) (q fl p : Nat) (rest : List Token),
    okT t e = true → p ≤ q → p ≤ 13 → firstOp rest ≤ fl →
    Cont t p (render q fl e ++ rest) e rest

/-- closing brackets an expression list can end with -/
def Closer (en : Kind) : Prop :=
  startKind en = false ∧ en ≠ .COMMA ∧ en ≠ .NEWLINE ∧ infixFn en = none

def InvTail (a : Args) : Prop :=
  ∀ (t : Bool) (en : Kind) (rest : List Token), okTArgs t a = true → Closer en →
    ∃ N, ∀ F, N ≤ F → listTail F t en (renderTail a ++ tk en :: rest) = some (a, rest)

def InvArgs (a : Args) : Prop :=
  ∀ (t : Bool) (en : Kind) (rest : List Token), okTArgs t a = true → Closer en →
    ∃ N, ∀ F, N ≤ F → exprList F t en (renderArgs a ++ tk en :: rest) = some (a, rest)

def InvOpt : Opt → Prop
  | .none => True
  | .some e => Inv e

/-- an `Inv` instance at LOWEST followed by a token without infix function gives `Done` -/
theorem Inv.doneLowest {e : Expr} (h : Inv e) {t : Bool} (hok : okT t e = true)
    {rest : List Token} (hr : firstOp rest ≤ 1) :
    Done t 1 (render 1 1 e ++ rest) e rest :=
  (h t 1 1 1 rest hok (Nat.le_refl _) (by omega) hr).done hr

/-- From the unparenthesised case to both cases: an operand whose bare form `G fl'` parses at
    every level below its root level `K` (when the follower does not exceed `S`) also parses in
    parentheses at any level. -/
theorem inv_of_wrap {e : Expr} {K S : Nat} {G : Nat → List Token} (hK : 1 < K) (hS : 1 ≤ S)
    (U : ∀ (t : Bool) (p' fl' : Nat) (rest' : List Token), okT t e = true → p' < K → p' ≤ 13 →
      fl' ≤ S → firstOp rest' ≤ fl' → Cont t p' (G fl' ++ rest') e rest')
    (t : Bool) (q fl p : Nat) (rest : List Token) (hok : okT t e = true) (hpq : p ≤ q)
    (hp : p ≤ 13) (hrest : firstOp rest ≤ fl) :
    Cont t p (wrap (decide (q < K) && decide (fl ≤ S)) fl G ++ rest) e rest := by
  by_cases h : q < K ∧ fl ≤ S
  · have hc : (decide (q < K) && decide (fl ≤ S)) = true := by simp [h.1, h.2]
    simp only [wrap, hc, if_true]
    exact U t p fl rest hok (by omega) hp h.2 hrest
  · have hc : (decide (q < K) && decide (fl ≤ S)) = false := by
      cases hd : (decide (q < K) && decide (fl ≤ S))
      · rfl
      · simp only [Bool.and_eq_true, decide_eq_true_eq] at hd; exact absurd hd h
    simp only [wrap, hc, Level.num]
    have hfo : firstOp (tk .RPAREN :: rest) ≤ 1 := Nat.le_of_eq (firstOp_cons_noInfix _ rfl)
    obtain ⟨N, hN⟩ := (U t 1 1 (tk .RPAREN :: rest) hok hK (by omega) hS hfo).done hfo
    apply Cont.ofPrefix
    refine ⟨N + 1, fun f hf => ?_⟩
    obtain ⟨g, rfl⟩ : ∃ g, f = g + 1 := ⟨f - 1, by omega⟩
    have := prefixP_paren (hN g (by omega))
    simpa [List.append_assoc] using this

/-! ### the invariant, constructor by constructor -/

theorem inv_atom {e : Expr} {tok : Token} (hr : ∀ q fl, render q fl e = [tok])
    (hp : ∀ g t rest, prefixP (g + 1) t (tok :: rest) = some (e, rest)) : Inv e := by
  intro t q fl p rest _ _ _ _
  rw [hr]
  refine Cont.ofPrefix ⟨1, fun f hf => ?_⟩
  obtain ⟨g, rfl⟩ : ∃ g, f = g + 1 := ⟨f - 1, by omega⟩
  exact hp g t rest

theorem inv_int (n : Nat) : Inv (.int n) :=
  inv_atom (fun _ _ => by rw [render]) (fun g t rest => prefixP_int g t n rest)
theorem inv_bool (b : Bool) : Inv (.bool b) :=
  inv_atom (fun _ _ => by rw [render]) (fun g t rest => prefixP_bool g t b rest)
theorem inv_nil : Inv .nil :=
  inv_atom (fun _ _ => by rw [render]) (fun g t rest => prefixP_nil g t rest)
theorem inv_str (s : String) : Inv (.str s) :=
  inv_atom (fun _ _ => by rw [render]) (fun g t rest => prefixP_str g t s rest)
theorem inv_ident (x : String) : Inv (.ident x) :=
  inv_atom (fun _ _ => by rw [render]) (fun g t rest => prefixP_ident g t x rest)

theorem inv_infix (op : BinOp) (l r : Expr) (ihl : Inv l) (ihr : Inv r) : Inv (.infix op l r) := by
  intro t q fl p rest hok hpq hp hrest
  rw [render]
  have hge := prec_opKind_ge op
  have hle := prec_opKind_le op
  refine inv_of_wrap (K := prec (opKind op)) (S := prec (opKind op)) (by omega) (by omega) ?_
    t q fl p rest hok hpq hp hrest
  intro t p' fl' rest' hok hp' hp13 hfl hrest'
  obtain ⟨hokl, hokr⟩ := okT_infix hok
  obtain ⟨Nr, hr⟩ := (ihr t (prec (opKind op)) fl' (prec (opKind op)) rest' hokr (Nat.le_refl _)
    (by omega) hrest').done (by omega)
  have hL := ihl t (prec (opKind op) - 1) (prec (opKind op)) p'
    (tk (opKind op) :: (render (prec (opKind op)) fl' r ++ rest')) hokl (by omega) hp13
    (Nat.le_of_eq (firstOp_cons_infix _ (infixFn_opKind op)))
  simp only [List.append_assoc, List.cons_append, List.nil_append]
  refine hL.step ⟨Nr + 1, fun f hf => ?_⟩
  obtain ⟨g, rfl⟩ : ∃ g, f = g + 1 := ⟨f - 1, by omega⟩
  exact loop_infix hp' (by rw [skipNl_render]; exact hr g (by omega))

theorem inv_neg (e : Expr) (ih : Inv e) : Inv (.neg e) := by
  intro t q fl p rest hok hpq hp hrest
  rw [render]
  simp only [Level.num]
  refine inv_of_wrap (K := 13) (S := 13) (by omega) (by omega) ?_ t q fl p rest hok hpq hp hrest
  intro t p' fl' rest' hok hp' hp13 hfl hrest'
  obtain ⟨N, h⟩ := (ih t 13 fl' 13 rest' (okT_neg hok) (Nat.le_refl _) (Nat.le_refl _) hrest').done
    (by omega)
  refine Cont.ofPrefix ⟨N + 1, fun f hf => ?_⟩
  obtain ⟨g, rfl⟩ : ∃ g, f = g + 1 := ⟨f - 1, by omega⟩
  simp only [List.cons_append, List.nil_append]
  exact prefixP_neg (h g (by omega))

theorem inv_not (e : Expr) (ih : Inv e) : Inv (.not e) := by
  intro t q fl p rest hok hpq hp hrest
  rw [render]
  simp only [Level.num]
  refine inv_of_wrap (K := 13) (S := 13) (by omega) (by omega) ?_ t q fl p rest hok hpq hp hrest
  intro t p' fl' rest' hok hp' hp13 hfl hrest'
  obtain ⟨N, h⟩ := (ih t 13 fl' 13 rest' (okT_not hok) (Nat.le_refl _) (Nat.le_refl _) hrest').done
    (by omega)
  refine Cont.ofPrefix ⟨N + 1, fun f hf => ?_⟩
  obtain ⟨g, rfl⟩ : ∃ g, f = g + 1 := ⟨f - 1, by omega⟩
  simp only [List.cons_append, List.nil_append]
  exact prefixP_not (h g (by omega))

theorem inv_tern (c a b : Expr) (ihc : Inv c) (iha : Inv a) (ihb : Inv b) : Inv (.tern c a b) := by
  intro t q fl p rest hok hpq hp hrest
  rw [render]
  simp only [Level.num]
  refine inv_of_wrap (K := 6) (S := 1) (by omega) (by omega) ?_ t q fl p rest hok hpq hp hrest
  intro t p' fl' rest' hok hp' hp13 hfl hrest'
  obtain ⟨rfl, hokc, hoka, hokb⟩ := okT_tern hok
  obtain ⟨Nb, hb⟩ := (ihb true 6 fl' 1 rest' hokb (by omega) (by omega) hrest').done (by omega)
  have hcol : firstOp (tk .COLON :: (render 6 fl' b ++ rest')) ≤ 1 :=
    Nat.le_of_eq (firstOp_cons_noInfix _ rfl)
  obtain ⟨Na, ha⟩ := (iha true 6 1 1 (tk .COLON :: (render 6 fl' b ++ rest')) hoka (by omega)
    (by omega) hcol).done hcol
  have hq : firstOp (tk .QUESTION :: (render 6 1 a ++ tk .COLON :: (render 6 fl' b ++ rest'))) ≤ 6 :=
    Nat.le_of_eq (firstOp_cons_infix (fn := .parseTernary) _ rfl)
  have hL := ihc false 6 6 p' _ hokc (by omega) hp13 hq
  simp only [List.append_assoc, List.cons_append, List.nil_append]
  refine hL.step ⟨Na + Nb + 1, fun f hf => ?_⟩
  obtain ⟨g, rfl⟩ : ∃ g, f = g + 1 := ⟨f - 1, by omega⟩
  exact loop_tern hp' (ha g (by omega)) (hb g (by omega))

theorem inv_isIn (x c : Expr) (ihx : Inv x) (ihc : Inv c) : Inv (.isIn x c) := by
  intro t q fl p rest hok hpq hp hrest
  rw [render]
  simp only [Level.num]
  refine inv_of_wrap (K := 13) (S := 13) (by omega) (by omega) ?_ t q fl p rest hok hpq hp hrest
  intro t p' fl' rest' hok hp' hp13 hfl hrest'
  obtain ⟨hokx, hokc⟩ := okT_isIn hok
  obtain ⟨N, h⟩ := (ihc t 13 fl' 13 rest' hokc (Nat.le_refl _) (Nat.le_refl _) hrest').done (by omega)
  have hq : firstOp (tk .IN :: (render 13 fl' c ++ rest')) ≤ 13 :=
    Nat.le_of_eq (firstOp_cons_infix (fn := .parseIn) _ rfl)
  have hL := ihx t 13 13 p' _ hokx (by omega) hp13 hq
  simp only [List.append_assoc, List.cons_append, List.nil_append]
  refine hL.step ⟨N + 1, fun f hf => ?_⟩
  obtain ⟨g, rfl⟩ : ∃ g, f = g + 1 := ⟨f - 1, by omega⟩
  exact loop_in hp' (h g (by omega))

theorem inv_notIn (x c : Expr) (ihx : Inv x) (ihc : Inv c) : Inv (.notIn x c) := by
  intro t q fl p rest hok hpq hp hrest
  rw [render]
  simp only [Level.num]
  refine inv_of_wrap (K := 13) (S := 13) (by omega) (by omega) ?_ t q fl p rest hok hpq hp hrest
  intro t p' fl' rest' hok hp' hp13 hfl hrest'
  obtain ⟨hokx, hokc⟩ := okT_notIn hok
  obtain ⟨N, h⟩ := (ihc t 13 fl' 13 rest' hokc (Nat.le_refl _) (Nat.le_refl _) hrest').done (by omega)
  have hq : firstOp (tk .NOT :: tk .IN :: (render 13 fl' c ++ rest')) ≤ 13 :=
    Nat.le_of_eq (firstOp_cons_infix (fn := .parseNotIn) _ rfl)
  have hL := ihx t 13 13 p' _ hokx (by omega) hp13 hq
  simp only [List.append_assoc, List.cons_append, List.nil_append]
  refine hL.step ⟨N + 1, fun f hf => ?_⟩
  obtain ⟨g, rfl⟩ : ∃ g, f = g + 1 := ⟨f - 1, by omega⟩
  exact loop_notin hp' (h g (by omega))

theorem closer_rparen : Closer .RPAREN := ⟨rfl, by decide, by decide, rfl⟩
theorem closer_rbracket : Closer .RBRACKET := ⟨rfl, by decide, by decide, rfl⟩

theorem inv_call (f : Expr) (args : Args) (ihf : Inv f) (iha : InvArgs args) : Inv (.call f args) := by
  intro t q fl p rest hok hpq hp hrest
  rw [render]
  simp only [Level.num]
  obtain ⟨hokf, hoka⟩ := okT_call hok
  obtain ⟨N, h⟩ := iha t .RPAREN rest hoka closer_rparen
  have hq : firstOp (tk .LPAREN :: (renderArgs args ++ tk .RPAREN :: rest)) ≤ 14 :=
    Nat.le_of_eq (firstOp_cons_infix (fn := .parseCall) _ rfl)
  have hL := ihf t 13 14 p _ hokf hp hp hq
  simp only [List.append_assoc, List.cons_append, List.nil_append]
  refine hL.step ⟨N + 1, fun f hf => ?_⟩
  obtain ⟨g, rfl⟩ : ∃ g, f = g + 1 := ⟨f - 1, by omega⟩
  exact loop_call hp (h g (by omega))

theorem inv_mcall (o : Expr) (name : String) (args : Args) (iho : Inv o) (iha : InvArgs args) :
    Inv (.mcall o name args) := by
  intro t q fl p rest hok hpq hp hrest
  rw [render]
  simp only [Level.num]
  obtain ⟨hoko, hoka⟩ := okT_mcall hok
  obtain ⟨N, h⟩ := iha t .RPAREN rest hoka closer_rparen
  have hq : firstOp (tk .PERIOD :: ⟨.IDENT, name⟩ :: tk .LPAREN ::
      (renderArgs args ++ tk .RPAREN :: rest)) ≤ 15 :=
    Nat.le_of_eq (firstOp_cons_infix (fn := .parseGetAttr) _ rfl)
  have hL := iho t 14 15 p _ hoko (by omega) hp hq
  simp only [List.append_assoc, List.cons_append, List.nil_append]
  refine hL.step ⟨N + 1, fun f hf => ?_⟩
  obtain ⟨g, rfl⟩ : ∃ g, f = g + 1 := ⟨f - 1, by omega⟩
  exact loop_mcall hp (h g (by omega))

theorem inv_index (e i : Expr) (ihe : Inv e) (ihi : Inv i) : Inv (.index e i) := by
  intro t q fl p rest hok hpq hp hrest
  rw [render]
  simp only [Level.num]
  obtain ⟨hoke, hoki⟩ := okT_index hok
  have hrb : firstOp (tk .RBRACKET :: rest) ≤ 1 := Nat.le_of_eq (firstOp_cons_noInfix _ rfl)
  obtain ⟨N, h⟩ := ihi.doneLowest hoki hrb
  have hq : firstOp (tk .LBRACKET :: (render 1 1 i ++ tk .RBRACKET :: rest)) ≤ 15 :=
    Nat.le_of_eq (firstOp_cons_infix (fn := .parseIndex) _ rfl)
  have hL := ihe t 14 15 p _ hoke (by omega) hp hq
  simp only [List.append_assoc, List.cons_append, List.nil_append]
  refine hL.step ⟨N + 1, fun f hf => ?_⟩
  obtain ⟨g, rfl⟩ : ∃ g, f = g + 1 := ⟨f - 1, by omega⟩
  exact loop_index hp (headIs_render _ rfl _ _ _ _) (h g (by omega))

/-- the part of a slice after the colon -/
theorem sliceTail_render (l : Expr) (lo hi : Opt) (ih : InvOpt hi) (t : Bool)
    (hok : okTOpt t hi = true) (rest : List Token) :
    ∃ N, ∀ F, N ≤ F → sliceTail F t l lo (renderOpt hi ++ tk .RBRACKET :: rest)
      = some (.slice l lo hi, rest) := by
  cases hi with
  | none =>
    refine ⟨1, fun F hF => ?_⟩
    obtain ⟨g, rfl⟩ : ∃ g, F = g + 1 := ⟨F - 1, by omega⟩
    rw [renderOpt]
    exact sliceTail_none g t l lo rest
  | some e =>
    have hrb : firstOp (tk .RBRACKET :: rest) ≤ 1 := Nat.le_of_eq (firstOp_cons_noInfix _ rfl)
    obtain ⟨N, h⟩ := Inv.doneLowest (e := e) ih (okTOpt_some hok) hrb
    refine ⟨N + 1, fun F hF => ?_⟩
    obtain ⟨g, rfl⟩ : ∃ g, F = g + 1 := ⟨F - 1, by omega⟩
    rw [renderOpt]
    simp only [Level.num]
    exact sliceTail_some (headIs_render _ rfl _ _ _ _) (h g (by omega))

theorem inv_slice (e : Expr) (lo hi : Opt) (ihe : Inv e) (ihlo : InvOpt lo) (ihhi : InvOpt hi) :
    Inv (.slice e lo hi) := by
  intro t q fl p rest hok hpq hp hrest
  rw [render]
  simp only [Level.num]
  obtain ⟨hoke, hoklo, hokhi⟩ := okT_slice hok
  obtain ⟨Nt, ht⟩ := sliceTail_render e lo hi ihhi t hokhi rest
  have hq : ∀ R, firstOp (tk .LBRACKET :: R) ≤ 15 := fun R =>
    Nat.le_of_eq (firstOp_cons_infix (fn := .parseIndex) _ rfl)
  have hL := ihe t 14 15 p
    (tk .LBRACKET :: (renderOpt lo ++ tk .COLON :: (renderOpt hi ++ tk .RBRACKET :: rest)))
    hoke (by omega) hp (hq _)
  simp only [List.append_assoc, List.cons_append, List.nil_append]
  refine hL.step ?_
  cases lo with
  | none =>
    refine ⟨Nt + 1, fun f hf => ?_⟩
    obtain ⟨g, rfl⟩ : ∃ g, f = g + 1 := ⟨f - 1, by omega⟩
    simp only [renderOpt, List.nil_append]
    exact loop_slice_nolo hp (ht g (by omega))
  | some x =>
    have hcol : firstOp (tk .COLON :: (renderOpt hi ++ tk .RBRACKET :: rest)) ≤ 1 :=
      Nat.le_of_eq (firstOp_cons_noInfix _ rfl)
    obtain ⟨N, h⟩ := Inv.doneLowest (e := x) ihlo (okTOpt_some hoklo) hcol
    refine ⟨N + Nt + 1, fun f hf => ?_⟩
    obtain ⟨g, rfl⟩ : ∃ g, f = g + 1 := ⟨f - 1, by omega⟩
    simp only [renderOpt, Level.num]
    exact loop_slice_lo hp (headIs_render _ rfl _ _ _ _) (h g (by omega)) (ht g (by omega))

theorem invTail_nil : InvTail .nil := by
  intro t en rest _ hc
  refine ⟨1, fun F hF => ?_⟩
  obtain ⟨g, rfl⟩ : ∃ g, F = g + 1 := ⟨F - 1, by omega⟩
  simp only [renderTail, List.nil_append]
  exact listTail_nil g t en rest hc.2.1 hc.2.2.1

theorem firstOp_tail (es : Args) (en : Kind) (hc : Closer en) (rest : List Token) :
    firstOp (renderTail es ++ tk en :: rest) ≤ 1 := by
  cases es with
  | nil =>
    simp only [renderTail, List.nil_append]
    exact Nat.le_of_eq (firstOp_cons_noInfix _ hc.2.2.2)
  | cons e es =>
    simp only [renderTail, List.append_assoc, List.cons_append, List.nil_append]
    exact Nat.le_of_eq (firstOp_cons_noInfix _ rfl)

theorem invTail_cons (e : Expr) (es : Args) (ihe : Inv e) (ihes : InvTail es) : InvTail (.cons e es) := by
  intro t en rest hok hc
  obtain ⟨hoke, hokes⟩ := okTArgs_cons hok
  obtain ⟨Nt, ht⟩ := ihes t en rest hokes hc
  obtain ⟨N, h⟩ := Inv.doneLowest (e := e) ihe hoke (firstOp_tail es en hc rest)
  refine ⟨N + Nt + 1, fun F hF => ?_⟩
  obtain ⟨g, rfl⟩ : ∃ g, F = g + 1 := ⟨F - 1, by omega⟩
  simp only [renderTail, Level.num, List.append_assoc, List.cons_append, List.nil_append]
  exact listTail_cons (headIs_render _ hc.1 _ _ _ _) (skipNl_render _ _ _ _) (h g (by omega))
    (ht g (by omega))

theorem invArgs_nil : InvArgs .nil := by
  intro t en rest _ hc
  refine ⟨1, fun F hF => ?_⟩
  obtain ⟨g, rfl⟩ : ∃ g, F = g + 1 := ⟨F - 1, by omega⟩
  simp only [renderArgs, List.nil_append]
  exact exprList_nil g t en rest

theorem invArgs_cons (e : Expr) (es : Args) (ihe : Inv e) (ihes : InvTail es) : InvArgs (.cons e es) := by
  intro t en rest hok hc
  obtain ⟨hoke, hokes⟩ := okTArgs_cons hok
  obtain ⟨Nt, ht⟩ := ihes t en rest hokes hc
  obtain ⟨N, h⟩ := Inv.doneLowest (e := e) ihe hoke (firstOp_tail es en hc rest)
  refine ⟨N + Nt + 1, fun F hF => ?_⟩
  obtain ⟨g, rfl⟩ : ∃ g, F = g + 1 := ⟨F - 1, by omega⟩
  simp only [renderArgs, Level.num, List.append_assoc]
  exact exprList_cons (headIs_render _ hc.1 _ _ _ _) (skipNl_render _ _ _ _) (h g (by omega))
    (ht g (by omega))

theorem inv_list (items : Args) (ih : InvArgs items) : Inv (.list items) := by
  intro t q fl p rest hok hpq hp hrest
  rw [render]
  obtain ⟨N, h⟩ := ih t .RBRACKET rest (okT_list hok) closer_rbracket
  refine Cont.ofPrefix ⟨N + 1, fun f hf => ?_⟩
  obtain ⟨g, rfl⟩ : ∃ g, f = g + 1 := ⟨f - 1, by omega⟩
  simp only [List.append_assoc, List.cons_append, List.nil_append]
  exact prefixP_list (h g (by omega))

/-! ### assembling the mutual induction -/

mutual
theorem inv_all : ∀ e : Expr, Inv e
  | .int n => inv_int n
  | .bool b => inv_bool b
  | .nil => inv_nil
  | .str s => inv_str s
  | .ident x => inv_ident x
  | .infix op l r => inv_infix op l r (inv_all l) (inv_all r)
  | .neg e => inv_neg e (inv_all e)
  | .not e => inv_not e (inv_all e)
  | .tern c a b => inv_tern c a b (inv_all c) (inv_all a) (inv_all b)
  | .isIn x c => inv_isIn x c (inv_all x) (inv_all c)
  | .notIn x c => inv_notIn x c (inv_all x) (inv_all c)
  | .call f args => inv_call f args (inv_all f) (invArgs_all args)
  | .mcall o name args => inv_mcall o name args (inv_all o) (invArgs_all args)
  | .index e i => inv_index e i (inv_all e) (inv_all i)
  | .slice e lo hi => inv_slice e lo hi (inv_all e) (invOpt_all lo) (invOpt_all hi)
  | .list items => inv_list items (invArgs_all items)
theorem invArgs_all : ∀ a : Args, InvArgs a
  | .nil => invArgs_nil
  | .cons e es => invArgs_cons e es (inv_all e) (invTail_all es)
theorem invTail_all : ∀ a : Args, InvTail a
  | .nil => invTail_nil
  | .cons e es => invTail_cons e es (inv_all e) (invTail_all es)
theorem invOpt_all : ∀ o : Opt, InvOpt o
  | .none => trivial
  | .some e => inv_all e
end

/-! ### a `?` met while the `tern` flag is set makes the parse fail, whatever the fuel -/

theorem loop_question_fails (f p : Nat) (l : Expr) (R : List Token) (hp : p < 6) :
    loop f true p l (tk .QUESTION :: R) = none := by
  have hk : prec (tk .QUESTION).kind = 6 := rfl
  have hi : infixFn (tk .QUESTION).kind = some .parseTernary := rfl
  cases f with
  | zero => rfl
  | succ f =>
    cases f with
    | zero => simp [loop, hk, hp, hi, infixP]
    | succ f => simp [loop, hk, hp, hi, infixP]

theorem parse_ident_question_fails (f : Nat) (x : String) (R : List Token) :
    parseNode f true 1 (⟨.IDENT, x⟩ :: tk .QUESTION :: R) = none := by
  cases f with
  | zero => rfl
  | succ f =>
    cases f with
    | zero => simp [parseNode, prefixP]
    | succ f => simp [parseNode, prefixP_ident, loop_question_fails]

theorem parse_paren_ident_question_fails (f : Nat) (x : String) (R : List Token) :
    parseNode f true 1 (tk .LPAREN :: ⟨.IDENT, x⟩ :: tk .QUESTION :: R) = none := by
  have h1 : prefixFn (tk .LPAREN).kind = some .parseGroupedExpr := rfl
  have h2 : isPostfix (tk .LPAREN).kind = false := rfl
  cases f with
  | zero => rfl
  | succ f =>
    cases f with
    | zero => simp [parseNode, prefixP]
    | succ f => simp [parseNode, prefixP, h1, h2, Level.num, parse_ident_question_fails]

/-- `a ? ( b ? …` fails for every fuel -/
theorem parse_nested_ternary_fails (f : Nat) (a b : String) (R : List Token) :
    parseNode f false 1
      (⟨.IDENT, a⟩ :: tk .QUESTION :: tk .LPAREN :: ⟨.IDENT, b⟩ :: tk .QUESTION :: R) = none := by
  have hk : prec (tk .QUESTION).kind = 6 := rfl
  have hi : infixFn (tk .QUESTION).kind = some .parseTernary := rfl
  cases f with
  | zero => rfl
  | succ f =>
    cases f with
    | zero => simp [parseNode, prefixP]
    | succ f =>
      cases f with
      | zero => simp [parseNode, prefixP_ident, loop, hk, hi, infixP]
      | succ f =>
        simp [parseNode, prefixP_ident, loop, hk, hi, infixP, Level.num,
          parse_paren_ident_question_fails]

end Risor.C01.Pratt
