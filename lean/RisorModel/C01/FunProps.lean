import RisorModel.C01.FunLemmas
/-!
C01 — COMPILER CORRECTNESS for the FUNCTION fragment `inFun` (Fun.lean), proved for ALL programs
of the fragment, ALL fuel, ALL operand stacks and ALL stacks of suspended caller frames.

The fragment: everything of `FragProps.lean` (F1 expressions, assignments, if/else, the three `for`
forms; F2 break/continue where no operand is pending; F3 switch) both in the main code and
INSIDE FUNCTION BODIES, plus
  * named function declarations `func f(a, b=1) { … }` (`LoadConst fn; Copy 0; StoreGlobal f;
    PopTop`, the self slot of the function's own symbol table) and literals bound by
    `g := func(a) { … }` at the top level of the program;
  * parameters (with trailing int / string / bool defaults) and local variables of a function:
    `LoadFast` / `StoreFast` for the names of the function's own symbol table, `LoadGlobal` /
    `StoreGlobal` for everything else (free variables of a body are globals);
  * `return e`, bare `return` (anywhere, also under pending operands), and the implicit return of
    `normalizeFunctionBlock` (the last expression statement's value, else nil; the body is cut
    after its first top-level `return`);
  * calls `f(e1, …, en)` with any expression as callee, left-to-right arguments, calls nested in
    expressions, conditions, arguments, loop headers, switch subjects and case values, calls as
    statements; the errors of a call (`args`: wrong count; `type`: not callable);
  * recursion (through the self slot and through the global), function values as first-class
    values (assigned, passed, returned, compared by identity).
Not in the fragment: closures over the locals of an enclosing function (function literals occur
only as whole top-level statements), `nil` as a default value, `defer`, containers.

What is PROVED relates the three definitions of Fun.lean (`evalFun`, `compFun`, `runFun`); what
ties them to the Go code is checked by correspondence on every run (harness/c01fun.go).
One idealisation is shared with `FragProps.lean`: the model machine's operand stack and frame
stack are unbounded (the real VM has 1024 slots / 1024 frames and ends deeper runs with a
recovered panic).

Technique: the development of `FragLemmas.lean` over a machine with call frames.  `Steps W a b`
relates two states of ONE activation in a fixed world `W` (program, running code object,
suspended callers); between them the machine may enter and leave callee activations.  A
`return` is an abrupt completion like an error: it propagates through every construct and is
realised by `ReturnValue` resuming the caller.  Induction on fuel only (`ev_sim`): sub-nodes and
callee bodies both run with one unit of fuel less.
-/
namespace Risor.C01.Fun
open Risor.C01

/-- **Simulation, at full strength** (the generalisation of `frag_simulation` to a machine with
    a frame stack).  Let `P` be the compiled form of the functions `Φ` (`Compiled`), all of whose
    bodies are in the fragment (`BodiesOK`).  For every well-formed node `n` (expression,
    statement, block, list, program), every code object of ANY world `W` over `P` — i.e. any
    running code object `W.fn` and ANY stack `W.fs` of suspended caller frames — in which the code
    of `n` (compiled for local names `ls`, loop targets `kb` / `kc`) sits at offset `pc`, every
    operand stack `stk`, every state `σ` (locals and globals) and every fuel: if the reference
    semantics gives `r` with final state `σ'` then the MACHINE, started in the activation state
    `(pc, stk, σ)` on top of the frames `W.fs`,
    * `r = val v`  — reaches `(pc + size n, v :: stk, σ')` in the same activation on top of the
      SAME frames (whatever activations were entered in between have been left);
    * `r = unit`   — reaches `(pc + size n, stk, σ')` likewise;
    * `r = brk` / `cont` — reaches the loop's break / continue target with `stk`;
    * `r = err (cls c)` — reaches a machine state (possibly inside a callee) with globals
      `σ'.glob` whose next step raises the error class `c`;
    * `r = err (ret v)` (a `return v` leaving the running function) — resumes the innermost
      suspended frame `fr` at its return address with `v` pushed on ITS operand stack, ITS
      locals, the globals `σ'.glob`, and the remaining frames untouched; with no caller the
      machine halts with `v`;
    * `r = oof` — nothing is claimed. -/
theorem fun_simulation (Φ : List FDecl) (P : Prog) (hP : Compiled Φ P) (hΦ : BodiesOK Φ)
    (W : World) (hW : W.P = P) (ls : List String) (f : Nat) (n : N) (hwf : wf n = true) (kb kc : Nat)
    (pc : Nat) (stk : List V) (σ : Env) (r : Out) (σ' : Env)
    (hat : CodeAt W.code pc (comp ls kb kc n)) (he : ev Φ f ls n σ = (r, σ')) :
    (match r with
     | .val v => isUnitNode n = false ∧
        MSteps W.P ⟨⟨pc, stk, σ⟩, W.fn, W.fs⟩ ⟨⟨pc + size n, v :: stk, σ'⟩, W.fn, W.fs⟩
     | .unit => isUnitNode n = true ∧
        MSteps W.P ⟨⟨pc, stk, σ⟩, W.fn, W.fs⟩ ⟨⟨pc + size n, stk, σ'⟩, W.fn, W.fs⟩
     | .brk => escapes n = true ∧
        MSteps W.P ⟨⟨pc, stk, σ⟩, W.fn, W.fs⟩ ⟨⟨pc + size n + kb, stk, σ'⟩, W.fn, W.fs⟩
     | .cont => escapes n = true ∧
        MSteps W.P ⟨⟨pc, stk, σ⟩, W.fn, W.fs⟩ ⟨⟨pc + size n + kc, stk, σ'⟩, W.fn, W.fs⟩
     | .err (.cls c) => ∃ m1, MSteps W.P ⟨⟨pc, stk, σ⟩, W.fn, W.fs⟩ m1 ∧ m1.cfg.σ.glob = σ'.glob ∧
        mstep W.P m1 = .error (.err c)
     | .err (.ret v) =>
        (∀ fr fs', W.fs = fr :: fs' →
          MSteps W.P ⟨⟨pc, stk, σ⟩, W.fn, W.fs⟩ ⟨⟨fr.pc, v :: fr.stk, ⟨fr.loc, σ'.glob⟩⟩, fr.fn, fs'⟩) ∧
        (W.fs = [] → ∃ m1, MSteps W.P ⟨⟨pc, stk, σ⟩, W.fn, W.fs⟩ m1 ∧ m1.cfg.σ.glob = σ'.glob ∧
          mstep W.P m1 = .error (.done v))
     | .oof => True) := by
  have Q := ev_sim Φ P hP hΦ f W ls hW n hwf kb kc pc stk σ r σ' hat he
  cases r with
  | val v => exact ⟨Q.1, Q.2⟩
  | unit => exact ⟨Q.1, Q.2⟩
  | brk => exact ⟨Q.1, Q.2⟩
  | cont => exact ⟨Q.1, Q.2⟩
  | oof => trivial
  | err x =>
    cases x with
    | cls c => exact Q.2
    | ret v =>
      obtain ⟨m1, hs, hfin⟩ := Q.2
      refine ⟨?_, ?_⟩
      · intro fr fs' hfs
        simp only [Final, hfs] at hfin
        subst hfin
        exact hs
      · intro hfs
        simp only [Final, hfs] at hfin
        exact ⟨m1, hs, hfin.1, hfin.2⟩

/-- the length of a node's code is `size`, whatever the local names and loop targets -/
theorem fun_code_length (ls : List String) (n : N) (kb kc : Nat) : (comp ls kb kc n).length = size n :=
  comp_length n kb kc

/-- **A call returns exactly one value** (`call_returns_one`; this is what C04's stack model
    assumes about `Call`).  In any world over the compiled program: when applying the function
    value `fv` to the argument values `vs` under globals `G` yields `v` and globals `G'`
    (reference semantics, any fuel), the machine standing at a `Call n` instruction with the `n`
    arguments and the callee on top of ANY operand stack `stk` runs — through the callee's whole
    activation and everything it calls — to the instruction after the `Call` with exactly `v`
    pushed on `stk`, the caller's locals `loc` as they were, the suspended frames `W.fs` as
    they were, and the globals `G'`. -/
theorem call_returns_one (Φ : List FDecl) (P : Prog) (hP : Compiled Φ P) (hΦ : BodiesOK Φ)
    (W : World) (hW : W.P = P) (f : Nat) (fv : V) (vs : List V) (G G' : Store) (v : V)
    (h : applyFn Φ (ev Φ f) fv vs G = (.val v, G'))
    (pc : Nat) (stk : List V) (loc : Store) (hcall : W.code[pc]? = some (some (.call vs.length))) :
    MSteps W.P ⟨⟨pc, vs.reverse ++ fv :: stk, ⟨loc, G⟩⟩, W.fn, W.fs⟩ ⟨⟨pc + 2, v :: stk, ⟨loc, G'⟩⟩, W.fn, W.fs⟩ :=
  call_sim Φ P hP hΦ f W hW fv vs G (.val v) G' h pc stk loc hcall

/-- a call that fails raises the same error class on the machine (wrong argument count: `args`;
    a callee that is no function: `type`; an error inside the callee, at any depth) -/
theorem call_fails_alike (Φ : List FDecl) (P : Prog) (hP : Compiled Φ P) (hΦ : BodiesOK Φ)
    (W : World) (hW : W.P = P) (f : Nat) (fv : V) (vs : List V) (G G' : Store) (c : String)
    (h : applyFn Φ (ev Φ f) fv vs G = (.err (.cls c), G'))
    (pc : Nat) (stk : List V) (loc : Store) (hcall : W.code[pc]? = some (some (.call vs.length))) :
    ∃ m1, MSteps W.P ⟨⟨pc, vs.reverse ++ fv :: stk, ⟨loc, G⟩⟩, W.fn, W.fs⟩ m1 ∧ m1.cfg.σ.glob = G' ∧
      mstep W.P m1 = .error (.err c) :=
  (call_sim Φ P hP hΦ f W hW fv vs G (.err (.cls c)) G' h pc stk loc hcall).2

/-- application never yields anything but a value, an error class or out-of-fuel: a `return`, a
    `break` or a `continue` does not cross a call -/
theorem call_outcomes (Φ : List FDecl) (evb : List String → N → Env → Out × Env) (fv : V) (vs : List V) (G G' : Store)
    (r : Out) (h : applyFn Φ evb fv vs G = (r, G')) :
    (∃ v, r = .val v) ∨ (∃ c, r = .err (.cls c)) ∨ r = .oof := by
  unfold applyFn at h
  split at h
  · split at h
    · cases h; exact .inr (.inl ⟨_, rfl⟩)
    · split at h
      · cases h; exact .inr (.inl ⟨_, rfl⟩)
      · split at h <;> cases h
        · exact .inl ⟨_, rfl⟩
        · exact .inl ⟨_, rfl⟩
        · exact .inr (.inl ⟨_, rfl⟩)
        · exact .inr (.inr rfl)
        · exact .inr (.inl ⟨_, rfl⟩)
  · cases h; exact .inr (.inl ⟨_, rfl⟩)

theorem bodiesOK_of_bodiesWF (p : N) (h : bodiesWF p = true) : BodiesOK (funsOf p) := by
  intro g d hf
  unfold bodiesWF at h
  rw [List.all_eq_true] at h
  exact h d (List.mem_of_find?_eq_some hf)

/-- **Compiler correctness, on the shape alone.**  For every program `p` of the fragment's SHAPE
    (`inFunShape`: well-formed nodes, well-formed function bodies — no scoping condition: both
    sides resolve names in the same way) and every fuel, if the reference semantics ends
    (anything but out-of-fuel) then it ends with a value or an error class — never with a stray
    break/continue/return — and there is a fuel for which the machine, run on the compiled
    program (`compFun p`: the main code and one code object per function) from the empty stack,
    empty stores and no frames, halts with the SAME value (resp. the SAME error class) and the
    SAME final globals. -/
theorem fun_compile_correct_shape (p : N) (hp : inFunShape p = true) (fuel : Nat) (r : Out) (G' : Store)
    (he : evalFun fuel p = (r, G')) (hr : r ≠ .oof) :
    (∃ v, r = .val v ∧ ∃ fuel', runFun fuel' (compFun p) = (.done v, G')) ∨
    (∃ c, r = .err (.cls c) ∧ ∃ fuel', runFun fuel' (compFun p) = (.err c, G')) := by
  have hwf : wf p = true ∧ isUnitNode p = false ∧ escapes p = false ∧ bodiesWF p = true := by
    cases p <;> simp_all [inFunShape, isUnitNode, wf, escapes]
  let W : World := { P := compFun p, fn := none, fs := [] }
  unfold evalFun at he
  rcases h0 : ev (funsOf p) fuel [] p { loc := [], glob := [] } with ⟨r0, σ0⟩
  rw [h0] at he
  have Q := ev_sim (funsOf p) (compFun p) (compFun_compiled p) (bodiesOK_of_bodiesWF p hwf.2.2.2) fuel W [] rfl
    p hwf.1 0 0 0 [] { loc := [], glob := [] } r0 σ0 (CodeAt.self _) h0
  -- the machine halts at the end of the main code with the value on top
  have done : ∀ v, Steps W ⟨0, [], ⟨[], []⟩⟩ ⟨size p, [v], σ0⟩ → ∃ k, runFun k (compFun p) = (.done v, σ0.glob) := by
    intro v hs
    obtain ⟨n, hn⟩ := mrun_of_msteps hs
    refine ⟨n + 1, ?_⟩
    show mrun (compFun p) (n + 1) M.init = _
    have : M.init = W.at ⟨0, [], ⟨[], []⟩⟩ := rfl
    rw [this, hn 1]
    simp [mrun, mstep, step, World.at, W, Prog.codeOf, compFun, comp_length]
  have halts : ∀ (m1 : M) (h : Halt) (res : RunRes), MSteps (compFun p) M.init m1 → mstep (compFun p) m1 = .error h →
      (match h with | .done v => res = .done v | .err c => res = .err c | .nonlocal => False) →
      ∃ k, runFun k (compFun p) = (res, m1.cfg.σ.glob) := by
    intro m1 h res hs hst hres
    obtain ⟨n, hn⟩ := mrun_of_msteps hs
    refine ⟨n + 1, ?_⟩
    show mrun (compFun p) (n + 1) M.init = _
    rw [hn 1]
    cases h with
    | done v => simp only at hres; subst hres; simp [mrun, hst]
    | err c => simp only at hres; subst hres; simp [mrun, hst]
    | nonlocal => exact hres.elim
  cases r0 with
  | oof => simp only at he; cases he; exact absurd rfl hr
  | unit => have := Q.1; simp only [Shape] at this; rw [hwf.2.1] at this; cases this
  | brk => have := Q.1; simp only [Shape] at this; rw [hwf.2.2.1] at this; cases this
  | cont => have := Q.1; simp only [Shape] at this; rw [hwf.2.2.1] at this; cases this
  | val v =>
    simp only at he; cases he
    have hs : Steps W ⟨0, [], ⟨[], []⟩⟩ ⟨0 + size p, [v], σ0⟩ := Q.val_steps
    rw [Nat.zero_add] at hs
    exact .inl ⟨v, rfl, done v hs⟩
  | err x =>
    cases x with
    | cls c =>
      simp only at he; cases he
      obtain ⟨m1, hs, hg, hst⟩ := Q.2
      obtain ⟨k, hk⟩ := halts m1 (.err c) (.err c) hs hst rfl
      exact .inr ⟨c, rfl, k, by rw [hk, hg]⟩
    | ret v =>
      simp only at he; cases he
      obtain ⟨m1, hs, hfin⟩ := Q.2
      have hfin' : m1.cfg.σ.glob = σ0.glob ∧ mstep (compFun p) m1 = .error (.done v) := hfin
      obtain ⟨k, hk⟩ := halts m1 (.done v) (.done v) hs hfin'.2 rfl
      exact .inl ⟨v, rfl, k, by rw [hk, hfin'.1]⟩

theorem inFun_shape (p : N) (hp : inFun p = true) : inFunShape p = true := by
  cases p <;> simp_all [inFun, inFunShape]

/-- **Compiler correctness for the function fragment** (the property C01 on `inFun`): for every
    program `p` of the fragment and every fuel, if the reference semantics ends with a value or an
    error (not out-of-fuel), there is a fuel for which the machine on the compiled program halts
    with the same value / the same error class and the same final globals.  (`inFun` adds to the
    shape the scoping conditions under which `evalFun` / `compFun` ARE `Sem.lean` / `compiler.go`
    on the program: that is what the correspondence check establishes, on `inFun` programs.) -/
theorem fun_compile_correct (p : N) (hp : inFun p = true) (fuel : Nat) (r : Out) (G' : Store)
    (he : evalFun fuel p = (r, G')) (hr : r ≠ .oof) :
    (∃ v, r = .val v ∧ ∃ fuel', runFun fuel' (compFun p) = (.done v, G')) ∨
    (∃ c, r = .err (.cls c) ∧ ∃ fuel', runFun fuel' (compFun p) = (.err c, G')) :=
  fun_compile_correct_shape p (inFun_shape p hp) fuel r G' he hr

/-- how a source outcome shows on the machine -/
def Out.toRun : Out → RunRes
  | .val v => .done v
  | .unit => .done .nil
  | .brk => .err "compile"
  | .cont => .err "compile"
  | .err (.cls c) => .err c
  | .err (.ret v) => .done v
  | .oof => .running

/-- the same statement through `Out.toRun` (value ↦ done, error ↦ the same error) -/
theorem fun_compile_correct_toRun (p : N) (hp : inFun p = true) (fuel : Nat) (r : Out) (G' : Store)
    (he : evalFun fuel p = (r, G')) (hr : r ≠ .oof) :
    ∃ fuel', runFun fuel' (compFun p) = (r.toRun, G') := by
  rcases fun_compile_correct p hp fuel r G' he hr with ⟨v, rfl, k, hk⟩ | ⟨c, rfl, k, hk⟩
  · exact ⟨k, hk⟩
  · exact ⟨k, hk⟩

/-- the outcome found by `fun_compile_correct` is THE outcome of the machine: every larger fuel
    gives the same halted result (the machine is deterministic and stays halted) -/
theorem fun_run_stable (P : Prog) (k j : Nat) (res : RunRes) (G : Store)
    (h : runFun k P = (res, G)) (hr : res ≠ .running) : runFun (k + j) P = (res, G) := by
  induction j with
  | zero => exact h
  | succ j ih => exact mrun_mono (k + j) _ res G ih hr

/-- **An expression pushes exactly one value, also across calls.**  Any node that is not a
    unit statement, compiled anywhere in any code object, started on any operand stack `stk` over
    any suspended frames: when the reference semantics gives the value `v`, the machine ends
    exactly at the end of the node's code, in the same activation, with `v` pushed on an
    otherwise untouched `stk`. -/
theorem fun_expr_pushes_one (Φ : List FDecl) (P : Prog) (hP : Compiled Φ P) (hΦ : BodiesOK Φ)
    (W : World) (hW : W.P = P) (ls : List String) (f : Nat) (n : N) (hwf : wf n = true) (kb kc : Nat)
    (pc : Nat) (stk : List V) (σ σ' : Env) (v : V)
    (hat : CodeAt W.code pc (comp ls kb kc n)) (he : ev Φ f ls n σ = (.val v, σ')) :
    MSteps W.P ⟨⟨pc, stk, σ⟩, W.fn, W.fs⟩ ⟨⟨pc + (comp ls kb kc n).length, v :: stk, σ'⟩, W.fn, W.fs⟩ := by
  rw [comp_length]
  exact (ev_sim Φ P hP hΦ f W ls hW n hwf kb kc pc stk σ _ σ' hat he).val_steps

/-- what `compileStmts` emits for a statement that is not the last of its list -/
def stmtCode (ls : List String) (kb kc : Nat) (h : N) : Code :=
  pre ls h ++ comp ls (kb + (if leaves h then 1 else 0)) (kc + (if leaves h then 1 else 0)) h
    ++ (if leaves h then one .popTop else [])

/-- **Statements are stack-neutral, also when they call** (C04's property, for the fragment).
    Every statement of the fragment (`:=`, assignments, `++`, expression statements — among them
    calls as statements —, `break`, `continue`, the three loop forms with arbitrarily nested
    bodies), compiled anywhere in any code object as `compileStmts` compiles a statement, started
    on any operand stack `stk` over any suspended frames: however it ends — completing (with
    `unit` or with a value), or leaving through a `break` / `continue` towards the enclosing
    loop's target — the operand stack is exactly `stk` again and the frames are untouched.
    (A `return` leaves the activation: see `fun_simulation`.) -/
theorem fun_stmt_neutral (Φ : List FDecl) (P : Prog) (hP : Compiled Φ P) (hΦ : BodiesOK Φ)
    (W : World) (hW : W.P = P) (ls : List String) (f : Nat) (h : N) (hwf : wf h = true) (hs : isS h = true)
    (kb kc : Nat) (pc : Nat) (stk : List V) (σ σ' : Env) (r : Out)
    (hat : CodeAt W.code pc (stmtCode ls kb kc h)) (he : ev Φ f ls h σ = (r, σ')) :
    (match r with
     | .val _ => MSteps W.P ⟨⟨pc, stk, σ⟩, W.fn, W.fs⟩ ⟨⟨pc + (stmtCode ls kb kc h).length, stk, σ'⟩, W.fn, W.fs⟩
     | .unit => MSteps W.P ⟨⟨pc, stk, σ⟩, W.fn, W.fs⟩ ⟨⟨pc + (stmtCode ls kb kc h).length, stk, σ'⟩, W.fn, W.fs⟩
     | .brk => MSteps W.P ⟨⟨pc, stk, σ⟩, W.fn, W.fs⟩ ⟨⟨pc + (stmtCode ls kb kc h).length + kb, stk, σ'⟩, W.fn, W.fs⟩
     | .cont => MSteps W.P ⟨⟨pc, stk, σ⟩, W.fn, W.fs⟩ ⟨⟨pc + (stmtCode ls kb kc h).length + kc, stk, σ'⟩, W.fn, W.fs⟩
     | _ => True) := by
  unfold stmtCode at hat ⊢
  have hpre := pre_steps h pc stk σ hat.append_left.append_left
  have hath := hat.append_left.append_right
  have htail := hat.append_right
  simp only [List.length_append, pre_length, comp_length] at hath htail ⊢
  simp only [isS, Bool.or_eq_true] at hs
  cases hl : leaves h with
  | false =>
    simp only [hl, Bool.false_eq_true, ↓reduceIte, Nat.add_zero, List.length_nil] at hath ⊢
    have Q := ev_sim Φ P hP hΦ f W ls hW h hwf kb kc _ stk σ r σ' hath he
    cases r with
    | val v =>
      rcases hs with hu | hl'
      · have := Q.1; simp only [Shape] at this; rw [hu] at this; cases this
      · rw [hl] at hl'; cases hl'
    | unit => exact (hpre.trans Q.unit_steps).cast (by omega)
    | brk => exact (Steps.trans hpre Q.2).cast (by omega)
    | cont => exact (Steps.trans hpre Q.2).cast (by omega)
    | err c => trivial
    | oof => trivial
  | true =>
    simp only [hl, ↓reduceIte, one_length] at hath htail ⊢
    have Q := ev_sim Φ P hP hΦ f W ls hW h hwf (kb + 1) (kc + 1) _ stk σ r σ' hath he
    have hpop := CodeAt.one htail
    cases r with
    | val v =>
      have s1 : step W.code ⟨pc + (preLen h + size h), v :: stk, σ'⟩
          = .ok ⟨pc + (preLen h + size h) + 1, stk, σ'⟩ := by
        rw [step_of hpop]; rfl
      exact ((hpre.trans (Q.val_steps.cast (by omega))).snoc s1).cast (by omega)
    | unit => have := unit_not_leaves (Q.1 : isUnitNode h = true); rw [hl] at this; cases this
    | brk => exact (Steps.trans hpre Q.2).cast (by omega)
    | cont => exact (Steps.trans hpre Q.2).cast (by omega)
    | err c => trivial
    | oof => trivial

/-! ### non-vacuity -/

/-- `func fact(n) { if n <= 1 { return 1 }; return n * fact(n - 1) }; fact(10)` -/
def exFact : N :=
  .prog (.cons (.expr (.func "fact" (.cons (.param "n" .none_) .nilL)
      (.block (.cons (.expr (.if_ (.infix .le (.id "n") (.int 1)) (.block (.cons (.return_ (.int 1)) .nilL)) .none_))
        (.cons (.return_ (.infix .mul (.id "n") (.call (.id "fact") (.cons (.infix .sub (.id "n") (.int 1)) .nilL)))) .nilL)))))
    (.cons (.expr (.call (.id "fact") (.cons (.int 10) .nilL))) .nilL))

/-- `func fib(n) { if n < 2 { n } else { fib(n - 1) + fib(n - 2) } }; fib(6)` (implicit return) -/
def exFib : N :=
  .prog (.cons (.expr (.func "fib" (.cons (.param "n" .none_) .nilL)
      (.block (.cons (.expr (.if_ (.infix .lt (.id "n") (.int 2)) (.block (.cons (.expr (.id "n")) .nilL))
        (.block (.cons (.expr (.infix .add (.call (.id "fib") (.cons (.infix .sub (.id "n") (.int 1)) .nilL))
          (.call (.id "fib") (.cons (.infix .sub (.id "n") (.int 2)) .nilL)))) .nilL)))) .nilL))))
    (.cons (.expr (.call (.id "fib") (.cons (.int 6) .nilL))) .nilL))

/-- a loop with an early return, a local, a default argument and a global counter:
    `calls := 0
     first := func(lim, step=3) { calls += 1; for i := 0; i < 100; i += step { if i * i > lim { return i } }; -1 }
     [first(50), first(50, 5), calls]` as `first(50) * 100 + first(50, 5) * 10 + calls` -/
def exLoopRet : N :=
  .prog (.cons (.var "calls" (.int 0))
    (.cons (.var "first" (.func "" (.cons (.param "lim" .none_) (.cons (.param "step" (.int 3)) .nilL))
      (.block (.cons (.assign "calls" .add (.int 1))
        (.cons (.for3 (.var "i" (.int 0)) (.infix .lt (.id "i") (.int 100)) (.assign "i" .add (.id "step"))
          (.block (.cons (.expr (.if_ (.infix .gt (.infix .mul (.id "i") (.id "i")) (.id "lim"))
            (.block (.cons (.return_ (.id "i")) .nilL)) .none_)) .nilL)))
        (.cons (.expr (.neg (.int 1))) .nilL))))))
    (.cons (.expr (.infix .add (.infix .add
        (.infix .mul (.call (.id "first") (.cons (.int 50) .nilL)) (.int 100))
        (.infix .mul (.call (.id "first") (.cons (.int 50) (.cons (.int 5) .nilL))) (.int 10)))
        (.id "calls"))) .nilL)))

/-- `func two(a, b) { a + b }; x := 1; x = two(1)` — a call with the wrong number of arguments -/
def exArity : N :=
  .prog (.cons (.expr (.func "two" (.cons (.param "a" .none_) (.cons (.param "b" .none_) .nilL))
      (.block (.cons (.expr (.infix .add (.id "a") (.id "b"))) .nilL))))
    (.cons (.var "x" (.int 1)) (.cons (.assign "x" .set (.call (.id "two") (.cons (.int 1) .nilL))) .nilL)))

/-- `x := 5; x(1)` — calling something that is no function -/
def exNotCallable : N :=
  .prog (.cons (.var "x" (.int 5)) (.cons (.expr (.call (.id "x") (.cons (.int 1) .nilL))) .nilL))

/-- a function literal inside a function body (a closure candidate) is outside the fragment -/
def exNested : N :=
  .prog (.cons (.expr (.func "outer" .nilL
      (.block (.cons (.var "g" (.func "" .nilL (.block (.cons (.expr (.int 1)) .nilL)))) (.cons (.expr (.call (.id "g") .nilL)) .nilL)))))
    .nilL)

/-- mutual recursion through pre-declared names (`ev` refers to `od` before its declaration):
    `func ev(k) { if k == 0 { return true }; return od(k - 1) }; func od(k) { if k == 0 { return false }; return ev(k - 1) }; ev(7)` -/
def exMutual : N :=
  .prog (.cons (.expr (.func "ev" (.cons (.param "k" .none_) .nilL)
      (.block (.cons (.expr (.if_ (.infix .eq (.id "k") (.int 0)) (.block (.cons (.return_ (.bool true)) .nilL)) .none_))
        (.cons (.return_ (.call (.id "od") (.cons (.infix .sub (.id "k") (.int 1)) .nilL))) .nilL)))))
    (.cons (.expr (.func "od" (.cons (.param "k" .none_) .nilL)
      (.block (.cons (.expr (.if_ (.infix .eq (.id "k") (.int 0)) (.block (.cons (.return_ (.bool false)) .nilL)) .none_))
        (.cons (.return_ (.call (.id "ev") (.cons (.infix .sub (.id "k") (.int 1)) .nilL))) .nilL)))))
    (.cons (.expr (.call (.id "ev") (.cons (.int 7) .nilL))) .nilL)))

/-- a `return` under a pending operand: `func f(a) { 1 + switch a { case 1: return 10  default: 2 } }; f(1) * 100 + f(2)` -/
def exRetUnder : N :=
  .prog (.cons (.expr (.func "f" (.cons (.param "a" .none_) .nilL)
      (.block (.cons (.expr (.infix .add (.int 1) (.switch (.id "a")
        (.cons (.case_ (.cons (.int 1) .nilL) (.block (.cons (.return_ (.int 10)) .nilL)))
        (.cons (.default_ (.block (.cons (.expr (.int 2)) .nilL))) .nilL))))) .nilL))))
    (.cons (.expr (.infix .add (.infix .mul (.call (.id "f") (.cons (.int 1) .nilL)) (.int 100)) (.call (.id "f") (.cons (.int 2) .nilL)))) .nilL))

example : inFun exFact = true := by decide
example : inFun exMutual = true := by decide
example : inFunLex exMutual = false := by decide
example : (evalFun 60 exMutual).1 = .val (.bool false) := by decide
example : (runFun 400 (compFun exMutual)).1 = .done (.bool false) := by decide
example : inFun exRetUnder = true := by decide
example : (evalFun 30 exRetUnder).1 = .val (.int 1003) := by decide
example : (runFun 200 (compFun exRetUnder)).1 = .done (.int 1003) := by decide
example : inFun exFib = true := by decide
example : inFun exLoopRet = true := by decide
example : inFun exArity = true := by decide
example : inFun exNotCallable = true := by decide
example : inFun exNested = false := by decide
-- recursion: both sides compute 10! and fib 6
example : (evalFun 40 exFact).1 = .val (.int 3628800) := by decide
example : (runFun 400 (compFun exFact)).1 = .done (.int 3628800) := by decide
example : (evalFun 60 exFib).1 = .val (.int 8) := by decide
set_option maxRecDepth 8000 in
example : (runFun 900 (compFun exFib)).1 = .done (.int 8) := by decide
-- loop + early return + default argument + global side effect: 9, 10, 2 calls
example : (evalFun 60 exLoopRet).1 = .val (.int 1002) := by decide
example : (runFun 1000 (compFun exLoopRet)).1 = .done (.int 1002) := by decide
example : (runFun 1000 (compFun exLoopRet)).2 = (evalFun 60 exLoopRet).2 := by decide
example : (evalFun 60 exLoopRet).2.get "calls" = .int 2 := by decide
-- errors: wrong arity, not callable; same class, same globals (x is still 1)
example : (evalFun 20 exArity).1 = .err (.cls "args") := by decide
example : (runFun 100 (compFun exArity)).1 = .err "args" := by decide
example : (runFun 100 (compFun exArity)).2 = (evalFun 20 exArity).2 := by decide
example : (evalFun 20 exArity).2.get "x" = .int 1 := by decide
example : (evalFun 20 exNotCallable).1 = .err (.cls "type") := by decide
example : (runFun 100 (compFun exNotCallable)).1 = .err "type" := by decide
-- the compiled function body of `fact`: LoadFast n; 1; <=; PopJumpForwardIfFalse; 1; ReturnValue; Nil; JumpForward; Nil; PopTop; …
example : ((compFun exFact).funs.map (·.code.length)) = [31] := by decide
-- the hypotheses of `fun_compile_correct` are satisfiable and its conclusion is the concrete run
example : ∃ fuel', runFun fuel' (compFun exFact) = (.done (.int 3628800), (evalFun 40 exFact).2) :=
  fun_compile_correct_toRun exFact (by decide) 40 (.val (.int 3628800)) (evalFun 40 exFact).2 (by decide) (by decide)

end Risor.C01.Fun
