import RisorModel.C08.Model
import RisorModel.Generated.C08
/-!
C08 ties: the converter registries regenerated from `object/typeconv.go` on this run equal the
tables frozen here, and the frozen tables are what the model's `sel`, `fromLeaf` (the unnamed-type
assertion) and `scalarTo` / `toLeaf` (accepted object types) implement.
-/
namespace Risor.C08
open Risor.Generated.C08

def kindTable : List (String × String) :=
  [("Bool", "BoolConverter"), ("Int", "IntConverter"), ("Int8", "Int8Converter"),
   ("Int16", "Int16Converter"), ("Int32", "Int32Converter"), ("Int64", "Int64Converter"),
   ("Uint", "UintConverter"), ("Uint8", "Uint8Converter"), ("Uint16", "Uint16Converter"),
   ("Uint32", "Uint32Converter"), ("Uint64", "Uint64Converter"), ("Float32", "Float32Converter"),
   ("Float64", "Float64Converter"), ("String", "StringConverter")]

def typeTable : List (String × String) :=
  [("byte(0)", "ByteConverter"), ("time.Time{}", "TimeConverter"),
   ("bytes.NewBuffer(nil)", "BufferConverter"), ("[]byte{}", "ByteSliceConverter"),
   ("[]float64{}", "FloatSliceConverter")]

/-- the Go type each kind converter's `From` asserts: the *unnamed* type of its kind -/
def assertTable : List (String × String) :=
  [("BoolConverter", "bool"), ("IntConverter", "int"), ("Int8Converter", "int8"),
   ("Int16Converter", "int16"), ("Int32Converter", "int32"), ("Int64Converter", "int64"),
   ("UintConverter", "uint"), ("Uint8Converter", "uint8"), ("Uint16Converter", "uint16"),
   ("Uint32Converter", "uint32"), ("Uint64Converter", "uint64"), ("Float32Converter", "float32"),
   ("Float64Converter", "float64"), ("StringConverter", "string"), ("ByteConverter", "byte"),
   ("TimeConverter", "time.Time"), ("ByteSliceConverter", "[]byte"), ("FloatSliceConverter", "[]float64"),
   ("SliceConverter", "-"), ("ArrayConverter", "-"), ("MapConverter", "-"), ("PointerConverter", "-"),
   ("StructConverter", "-"), ("DynamicConverter", "-")]

/-- the object types each converter's `To` accepts -/
def acceptTable : List (String × String) :=
  [("BoolConverter", "Bool"), ("IntConverter", "Byte Int Float"), ("Int8Converter", "Byte Int Float"),
   ("Int16Converter", "Byte Int Float"), ("Int32Converter", "Byte Int Float"),
   ("Int64Converter", "Byte Int Float"), ("UintConverter", "Byte Int Float"),
   ("Uint8Converter", "Byte Int Float"), ("Uint16Converter", "Byte Int Float"),
   ("Uint32Converter", "Byte Int Float"), ("Uint64Converter", "Byte Int Float"),
   ("Float32Converter", "Byte Int Float"), ("Float64Converter", "Byte Int Float"),
   ("StringConverter", "ByteSlice Buffer String"), ("ByteConverter", "Byte Int Float"),
   ("TimeConverter", "Time String"), ("ByteSliceConverter", "ByteSlice Buffer String"),
   ("FloatSliceConverter", "FloatSlice"), ("SliceConverter", "List"), ("ArrayConverter", "List"),
   ("MapConverter", "Map"), ("StructConverter", "Proxy Map"), ("PointerConverter", ""),
   ("DynamicConverter", "")]

/-! ### regenerated = frozen -/

theorem kind_table_tie : kindConverters = kindTable := by decide
theorem type_table_tie : typeConverters = typeTable := by decide
theorem lookup_order_tie :
    lookupOrder = ["kindConverters[kind]", "typeConverters[typ]", "switch kind"] := by decide
theorem assert_table_tie : ∀ p ∈ assertTable, fromAsserts.lookup p.1 = some p.2 := by decide
theorem accept_table_tie : ∀ p ∈ acceptTable, toAccepts.lookup p.1 = some p.2 := by decide

/-! ### frozen = model -/

/-- one model type per reflect.Kind the property's universe reaches -/
def kindTypes : List (String × GoTy) :=
  [("Bool", .bool), ("Int", .int .w0), ("Int8", .int .w8), ("Int16", .int .w16), ("Int32", .int .w32),
   ("Int64", .int .w64), ("Uint", .uint .w0), ("Uint8", .uint .w8), ("Uint16", .uint .w16),
   ("Uint32", .uint .w32), ("Uint64", .uint .w64), ("Float32", .f32), ("Float64", .f64),
   ("String", .str), ("Struct", .struct .nil), ("Pointer", .ptr .bool), ("Slice", .slice .bool),
   ("Array", .array 1 .bool), ("Map", .mapStr .bool), ("Interface", .iface), ("Chan", .chan)]

/-- **conv_table_matches**: a kind has an entry in `kindConverters` exactly when the model treats
    it as a scalar kind (converter chosen by kind alone, whatever the declared name) — also for a
    declared type of that kind. -/
theorem conv_table_matches : ∀ p ∈ kindTypes,
    (kindTable.lookup p.1).isSome = isScalarKind p.2 ∧
    isScalarKind (.named 1 p.2) = isScalarKind p.2 := by decide

def selName : Sel → String
  | .byte => "ByteConverter" | .time => "TimeConverter" | .bytes => "ByteSliceConverter"
  | .floats => "FloatSliceConverter" | .scalar => "kind" | _ => "switch"

/-- the exact-type entries of `typeConverters` and what `createTypeConverter` / `getTypeConverter`
    select for them in the model (`*bytes.Buffer` is outside the model's universe): the type table
    wins over the kind table only in `createTypeConverter` (byte), `getTypeConverter` asks the kind
    table first -/
theorem type_table_matches :
    typeTable.lookup "byte(0)" = some (selName (sel .create (.uint .w8))) ∧
    selName (sel .get (.uint .w8)) = "kind" ∧
    typeTable.lookup "time.Time{}" = some (selName (sel .create .time)) ∧
    typeTable.lookup "time.Time{}" = some (selName (sel .get .time)) ∧
    typeTable.lookup "[]byte{}" = some (selName (sel .get (.slice (.uint .w8)))) ∧
    typeTable.lookup "[]float64{}" = some (selName (sel .get (.slice .f64))) ∧
    selName (sel .create (.named 1 (.slice (.uint .w8)))) = "switch" := by decide

def objKind : Obj → String
  | .nil => "Nil" | .bool _ => "Bool" | .int _ => "Int" | .float _ => "Float" | .byte _ => "Byte"
  | .str _ => "String" | .bytes _ => "ByteSlice" | .floats _ => "FloatSlice" | .time _ => "Time"
  | .list _ => "List" | .map _ _ => "Map" | .proxy _ _ => "Proxy"

def sampleObjs : List Obj :=
  [.nil, .bool true, .int 1, .float 0, .byte 1, .str [], .bytes [], .floats [], .time 0,
   .list .nil, .map [] .nil, .proxy (.ptr (.struct .nil)) .nilv]

def F1 : FOps := ⟨id, id, fun _ => 0, fun _ => 0, fun _ => 0, fun _ => none⟩

/-- `acceptTable` for the kind converters, as lists -/
def acceptLists : List (String × List String) :=
  [("BoolConverter", ["Bool"]), ("IntConverter", ["Byte", "Int", "Float"]),
   ("Int8Converter", ["Byte", "Int", "Float"]), ("Int16Converter", ["Byte", "Int", "Float"]),
   ("Int32Converter", ["Byte", "Int", "Float"]), ("Int64Converter", ["Byte", "Int", "Float"]),
   ("UintConverter", ["Byte", "Int", "Float"]), ("Uint8Converter", ["Byte", "Int", "Float"]),
   ("Uint16Converter", ["Byte", "Int", "Float"]), ("Uint32Converter", ["Byte", "Int", "Float"]),
   ("Uint64Converter", ["Byte", "Int", "Float"]), ("Float32Converter", ["Byte", "Int", "Float"]),
   ("Float64Converter", ["Byte", "Int", "Float"]), ("StringConverter", ["ByteSlice", "Buffer", "String"])]

theorem accept_lists_tie : ∀ p ∈ acceptLists, acceptTable.lookup p.1 = some (" ".intercalate p.2) := by
  decide

def acceptsOK : Bool :=
  kindTypes.all fun p => sampleObjs.all fun o =>
    match kindTable.lookup p.1 with
    | some conv => match acceptLists.lookup conv with
      | some ks => decide (toLeaf F1 .get p.2 o ≠ .error) == ks.contains (objKind o)
      | none => false
    | none => true

/-- the object types the model's kind converters accept are exactly those of the `To` type
    switches (`Buffer` objects are outside the model) -/
theorem accept_table_matches : acceptsOK = true := by decide

end Risor.C08
