import RisorModel.C08.Model
import RisorModel.Generated.C08
/-!
C08 ties: the converter registries regenerated from `object/typeconv.go` on this run equal the
tables frozen here, and the frozen tables are what the model's `sel`, `fromLeaf` (the unnamed-type
assertion) and `scalarTo` / `toLeaf` (accepted object types) implement.  The sites of the seven
repairs (range checks in `From` / `To`, the length check of `ArrayConverter.To`, the nil case of
`AsObjects`, the surplus check of `Proxy.call`, `vm.Run`'s `createVM`, the `namedConverter` of declared types) are regenerated and tied too,
and so is what a converter can keep between two conversions (the types of the fields of every
converter struct; where `StructConverter.To` takes the struct it fills for a map object from).
-/
namespace Risor.C08
open Risor.Generated.C08

def kindTable : List (String × String) :=
  [("Bool", "BoolConverter"), ("Int", "IntConverter"), ("Int8", "Int8Converter"),
   ("Int16", "Int16Converter"), ("Int32", "Int32Converter"), ("Int64", "Int64Converter"),
   ("Uint", "UintConverter"), ("Uint8", "Uint8Converter"), ("Uint16", "Uint16Converter"),
   ("Uint32", "Uint32Converter"), ("Uint64", "Uint64Converter"), ("Float32", "Float32Converter"),
   ("Float64", "Float64Converter"), ("String", "StringConverter")]

def typeTable : List (String × String) :=
  [("byte(0)", "ByteConverter"), ("time.Time{}", "TimeConverter"),
   ("bytes.NewBuffer(nil)", "BufferConverter"), ("[]byte{}", "ByteSliceConverter"),
   ("[]float64{}", "FloatSliceConverter")]

/-- the Go type each kind converter's `From` asserts: the *unnamed* type of its kind (a value of a
    declared type reaches it converted to that type by `namedConverter`, see `declared_type_tie`) -/
def assertTable : List (String × String) :=
  [("BoolConverter", "bool"), ("IntConverter", "int"), ("Int8Converter", "int8"),
   ("Int16Converter", "int16"), ("Int32Converter", "int32"), ("Int64Converter", "int64"),
   ("UintConverter", "uint"), ("Uint8Converter", "uint8"), ("Uint16Converter", "uint16"),
   ("Uint32Converter", "uint32"), ("Uint64Converter", "uint64"), ("Float32Converter", "float32"),
   ("Float64Converter", "float64"), ("StringConverter", "string"), ("ByteConverter", "byte"),
   ("TimeConverter", "time.Time"), ("ByteSliceConverter", "[]byte"), ("FloatSliceConverter", "[]float64"),
   ("SliceConverter", "-"), ("ArrayConverter", "-"), ("MapConverter", "-"), ("PointerConverter", "-"),
   ("StructConverter", "-"), ("DynamicConverter", "-")]

/-- the object types each converter's `To` accepts -/
def acceptTable : List (String × String) :=
  [("BoolConverter", "Bool"), ("IntConverter", "Byte Int Float"), ("Int8Converter", "Byte Int Float"),
   ("Int16Converter", "Byte Int Float"), ("Int32Converter", "Byte Int Float"),
   ("Int64Converter", "Byte Int Float"), ("UintConverter", "Byte Int Float"),
   ("Uint8Converter", "Byte Int Float"), ("Uint16Converter", "Byte Int Float"),
   ("Uint32Converter", "Byte Int Float"), ("Uint64Converter", "Byte Int Float"),
   ("Float32Converter", "Byte Int Float"), ("Float64Converter", "Byte Int Float"),
   ("StringConverter", "ByteSlice Buffer String"), ("ByteConverter", "Byte Int Float"),
   ("TimeConverter", "Time String"), ("ByteSliceConverter", "ByteSlice Buffer String"),
   ("FloatSliceConverter", "FloatSlice"), ("SliceConverter", "List"), ("ArrayConverter", "List"),
   ("MapConverter", "Map"), ("StructConverter", "Proxy Map"), ("PointerConverter", ""),
   ("DynamicConverter", "")]

/-! ### regenerated = frozen -/

theorem kind_table_tie : kindConverters = kindTable := by decide
theorem type_table_tie : typeConverters = typeTable := by decide
theorem lookup_order_tie :
    lookupOrder = ["kindConverters[kind]", "basicTypes[kind]", "typeConverters[typ]", "switch kind"] := by decide
theorem assert_table_tie : ∀ p ∈ assertTable, fromAsserts.lookup p.1 = some p.2 := by decide
theorem accept_table_tie : ∀ p ∈ acceptTable, toAccepts.lookup p.1 = some p.2 := by decide

/-! ### frozen = model -/

/-- one model type per reflect.Kind the property's universe reaches -/
def kindTypes : List (String × GoTy) :=
  [("Bool", .bool), ("Int", .int .w0), ("Int8", .int .w8), ("Int16", .int .w16), ("Int32", .int .w32),
   ("Int64", .int .w64), ("Uint", .uint .w0), ("Uint8", .uint .w8), ("Uint16", .uint .w16),
   ("Uint32", .uint .w32), ("Uint64", .uint .w64), ("Float32", .f32), ("Float64", .f64),
   ("String", .str), ("Struct", .struct .nil), ("Pointer", .ptr .bool), ("Slice", .slice .bool),
   ("Array", .array 1 .bool), ("Map", .mapStr .bool), ("Interface", .iface), ("Chan", .chan)]

/-- **conv_table_matches**: a kind has an entry in `kindConverters` exactly when the model treats
    it as a scalar kind (converter chosen by kind alone, whatever the declared name) — also for a
    declared type of that kind. -/
theorem conv_table_matches : ∀ p ∈ kindTypes,
    (kindTable.lookup p.1).isSome = isScalarKind p.2 ∧
    isScalarKind (.named 1 p.2) = isScalarKind p.2 := by decide

def selName : Sel → String
  | .byte => "ByteConverter" | .time => "TimeConverter" | .bytes => "ByteSliceConverter"
  | .floats => "FloatSliceConverter" | .scalar => "kind" | _ => "switch"

/-- the exact-type entries of `typeConverters` and what `createTypeConverter` / `getTypeConverter`
    select for them in the model (`*bytes.Buffer` is outside the model's universe): the type table
    wins over the kind table only in `createTypeConverter` (byte), `getTypeConverter` asks the kind
    table first -/
theorem type_table_matches :
    typeTable.lookup "byte(0)" = some (selName (sel .create (.uint .w8))) ∧
    selName (sel .get (.uint .w8)) = "kind" ∧
    typeTable.lookup "time.Time{}" = some (selName (sel .create .time)) ∧
    typeTable.lookup "time.Time{}" = some (selName (sel .get .time)) ∧
    typeTable.lookup "[]byte{}" = some (selName (sel .get (.slice (.uint .w8)))) ∧
    typeTable.lookup "[]float64{}" = some (selName (sel .get (.slice .f64))) ∧
    selName (sel .create (.named 1 (.slice (.uint .w8)))) = "switch" := by decide

def objKind : Obj → String
  | .nil => "Nil" | .bool _ => "Bool" | .int _ => "Int" | .float _ => "Float" | .byte _ => "Byte"
  | .str _ => "String" | .bytes _ => "ByteSlice" | .floats _ => "FloatSlice" | .time _ => "Time"
  | .list _ => "List" | .map _ _ => "Map" | .proxy _ _ => "Proxy"

def sampleObjs : List Obj :=
  [.nil, .bool true, .int 1, .float 0, .byte 1, .str [], .bytes [], .floats [], .time 0,
   .list .nil, .map [] .nil, .proxy (.ptr (.struct .nil)) .nilv]

def F1 : FOps := ⟨id, id, fun _ => 0, fun _ => 0, fun _ => 0, fun _ => none⟩

/-- `acceptTable` for the kind converters, as lists -/
def acceptLists : List (String × List String) :=
  [("BoolConverter", ["Bool"]), ("IntConverter", ["Byte", "Int", "Float"]),
   ("Int8Converter", ["Byte", "Int", "Float"]), ("Int16Converter", ["Byte", "Int", "Float"]),
   ("Int32Converter", ["Byte", "Int", "Float"]), ("Int64Converter", ["Byte", "Int", "Float"]),
   ("UintConverter", ["Byte", "Int", "Float"]), ("Uint8Converter", ["Byte", "Int", "Float"]),
   ("Uint16Converter", ["Byte", "Int", "Float"]), ("Uint32Converter", ["Byte", "Int", "Float"]),
   ("Uint64Converter", ["Byte", "Int", "Float"]), ("Float32Converter", ["Byte", "Int", "Float"]),
   ("Float64Converter", ["Byte", "Int", "Float"]), ("StringConverter", ["ByteSlice", "Buffer", "String"])]

theorem accept_lists_tie : ∀ p ∈ acceptLists, acceptTable.lookup p.1 = some (" ".intercalate p.2) := by
  decide

def acceptsOK : Bool :=
  kindTypes.all fun p => sampleObjs.all fun o =>
    match kindTable.lookup p.1 with
    | some conv => match acceptLists.lookup conv with
      | some ks => decide (toLeaf F1 .get p.2 o ≠ .error) == ks.contains (objKind o)
      | none => false
    | none => true

/-- the object types the model's kind converters accept are exactly those of the `To` type
    switches (`Buffer` objects are outside the model) -/
theorem accept_table_matches : acceptsOK = true := by decide

/-! ### the repaired sites: regenerated = frozen, frozen = model

Seven recorded defects were repaired in risor; the places of the repairs are regenerated on every
run.  If a repair is lost the regenerated text differs from the frozen one (this file stops
checking) — and the correspondence run shows the old behaviour as an unlisted violation. -/

/-- what each integer converter's `To` returns for an `*Int` object -/
def intCaseTable : List (String × String) :=
  [("ByteConverter", "narrowInt[byte](obj.value)"), ("IntConverter", "narrowInt[int](obj.value)"),
   ("Int8Converter", "narrowInt[int8](obj.value)"), ("Int16Converter", "narrowInt[int16](obj.value)"),
   ("Int32Converter", "narrowInt[int32](obj.value)"), ("Int64Converter", "int64(obj.value)"),
   ("UintConverter", "narrowInt[uint](obj.value)"), ("Uint8Converter", "narrowInt[uint8](obj.value)"),
   ("Uint16Converter", "narrowInt[uint16](obj.value)"), ("Uint32Converter", "narrowInt[uint32](obj.value)"),
   ("Uint64Converter", "narrowInt[uint64](obj.value)")]

theorem int_case_tie : ∀ p ∈ intCaseTable, toIntCases.lookup p.1 = some p.2 := by decide

/-- per integer kind narrower than the script's int64 (or unsigned): the model type, an int64 just
    outside its range, its neighbour inside, and the checked conversion the converter uses -/
def narrowSamples : List (String × GoTy × Int × Int × String) :=
  [("Int8", .int .w8, 128, 127, "narrowInt[int8](obj.value)"),
   ("Int16", .int .w16, 32768, 32767, "narrowInt[int16](obj.value)"),
   ("Int32", .int .w32, 2147483648, 2147483647, "narrowInt[int32](obj.value)"),
   ("Uint", .uint .w0, -1, 0, "narrowInt[uint](obj.value)"),
   ("Uint8", .uint .w8, 256, 255, "narrowInt[uint8](obj.value)"),
   ("Uint16", .uint .w16, 65536, 65535, "narrowInt[uint16](obj.value)"),
   ("Uint32", .uint .w32, 4294967296, 4294967295, "narrowInt[uint32](obj.value)"),
   ("Uint64", .uint .w64, -1, 0, "narrowInt[uint64](obj.value)")]

/-- **narrow_matches**: every kind converter whose type cannot hold every int64 converts an
    `*Int` through `narrowInt`, and the model's `To` for that kind rejects the value just outside
    the range and accepts its neighbour unchanged -/
theorem narrow_matches : ∀ p ∈ narrowSamples,
    (kindTable.lookup p.1).bind (fun c => intCaseTable.lookup c) = some p.2.2.2.2 ∧
    toLeaf F1 .get p.2.1 (.int p.2.2.1) = .error ∧
    toLeaf F1 .get p.2.1 (.int p.2.2.2.1) = .ok (some (p.2.1, .int p.2.2.2.1)) := by decide

/-- `byte` through `createTypeConverter` (ByteConverter) likewise -/
theorem narrow_byte_matches :
    intCaseTable.lookup "ByteConverter" = some "narrowInt[byte](obj.value)" ∧
    toLeaf F1 .create (.uint .w8) (.int 256) = .error ∧
    toLeaf F1 .create (.uint .w8) (.int 255) = .ok (some (.uint .w8, .int 255)) := by decide

/-- `UintConverter.From` / `Uint64Converter.From` compare with math.MaxInt64 — and the model's
    `From` rejects 2⁶³ and passes 2⁶³−1 -/
theorem from_range_tie :
    fromIfConds.lookup "UintConverter" = some "v > math.MaxInt64" ∧
    fromIfConds.lookup "Uint64Converter" = some "v > math.MaxInt64" := by decide
theorem from_range_matches :
    scalarFrom F1 (.uint .w0) (.int two63) = .error ∧ scalarFrom F1 (.uint .w64) (.int two63) = .error ∧
    scalarFrom F1 (.uint .w64) (.int (two63 - 1)) = .ok (.int (two63 - 1)) := by decide

/-- `ArrayConverter.To` compares the lengths before its loop — and the model rejects a longer list -/
theorem array_length_tie : arrayToIfConds = ["!ok", "len(list.items) > c.len", "err != nil"] := by decide
theorem array_length_matches :
    toBase F1 .get (.array 1 .bool) (.list (.cons (.bool true) (.cons (.bool true) .nil))) = .error ∧
    toBase F1 .get (.array 1 .bool) (.list (.cons (.bool true) .nil))
      = .ok (some (.array 1 .bool, .seq (.cons (.bool true) .nil))) := by decide

/-- `AsObjects` has a case for the untyped nil — and the model gives the script `nil` -/
theorem as_objects_tie : asObjectsCases = ["nil", "Object", "default"] := by decide
theorem as_objects_matches : fromGlobal F1 none = .ok .nil := by decide

/-- `Proxy.call` compares its argument index with len(args) from both sides — and the model
    rejects too few and too many arguments -/
theorem call_args_tie :
    callArgConds = ["argIndex >= len(args)", "argIndex < len(args) && !isVariadic"] := by decide
theorem call_args_matches :
    callArgs F1 (.cons .bool .nil) .nil = .error ∧
    callArgs F1 (.cons .bool .nil) (.cons (.bool true) (.cons (.bool true) .nil)) = .error ∧
    callArgs F1 (.cons .bool .nil) (.cons (.bool true) .nil) = .ok (.cons (.bool true) .nil) := by decide

/-- `getTypeConverter` wraps the kind converter of a DECLARED type (non-empty package path) in a
    `namedConverter`, which converts to / from the basic type of the kind (`basicTypes[kind]` in
    `lookup_order_tie`) — and in the model a declared type of a basic kind is selected by kind,
    reads like its basic type and is written as a value of the declared type itself -/
theorem declared_type_tie : declaredTypeConds = ["typ.PkgPath() != \"\""] := by decide
theorem declared_type_matches :
    sel .get (.named 1 (.int .w64)) = .scalar ∧ sel .create (.named 3 (.uint .w8)) = .scalar ∧
    fromLeaf F1 .get (.named 1 (.int .w64)) (.int 5) = .ok (.int 5) ∧
    toLeaf F1 .get (.named 1 (.int .w64)) (.int 5) = .ok (some (.named 1 (.int .w64), .int 5)) ∧
    fromAsserts.lookup "namedConverter" = some "-" := by decide

/-- `vm.Run` creates its machine with `createVM` (which returns the error of `applyOptions`), not
    with `New` (which panics on it) — and the model's `evalGlobal` reports a conversion error as an
    error -/
theorem run_creates_tie : runCreatesWith = "createVM" := by decide
theorem run_creates_matches : evalGlobal F1 (some (.chan, .nilv)) = .error := by decide

/-! ### converters keep nothing between conversions

`typeConverters` / `GoType.converter` hold ONE converter per Go type for the whole process, so what
a converter may carry from one conversion to the next is what its fields can hold.  Every field of
every converter type is of a type that is fixed when the converter is built (another converter, a
reflect.Type, a *GoType, a bool, an int) — no pool, map, slice, buffer or pointer to scratch
memory; and `StructConverter.To` takes the struct it fills for a map object from `goType.New()`.
In the model `toGo` is a function of (type, object) alone and a series of conversions is the
series of the single ones (`toSlotSeq`, `C08_seq_independent`). -/

def immutableFieldTypes : List String := ["TypeConverter", "reflect.Type", "*GoType", "bool", "int"]

theorem converter_state_tie :
    (∀ p ∈ converterFieldTypes, ∀ t ∈ p.2, t ∈ immutableFieldTypes) ∧
    (converterFieldTypes.lookup "StructConverter").isSome ∧
    (converterFieldTypes.lookup "SliceConverter").isSome := by decide

theorem struct_map_alloc_tie : structMapAlloc = "value := c.goType.New()" := by decide

/-- a map object for a struct: a new struct with the named fields set and the others zero — twice
    in a row the same, and a map that names nothing gives the zero struct -/
theorem struct_map_alloc_matches :
    toBase F1 .get (.struct (.cons .bool (.cons .str .nil))) (.map [] .nil)
      = .ok (some (.struct (.cons .bool (.cons .str .nil)), .struct (.cons (.bool false) (.cons (.str []) .nil)))) ∧
    toSlotSeq F1 .get (.struct (.cons .bool (.cons .str .nil)))
      [.map [[70, 48]] (.cons (.bool true) .nil), .map [[70, 49]] (.cons (.str [120]) .nil)]
      = [.ok (.struct (.cons (.bool true) (.cons (.str []) .nil))),
         .ok (.struct (.cons (.bool false) (.cons (.str [120]) .nil)))] := by decide

/-- `goTypeRegistry` is looked up and filled by `newGoType` only, and `NewGoType` takes
    `goTypeMutex` before it calls it: the lookup of Reg.lean's `stepLocked` (no lock-free path in
    front of the mutex, as in the contrast `stepFast`) -/
theorem registry_lock_tie :
    registryUsers = ["newGoType"] ∧
    newGoTypeStmts = ["goTypeMutex.Lock()", "defer goTypeMutex.Unlock()", "return newGoType(typ)"] := by
  decide

end Risor.C08
